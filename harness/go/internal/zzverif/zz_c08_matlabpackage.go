package zzverif

// C08, package level, MATLAB backend.
//
// C08MatlabPackage: the complete real matlab.Generate (copy of the shipped +yardl package from the real embedded file
// system, types, protocols and binary serializers of every namespace, removal of stale files) on a virtual file system
// for the model family of zz_c08_cpppackage.go (one namespace | Top -> Base | Top -> Mid -> Base; with / without
// protocols; with / without generics, enums + flags, unions, computed fields).  MATLAB has no documented options.  The
// emitted MATLAB is read back (comments and string contents removed):
//   - every .m file of the output tree, generated or copied, defines exactly one classdef, or a main function, named like
//     the file (MATLAB finds a class or function through the file name);
//   - every qualified name `pkg.sub.Name...` in a generated file whose head is a generated package (+pkg directory) or
//     `yardl` - in code, and in a string literal that consists of such a name (isa(x, "pkg.Name")) - resolves: after the
//     longest package prefix the next component is a file +pkg/+sub/Name.m that was written or copied in the same run
//     (dangling names inside the shipped +yardl files themselves are recorded only);
//   - one package directory per namespace of the environment.

import (
	"sort"
	"strings"

	matlab "github.com/microsoft/yardl/tooling/internal/matlab"
	"github.com/microsoft/yardl/tooling/pkg/dsl"
	"github.com/microsoft/yardl/tooling/pkg/packaging"
)

const c08mpOut = "/out/m"

// c08mpClean removes comments from one line and replaces string literals by "" (their contents are returned).
func c08mpClean(l string) (string, []string) {
	if !strings.Contains(l, "%") && !strings.Contains(l, "\"") && !strings.Contains(l, "'") && !strings.Contains(l, "...") {
		return l, nil
	}
	var strs []string
	out := ""
	for {
		at, which := strings.Index(l, "%"), 0
		if k := strings.Index(l, "\""); k >= 0 && (at < 0 || k < at) {
			at, which = k, 1
		}
		if k := strings.Index(l, "'"); k >= 0 && (at < 0 || k < at) {
			at, which = k, 2
		}
		if k := strings.Index(l, "..."); k >= 0 && (at < 0 || k < at) {
			at, which = k, 3
		}
		if at < 0 {
			return out + l, strs
		}
		switch which {
		case 0, 3: // comment / continuation: the rest of the line is not code
			return out + l[:at], strs
		case 2:
			// a quote after an operand is the transpose operator
			prev := strings.TrimSpace(out + l[:at])
			if prev != "" {
				c := prev[len(prev)-1]
				if c08cpIsIdent(c) || c == ')' || c == ']' || c == '}' || c == '\'' || c == '.' {
					out += l[:at+1]
					l = l[at+1:]
					continue
				}
			}
			fallthrough
		case 1:
			q := l[at : at+1]
			out += l[:at] + "\"\""
			rest := l[at+1:]
			content := ""
			for { // a doubled quote is an escaped quote
				k := strings.Index(rest, q)
				if k < 0 {
					return out, strs
				}
				content += rest[:k]
				if k+1 < len(rest) && rest[k+1] == q[0] {
					content += q
					rest = rest[k+2:]
					continue
				}
				rest = rest[k+1:]
				break
			}
			strs = append(strs, content)
			l = rest
		}
	}
}

// c08mpIsName: a dotted chain of identifiers with at least two components.
func c08mpIsName(s string) bool {
	if s == "" || !strings.Contains(s, ".") {
		return false
	}
	for _, part := range strings.Split(s, ".") {
		if part == "" || (part[0] >= '0' && part[0] <= '9') {
			return false
		}
		for i := 0; i < len(part); i++ {
			if !c08cpIsIdent(part[i]) {
				return false
			}
		}
	}
	return true
}

type c08mpRef struct {
	chain string
	line  int
}

type c08mpFile struct {
	kind  string // "classdef" / "function" / "" (what the first statement defines)
	name  string // the name defined
	ncls  int    // number of classdef statements
	refs  []c08mpRef
	lines int
}

// c08mpReadFile: what one .m file defines and which qualified names (heads: package names) it mentions.
func c08mpReadFile(text string, heads []string) *c08mpFile {
	f := &c08mpFile{}
	inBlock := false
	seen := map[string]bool{}
	addRef := func(chain string, line int) {
		if !seen[chain] {
			seen[chain] = true
			f.refs = append(f.refs, c08mpRef{chain, line})
		}
	}
	for i, raw := range strings.Split(text, "\n") {
		t := strings.TrimSpace(raw)
		if inBlock {
			if t == "%}" {
				inBlock = false
			}
			continue
		}
		if t == "%{" {
			inBlock = true
			continue
		}
		if t == "" || strings.HasPrefix(t, "%") {
			continue
		}
		l, strs := c08mpClean(t)
		l = strings.TrimSpace(l)
		if l == "" {
			continue
		}
		f.lines++
		isCls := strings.HasPrefix(l, "classdef ") || strings.HasPrefix(l, "classdef(")
		if isCls {
			f.ncls++
		}
		if f.kind == "" {
			switch {
			case isCls:
				f.kind = "classdef"
				rest := strings.TrimSpace(strings.TrimPrefix(l, "classdef"))
				if strings.HasPrefix(rest, "(") {
					if k := strings.Index(rest, ")"); k >= 0 {
						rest = strings.TrimSpace(rest[k+1:])
					}
				}
				if toks := verifTokens(rest); len(toks) > 0 {
					f.name = toks[0]
				}
			case l == "function" || strings.HasPrefix(l, "function ") || strings.HasPrefix(l, "function["):
				f.kind = "function"
				rest := strings.TrimSpace(strings.TrimPrefix(l, "function"))
				if k := strings.Index(rest, "="); k >= 0 {
					rest = strings.TrimSpace(rest[k+1:])
				}
				if toks := verifTokens(rest); len(toks) > 0 {
					f.name = toks[0]
				}
			default:
				f.kind = "script"
			}
		}
		for _, sc := range strs {
			if c08mpIsName(sc) {
				for _, h := range heads {
					if strings.HasPrefix(sc, h+".") {
						addRef(sc, i)
					}
				}
			}
		}
		if !strings.Contains(l, ".") {
			continue
		}
		for _, h := range heads {
			pat := h + "."
			off := 0
			for {
				k := strings.Index(l[off:], pat)
				if k < 0 {
					break
				}
				at := off + k
				off = at + len(pat)
				if at > 0 && (c08cpIsIdent(l[at-1]) || l[at-1] == '.') {
					continue
				}
				end := at
				for end < len(l) {
					if c08cpIsIdent(l[end]) {
						end++
					} else if l[end] == '.' && end+1 < len(l) && c08cpIsIdent(l[end+1]) && !(l[end+1] >= '0' && l[end+1] <= '9') {
						end++
					} else {
						break
					}
				}
				addRef(l[at:end], i)
				off = end
			}
		}
	}
	return f
}

func C08MatlabPackage(level int) {
	all, _, _, _ := c08cpFamily(level)
	env, err := dsl.Validate(all)
	verifAssert("model-validates", err == nil)
	if err != nil {
		verifOut("err", err.Error())
		return
	}
	opts := packaging.MatlabCodegenOptions{OutputDir: verifPath(c08mpOut), PackageInfo: &packaging.PackageInfo{Namespace: "Top"}}
	var gerr error
	msg, panicked := verifPanics(func() { gerr = matlab.Generate(env, opts) })
	verifOut("panic", msg)
	verifAssert("generation-does-not-panic", !panicked)
	verifAssert("generation-succeeds", gerr == nil)
	if panicked || gerr != nil {
		if gerr != nil {
			verifOut("error", gerr.Error())
		}
		return
	}
	has := map[string]bool{}
	dirs := map[string]bool{}
	var files []string
	for _, p := range verifFsList() {
		if !strings.HasPrefix(p, c08mpOut+"/") {
			continue
		}
		rel := strings.TrimPrefix(p, c08mpOut+"/")
		has[rel] = true
		files = append(files, rel)
		parts := strings.Split(rel, "/")
		d := ""
		for _, c := range parts[:len(parts)-1] {
			if d == "" {
				d = c
			} else {
				d = d + "/" + c
			}
			dirs[d] = true
		}
	}
	sort.Strings(files)
	// packages at the top of the output tree
	var heads []string
	npkg := 0
	for d := range dirs {
		if strings.HasPrefix(d, "+") && !strings.Contains(d, "/") {
			heads = append(heads, d[1:])
			if d != "+yardl" {
				npkg++
			}
		}
	}
	sort.Strings(heads)
	verifAssert("one-package-per-namespace", npkg == len(env.Namespaces))
	verifAssert("runtime-package-copied", dirs["+yardl"] && dirs["+yardl/+binary"])

	nrefs, ngen := 0, 0
	for _, rel := range files {
		if !strings.HasSuffix(rel, ".m") {
			continue
		}
		text, _ := verifFsGet(c08mpOut + "/" + rel)
		f := c08mpReadFile(text, heads)
		base := rel[strings.LastIndex(rel, "/")+1:]
		base = strings.TrimSuffix(base, ".m")
		if !strings.HasPrefix(rel, "+yardl/") {
			ngen++
		}
		ok := (f.kind == "classdef" && f.ncls == 1 && f.name == base) || (f.kind == "function" && f.ncls == 0 && f.name == base)
		if !ok {
			verifOut("file-does-not-define-its-name", rel+": "+f.kind+" "+f.name)
		}
		verifAssert("file-defines-what-it-is-named-after", ok)
		for _, r := range f.refs {
			comps := strings.Split(r.chain, ".")
			d := "+" + comps[0]
			k := 1
			for k < len(comps) && dirs[d+"/+"+comps[k]] {
				d = d + "/+" + comps[k]
				k++
			}
			if k == len(comps) {
				continue // names a package
			}
			target := d + "/" + comps[k] + ".m"
			if strings.HasPrefix(rel, "+yardl/") {
				// the shipped runtime package is copied into every generated package: a name it refers to must resolve to a
				// shipped file as well (yardl.ValuError in +yardl/Time.m was the genuine defect found this way)
				if !has[target] {
					verifOut("unresolved-reference-in-shipped-file", rel+": "+r.chain)
				}
				verifAssert("qualified-reference-of-a-shipped-file-resolves", has[target])
				continue
			}
			nrefs++
			if !has[target] {
				verifOut("unresolved-reference", rel+": "+r.chain)
			}
			verifAssert("qualified-reference-resolves", has[target])
		}
	}
	verifOut("generated-files", ngen)
	verifOut("references", nrefs)
	verifAssert("references-found", nrefs > 0 && ngen > 0)
	verifReach("c08-matlab-package-end")
}
