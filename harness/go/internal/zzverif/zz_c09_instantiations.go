package zzverif

// C09, "ill-formed union": a union that becomes ill-formed only AFTER a generic is instantiated (the type argument
// equals another case: redundant cases; the type argument is itself a union: a union immediately inside a union) is
// a rule violation of the instantiation.  The rule must be enforced for EVERY instantiation of the generic, whatever
// other instantiations of the same generic the package contains and in whatever order they are visited.
//
// Main imports Lib.  Both define a record `Sample` (different content: same simple name, different types) and Lib
// defines `SampleAlias: Sample` (its own Sample).  Main has one union-bearing generic, in four forms:
//   0  Either<T>: [T, Sample]                                   (generic alias of a union)
//   1  Holder<T>: !record {fields: {e: [T, Sample]}}            (union inside a generic record)
//   2  Outer<T>: !record {fields: {e: Either<Wrap<T>>}},  Either<U>: [U, WrapSample],  WrapSample: Wrap<Sample>,
//      Wrap<V>: !record {fields: {v: V}}                         (the argument of the inner instantiation mentions the
//                                                                 enclosing parameter)
//   3  Two<A, B>: [A, B]  used as Two<X, Sample>                (both cases are type arguments)
// and 2-3 instantiations of it on symbolic arguments X, in symbolic order, placed as fields of one record, as
// separate aliases, or as protocol steps.  Specification: instantiation on X is ill-formed iff X denotes the same
// type as (local) Sample - written `Sample` or through the local alias `MySample` - or, for the forms whose case is
// X itself, iff X is a union.  The package is rejected, naming main/model.yml, iff some instantiation is ill-formed.

import (
	"fmt"
	"strings"

	"github.com/microsoft/yardl/tooling/pkg/dsl"
)

var c09iFormNames = []string{"Either<T>: [T, Sample]", "Holder<T>{e: [T, Sample]}", "Outer<T>{e: Either<Wrap<T>>}", "Two<X, Sample>"}
var c09iArgNames = []string{"Lib.Sample", "Sample", "Other", "MySample", "Lib.SampleAlias", "int", "[int, float]", "Lib.Sample*"}
var c09iPlacementNames = []string{"fields-of-one-record", "separate-aliases", "protocol-steps"}

const (
	c09iArgImportedSample = iota
	c09iArgSample
	c09iArgOther
	c09iArgLocalAlias
	c09iArgImportedAlias
	c09iArgInt
	c09iArgUnion
	c09iArgVector
	c09iNArgs
)

func c09iArg(b *mb, a int) dsl.Type {
	switch a {
	case c09iArgImportedSample:
		return b.st("Lib.Sample")
	case c09iArgSample:
		return b.st("Sample")
	case c09iArgOther:
		return b.st("Other")
	case c09iArgLocalAlias:
		return b.st("MySample")
	case c09iArgImportedAlias:
		return b.st("Lib.SampleAlias")
	case c09iArgInt:
		return b.st("int")
	case c09iArgUnion:
		return b.gt(nil, b.st("int"), b.st("float"))
	default:
		return b.vec(b.st("Lib.Sample"))
	}
}

// c09iIllFormed: the specification (see the head comment).
func c09iIllFormed(form, a int) bool {
	if a == c09iArgSample || a == c09iArgLocalAlias {
		return true
	}
	if a == c09iArgUnion && form != 2 {
		return true // a union immediately inside a union; in form 2 the argument sits inside the record Wrap<..>
	}
	return false
}

func c09iInstantiate(b *mb, form int, x dsl.Type) dsl.Type {
	switch form {
	case 0:
		return b.st("Either", x)
	case 1:
		return b.st("Holder", x)
	case 2:
		return b.st("Outer", x)
	default:
		return b.st("Two", x, b.st("Sample"))
	}
}

// C09GenericInstantiations(full): full = 0: two instantiations over all arguments, three over a reduced vocabulary
// in one placement; 1: three instantiations over all arguments and placements.
func C09GenericInstantiations(full int) {
	form := verifChoose("generic-form", len(c09iFormNames))
	n := 2 + verifChoose("instantiations", 2)
	placement := 0
	if n == 2 || full > 0 {
		placement = verifChoose("placement", len(c09iPlacementNames))
	}
	args := make([]int, n)
	for k := range args {
		if n == 3 && full == 0 {
			args[k] = []int{c09iArgImportedSample, c09iArgSample, c09iArgInt, c09iArgLocalAlias}[verifChoose(fmt.Sprintf("argument%d", k), 4)]
		} else {
			args[k] = verifChoose(fmt.Sprintf("argument%d", k), c09iNArgs)
		}
	}
	verifOut("rule", "ill-formed-union-after-instantiation")
	verifOut("form", c09iFormNames[form])
	verifOut("placement", c09iPlacementNames[placement])
	desc := ""
	bad := false
	for _, a := range args {
		desc += c09iArgNames[a] + "; "
		bad = bad || c09iIllFormed(form, a)
	}
	verifOut("arguments", desc)

	bl := &mb{file: "lib/lib.yml"}
	lib := &dsl.Namespace{Name: "Lib", TypeDefinitions: dsl.TypeDefinitions{
		bl.record("Lib", "Sample", nil, bl.field("timestamp", bl.st("uint64")), bl.field("value", bl.st("float"))),
		bl.alias("Lib", "SampleAlias", nil, bl.st("Sample")),
	}}
	b := &mb{file: "main/model.yml"}
	ns := "Main"
	main := &dsl.Namespace{Name: ns, IsTopLevel: true, References: []*dsl.Namespace{lib}}
	main.TypeDefinitions = dsl.TypeDefinitions{
		b.record(ns, "Sample", nil, b.field("id", b.st("int"))),
		b.record(ns, "Other", nil, b.field("name", b.st("string"))),
		b.alias(ns, "MySample", nil, b.st("Sample")),
	}
	switch form {
	case 0:
		main.TypeDefinitions = append(main.TypeDefinitions, b.alias(ns, "Either", []string{"T"}, b.gt(nil, b.st("T"), b.st("Sample"))))
	case 1:
		main.TypeDefinitions = append(main.TypeDefinitions, b.record(ns, "Holder", []string{"T"}, b.field("e", b.gt(nil, b.st("T"), b.st("Sample")))))
	case 2:
		main.TypeDefinitions = append(main.TypeDefinitions,
			b.record(ns, "Wrap", []string{"V"}, b.field("v", b.st("V"))),
			b.alias(ns, "WrapSample", nil, b.st("Wrap", b.st("Sample"))),
			b.alias(ns, "Either", []string{"U"}, b.gt(nil, b.st("U"), b.st("WrapSample"))),
			b.record(ns, "Outer", []string{"T"}, b.field("e", b.st("Either", b.st("Wrap", b.st("T"))))))
	default:
		main.TypeDefinitions = append(main.TypeDefinitions, b.alias(ns, "Two", []string{"A", "B"}, b.gt(nil, b.st("A"), b.st("B"))))
	}
	names := []string{"first", "second", "third"}
	switch placement {
	case 0:
		var fields []*dsl.Field
		for k, a := range args {
			fields = append(fields, b.field(names[k], c09iInstantiate(b, form, c09iArg(b, a))))
		}
		main.TypeDefinitions = append(main.TypeDefinitions, b.record(ns, "Frame", nil, fields...))
		main.Protocols = []*dsl.ProtocolDefinition{b.protocol(ns, "Frames", b.step("frames", b.strm(b.st("Frame"))))}
	case 1:
		for k, a := range args {
			main.TypeDefinitions = append(main.TypeDefinitions, b.alias(ns, "Use"+strings.ToUpper(names[k][:1])+names[k][1:], nil, c09iInstantiate(b, form, c09iArg(b, a))))
		}
	default:
		var steps []*dsl.ProtocolStep
		for k, a := range args {
			steps = append(steps, b.step(names[k], c09iInstantiate(b, form, c09iArg(b, a))))
		}
		main.Protocols = []*dsl.ProtocolDefinition{b.protocol(ns, "Frames", steps...)}
	}

	var err error
	msg, panicked := verifPanics(func() { _, err = dsl.Validate([]*dsl.Namespace{lib, main}) })
	verifOut("panic", msg)
	verifAssert("no-panic", !panicked)
	verifOut("err", errText(err))
	if bad {
		verifAssert("violation-rejected", err != nil)
		verifAssert("error-names-offending-file", err == nil || strings.Contains(errText(err), "main/model.yml:"))
		verifReach("c09i-ill-formed")
	} else {
		verifAssert("well-formed-instantiations-accepted", err == nil)
		verifReach("c09i-well-formed")
	}
}
