package zzverif

// C14 (enum base types): "each target language's generated code serializes ... with the same composition of element
// encodings - ... enum base types ... - as the schema prescribes."
//
// An enum / flags definition whose `base:` is written as an integer primitive, as a named alias of it, or as an alias
// of an alias (validation accepts all three: the base must *resolve* to an integer primitive), or left out (int32).
// The model goes through the real dsl.Validate; the enum is then used as a scalar, optional, vector element, map
// value and stream item.  For every backend the element encoding of the enum must be that of the RESOLVED base
// primitive B (docs/reference/binary.md: "Enums are encoded as their base integer type"):
//   - Python binary:  _binary.EnumSerializer(<element serializer>, E)             -> plan of the element serializer
//   - MATLAB binary:  yardl.binary.EnumSerializer('ns.E', @ns.E, <serializer>)    -> plan of the element serializer
//   - C++ binary:     yardl::binary::WriteEnum<ns::E> / WriteFlags<ns::E> serialize WriteInteger over
//                     std::underlying_type_t<E> / E::value_type (serializers.h; the kernels are decided by llsym), so
//                     the encoding is that of the C++ integer type the emitted `enum class E : T` / `struct E :
//                     yardl::BaseFlags<T, E>` declares, T resolved through the emitted `using X = Y;` declarations
//   - Python NDJSON and numpy dtype of the enum follow the same base (value range / dtype width).
// The specification side is computed from the symbolic B alone, not from the resolved model.

import (
	"math/big"
	"strings"

	cpptypes "github.com/microsoft/yardl/tooling/internal/cpp/types"
	pycommon "github.com/microsoft/yardl/tooling/internal/python/common"
	pyndjson "github.com/microsoft/yardl/tooling/internal/python/ndjson"
	"github.com/microsoft/yardl/tooling/pkg/dsl"
)

var c14eSpellings = []string{"primitive", "alias", "alias-of-alias", "default"}
var c14eContexts = []string{"scalar", "optional", "vector", "map-value", "stream"}

// c14eCppDeclaredBase: the C++ integer type the emitted declarations give enum / flags `name`, resolved through the
// emitted alias declarations of the namespace.  "" if no declaration of `name` is found.
func c14eCppDeclaredBase(text, name string) string {
	using := map[string]string{}
	declared, found := "", false
	for _, l := range strings.Split(text, "\n") {
		l = strings.TrimSpace(l)
		switch {
		case strings.HasPrefix(l, "using ") && strings.HasSuffix(l, ";") && strings.Contains(l, " = "):
			eq := strings.Index(l, " = ")
			using[l[len("using "):eq]] = l[eq+3 : len(l)-1]
		case strings.HasPrefix(l, "enum class "+name+" ") && strings.HasSuffix(l, "{"):
			rest := strings.TrimSpace(l[len("enum class "+name) : len(l)-1])
			found = true
			if rest == "" {
				declared = "int" // C++: the underlying type of a scoped enumeration without an enum-base is int
			} else if strings.HasPrefix(rest, ":") {
				declared = strings.TrimSpace(rest[1:])
			} else {
				declared = "?" + rest
			}
		case strings.HasPrefix(l, "struct "+name+" : yardl::BaseFlags<") && strings.HasSuffix(l, ", "+name+"> {"):
			found = true
			declared = l[len("struct "+name+" : yardl::BaseFlags<") : len(l)-len(", "+name+"> {")]
		}
	}
	if !found {
		return ""
	}
	for depth := 0; depth < 8; depth++ {
		next, ok := using[strings.TrimPrefix(declared, "ns::")]
		if !ok {
			break
		}
		declared = next
	}
	return declared
}

func c14eCppIntPlan(cppType string) string {
	if cppType == "int" {
		return "zz32" // int and int32_t are the same type on the supported platforms: WriteInteger<int> is the zig-zag varint
	}
	return cppLeaf("Integer", &vnode{head: cppType})
}

func c14eWrap(b *mb, ctx int, t dsl.Type) dsl.Type {
	switch ctx {
	case 1:
		return b.opt(t)
	case 2:
		return b.vec(t)
	case 3:
		return b.mapOf(b.st("string"), t)
	}
	return t
}

func c14eWrapPlan(ctx int, el string) string {
	switch ctx {
	case 1:
		return "opt(" + el + ")"
	case 2:
		return "vec(" + el + ")"
	case 3:
		return "map(str," + el + ")"
	case 4:
		return "stream(" + el + ")"
	}
	return el
}

// C14EnumBase(full): the base primitive ranges over all nine integer primitives in both tiers (the harness is cheap).
func C14EnumBase(full int) {
	base := verifOneOf("base", intPrims...)
	spelling := verifChoose("base-spelling", len(c14eSpellings))
	isFlags := verifChoose("flags", 2) == 1
	ctx := verifChoose("context", len(c14eContexts))
	verifOut("base", base)
	verifOut("spelling", c14eSpellings[spelling])
	verifOut("context", c14eContexts[ctx])

	b := &mb{file: "model.yml"}
	var baseType dsl.Type
	resolved := base
	switch spelling {
	case 0:
		baseType = b.st(base)
	case 1:
		baseType = b.st("CodeOne")
	case 2:
		baseType = b.st("CodeTwo")
	default:
		resolved = "int32"
	}
	en := &dsl.EnumDefinition{DefinitionMeta: b.dmeta(NS, "Kind"), BaseType: baseType, IsFlags: isFlags}
	for i, s := range []string{"first", "second"} {
		ev := &dsl.EnumValue{NodeMeta: b.meta(), Symbol: s}
		ev.IntegerValue = *big.NewInt(int64(i + 1))
		en.Values = append(en.Values, ev)
	}
	rec := b.record(NS, "Holder", nil, b.field("held", c14eWrap(b, ctx, b.st("Kind"))))
	var stepType dsl.Type = b.st("Holder")
	if ctx == 4 {
		stepType = b.strm(b.st("Kind"))
	}
	ns := &dsl.Namespace{Name: NS, IsTopLevel: true,
		TypeDefinitions: dsl.TypeDefinitions{b.alias(NS, "CodeOne", nil, b.st(base)), b.alias(NS, "CodeTwo", nil, b.st("CodeOne")), en, rec},
		Protocols:       []*dsl.ProtocolDefinition{b.protocol(NS, "Proto", b.step("item", stepType))}}
	env, err := dsl.Validate([]*dsl.Namespace{ns})
	verifAssert("enum-with-integer-base-accepted", err == nil)
	if err != nil {
		verifOut("error", err.Error())
		return
	}

	g := newGen()
	var t dsl.Type
	var kind *dsl.EnumDefinition
	for _, td := range env.Namespaces[0].TypeDefinitions {
		g.defs[NS+"."+td.GetDefinitionMeta().Name] = td
		switch d := td.(type) {
		case *dsl.RecordDefinition:
			t = d.Fields[0].Type
		case *dsl.EnumDefinition:
			kind = d
		}
	}
	if ctx == 4 {
		t = env.Namespaces[0].Protocols[0].Sequence[0].Type
	}
	verifAssert("model-resolved", t != nil && kind != nil)
	if t == nil || kind == nil {
		return
	}

	el := "enum(Kind:" + primPlan(resolved) + ")"
	want := c14eWrapPlan(ctx, el)
	verifOut("plan", want)

	py := g.pyPlanOf(t)
	verifOut("py", py)
	verifAssert("python-enum-element-is-the-resolved-base", py == want)
	m := g.matlabPlanOf(t)
	verifOut("matlab", m)
	verifAssert("matlab-enum-element-is-the-resolved-base", m == want)

	// C++: the serializer expression names the enum; the encoding is that of the declared underlying type
	cw := g.cppPlanOf(t, true)
	cr := g.cppPlanOf(t, false)
	verifAssert("cpp-serializers-name-the-enum", strings.Contains(cw, "enum(Kind:") && strings.Contains(cr, "enum(Kind:"))
	declared := c14eCppDeclaredBase(cpptypes.VerifWriteNamespaceMembers(env.Namespaces[0]), "Kind")
	verifOut("cpp-declared-base", declared)
	verifAssert("cpp-enum-declared", declared != "")
	verifAssert("cpp-declared-underlying-type-is-the-resolved-base", c14eCppIntPlan(declared) == primPlan(resolved))

	// Python NDJSON converter and numpy dtype of the enum are parameterised by the same base
	nd := pyndjson.VerifTypeConverter(ref(kind), NS)
	verifOut("ndjson", nd)
	primDtype := pycommon.TypeDefinitionDTypeSyntax(dsl.PrimitiveDefinition(resolved)) // what the emitter writes for the bare primitive
	nn, ok := parseExpr(nd)
	understood := ok && len(nn.kids) == 4 && (nn.head == "_ndjson.EnumConverter" || nn.head == "_ndjson.FlagsConverter")
	verifAssert("python-ndjson-enum-converter-understood", understood)
	if understood {
		verifAssert("python-ndjson-enum-kind", (nn.head == "_ndjson.FlagsConverter") == isFlags)
		verifAssert("python-ndjson-enum-base-is-the-resolved-base", nn.kids[1].head == primDtype)
	}
	dt := pycommon.TypeDefinitionDTypeSyntax(kind)
	verifOut("dtype", dt)
	verifAssert("python-dtype-is-the-resolved-base", dt == primDtype)
	verifReach("c14e-end")
}
