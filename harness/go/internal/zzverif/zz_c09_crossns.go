package zzverif

// C09 / C10: a reference cycle is a reference cycle wherever its members are declared.
//
// Main (top level) imports Dep.  Main.Foo refers to Dep.Bar, and Dep.Bar refers back to Main.Foo - the symbol table
// of the environment holds every namespace, so the validator resolves the name although Dep does not import Main.  The
// back-reference is written directly, as an optional, a vector or a map value (symbolic), and the cycle may run
// through one more record of either namespace.  A cycle of records / aliases "is not supported" (the validator's own
// words) because every generator recurses through definitions: accepted, it makes `yardl generate` overflow its stack.
// Obligations: the real dsl.Validate returns (no panic, no runaway: verifBounded), REJECTS the model and names a model
// file; the same definitions without the back-reference are accepted.

import (
	"strings"

	"github.com/microsoft/yardl/tooling/pkg/dsl"
)

func c09xWrap(b *mb, w int, t dsl.Type) dsl.Type {
	switch w {
	case 1:
		return b.opt(t)
	case 2:
		return b.vec(t)
	case 3:
		return b.mapOf(b.st("string"), t)
	}
	return t
}

// C09CrossNamespaceCycle()
func C09CrossNamespaceCycle() {
	w := verifChoose("back-reference-wrapper", 4)
	via := verifChoose("cycle-runs-through", 3) // 0: Foo -> Bar -> Foo; 1: one more record in Dep; 2: one more record in Main
	closed := verifChoose("back-reference-present", 2) == 1
	bd := &mb{file: "dep/dep.yml"}
	bm := &mb{file: "main/model.yml"}
	dep := &dsl.Namespace{Name: "Dep"}
	main := &dsl.Namespace{Name: "Main", IsTopLevel: true, References: []*dsl.Namespace{dep}}
	var back dsl.Type = bd.st("string")
	if closed {
		target := "Main.Foo"
		if via == 2 {
			target = "Main.Mid"
		}
		back = c09xWrap(bd, w, bd.st(target))
	}
	bar := bd.record("Dep", "Bar", nil, bd.field("x", back), bd.field("n", bd.st("int")))
	dep.TypeDefinitions = dsl.TypeDefinitions{bar}
	fooTarget := "Dep.Bar"
	if via == 1 {
		dep.TypeDefinitions = append(dep.TypeDefinitions, bd.record("Dep", "Hop", nil, bd.field("b", bd.vec(bd.st("Bar")))))
		fooTarget = "Dep.Hop"
	}
	foo := bm.record("Main", "Foo", nil, bm.field("y", bm.opt(bm.st(fooTarget))))
	main.TypeDefinitions = dsl.TypeDefinitions{foo}
	if via == 2 {
		main.TypeDefinitions = append(main.TypeDefinitions, bm.record("Main", "Mid", nil, bm.field("f", bm.vec(bm.st("Foo")))))
	}
	main.Protocols = []*dsl.ProtocolDefinition{bm.protocol("Main", "P", bm.step("f", bm.st("Foo")))}
	var err error
	var msg string
	var panicked bool
	finished := verifBounded(func() {
		msg, panicked = verifPanics(func() { _, err = dsl.Validate([]*dsl.Namespace{dep, main}) })
	}, 2000, 20000000)
	verifOut("panic", msg)
	verifAssert("validate-terminates-without-panic", finished && !panicked)
	if !finished || panicked {
		return
	}
	if !closed {
		verifOut("error", errText(err))
		verifAssert("acyclic-definitions-accepted", err == nil)
		verifReach("c09x-acyclic")
		return
	}
	verifAssert("cross-namespace-cycle-rejected", err != nil)
	if err != nil {
		verifOut("error", err.Error())
		verifAssert("error-names-a-model-file", strings.Contains(err.Error(), "dep/dep.yml") || strings.Contains(err.Error(), "main/model.yml"))
	}
	verifReach("c09x-cyclic")
}
