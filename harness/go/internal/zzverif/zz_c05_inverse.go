package zzverif

// C05 (write direction = inverse of the read direction).
//
// C05Inverse: for a symbolic bounded-depth pair (oldT, newT) the change object tc = compareTypes(newT, oldT)
// handed to code generation must have an Inverse() that (a) is an involution, (b) swaps direction at *every*
// nesting level (the generators call tc.Inverse() to obtain the write-to-previous-version conversion) and
// (c) agrees in kind and in every nested (old, new) pair with compareTypes(oldT, newT) wherever both
// directions are accepted.
//
// C05NestedConversion: the C++ conversion emitted for an integer -> integer change nested inside a chain of
// optional / vector / stream wrappers is read back as a small statement language and given its meaning: the
// innermost element conversion must read the element of the source container, throw exactly when the value does
// not fit the destination element type (old type when writing to the previous version, new type when reading)
// and otherwise store static_cast<destination type> into the destination container.

import (
	"strings"

	cppbinary "github.com/microsoft/yardl/tooling/internal/cpp/binary"
	cppcommon "github.com/microsoft/yardl/tooling/internal/cpp/common"
	"github.com/microsoft/yardl/tooling/pkg/dsl"
)

// ---------------------------------------------------------------------------------------------------------------
// structural views of change objects

func c05Kind(tc dsl.TypeChange) string {
	switch tc.(type) {
	case nil:
		return "none"
	case *dsl.TypeChangeNumberToNumber:
		return "NumberToNumber"
	case *dsl.TypeChangeComplexToComplex:
		return "ComplexToComplex"
	case *dsl.TypeChangeNumberToString:
		return "NumberToString"
	case *dsl.TypeChangeStringToNumber:
		return "StringToNumber"
	case *dsl.TypeChangeScalarToOptional:
		return "ScalarToOptional"
	case *dsl.TypeChangeOptionalToScalar:
		return "OptionalToScalar"
	case *dsl.TypeChangeScalarToUnion:
		return "ScalarToUnion"
	case *dsl.TypeChangeUnionToScalar:
		return "UnionToScalar"
	case *dsl.TypeChangeOptionalTypeChanged:
		return "OptionalTypeChanged"
	case *dsl.TypeChangeUnionToOptional:
		return "UnionToOptional"
	case *dsl.TypeChangeOptionalToUnion:
		return "OptionalToUnion"
	case *dsl.TypeChangeUnionTypesetChanged:
		return "UnionTypesetChanged"
	case *dsl.TypeChangeStreamTypeChanged:
		return "StreamTypeChanged"
	case *dsl.TypeChangeVectorTypeChanged:
		return "VectorTypeChanged"
	case *dsl.TypeChangeDefinitionChanged:
		return "DefinitionChanged"
	case *dsl.TypeChangeIncompatible:
		return "Incompatible"
	case *dsl.TypeChangeStepAdded:
		return "StepAdded"
	}
	return "?"
}

// the kind the opposite direction of a change of kind k has (docs/cpp/evolution.md pairs the directions:
// "optional to union, and vice versa", "adding or removing", numbers <-> strings, making optional / required)
func c05OppositeKind(k string) string {
	switch k {
	case "NumberToString":
		return "StringToNumber"
	case "StringToNumber":
		return "NumberToString"
	case "ScalarToOptional":
		return "OptionalToScalar"
	case "OptionalToScalar":
		return "ScalarToOptional"
	case "ScalarToUnion":
		return "UnionToScalar"
	case "UnionToScalar":
		return "ScalarToUnion"
	case "UnionToOptional":
		return "OptionalToUnion"
	case "OptionalToUnion":
		return "UnionToOptional"
	}
	return k
}

func c05Inner(tc dsl.TypeChange) (dsl.TypeChange, bool) {
	switch tc := tc.(type) {
	case *dsl.TypeChangeOptionalTypeChanged:
		return tc.InnerChange, true
	case *dsl.TypeChangeStreamTypeChanged:
		return tc.InnerChange, true
	case *dsl.TypeChangeVectorTypeChanged:
		return tc.InnerChange, true
	}
	return nil, false
}

func c05Index(tc dsl.TypeChange) int {
	switch tc := tc.(type) {
	case *dsl.TypeChangeScalarToUnion:
		return tc.TypeIndex
	case *dsl.TypeChangeUnionToScalar:
		return tc.TypeIndex
	case *dsl.TypeChangeUnionToOptional:
		return tc.TypeIndex
	case *dsl.TypeChangeOptionalToUnion:
		return tc.TypeIndex
	}
	return -1
}

func c05Matches(tc dsl.TypeChange) (old, new []bool) {
	if u, ok := tc.(*dsl.TypeChangeUnionTypesetChanged); ok {
		return u.OldMatches, u.NewMatches
	}
	return nil, nil
}

func c05BoolsEq(a, b []bool) bool {
	if len(a) != len(b) {
		return false
	}
	for i := range a {
		if a[i] != b[i] {
			return false
		}
	}
	return true
}

// sameType: structural equality of resolved types (compareTypes builds fresh scalar views of dimensioned types).
func c05SameType(a, b dsl.Type) bool {
	switch a := a.(type) {
	case nil:
		return b == nil
	case *dsl.SimpleType:
		bs, ok := b.(*dsl.SimpleType)
		if !ok {
			return false
		}
		if pa, ok := a.ResolvedDefinition.(dsl.PrimitiveDefinition); ok {
			pb, ok := bs.ResolvedDefinition.(dsl.PrimitiveDefinition)
			return ok && pa == pb
		}
		return a.ResolvedDefinition == bs.ResolvedDefinition
	case *dsl.GeneralizedType:
		bg, ok := b.(*dsl.GeneralizedType)
		if !ok || len(a.Cases) != len(bg.Cases) {
			return false
		}
		for i := range a.Cases {
			if !c05SameType(a.Cases[i].Type, bg.Cases[i].Type) {
				return false
			}
		}
		switch da := a.Dimensionality.(type) {
		case nil:
			return bg.Dimensionality == nil
		case *dsl.Vector:
			db, ok := bg.Dimensionality.(*dsl.Vector)
			return ok && (da.Length == nil) == (db.Length == nil) && (da.Length == nil || *da.Length == *db.Length)
		case *dsl.Stream:
			_, ok := bg.Dimensionality.(*dsl.Stream)
			return ok
		case *dsl.Map:
			db, ok := bg.Dimensionality.(*dsl.Map)
			return ok && c05SameType(da.KeyType, db.KeyType)
		case *dsl.Array:
			_, ok := bg.Dimensionality.(*dsl.Array)
			return ok
		}
	}
	return false
}

// c05Mirrored: inv is tc with the direction swapped at every nesting level.
func c05Mirrored(inv, tc dsl.TypeChange) bool {
	if tc == nil || inv == nil {
		return tc == nil && inv == nil
	}
	if c05Kind(inv) != c05OppositeKind(c05Kind(tc)) {
		return false
	}
	if inv.OldType() != tc.NewType() || inv.NewType() != tc.OldType() {
		return false
	}
	if c05Index(inv) != c05Index(tc) {
		return false
	}
	io, in := c05Matches(inv)
	to, tn := c05Matches(tc)
	if !c05BoolsEq(io, tn) || !c05BoolsEq(in, to) {
		return false
	}
	ii, iok := c05Inner(inv)
	ti, tok := c05Inner(tc)
	if iok != tok {
		return false
	}
	return !iok || c05Mirrored(ii, ti)
}

// c05Equal: same kind, same (old, new) pair (identical objects if ident, else equal shapes), same indices, at every level.
func c05Equal(a, b dsl.TypeChange, ident bool) bool {
	if a == nil || b == nil {
		return a == nil && b == nil
	}
	if c05Kind(a) != c05Kind(b) || c05Index(a) != c05Index(b) {
		return false
	}
	if ident {
		if a.OldType() != b.OldType() || a.NewType() != b.NewType() {
			return false
		}
	} else if !c05SameType(a.OldType(), b.OldType()) || !c05SameType(a.NewType(), b.NewType()) {
		return false
	}
	ao, an := c05Matches(a)
	bo, bn := c05Matches(b)
	if !c05BoolsEq(ao, bo) || !c05BoolsEq(an, bn) {
		return false
	}
	ai, aok := c05Inner(a)
	bi, bok := c05Inner(b)
	if aok != bok {
		return false
	}
	return !aok || c05Equal(ai, bi, ident)
}

// ---------------------------------------------------------------------------------------------------------------
// symbolic pairs of types

var c05Nums = []string{"int32", "int64", "uint8", "float32", "float64"}

func c05Gt(dim dsl.Dimensionality, cases ...dsl.Type) *dsl.GeneralizedType {
	g := &dsl.GeneralizedType{Dimensionality: dim}
	for i, c := range cases {
		tag := ""
		if c != nil {
			tag = []string{"a", "b", "c", "d"}[i]
		}
		g.Cases = append(g.Cases, &dsl.TypeCase{Tag: tag, Type: c})
	}
	return g
}

// c05LeafPair: one documented (partially) compatible scalar change, or none.
func (g *gen) c05LeafPair() (oldT, newT dsl.Type, nullable bool) {
	k := verifChoose(g.label("leaf-change"), 12)
	verifOut("leaf-change", k)
	num := func() string { return verifOneOf(g.label("num"), c05Nums...) }
	t := func() dsl.Type { return primType(verifOneOf(g.label("t"), "int32", "float64")) }
	u, v := primType("string"), primType("bool")
	pos := func(n int) int { return verifChoose(g.label("pos"), n) }
	// place x at position p among the other cases
	place := func(x dsl.Type, p int, others ...dsl.Type) []dsl.Type {
		out := append([]dsl.Type{}, others[:p]...)
		out = append(out, x)
		return append(out, others[p:]...)
	}
	switch k {
	case 0:
		n := num()
		return primType(n), primType(n), false
	case 1:
		return primType(num()), primType(num()), false
	case 2:
		return primType(num()), primType("string"), false
	case 3:
		return primType("string"), primType(num()), false
	case 4:
		if verifChoose(g.label("widen"), 2) == 0 {
			return primType("complexfloat32"), primType("complexfloat64"), false
		}
		return primType("complexfloat64"), primType("complexfloat32"), false
	case 5:
		x := t()
		return x, c05Gt(nil, nil, cloneType(x)), true
	case 6:
		x := t()
		return c05Gt(nil, nil, x), cloneType(x), true
	case 7:
		x := t()
		return x, c05Gt(nil, place(cloneType(x), pos(3), u, v)...), true
	case 8:
		x := t()
		return c05Gt(nil, place(x, pos(3), u, v)...), cloneType(x), true
	case 9:
		x := t()
		return c05Gt(nil, nil, x), c05Gt(nil, append([]dsl.Type{nil}, place(cloneType(x), pos(3), u, v)...)...), true
	case 10:
		x := t()
		return c05Gt(nil, append([]dsl.Type{nil}, place(x, pos(3), u, v)...)...), c05Gt(nil, nil, cloneType(x)), true
	default:
		x := t()
		// [x, string] -> x at a symbolic position among {string?, bool}: cases added / removed / reordered
		keepU := verifChoose(g.label("keep"), 2) == 1
		others := []dsl.Type{v}
		if keepU {
			others = []dsl.Type{cloneType(u), v}
		}
		return c05Gt(nil, x, u), c05Gt(nil, place(cloneType(x), pos(len(others)+1), others...)...), true
	}
}

// c05Wrap wraps both sides with the same symbolic wrapper.
func (g *gen) c05Wrap(oldT, newT dsl.Type, nullable bool, outermost bool) (dsl.Type, dsl.Type, bool) {
	n := 8
	if !outermost {
		n = 7
	}
	w := verifChoose(g.label("wrapper"), n)
	verifOut("wrapper", w)
	both := func(f func(dsl.Type) dsl.Type) (dsl.Type, dsl.Type, bool) { return f(oldT), f(newT), false }
	switch w {
	case 0:
		return oldT, newT, nullable
	case 1:
		if nullable {
			return oldT, newT, nullable
		}
		o, n, _ := both(func(t dsl.Type) dsl.Type { return c05Gt(nil, nil, t) })
		return o, n, true
	case 2:
		return both(func(t dsl.Type) dsl.Type { return c05Gt(&dsl.Vector{}, t) })
	case 3:
		return both(func(t dsl.Type) dsl.Type { l := uint64(3); return c05Gt(&dsl.Vector{Length: &l}, t) })
	case 4:
		return both(func(t dsl.Type) dsl.Type { return c05Gt(&dsl.Map{KeyType: primType("string")}, t) })
	case 5:
		return both(func(t dsl.Type) dsl.Type { return c05Gt(&dsl.Array{}, t) })
	case 6:
		// an alias on one side or on both
		which := verifChoose(g.label("alias-side"), 3)
		al := func(t dsl.Type) dsl.Type { return ref(&dsl.NamedType{DefinitionMeta: g.meta(g.label("A")), Type: t}) }
		o, n := oldT, newT
		if which != 1 {
			o = al(o)
		}
		if which != 0 {
			n = al(n)
		}
		return o, n, nullable
	default:
		return both(func(t dsl.Type) dsl.Type { return c05Gt(&dsl.Stream{}, t) })
	}
}

func C05Inverse(depth int) {
	g := newGen()
	oldT, newT, nullable := g.c05LeafPair()
	for d := depth; d >= 1; d-- {
		oldT, newT, nullable = g.c05Wrap(oldT, newT, nullable, d == 1)
	}
	var tc, back dsl.TypeChange
	_, p1 := verifPanics(func() { tc = dsl.VerifCompareTypes(newT, oldT) })
	_, p2 := verifPanics(func() { back = dsl.VerifCompareTypes(oldT, newT) })
	verifAssert("compare-total", !p1 && !p2)
	if p1 || p2 {
		return
	}
	verifOut("change", c05Kind(tc))
	verifOut("reverse-change", c05Kind(back))
	if tc == nil {
		verifReach("c05-inverse-unchanged")
		return
	}
	var inv, inv2 dsl.TypeChange
	msg, p3 := verifPanics(func() { inv = tc.Inverse(); inv2 = inv.Inverse() })
	verifOut("panic", msg)
	verifAssert("inverse-total", !p3)
	if p3 {
		return
	}
	verifOut("inverse", c05Kind(inv))
	verifAssert("inverse-swaps-direction-at-every-level", c05Mirrored(inv, tc))
	verifAssert("inverse-is-an-involution", c05Equal(inv2, tc, true))
	if !dsl.VerifTypeChangeIsError(tc) && back != nil && !dsl.VerifTypeChangeIsError(back) {
		verifAssert("inverse-equals-reverse-comparison", c05Equal(inv, back, false))
	}
	verifReach("c05-inverse-end")
}

// ---------------------------------------------------------------------------------------------------------------
// emitted nested conversions read back

// wrapper chains (outermost first): o = optional, v = vector, s = stream (written / read in batches)
var c05Chains = []string{"", "o", "v", "s", "vo", "so"}

// chains whose emitted conversion is ill-formed C++ in the unchanged tree (f = fixed-length vector): vector of vector and
// batched stream of vector (the inner loop re-declares `i` and `item`), optional of vector (resize / subscript on the
// std::optional), fixed-length vector (resize on std::array)
var c05IllFormedChains = []string{"vv", "sv", "ov", "f"}

func c05WrapChain(chain string, leaf dsl.Type) dsl.Type {
	t := leaf
	for i := len(chain) - 1; i >= 0; i-- {
		switch chain[i] {
		case 'o':
			t = c05Gt(nil, nil, t)
		case 'v':
			t = c05Gt(&dsl.Vector{}, t)
		case 's':
			t = c05Gt(&dsl.Stream{}, t)
		case 'f':
			l := uint64(3)
			t = c05Gt(&dsl.Vector{Length: &l}, t)
		}
	}
	return t
}

func c05CppIntPrim(cpp string) (string, bool) {
	for _, p := range intPrimsC05 {
		if cppIntType(p) == cpp {
			return p, true
		}
	}
	return "", false
}

type c05Guard struct {
	op   string // ">max", "<lowest", "<0"
	prim string // the type whose limits are mentioned ("" for <0)
}

type c05Conv struct {
	events  []string   // data flow of the emitted statements, in order
	guards  []c05Guard // guards protecting the (single) element conversion
	castTo  string     // primitive the element is static_cast to
	ncasts  int
	unknown string
}

func c05Cut(s, sep string) (string, string, bool) {
	i := strings.Index(s, sep)
	if i < 0 {
		return s, "", false
	}
	return s[:i], s[i+len(sep):], true
}

func c05Between(s, pre, suf string) (string, bool) {
	if !strings.HasPrefix(s, pre) || !strings.HasSuffix(s, suf) || len(s) < len(pre)+len(suf) {
		return "", false
	}
	return s[len(pre) : len(s)-len(suf)], true
}

// c05ReadConversion gives the emitted statements their meaning as a data-flow trace plus the guards of the element conversion.
func c05ReadConversion(text string) *c05Conv {
	r := &c05Conv{}
	lines := []string{}
	for _, l := range strings.Split(text, "\n") {
		if t := strings.TrimSpace(l); t != "" {
			lines = append(lines, t)
		}
	}
	var pending []c05Guard // guards seen since the last conversion, with the expression they test
	pendingExpr := ""
	for i := 0; i < len(lines); i++ {
		l := lines[i]
		if x, ok := c05Between(l, "if (", ".has_value()) {"); ok {
			r.events = append(r.events, "if-has-value "+x)
			continue
		}
		if x, ok := c05Between(l, "for (size_t i = 0; i < ", ".size(); i++) {"); ok {
			r.events = append(r.events, "for-each "+x)
			continue
		}
		if c, ok := c05Between(l, "if (", ") {"); ok {
			if i+2 >= len(lines) || !strings.HasPrefix(lines[i+1], "throw std::runtime_error(") || lines[i+2] != "}" {
				r.unknown = "guard without throw: " + l
				return r
			}
			i += 2
			for _, atom := range strings.Split(c, " || ") {
				var gd c05Guard
				var expr string
				if e, rest, ok := c05Cut(atom, " > std::numeric_limits<"); ok {
					expr = e
					cpp, ok := c05Between(rest, "", ">::max()")
					p, ok2 := c05CppIntPrim(cpp)
					if !ok || !ok2 {
						r.unknown = "guard atom: " + atom
						return r
					}
					gd = c05Guard{">max", p}
				} else if e, rest, ok := c05Cut(atom, " < std::numeric_limits<"); ok {
					expr = e
					cpp, ok := c05Between(rest, "", ">::lowest()")
					p, ok2 := c05CppIntPrim(cpp)
					if !ok || !ok2 {
						r.unknown = "guard atom: " + atom
						return r
					}
					gd = c05Guard{"<lowest", p}
				} else if e, ok := c05Between(atom, "", " < 0"); ok {
					expr = e
					gd = c05Guard{"<0", ""}
				} else {
					r.unknown = "guard atom: " + atom
					return r
				}
				if pendingExpr != "" && pendingExpr != expr {
					r.unknown = "guards on different expressions"
					return r
				}
				pendingExpr = expr
				pending = append(pending, gd)
			}
			continue
		}
		if l == "}" {
			r.events = append(r.events, "end")
			continue
		}
		if l == "} else {" {
			r.events = append(r.events, "else")
			continue
		}
		if d, ok := c05Between(l, "", " = {};"); ok && !strings.Contains(d, " ") {
			// assignment of the zero value (not a declaration: no type in front of the name)
			r.events = append(r.events, "zero "+d)
			continue
		}
		if d, ok := c05Between(l, "", " item = {};"); ok {
			r.events = append(r.events, "decl-item "+d)
			continue
		}
		if d, ok := c05Between(l, "", "[i] = item;"); ok {
			r.events = append(r.events, "store-item "+d)
			continue
		}
		if rest, ok := c05Between(l, "", ".size());"); ok {
			if d, s, ok := c05Cut(rest, ".resize("); ok {
				r.events = append(r.events, "resize "+d+" "+s)
				continue
			}
		}
		if d, rest, ok := c05Cut(l, " = static_cast<"); ok {
			cpp, src, ok := c05Cut(rest, ">(")
			src, ok2 := c05Between(src, "", ");")
			p, ok3 := c05CppIntPrim(cpp)
			if !ok || !ok2 || !ok3 {
				r.unknown = "cast: " + l
				return r
			}
			if pendingExpr != "" && pendingExpr != src {
				r.unknown = "guard tests " + pendingExpr + " but " + src + " is converted"
				return r
			}
			r.ncasts++
			r.castTo = p
			r.guards = pending
			pending, pendingExpr = nil, ""
			r.events = append(r.events, "convert "+d+" "+src)
			continue
		}
		r.unknown = "statement: " + l
		return r
	}
	if len(pending) > 0 {
		r.unknown = "guard without conversion"
	}
	return r
}

// c05ExpectedFlow: what a conversion from `src` to `dst` through the wrapper chain has to do, element-wise.
func c05ExpectedFlow(chain string) []string {
	src, dst := "src", "dst"
	var ev, closing []string
	for i := 0; i < len(chain); i++ {
		switch chain[i] {
		case 'o':
			// a null source gives the destination its zero value (the destination may be a reused object)
			ev = append(ev, "if-has-value "+src)
			src += ".value()"
			closing = append([]string{"else", "zero " + dst, "end"}, closing...)
		default:
			if chain[i] != 'f' { // a fixed-length destination needs no sizing
				ev = append(ev, "resize "+dst+" "+src)
			}
			ev = append(ev, "for-each "+src, "decl-item")
			closing = append([]string{"store-item " + dst, "end"}, closing...)
			src += "[i]"
			dst = "item"
		}
	}
	ev = append(ev, "convert "+dst+" "+src)
	return append(ev, closing...)
}

// c05WellFormed gives the read-back statements C++ scoping and typing: a name may not be re-declared while an outer
// declaration of it is still in use (the emitted element expressions refer to the loop variable / item of *each* level),
// `.resize(n)` exists on std::vector only, `x[i] = ..` needs a std::vector or std::array.
// Returns the first violated rule ("" if none) and the kind of the offending target.
func c05WellFormed(events []string, dstType string) (redeclared, badResize, badStore string, arrayResize map[int]bool) {
	arrayResize = map[int]bool{}
	scopes := []map[string]string{{"dst": dstType}}
	lookup := func(name string) (string, bool) {
		for i := len(scopes) - 1; i >= 0; i-- {
			if t, ok := scopes[i][name]; ok {
				return t, true
			}
		}
		return "", false
	}
	kind := func(t string) string {
		switch {
		case strings.HasPrefix(t, "std::vector<"):
			return "vector"
		case strings.HasPrefix(t, "std::array<"):
			return "array"
		case strings.HasPrefix(t, "std::optional<"):
			return "optional"
		}
		return "scalar"
	}
	for ei, e := range events {
		head, rest, _ := c05Cut(e, " ")
		target, _, _ := c05Cut(rest, " ")
		f := []string{head, target}
		switch f[0] {
		case "if-has-value":
			scopes = append(scopes, map[string]string{})
		case "for-each":
			if _, ok := lookup("i"); ok && redeclared == "" {
				redeclared = "i"
			}
			scopes = append(scopes, map[string]string{"i": "size_t"})
		case "decl-item":
			if _, ok := lookup("item"); ok && redeclared == "" {
				redeclared = "item"
			}
			scopes[len(scopes)-1]["item"] = strings.TrimPrefix(e, "decl-item ")
		case "resize":
			if t, _ := lookup(f[1]); kind(t) != "vector" {
				if badResize == "" {
					badResize = kind(t)
				}
				if kind(t) == "array" {
					arrayResize[ei] = true // reported by the resize rule; a fixed-length destination needs no sizing
				}
			}
		case "store-item":
			if t, _ := lookup(f[1]); kind(t) != "vector" && kind(t) != "array" && badStore == "" {
				badStore = kind(t)
			}
		case "else":
			if len(scopes) > 1 {
				scopes = scopes[:len(scopes)-1]
			}
			scopes = append(scopes, map[string]string{})
		case "end":
			if len(scopes) > 1 {
				scopes = scopes[:len(scopes)-1]
			}
		}
	}
	return
}

func C05NestedConversion(write int) { c05NestedConversion(write, c05Chains, intPrimsC05) }

// C05NestedConversionIllFormed: the same obligations for the wrapper chains of c05IllFormedChains, both directions.
// all = 0 restricts the integer pairs to {int8, uint16, int32, uint64} (every pair is covered for the well-formed chains).
func C05NestedConversionIllFormed(all int) {
	prims := intPrimsC05
	if all == 0 {
		prims = []string{"int8", "uint16", "int32", "uint64"}
	}
	c05NestedConversion(verifChoose("write", 2), c05IllFormedChains, prims)
}

func c05NestedConversion(write int, chains []string, prims []string) {
	from, to := prims[verifChoose("from", len(prims))], prims[verifChoose("to", len(prims))]
	verifAssume(from != to)
	chain := chains[verifChoose("chain", len(chains))]
	verifOut("from", from)
	verifOut("to", to)
	verifOut("chain", chain)
	oldT, newT := c05WrapChain(chain, primType(from)), c05WrapChain(chain, primType(to))
	tc := dsl.VerifCompareTypes(newT, oldT)
	verifAssert("nested-integer-change-accepted", tc != nil && !dsl.VerifTypeChangeIsError(tc))
	if tc == nil || dsl.VerifTypeChangeIsError(tc) {
		return
	}
	isWrite := write == 1
	// source / destination element types: reading converts old -> new, writing to the previous version new -> old
	srcP, dstP := from, to
	if isWrite {
		srcP, dstP = to, from
	}
	var text string
	msg, panicked := verifPanics(func() { text = cppbinary.VerifWriteTypeConversion(tc, "src", "dst", isWrite) })
	verifOut("panic", msg)
	verifAssert("emitter-total", !panicked)
	if panicked {
		return
	}
	verifOut("code", text)
	r := c05ReadConversion(text)
	verifOut("unknown", r.unknown)
	verifAssert("emitted-conversion-understood", r.unknown == "")
	if r.unknown != "" {
		return
	}
	// C++ scoping / typing of the statements; `dst` is declared by the caller with the destination type (a batched stream is a std::vector)
	dstT := oldT
	if !isWrite {
		dstT = newT
	}
	if g, ok := dstT.(*dsl.GeneralizedType); ok {
		if _, isStream := g.Dimensionality.(*dsl.Stream); isStream {
			c := *g
			c.Dimensionality = &dsl.Vector{}
			dstT = &c
		}
	}
	redeclared, badResize, badStore, arrayResize := c05WellFormed(r.events, cppcommon.TypeSyntax(dstT))
	verifOut("redeclared", redeclared)
	verifOut("resize-on", badResize)
	verifOut("subscript-store-on", badStore)
	verifAssert("no-redeclared-variable", redeclared == "")
	verifAssert("resize-only-on-vector", badResize == "")
	verifAssert("subscript-store-only-on-vector-or-array", badStore == "")
	// data flow: element read from the source container, result stored into the destination container
	want := c05ExpectedFlow(chain)
	var got []string
	for i, e := range r.events {
		if !arrayResize[i] {
			got = append(got, e)
		}
	}
	flowOK := len(want) == len(got)
	for i := 0; flowOK && i < len(want); i++ {
		if want[i] == "decl-item" {
			flowOK = strings.HasPrefix(got[i], "decl-item ") && strings.Contains(got[i], cppIntType(dstP))
		} else {
			flowOK = want[i] == got[i]
		}
	}
	verifOut("flow", strings.Join(r.events, "; "))
	verifAssert("element-wise-data-flow", flowOK)
	verifAssert("one-element-conversion", r.ncasts == 1)
	verifAssert("assigns-static-cast-to-target", r.castTo == dstP)
	// meaning of the guards on a symbolic element value of the source type
	if isSignedInt(srcP) {
		v := verifInt64("value")
		verifAssume(inRangeS(v, srcP))
		fires := false
		for _, gd := range r.guards {
			switch gd.op {
			case ">max":
				fires = fires || aboveMaxS(v, gd.prim)
			case "<lowest":
				fires = fires || belowLowestS(v, gd.prim)
			default:
				fires = fires || v < 0
			}
		}
		verifAssert("no-silent-wrap", fires || inRangeS(v, dstP))
		verifAssert("no-spurious-overflow-error", !fires || !inRangeS(v, dstP))
	} else {
		v := verifUint64("value")
		verifAssume(inRangeU(v, srcP))
		fires := false
		for _, gd := range r.guards {
			if gd.op == ">max" {
				fires = fires || aboveMaxU(v, gd.prim)
			}
		}
		verifAssert("no-silent-wrap", fires || inRangeU(v, dstP))
		verifAssert("no-spurious-overflow-error", !fires || !inRangeU(v, dstP))
	}
	verifReach("c05-nested-conversion-end")
}
