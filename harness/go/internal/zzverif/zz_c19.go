package zzverif

import (
	"github.com/microsoft/yardl/tooling/pkg/dsl"
)

var numericPrims = []string{"int8", "uint8", "int16", "uint16", "int32", "uint32", "int64", "uint64", "size", "float32", "float64", "complexfloat32", "complexfloat64"}

func primKind(p string) int { // 0 integer, 1 float, 2 complex
	switch p {
	case "float32", "float64":
		return 1
	case "complexfloat32", "complexfloat64":
		return 2
	}
	return 0
}

func primWidth(p string) int {
	switch p {
	case "int8", "uint8":
		return 8
	case "int16", "uint16":
		return 16
	case "int32", "uint32", "float32", "complexfloat32":
		return 32
	}
	return 64
}

// typeOfBinary validates a record {a: pa, b: pb} with the computed field `a op b` (or `b op a`)
// and returns the primitive name of the computed field's static type.
func typeOfBinary(pa, pb string, op dsl.BinaryOperator, swapped bool) (string, bool) {
	b := &mb{file: "model.yml"}
	g := &eg{b: b}
	l, r := g.member(nil, "a"), g.member(nil, "b")
	if swapped {
		l, r = r, l
	}
	rec := b.record("Ns", "Rec", nil, b.field("a", b.st(pa)), b.field("b", b.st(pb)))
	rec.ComputedFields = dsl.ComputedFields{&dsl.ComputedField{NodeMeta: b.meta(), Name: "c", Expression: &dsl.BinaryExpression{NodeMeta: b.meta(), Left: l, Operator: op, Right: r}}}
	n := &dsl.Namespace{Name: "Ns", IsTopLevel: true, TypeDefinitions: dsl.TypeDefinitions{rec}}
	env, err := dsl.Validate([]*dsl.Namespace{n})
	if err != nil {
		return "", false
	}
	out := env.Namespaces[0].TypeDefinitions[0].(*dsl.RecordDefinition)
	t := out.ComputedFields[0].Expression.GetResolvedType()
	st, ok := t.(*dsl.SimpleType)
	if !ok {
		return "?", true
	}
	p, ok := st.ResolvedDefinition.(dsl.PrimitiveDefinition)
	if !ok {
		return "?", true
	}
	return string(p), true
}

// C19Types: the static type of `a op b` for every pair of numeric primitive types and every operator.
func C19Types() {
	pa := verifOneOf("pa", numericPrims...)
	pb := verifOneOf("pb", numericPrims...)
	op := dsl.BinaryOperator(verifChoose("op", 5))
	t1, ok1 := typeOfBinary(pa, pb, op, false)
	t2, ok2 := typeOfBinary(pa, pb, op, true)
	verifOut("pa", pa)
	verifOut("pb", pb)
	verifOut("type", t1)
	verifAssert("accept-reject-independent-of-operand-order", ok1 == ok2)
	if !ok1 || !ok2 {
		verifReach("c19-types-rejected")
		return
	}
	verifAssert("type-independent-of-operand-order", t1 == t2)
	ka, kb, kr := primKind(pa), primKind(pb), primKind(t1)
	kmax := ka
	if kb > kmax {
		kmax = kb
	}
	if op == dsl.BinaryOpPow && kmax == 0 {
		// documented: ** on integers yields a float64
		verifAssert("integer-power-is-float64", t1 == "float64")
	} else {
		verifAssert("result-kind-is-widest-operand-kind", kr == kmax)
		if ka == kb {
			// same-kind operands: the result is at least as wide as both (mixed kinds follow the usual
			// arithmetic conversions, where e.g. uint64 with float32 gives float32)
			verifAssert("same-kind-result-at-least-as-wide-as-operands", primWidth(t1) >= primWidth(pa) && primWidth(t1) >= primWidth(pb))
		}
	}
	verifReach("c19-types-accepted")
}
