package zzverif

// C10 ("terminates promptly"): dsl.Validate on families of VALID models of size n does an amount of work bounded by a
// stated polynomial budget in n.  Under gosym the work is the number of SSA instructions executed inside the real
// dsl.Validate (verifBounded: exceeding the budget ends the call and yields false).  The native replay cannot count
// instructions; it counts the heap objects allocated while dsl.Validate runs (verifBoundedMaxMallocs), an independent
// measure of work that does not depend on the machine's load, against a budget of the same form.
//
// Budgets (assumption, see C10_BUDGET_ASSUME in parts/registry.py): instructions(n) <= 8 * (a + b*n + c*n*n) and
// allocations(n) <= 4 * (a' + b'*n + c'*n*n), the coefficients fitted to the unchanged tree measured at n = 4, 8, 12, 16
// (C10BudgetMeasure).  The native factor is the smaller one so that a run that exceeds the instruction budget is
// confirmed natively.

import (
	"math/big"

	"github.com/microsoft/yardl/tooling/pkg/dsl"
)

const (
	c10budgetRecordChain = iota // R0 {x: int, v = x + 1}; Rk {inner: R(k-1), v = inner.v + inner.v}
	c10budgetAliasChain         // G0 = int*; Gk = Pair<G(k-1), G(k-1)> (the generic record Pair<A, B> instantiated on the previous alias twice); Use {g: Gn}
	c10budgetNesting            // T0 = int; Tk = [string, T(k-1)]* ; record field + protocol step of type Tn
	c10budgetGenericAliasChain  // G0<T> = T*; Gk<T> = Pair<G(k-1)<T>, G(k-1)<T>>; Use {g: Gn<int>}
	c10budgetNFamilies
)

var c10budgetFamilyNames = []string{"record-chain-computed-field-read-twice", "alias-chain-instantiating-a-generic-with-the-previous-alias-twice", "nested-unions-and-vectors", "generic-alias-chain-instantiating-the-previous-generic-alias-twice"}

func c10budgetName(prefix string, k int) string {
	return prefix + string(rune('a'+k/10)) + string(rune('a'+k%10))
}

func c10budgetModel(family, n int) *dsl.Namespace {
	b := &mb{file: "main/model.yml"}
	ns := "Main"
	nsp := &dsl.Namespace{Name: ns, IsTopLevel: true}
	add := func(td dsl.TypeDefinition) { nsp.TypeDefinitions = append(nsp.TypeDefinitions, td) }
	member := func(target dsl.Expression, name string) dsl.Expression {
		return &dsl.MemberAccessExpression{NodeMeta: b.meta(), Target: target, Member: name}
	}
	switch family {
	case c10budgetRecordChain:
		one := &dsl.IntegerLiteralExpression{NodeMeta: b.meta()}
		one.Value = *big.NewInt(1)
		r0 := b.record(ns, c10budgetName("R", 0), nil, b.field("x", b.st("int")))
		r0.ComputedFields = dsl.ComputedFields{&dsl.ComputedField{NodeMeta: b.meta(), Name: "v",
			Expression: &dsl.BinaryExpression{NodeMeta: b.meta(), Left: member(nil, "x"), Operator: dsl.BinaryOperator(0), Right: one}}}
		add(r0)
		for k := 1; k <= n; k++ {
			r := b.record(ns, c10budgetName("R", k), nil, b.field("inner", b.st(c10budgetName("R", k-1))))
			r.ComputedFields = dsl.ComputedFields{&dsl.ComputedField{NodeMeta: b.meta(), Name: "v",
				Expression: &dsl.BinaryExpression{NodeMeta: b.meta(), Left: member(member(nil, "inner"), "v"), Operator: dsl.BinaryOperator(0), Right: member(member(nil, "inner"), "v")}}}
			add(r)
		}
		nsp.Protocols = []*dsl.ProtocolDefinition{b.protocol(ns, "Proto", b.step("top", b.st(c10budgetName("R", n))))}
	case c10budgetAliasChain:
		add(b.record(ns, "Pair", []string{"A", "B"}, b.field("first", b.st("A")), b.field("second", b.st("B"))))
		add(b.alias(ns, c10budgetName("G", 0), nil, b.vec(b.st("int"))))
		for k := 1; k <= n; k++ {
			prev := c10budgetName("G", k-1)
			add(b.alias(ns, c10budgetName("G", k), nil, b.st("Pair", b.st(prev), b.st(prev))))
		}
		add(b.record(ns, "Use", nil, b.field("g", b.st(c10budgetName("G", n)))))
		nsp.Protocols = []*dsl.ProtocolDefinition{b.protocol(ns, "Proto", b.step("top", b.st("Use")))}
	case c10budgetGenericAliasChain:
		add(b.record(ns, "Pair", []string{"A", "B"}, b.field("first", b.st("A")), b.field("second", b.st("B"))))
		add(b.alias(ns, c10budgetName("G", 0), []string{"T"}, b.vec(b.st("T"))))
		for k := 1; k <= n; k++ {
			prev := c10budgetName("G", k-1)
			add(b.alias(ns, c10budgetName("G", k), []string{"T"}, b.st("Pair", b.st(prev, b.st("T")), b.st(prev, b.st("T")))))
		}
		add(b.record(ns, "Use", nil, b.field("g", b.st(c10budgetName("G", n), b.st("int")))))
		nsp.Protocols = []*dsl.ProtocolDefinition{b.protocol(ns, "Proto", b.step("top", b.st("Use")))}
	default:
		mk := func() dsl.Type {
			var t dsl.Type = b.st("int")
			for k := 1; k <= n; k++ {
				// (a case that is not a plain name needs an explicit tag)
				u := &dsl.GeneralizedType{NodeMeta: b.meta(), Cases: dsl.TypeCases{
					&dsl.TypeCase{NodeMeta: b.meta(), Tag: "text", Type: b.st("string")},
					&dsl.TypeCase{NodeMeta: b.meta(), Tag: "deeper", Type: t}}}
				t = b.vec(u)
			}
			return t
		}
		add(b.record(ns, "Deep", nil, b.field("d", mk())))
		nsp.Protocols = []*dsl.ProtocolDefinition{b.protocol(ns, "Proto", b.step("top", b.st("Deep")), b.step("direct", mk()))}
	}
	return nsp
}

// measured on the unchanged tree (instructions inside verifBounded at n = 4, 8, 12, 16):
//   record chain        103128  214672  354648  523504   ~ 19800 + 17300 n + 884 n^2
//   closed alias chain   63246  101874  140502  179130   ~ 24600 +  9660 n
//   nested types         84106  155262  226418  297574   ~ 12900 + 17790 n
//   generic alias chain  n = 1..6: 53907 100781 231765 688021 2423113 9229129 (x3.8 per level: NOT polynomial; the budget
//                        below is 2.5 x the closed chain's per-level cost plus a quadratic term, met for n <= 4 only)
// (re-fitted for the generic alias chain after the fixes 9ceb8f6 / 5f48fb4, which make validateMaps and validateUnionCases visit
//  instantiated definitions and type arguments: n = 3, 4, 5 now cost 399158, 1331402, 4919658 instructions - the same x3.7 per
//  level at twice the constant; the budget is doubled so that n <= 4 is within and n = 5 is beyond, as before)
var c10budgetSteps = [c10budgetNFamilies][3]int{{20000, 17500, 900}, {25000, 9700, 0}, {13000, 17800, 0}, {60000, 50000, 2000}}

// heap allocations of the native run at n = 4, 8, 12, 16 (stable to +-5 over runs):
//   record chain        414  921  1618  2520   ~ 107 + 52 n + 6.2 n^2
//   closed alias chain  355  600   845  1087   ~ 111 + 61 n
//   nested types        131  181   229   278   ~  82 + 12.3 n
//   generic alias chain n = 1..6: 330 746 2070 7018 26300 103027
var c10budgetMallocs = [c10budgetNFamilies][3]int{{110, 52, 7}, {115, 62, 0}, {85, 13, 0}, {600, 500, 20}}

const c10budgetStepFactor = 8
const c10budgetMallocFactor = 4

func c10budgetOf(factor int, coef [3]int, n int) int {
	return factor * (coef[0] + coef[1]*n + coef[2]*n*n)
}

var c10budgetKeyNames = []string{"record-chain", "closed-alias-chain", "nested-types", "generic-alias-chain"}

// C10Budget(maxN, maxNGeneric): every family, every n in 1..maxN (generic alias chain: 1..maxNGeneric).
func C10Budget(maxN int, maxNGeneric int) {
	family := verifChoose("family", c10budgetNFamilies)
	if family == c10budgetGenericAliasChain {
		maxN = maxNGeneric
	}
	n := 1 + verifChoose("n", maxN)
	verifOut("family", c10budgetKeyNames[family])
	verifOut("model", c10budgetFamilyNames[family])
	verifOut("n", n)
	verifOut("instruction-budget", c10budgetOf(c10budgetStepFactor, c10budgetSteps[family], n))
	verifOut("allocation-budget", c10budgetOf(c10budgetMallocFactor, c10budgetMallocs[family], n))
	model := c10budgetModel(family, n)
	var err error
	msg := ""
	panicked := false
	verifBoundedMaxMallocs = c10budgetOf(c10budgetMallocFactor, c10budgetMallocs[family], n)
	done := verifBounded(func() {
		msg, panicked = verifPanics(func() { _, err = dsl.Validate([]*dsl.Namespace{model}) })
	}, 200+40*n, c10budgetOf(c10budgetStepFactor, c10budgetSteps[family], n))
	verifBoundedMaxMallocs = 0
	verifAssert("validate-terminates-within-budget", done)
	if !done {
		return
	}
	verifOut("panic", firstLineOf(msg))
	verifAssert("validate-does-not-panic", !panicked)
	verifOut("err", errText(err))
	verifAssert("valid-model-accepted", err == nil)
	verifReach("c10-budget-end")
}

// C10BudgetMeasure(family, n): one unbounded run (used to obtain the figures behind the budgets: the engine reports the
// instructions executed per function, the native twin prints the allocation count when VERIF_BOUNDED_REPORT is set).
func C10BudgetMeasure(family int, n int) {
	model := c10budgetModel(family, n)
	var err error
	verifBoundedMaxMallocs = 1 << 40
	done := verifBounded(func() { _, err = dsl.Validate([]*dsl.Namespace{model}) }, 4000, 1<<40)
	verifBoundedMaxMallocs = 0
	verifOut("err", errText(err))
	verifAssert("measured-run-completes", done && err == nil)
}
