package zzverif

// C04 "the schema determines the encoding", for definitions that a protocol reaches ONLY through a type argument of a
// generic instantiation (local / imported generic record, local / imported generic alias, two-level nests, compound
// arguments), with the instantiation written as a step type, a stream item, a field of a record, or a closed alias:
//   * closure: every named type the protocol's encoding depends on (independent reachability walk over the model as
//     written, following type arguments) is listed in the schema;
//   * one wire-affecting edit of such a definition changes the schema text, and the same model gives the same text.

import (
	"math/big"

	"github.com/microsoft/yardl/tooling/pkg/dsl"
)

const (
	c04taRecord         = iota // Sample: !record {value: <ps>, more: string}
	c04taEnum                  // Sample: !enum of base <ebase>
	c04taAlias                 // Sample = <ps>
	c04taImportedRecord        // Lib.Sample: !record (as above), referred to from Ns
	c04taNTargets
)

var c04taTargetNames = []string{"record", "enum", "alias", "imported-record"}

const (
	c04taLocalRecord         = iota // Pair<X, int>
	c04taImportedGeneric            // Lib.Box<X>
	c04taLocalAlias                 // Opt<X>          (Opt<T> = T?)
	c04taImportedAlias              // Lib.Seq<X>      (Lib.Seq<T> = T*)
	c04taLocalInImported            // Lib.Box<Pair<int, X>>
	c04taImportedInLocal            // Pair<Lib.Seq<X>, string>
	c04taLocalAliasOfImported       // LocalBox<X>     (LocalBox<T> = Lib.Box<T>)
	c04taCompoundArgument           // Lib.Box<X*>
	// structural carriers: the definition is reached only through a position of a structural type (no generic involved).
	// Not every target fits every position (a map key must be a primitive scalar, possibly through an alias; an optional
	// alias is no union case): where the real validator rejects the model nothing is asserted.
	c04taMapValue    // string->X
	c04taMapKey      // X->int
	c04taArrayItem   // X[]
	c04taFixedVector // X*3
	c04taUnionCase   // [int, X]
	c04taMapInVector // (uint->X)*
	c04taEnumBase    // Level: !enum with base: X   (X an alias of an integer primitive)
	c04taFlagsBase   // Perm: !flags with base: X
	c04taNCarriers
)

var c04taCarrierNames = []string{"Pair<X,int>", "Lib.Box<X>", "Opt<X>", "Lib.Seq<X>", "Lib.Box<Pair<int,X>>", "Pair<Lib.Seq<X>,string>", "LocalBox<X>", "Lib.Box<X*>",
	"string->X", "X->int", "X[]", "X*3", "[int,X]", "(uint->X)*", "enum base X", "flags base X"}

const (
	c04taStep = iota
	c04taStreamItem
	c04taField
	c04taClosedAlias
	c04taNWheres
)

var c04taWhereNames = []string{"step", "stream-item", "record-field", "closed-alias"}

const (
	c04taEditNone       = iota
	c04taEditLeaf              // the primitive of the record field / the enum base / the alias target becomes another (symbolic) one
	c04taEditStructureA        // record: fields reordered; enum: a value changes; alias: target becomes optional
	c04taEditStructureB        // record: a field is dropped; enum: a symbol is added; alias: target becomes a vector
	c04taNEdits
)

// c04taPrior: 0 = the carrier is the only use of its generics; 1 / 2 = the protocol also uses every generic of the family with
// primitive arguments, in a step BEFORE / AFTER the carrier (the target is then reached only through a second / an
// earlier instantiation of the same generic)
var c04taPrior int

type c04taModel struct {
	ns, lib *dsl.Namespace
	prims   map[*dsl.SimpleType]bool // references to primitives (their names may be symbolic): never followed by the oracle
}

func (m *c04taModel) prim(b *mb, name string) *dsl.SimpleType {
	t := b.st(name)
	m.prims[t] = true
	return t
}

// c04taBuild: the model with the target definition in the given state.
func c04taBuild(target, carrier, where int, ps, ebase string, edit int) *c04taModel {
	m := &c04taModel{prims: map[*dsl.SimpleType]bool{}}
	b := &mb{file: "model.yml"}
	bl := &mb{file: "lib/lib.yml"}
	ns := "Ns"
	lib := &dsl.Namespace{Name: "Lib"}
	lib.TypeDefinitions = dsl.TypeDefinitions{
		bl.record("Lib", "Box", []string{"T"}, bl.field("item", bl.st("T")), bl.field("count", m.prim(bl, "uint"))),
		bl.alias("Lib", "Seq", []string{"T"}, bl.vec(bl.st("T"))),
	}
	n := &dsl.Namespace{Name: ns, IsTopLevel: true, References: []*dsl.Namespace{lib}}
	n.TypeDefinitions = dsl.TypeDefinitions{
		b.record(ns, "Pair", []string{"A", "B"}, b.field("first", b.st("A")), b.field("second", b.st("B"))),
		b.alias(ns, "Opt", []string{"T"}, b.opt(b.st("T"))),
		b.alias(ns, "LocalBox", []string{"T"}, b.st("Lib.Box", b.st("T"))),
	}
	// the definition that is reached only through a type argument
	tb, tn, tns, ref := b, n, ns, "Sample"
	if target == c04taImportedRecord {
		tb, tn, tns, ref = bl, lib, "Lib", "Lib.Sample"
	}
	var def dsl.TypeDefinition
	switch target {
	case c04taRecord, c04taImportedRecord:
		fv := tb.field("value", m.prim(tb, ps))
		fm := tb.field("more", m.prim(tb, "string"))
		fields := []*dsl.Field{fv, fm}
		switch edit {
		case c04taEditStructureA:
			fields = []*dsl.Field{fm, fv}
		case c04taEditStructureB:
			fields = []*dsl.Field{fv}
		}
		def = tb.record(tns, "Sample", nil, fields...)
	case c04taEnum:
		syms := []string{"low", "high"}
		if edit == c04taEditStructureB {
			syms = append(syms, "higher")
		}
		e := tb.enum(tns, "Sample", m.prim(tb, ebase), syms...)
		if edit == c04taEditStructureA {
			e.Values[1].IntegerValue = *big.NewInt(7)
		}
		def = e
	default:
		var t dsl.Type = m.prim(tb, ps)
		switch edit {
		case c04taEditStructureA:
			t = tb.opt(t)
		case c04taEditStructureB:
			t = tb.vec(t)
		}
		def = tb.alias(tns, "Sample", nil, t)
	}
	tn.TypeDefinitions = append(tn.TypeDefinitions, def)
	x := func() dsl.Type { return b.st(ref) }
	var c dsl.Type
	switch carrier {
	case c04taLocalRecord:
		c = b.st("Pair", x(), m.prim(b, "int"))
	case c04taImportedGeneric:
		c = b.st("Lib.Box", x())
	case c04taLocalAlias:
		c = b.st("Opt", x())
	case c04taImportedAlias:
		c = b.st("Lib.Seq", x())
	case c04taLocalInImported:
		c = b.st("Lib.Box", b.st("Pair", m.prim(b, "int"), x()))
	case c04taImportedInLocal:
		c = b.st("Pair", b.st("Lib.Seq", x()), m.prim(b, "string"))
	case c04taLocalAliasOfImported:
		c = b.st("LocalBox", x())
	case c04taCompoundArgument:
		c = b.st("Lib.Box", b.vec(x()))
	case c04taMapValue:
		c = b.mapOf(m.prim(b, "string"), x())
	case c04taMapKey:
		c = b.mapOf(x(), m.prim(b, "int"))
	case c04taArrayItem:
		c = b.gt(&dsl.Array{NodeMeta: b.meta()}, x())
	case c04taFixedVector:
		c = b.fvec(x(), 3)
	case c04taUnionCase:
		c = b.gt(nil, m.prim(b, "int"), x())
	case c04taMapInVector:
		c = b.vec(b.mapOf(m.prim(b, "uint"), x()))
	default:
		e := b.enum(ns, "Based", x(), "one", "two")
		e.Values[0].IntegerValue = *big.NewInt(1)
		e.Values[1].IntegerValue = *big.NewInt(2)
		e.IsFlags = carrier == c04taFlagsBase
		n.TypeDefinitions = append(n.TypeDefinitions, e)
		c = b.st("Based")
	}
	first := b.step("first", m.prim(b, "int"))
	var steps []*dsl.ProtocolStep
	switch where {
	case c04taStep:
		steps = []*dsl.ProtocolStep{first, b.step("payload", c)}
	case c04taStreamItem:
		steps = []*dsl.ProtocolStep{first, b.step("payload", b.strm(c))}
	case c04taField:
		n.TypeDefinitions = append(n.TypeDefinitions, b.record(ns, "Holder", nil, b.field("id", m.prim(b, "uint")), b.field("held", c)))
		steps = []*dsl.ProtocolStep{first, b.step("payload", b.st("Holder"))}
	default:
		n.TypeDefinitions = append(n.TypeDefinitions, b.alias(ns, "Held", nil, c))
		steps = []*dsl.ProtocolStep{first, b.step("payload", b.st("Held"))}
	}
	if c04taPrior != 0 {
		warm := b.record(ns, "Warm", nil,
			b.field("p", b.st("Pair", m.prim(b, "int"), m.prim(b, "int"))),
			b.field("bx", b.st("Lib.Box", m.prim(b, "int"))),
			b.field("o", b.st("Opt", m.prim(b, "int"))),
			b.field("s", b.st("Lib.Seq", m.prim(b, "int"))),
			b.field("lb", b.st("LocalBox", m.prim(b, "int"))),
			b.field("nest", b.st("Lib.Box", b.st("Pair", m.prim(b, "int"), m.prim(b, "string")))))
		n.TypeDefinitions = append(n.TypeDefinitions, warm)
		ws := b.step("warm", b.st("Warm"))
		if c04taPrior == 1 {
			steps = append([]*dsl.ProtocolStep{steps[0], ws}, steps[1:]...)
		} else {
			steps = append(steps, ws)
		}
	}
	n.Protocols = []*dsl.ProtocolDefinition{b.protocol(ns, "Proto", steps...)}
	// an unrelated definition and protocol (must not matter)
	n.TypeDefinitions = append(n.TypeDefinitions, b.record(ns, "Unrelated", nil, b.field("q", m.prim(b, "string"))))
	m.ns, m.lib = n, lib
	return m
}

// ---- independent oracle: which named types does a protocol's encoding depend on? ----------------------------------
// Walks the model AS WRITTEN (names, before validation): a reference depends on the definition it names, on whatever that
// definition's body refers to, and on its type arguments; type parameters and primitives are leaves.

type c04taDefs map[string]dsl.TypeDefinition

func c04taIndex(nss ...*dsl.Namespace) c04taDefs {
	idx := c04taDefs{}
	for _, n := range nss {
		for _, td := range n.TypeDefinitions {
			idx[n.Name+"."+td.GetDefinitionMeta().Name] = td
		}
	}
	return idx
}

func (m *c04taModel) reach(idx c04taDefs, ns string, tparams []*dsl.GenericTypeParameter, t dsl.Type, out map[string]bool) {
	switch t := t.(type) {
	case *dsl.SimpleType:
		if m.prims[t] {
			return
		}
		for _, a := range t.TypeArguments {
			m.reach(idx, ns, tparams, a, out)
		}
		for _, p := range tparams {
			if p.Name == t.Name {
				return
			}
		}
		q := t.Name
		if _, ok := idx[q]; !ok {
			q = ns + "." + t.Name
		}
		td, ok := idx[q]
		if !ok {
			verifAssert("oracle-resolves-every-name", false)
			return
		}
		if out[q] {
			return
		}
		out[q] = true
		meta := td.GetDefinitionMeta()
		switch d := td.(type) {
		case *dsl.RecordDefinition:
			for _, f := range d.Fields {
				m.reach(idx, meta.Namespace, meta.TypeParameters, f.Type, out)
			}
		case *dsl.NamedType:
			m.reach(idx, meta.Namespace, meta.TypeParameters, d.Type, out)
		case *dsl.EnumDefinition:
			if d.BaseType != nil {
				m.reach(idx, meta.Namespace, meta.TypeParameters, d.BaseType, out)
			}
		}
	case *dsl.GeneralizedType:
		for _, c := range t.Cases {
			if c.Type != nil {
				m.reach(idx, ns, tparams, c.Type, out)
			}
		}
		if mp, ok := t.Dimensionality.(*dsl.Map); ok {
			m.reach(idx, ns, tparams, mp.KeyType, out)
		}
	}
}

// c04taSchema: validates, returns the schema text of Ns.Proto and the first depended-on definition the schema does not list ("" if none)
func c04taSchema(m *c04taModel) (text string, missing string, ok bool) {
	idx := c04taIndex(m.lib, m.ns)
	need := map[string]bool{}
	for _, s := range m.ns.Protocols[0].Sequence {
		m.reach(idx, "Ns", nil, s.Type, need)
	}
	env, err := dsl.Validate([]*dsl.Namespace{m.lib, m.ns})
	if err != nil {
		verifOut("validate-error", err.Error())
		return "", "", false
	}
	for _, p := range c04Main(env).Protocols {
		if p.Name != "Proto" {
			continue
		}
		listed := map[string]bool{}
		for _, td := range dsl.GetProtocolSchema(p, env.SymbolTable).Types {
			listed[td.GetDefinitionMeta().GetQualifiedName()] = true
		}
		// fixed order: the names the oracle can produce
		for _, q := range []string{"Lib.Box", "Lib.Seq", "Lib.Sample", "Ns.Pair", "Ns.Opt", "Ns.LocalBox", "Ns.Sample", "Ns.Holder", "Ns.Held", "Ns.Based", "Ns.Warm"} {
			if need[q] && !listed[q] && missing == "" {
				missing = q
			}
		}
		return dsl.GetProtocolSchemaString(p, env.SymbolTable), missing, true
	}
	return "", "", false
}

// C04TypeArgs(small): target kind x carrier x where x edit, leaves symbolic.
func C04TypeArgs(small int) {
	c04Size(small)
	target := verifChoose("target", c04taNTargets)
	carrier := verifChoose("carrier", c04taNCarriers)
	where := 0
	if small == 1 {
		// quick tier: two of the four placements per carrier (step / record field for even carriers, stream item / closed alias for odd ones)
		where = 2*verifChoose("where", 2) + carrier%2
	} else {
		where = verifChoose("where", c04taNWheres)
	}
	edit := verifChoose("edit", c04taNEdits)
	verifOut("target", c04taTargetNames[target])
	verifOut("carrier", c04taCarrierNames[carrier])
	verifOut("where", c04taWhereNames[where])
	verifOut("edit", edit)
	ps := verifOneOf("ps", c04P1...)
	ebase := verifOneOf("ebase", "uint8", "int64")
	c04taPrior = 0
	if carrier < c04taMapValue {
		nprior := 3
		if small == 1 {
			nprior = 2 // quick tier: none / before the carrier
		}
		c04taPrior = verifChoose("other-instantiations-of-the-generics", nprior)
	}
	structural := carrier >= c04taMapValue
	s1, missing1, ok1 := c04taSchema(c04taBuild(target, carrier, where, ps, ebase, c04taEditNone))
	if structural && !ok1 {
		verifReach("c04-typeargs-position-does-not-take-the-target")
		return
	}
	verifAssert("base-validates", ok1)
	verifOut("missing", missing1)
	verifAssert("schema-lists-every-type-the-protocol-depends-on", missing1 == "")
	ps2, ebase2 := ps, ebase
	changed := edit != c04taEditNone
	if edit == c04taEditLeaf {
		if target == c04taEnum {
			ebase2 = verifOneOf("ebaseb", "uint8", "int64")
			changed = ebase2 != ebase
		} else {
			ps2 = verifOneOf("psb", c04P1...)
			changed = ps2 != ps
		}
	}
	s2, missing2, ok2 := c04taSchema(c04taBuild(target, carrier, where, ps2, ebase2, edit))
	if structural && !ok2 {
		verifReach("c04-typeargs-position-does-not-take-the-edited-target")
		return
	}
	verifAssert("edited-validates", ok2)
	verifAssert("schema-lists-every-type-the-protocol-depends-on", missing2 == "")
	verifOut("schema", s1)
	verifAssert("wire-edit-changes-schema", !changed || s1 != s2)
	verifAssert("same-model-same-schema", changed || s1 == s2)
	verifReach("c04-typeargs-end")
}
