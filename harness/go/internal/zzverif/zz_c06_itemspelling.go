package zzverif

// C06 (spelling of stream items / vector elements).  The item type of a `!stream` / `!vector` can be written flat
// (`items: [null, int]`, `items: [int, string]`: the cases belong to the dimensioned type itself, UnmarshalTypeCases)
// or nested (`items: int?`, `int?*`, `items: !union {int32: int, string: string}`: one case wrapping a scalar
// GeneralizedType, as applyTypeTail / UnmarshalUnionYAML build it).  Both spellings denote the same type, so
//   (a) the verdict class of old -> new is the documented one (docs/cpp/evolution.md, oracle upClass) and
//   (b) it equals the verdict obtained when both versions use the flat spelling,
// for every combination of spellings of the old and the new item type.

import (
	"github.com/microsoft/yardl/tooling/pkg/dsl"
)

var isShapes = []upShape{
	{false, []int{0}},   // int32
	{true, []int{0}},    // int32?
	{false, []int{0, 1}}, // [int32, string]
	{false, []int{1, 0}}, // [string, int32]
	{true, []int{0, 1}},  // [null, int32, string]
	{true, []int{1, 0}},  // [null, string, int32]
}

var isPool = []string{"int32", "string", "float32"}

var isContainers = []string{"stream", "vector"}

func isDim(b *mb, container int) dsl.Dimensionality {
	if container == 0 {
		return &dsl.Stream{NodeMeta: b.meta()}
	}
	return &dsl.Vector{NodeMeta: b.meta()}
}

// isItemType: the dimensioned type with item shape s, spelled flat or nested.
func isItemType(b *mb, s upShape, nested bool, container int) dsl.Type {
	if s.scalar() {
		return b.gt(isDim(b, container), b.st(isPool[s.cases[0]]))
	}
	if !nested {
		var cases []dsl.Type
		if s.null {
			cases = append(cases, nil)
		}
		for _, c := range s.cases {
			cases = append(cases, b.st(isPool[c]))
		}
		return b.gt(isDim(b, container), cases...)
	}
	var inner *dsl.GeneralizedType
	if s.optional() {
		// applyTypeTail(T, Optional)
		m := b.meta()
		inner = &dsl.GeneralizedType{NodeMeta: m, Cases: dsl.TypeCases{&dsl.TypeCase{NodeMeta: m}, &dsl.TypeCase{NodeMeta: m, Type: b.st(isPool[s.cases[0]])}}}
	} else {
		// UnmarshalUnionYAML: explicit tags (chosen equal to the tags the flat spelling derives)
		inner = &dsl.GeneralizedType{NodeMeta: b.meta()}
		if s.null {
			inner.Cases = append(inner.Cases, &dsl.TypeCase{NodeMeta: b.meta(), Tag: "null", ExplicitTag: true})
		}
		for _, c := range s.cases {
			inner.Cases = append(inner.Cases, &dsl.TypeCase{NodeMeta: b.meta(), Tag: isPool[c], ExplicitTag: true, Type: b.st(isPool[c])})
		}
	}
	return b.gt(isDim(b, container), inner)
}

func isModel(b *mb, t dsl.Type) *dsl.Namespace {
	ns := "Ns"
	steps := []*dsl.ProtocolStep{b.step("first", b.st("int32")), b.step("u", t), b.step("last", b.st("string"))}
	return &dsl.Namespace{Name: ns, IsTopLevel: true, Protocols: []*dsl.ProtocolDefinition{b.protocol(ns, "Proto", steps...)}}
}

// isVerdict: "silent" / "warning" / "error" of the real pipeline, "" if it could not be obtained.
func isVerdict(o, n upShape, oNested, nNested bool, container int) string {
	b0, b1 := &mb{file: "v0/model.yml"}, &mb{file: "model.yml"}
	oldEnv, errOld := dsl.Validate([]*dsl.Namespace{isModel(b0, isItemType(b0, o, oNested, container))})
	newEnv, errNew := dsl.Validate([]*dsl.Namespace{isModel(b1, isItemType(b1, n, nNested, container))})
	verifAssert("both-versions-valid", errOld == nil && errNew == nil)
	if errOld != nil || errNew != nil {
		verifOut("validate-error", errText(errOld)+errText(errNew))
		return ""
	}
	var warnings []string
	var err error
	msg, panicked := verifPanics(func() { _, warnings, err = dsl.ValidateEvolution(newEnv, []*dsl.Environment{oldEnv}, []string{"v0"}) })
	verifAssert("verdict-without-panic", !panicked)
	if panicked {
		verifOut("panic", msg)
		return ""
	}
	switch {
	case err != nil:
		return "error"
	case len(warnings) > 0:
		return "warning"
	}
	return "silent"
}

func C06ItemSpelling() {
	container := verifChoose("container", len(isContainers))
	o := isShapes[verifChoose("old-shape", len(isShapes))]
	n := isShapes[verifChoose("new-shape", len(isShapes))]
	class := upClass(o, n, []bool{true, true, true})
	if class == "" {
		return
	}
	oNested, nNested := false, false
	if !o.scalar() {
		oNested = verifBool("old-item-nested")
	}
	if !n.scalar() {
		nNested = verifBool("new-item-nested")
	}
	verifOut("edit", "itemspelling")
	verifOut("container", isContainers[container]+"-items")
	verifOut("old", upText(o, isPool))
	verifOut("new", upText(n, isPool))
	verifOut("class", class)
	flat := isVerdict(o, n, false, false, container)
	verifOut("flat-verdict", flat)
	if flat == "" {
		return
	}
	if !oNested && !nNested {
		verifAssert("flat-spelling-documented-class", flat == class)
		verifReach("c06-itemspelling-end")
		return
	}
	verifOut("nested-spelling", true)
	v := isVerdict(o, n, oNested, nNested, container)
	verifOut("spelling-verdict", v)
	if v == "" {
		return
	}
	verifAssert("nested-spelling-documented-class", v == class)
	verifAssert("nested-spelling-same-verdict-as-flat", v == flat)
	verifReach("c06-itemspelling-end")
}
