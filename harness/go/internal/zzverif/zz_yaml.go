package zzverif

// YAML layer (C10 totality, C13 spellings, C09 value rules): yardl's own UnmarshalYAML methods
// (pkg/dsl/yaml.go, ~1000 lines) are executed on yaml.Node trees whose *shape* is chosen by the
// harness grammar and whose *content* - the tag of every node, the text of every scalar, every
// mapping key - is a symbolic string over a finite vocabulary, so the forks are the branches of the
// real code (`switch value.Tag`, `switch k.Value`, ...), not an enumeration of inputs.
//
// Text-reachability: a scalar's (tag, value) pair is a function of one symbolic descriptor
// (verifMapStr), mirroring how yaml.v3 resolves plain scalars; container nodes carry their default
// tag or any custom tag.  Document / alias nodes, anchors and merge keys are outside the bound.

import (
	"strconv"
	"strings"

	"github.com/microsoft/yardl/tooling/internal/validation"
	"github.com/microsoft/yardl/tooling/pkg/dsl"
	"gopkg.in/yaml.v3"
)

type yg struct {
	n        int
	line     int
	maxPairs int
	maxItems int
	aliases  bool       // also generate alias nodes (*anchor)
	anchored *yaml.Node // an anchored node outside the generated subtree (acyclic alias target)
}

func (g *yg) label(s string) string {
	g.n++
	return s + strconv.Itoa(g.n)
}

func (g *yg) at(n *yaml.Node) *yaml.Node {
	g.line++
	n.Line = g.line
	n.Column = 1 + g.line%5
	return n
}

func (g *yg) sc(tag, val string) *yaml.Node {
	return g.at(&yaml.Node{Kind: yaml.ScalarNode, Tag: tag, Value: val})
}
func (g *yg) str(v string) *yaml.Node { return g.sc("!!str", v) }
func (g *yg) mp(tag string, kv ...*yaml.Node) *yaml.Node {
	return g.at(&yaml.Node{Kind: yaml.MappingNode, Tag: tag, Content: kv})
}
func (g *yg) sq(tag string, items ...*yaml.Node) *yaml.Node {
	return g.at(&yaml.Node{Kind: yaml.SequenceNode, Tag: tag, Content: items})
}

// scalar vocabulary: descriptor -> (tag, text)
var yScalarDesc = []string{"int", "Foo", "vec", "fvec", "bigvec", "map", "opt", "arr", "arrf", "gen", "badtype", "empty",
	"i3", "i0", "ineg", "ibig", "null", "bool", "float", "tvec", "trec", "tbogus", "ihuge"}
var yScalarTag = []string{"!!str", "!!str", "!!str", "!!str", "!!str", "!!str", "!!str", "!!str", "!!str", "!!str", "!!str", "!!str",
	"!!int", "!!int", "!!int", "!!float", "!!null", "!!bool", "!!float", "!vector", "!record", "!bogus", "!!int"}
var yScalarVal = []string{"int", "Foo", "int*", "int*3", "int*18446744073709551616", "string->int", "int?", "int[x,y]", "float[2,3]", "Foo<int>", "(", "",
	"3", "0", "-1", "18446744073709551616", "", "true", "1.5", "5", "", "x", "30000000"}

// a smaller scalar vocabulary for positions below the first level (keeps the quick tier small)
var yScalarDescSmall = []string{"int", "Foo", "fvec", "badtype", "i3", "ineg", "ibig", "ihuge", "null", "tbogus"}

func ySub(desc []string) (tags, vals []string) {
	for _, d := range desc {
		for i, e := range yScalarDesc {
			if e == d {
				tags = append(tags, yScalarTag[i])
				vals = append(vals, yScalarVal[i])
			}
		}
	}
	return
}

func (g *yg) symScalar(label string, desc []string) *yaml.Node {
	tags, vals := ySub(desc)
	d := verifOneOf(label, desc...)
	tag := verifMapStr(label+"tag", d, desc, tags)
	val := verifMapStr(label+"val", d, desc, vals)
	return g.sc(tag, val)
}

// mapping keys: descriptor -> (tag, text)
var yKeyDesc = []string{"fields", "computedFields", "sequence", "items", "length", "dimensions", "keys", "values", "base", "name", "args", "x", "Bad", "knull", "kint"}
var yKeyTag = []string{"!!str", "!!str", "!!str", "!!str", "!!str", "!!str", "!!str", "!!str", "!!str", "!!str", "!!str", "!!str", "!!str", "!!null", "!!int"}
var yKeyVal = []string{"fields", "computedFields", "sequence", "items", "length", "dimensions", "keys", "values", "base", "name", "args", "x", "Bad", "null", "1"}

func (g *yg) symKey(label string) *yaml.Node {
	d := verifOneOf(label, yKeyDesc...)
	tag := verifMapStr(label+"tag", d, yKeyDesc, yKeyTag)
	val := verifMapStr(label+"val", d, yKeyDesc, yKeyVal)
	return g.sc(tag, val)
}

var yMapTags = []string{"!!map", "!record", "!enum", "!flags", "!protocol", "!vector", "!array", "!map", "!union", "!stream", "!generic", "!bogus"}
var ySeqTags = []string{"!!seq", "!record", "!enum", "!protocol", "!vector", "!union", "!generic"}

// node: an arbitrary node of at most the given depth; every string in it is symbolic.
// With g.aliases, a node can also be an alias (*anchor) of an anchored node elsewhere in the document
// or of the node that encloses it (yaml.v3 registers an anchor before parsing its children, so a
// document can contain an alias to an enclosing node).
func (g *yg) node(depth int, label string, parent *yaml.Node) *yaml.Node {
	nk := 1
	if depth > 0 {
		nk = 3
	}
	desc := yScalarDesc
	if depth == 0 {
		desc = yScalarDescSmall
	}
	k := verifChoose(label+"kind", nk)
	if g.aliases && k == 0 && verifChoose(label+"alias", 2) == 1 {
		tgt := g.anchored
		if parent != nil && verifChoose(label+"cyclic", 2) == 1 {
			tgt = parent
		}
		tgt.Anchor = "a"
		return g.at(&yaml.Node{Kind: yaml.AliasNode, Value: "a", Alias: tgt})
	}
	switch k {
	case 0:
		return g.symScalar(label, desc)
	case 1:
		np := verifChoose(label+"pairs", g.maxPairs+1)
		tag := verifOneOf(label+"tag", yMapTags...)
		m := g.mp(tag)
		for i := 0; i < np; i++ {
			l := label + "." + strconv.Itoa(i)
			m.Content = append(m.Content, g.symKey(l+"key"), g.node(depth-1, l, m))
		}
		return m
	default:
		ni := verifChoose(label+"items", g.maxItems+1)
		tag := verifOneOf(label+"tag", ySeqTags...)
		sq := g.sq(tag)
		for i := 0; i < ni; i++ {
			sq.Content = append(sq.Content, g.node(depth-1, label+"."+strconv.Itoa(i), sq))
		}
		return sq
	}
}

// fooDef: `Foo: !record {fields: {x: int}}` (so that the name Foo resolves)
func (g *yg) fooDef() []*yaml.Node {
	return []*yaml.Node{g.str("Foo"), g.mp("!record", g.str("fields"), g.mp("!!map", g.str("x"), g.str("int")))}
}

// yamlPipeline runs what ParseYamlInDir + validatePackage do with one parsed document and checks totality.
func yamlPipeline(root *yaml.Node) (ns *dsl.Namespace, perr error, verr error) {
	return yamlPipelineB(root, false)
}

// bounded: the tree may be cyclic (aliases of enclosing nodes): termination of the YAML layer is an obligation
func yamlPipelineB(root *yaml.Node, bounded bool) (ns *dsl.Namespace, perr error, verr error) {
	const file = "model.yml"
	ns = &dsl.Namespace{Name: "Ns"}
	var msg string
	var panicked bool
	if bounded {
		done := verifBounded(func() { msg, panicked = verifPanics(func() { perr = ns.UnmarshalYAML(root) }) }, 120, 400000)
		verifAssert("unmarshal-terminates", done)
		if !done {
			return nil, nil, nil
		}
	} else {
		msg, panicked = verifPanics(func() { perr = ns.UnmarshalYAML(root) })
	}
	verifOut("unmarshal-panic", msg)
	verifAssert("unmarshal-does-not-panic", !panicked)
	if panicked {
		return nil, nil, nil
	}
	if perr != nil {
		ve := validation.NewValidationError(perr, file)
		verifOut("parse-error", ve.Error())
		verifAssert("parse-error-has-line", ve.Line != nil)
		return nil, perr, nil
	}
	// the position post-pass of ParseYamlInDir (it panics on a node without line / column)
	missing := 0
	msg, panicked = verifPanics(func() { missing = yamlPositionPass(ns, file) })
	verifOut("position-pass-panic", msg)
	verifAssert("position-pass-does-not-panic", !panicked)
	if panicked {
		return nil, nil, nil
	}
	verifAssert("every-ast-node-has-a-position", missing == 0)
	if missing != 0 {
		return nil, nil, nil
	}
	ns.IsTopLevel = true
	msg, panicked = verifPanics(func() { _, verr = dsl.Validate([]*dsl.Namespace{ns}) })
	verifOut("validate-panic", msg)
	verifAssert("validate-does-not-panic", !panicked)
	if panicked {
		return nil, nil, nil
	}
	if verr != nil {
		ok := true
		for _, line := range strings.Split(verr.Error(), "\n") {
			if strings.HasPrefix(line, "❌") {
				pre := "❌ " + file + ":"
				if !strings.HasPrefix(line, pre) || len(line) == len(pre) || line[len(pre)] < '0' || line[len(pre)] > '9' {
					ok = false
				}
			}
		}
		verifOut("validation-error", verr.Error())
		verifAssert("validation-error-has-file-and-line", ok)
	}
	return ns, nil, verr
}

// yamlPositionPass: the position post-pass of ParseYamlInDir; returns the number of nodes without line / column
// (ParseYamlInDir panics on the first one).
func yamlPositionPass(ns *dsl.Namespace, file string) int {
	missing := 0
	dsl.Visit(ns, func(self dsl.Visitor, node dsl.Node) {
		switch node := node.(type) {
		case *dsl.Namespace:
		case *dsl.DefinitionMeta:
			for _, p := range node.TypeParameters {
				self.Visit(p)
			}
		default:
			nm := node.GetNodeMeta()
			nm.File = file
			if nm.Line == 0 || nm.Column == 0 {
				missing++
			}
		}
		self.VisitChildren(node)
	})
	return missing
}

// C10Yaml(ctx, depth, pairs, items): totality of UnmarshalYAML + Validate on symbolic node trees.
//
//	ctx 0: Name: X                               (X arbitrary: alias / tagged definition)
//	ctx 1: R: !record {fields: {a: X}}
//	ctx 2: P: !protocol {sequence: {s: X}}
//	ctx 3: E: !enum|!flags {base: <scalar>, values: X}
//	ctx 4: A: !vector|!array|!map|!stream|!union|!generic {k1: X, k2: <scalar>}   (symbolic keys)
//	ctx 5: <symbolic name>: <simple definition>   (definition names incl. generic parameter lists)
//	ctx 6: R: !record {fields: {a: int}, computedFields: {c: X}}
func C10Yaml(ctx, depth, pairs, items int) {
	g := &yg{maxPairs: pairs, maxItems: items}
	if ctx >= 10 {
		// contexts 10..: the same contexts with alias nodes
		ctx -= 10
		g.aliases = true
	}
	var kv []*yaml.Node
	kv = append(kv, g.fooDef()...)
	g.anchored = kv[1].Content[1] // Foo's `fields` mapping
	switch ctx {
	case 0:
		kv = append(kv, g.str("Name"), g.node(depth, "x", nil))
	case 1:
		kv = append(kv, g.str("R"), g.mp("!record", g.str("fields"), g.mp("!!map", g.str("a"), g.node(depth, "x", nil))))
	case 2:
		kv = append(kv, g.str("P"), g.mp("!protocol", g.str("sequence"), g.mp("!!map", g.str("s"), g.node(depth, "x", nil))))
	case 3:
		tag := verifOneOf("enumtag", "!enum", "!flags")
		kv = append(kv, g.str("E"), g.mp(tag, g.str("base"), g.symScalar("b", []string{"int", "Foo", "fvec", "i3", "null", "tbogus"}), g.str("values"), g.node(depth, "v", nil)))
	case 4:
		tag := verifOneOf("typetag", "!vector", "!array", "!map", "!stream", "!union", "!generic")
		kv = append(kv, g.str("A"), g.mp(tag, g.symKey("k1"), g.node(depth, "x", nil), g.symKey("k2"), g.symScalar("y", yScalarDescSmall)))
	case 5:
		// the key of a definition: a plain scalar as yaml.v3 resolves it (string, integer, null, boolean) or custom-tagged
		nd := []string{"Name", "Rec<T>", "Rec<T, U>", "Rec<T<U>>", "Rec<int*>", "name", "N<", "", "A.B", "int*", "3", "null", "tilde", "true", "tagged"}
		nv := []string{"Name", "Rec<T>", "Rec<T, U>", "Rec<T<U>>", "Rec<int*>", "name", "N<", "", "A.B", "int*", "3", "null", "~", "true", "Name"}
		nt := []string{"!!str", "!!str", "!!str", "!!str", "!!str", "!!str", "!!str", "!!str", "!!str", "!!str", "!!int", "!!null", "!!null", "!!bool", "!record"}
		ndesc := verifOneOf("defname", nd...)
		name := verifMapStr("defnameval", ndesc, nd, nv)
		nameTag := verifMapStr("defnametag", ndesc, nd, nt)
		def := g.mp("!record", g.str("fields"), g.mp("!!map", g.str("a"), g.symScalar("ftype", []string{"int", "Foo", "gen", "opt"})))
		if verifChoose("defkind", 2) == 1 {
			def = g.symScalar("alias", []string{"int", "Foo", "gen", "vec", "null"})
		}
		kv = append(kv, g.sc(nameTag, name), def)
	default:
		kv = append(kv, g.str("R"), g.mp("!record", g.str("fields"), g.mp("!!map", g.str("a"), g.str("int"), g.str("o"), g.str("int?"), g.str("v"), g.str("int*"), g.str("fv"), g.str("int*3"), g.str("arr"), g.str("float[x,y]"), g.str("m"), g.str("string->int")),
			g.str("computedFields"), g.mp("!!map", g.str("c"), g.exprNode(depth, "e"))))
	}
	yamlPipelineB(g.mp("!!map", kv...), g.aliases)
	verifReach("c10-yaml-end")
}

// exprNode: computed-field expression nodes (scalars of several tags, !switch mappings)
func (g *yg) exprNode(depth int, label string) *yaml.Node {
	nk := 1
	if depth > 0 {
		nk = 3
	}
	switch verifChoose(label+"kind", nk) {
	case 0:
		desc := []string{"a", "lit", "neg", "flt", "bool", "null", "bad", "sw", "call", "empty",
			"vsubbig", "msubint", "vsub", "vsubf", "asub", "asubz", "asubdup", "asubmix", "asubmany", "msub", "unclosed", "member", "conv", "pow", "sizex", "sizeq", "dimidx", "strlit", "biglit"}
		tags := []string{"!!str", "!!int", "!!int", "!!float", "!!bool", "!!null", "!!str", "!switch", "!!str", "!!str",
			"!!str", "!!str", "!!str", "!!str", "!!str", "!!str", "!!str", "!!str", "!!str", "!!str", "!!str", "!!str", "!!str", "!!str", "!!str", "!!str", "!!str", "!!str", "!!str"}
		vals := []string{"a", "1", "-1", "1.5", "true", "", "a +", "o", "size(a)", "",
			"fv[5]", "m[1]", "v[0]", "v[1.5]", "arr[x:0, y:1]", "arr[z:0, y:1]", "arr[x:0, x:1]", "arr[y:0, 1]", "arr[0, 1, 2]", "m[\"k\"]", "v[a", "a.b", "a as float", "-a ** 2", "size(arr, \"x\")", "size(arr, \"q\")", "dimensionIndex(arr, 'y')", "\"s\"", "99999999999999999999999999"}
		d := verifOneOf(label, desc...)
		return g.sc(verifMapStr(label+"tag", d, desc, tags), verifMapStr(label+"val", d, desc, vals))
	case 1:
		// {!switch target: {pattern: expr, ...}} and ill-formed variants
		keyTag := verifOneOf(label+"keytag", "!switch", "!!str")
		valTag := verifOneOf(label+"valtag", "!!map", "!bogus")
		ncases := verifChoose(label+"cases", g.maxPairs+1)
		var cases []*yaml.Node
		for i := 0; i < ncases; i++ {
			l := label + "." + strconv.Itoa(i)
			desc := []string{"int", "null", "decl", "nulldecl", "discard", "bad", "kint"}
			tags := []string{"!!str", "!!null", "!!str", "!!str", "!!str", "!!str", "!!int"}
			vals := []string{"int", "null", "int v", "null v", "_", "(", "1"}
			d := verifOneOf(l+"pat", desc...)
			cases = append(cases, g.sc(verifMapStr(l+"pattag", d, desc, tags), verifMapStr(l+"patval", d, desc, vals)), g.exprNode(depth-1, l))
		}
		return g.mp("!!map", g.sc(keyTag, verifOneOf(label+"target", "o", "a", "nosuch")), g.mp(valTag, cases...))
	default:
		return g.sq("!!seq", g.exprNode(depth-1, label+".0"))
	}
}

// ---- C13: alternative spellings of the same type ---------------------------------------------------

var yIntTexts = []string{"3", "0", "1", "2", "18446744073709551615", "18446744073709551616", "99999999999999999999999"}
var yIntTags = []string{"!!int", "!!int", "!!int", "!!int", "!!int", "!!float", "!!float"}

// intScalar: a plain integer scalar as yaml.v3 resolves it (beyond 64 bits it is tagged !!float)
func (g *yg) intScalar(label string, text string) *yaml.Node {
	return g.sc(verifMapStr(label, text, yIntTexts, yIntTags), text)
}

type ySpelling struct {
	short *yaml.Node // shorthand spelling
	long  *yaml.Node // expanded spelling
}

// spell returns the same type written in shorthand and in expanded syntax.  Leaves (primitive names,
// lengths, dimension names) are symbolic strings shared by both spellings.
func (g *yg) spell(depth int, label string) (string, func() *yaml.Node) {
	prim := func(l string) string { return verifOneOf(l, "int", "uint64", "float", "string", "Foo", "Nope") }
	n := 2
	if depth > 0 {
		n = 12
	}
	switch verifChoose(label+"shape", n) {
	case 0:
		p := prim(label + "p")
		return p, func() *yaml.Node { return g.str(p) }
	case 1: // primitive aliases are spellings of the same type: int == int32, etc.
		k := verifChoose(label+"alias", 6)
		a := []string{"int", "uint", "long", "ulong", "float", "double"}[k]
		b := []string{"int32", "uint32", "int64", "uint64", "float32", "float64"}[k]
		return a, func() *yaml.Node { return g.str(b) }
	case 2: // T? == [null, T]
		s, l := g.spell(depth-1, label+".o")
		return "(" + s + ")?", func() *yaml.Node { return g.sq("!!seq", g.sc("!!null", "null"), l()) }
	case 3: // T* == !vector {items: T}
		s, l := g.spell(depth-1, label+".v")
		return "(" + s + ")*", func() *yaml.Node { return g.mp("!vector", g.str("items"), l()) }
	case 4: // T*N == !vector {items: T, length: N}
		s, l := g.spell(depth-1, label+".f")
		n := verifOneOf(label+"len", "3", "0", "1", "18446744073709551615", "18446744073709551616", "99999999999999999999999")
		return "(" + s + ")*" + n, func() *yaml.Node { return g.mp("!vector", g.str("items"), l(), g.str("length"), g.intScalar(label+"lentag", n)) }
	case 5: // K->V == !map {keys: K, values: V}
		k := verifOneOf(label+"key", "string", "int", "Foo")
		s, l := g.spell(depth-1, label+".m")
		return k + "->(" + s + ")", func() *yaml.Node { return g.mp("!map", g.str("keys"), g.str(k), g.str("values"), l()) }
	case 6: // T[] == !array {items: T}
		s, l := g.spell(depth-1, label+".a")
		return "(" + s + ")[]", func() *yaml.Node { return g.mp("!array", g.str("items"), l()) }
	case 7: // T[,] == !array {items: T, dimensions: 2}
		s, l := g.spell(depth-1, label+".r")
		return "(" + s + ")[,]", func() *yaml.Node { return g.mp("!array", g.str("items"), l(), g.str("dimensions"), g.sc("!!int", "2")) }
	case 8: // T[x,y] == dimensions: [x, y] == dimensions: {x: , y: }
		s, l := g.spell(depth-1, label+".n")
		x, y := verifOneOf(label+"dx", "x", "row"), verifOneOf(label+"dy", "y", "x")
		form := verifChoose(label+"dimform", 2)
		return "(" + s + ")[" + x + "," + y + "]", func() *yaml.Node {
			if form == 0 {
				return g.mp("!array", g.str("items"), l(), g.str("dimensions"), g.sq("!!seq", g.str(x), g.str(y)))
			}
			return g.mp("!array", g.str("items"), l(), g.str("dimensions"), g.mp("!!map", g.str(x), g.sc("!!null", ""), g.str(y), g.sc("!!null", "")))
		}
	case 9: // T[x:2, y:N] == dimensions: {x: 2, y: N};  T[2, N] == dimensions: [2, N]
		s, l := g.spell(depth-1, label+".x")
		n := verifOneOf(label+"dimlen", "3", "0", "18446744073709551615", "18446744073709551616")
		if verifChoose(label+"named", 2) == 0 {
			return "(" + s + ")[x:2,y:" + n + "]", func() *yaml.Node {
				return g.mp("!array", g.str("items"), l(), g.str("dimensions"), g.mp("!!map", g.str("x"), g.sc("!!int", "2"), g.str("y"), g.intScalar(label+"dimtag", n)))
			}
		}
		return "(" + s + ")[2," + n + "]", func() *yaml.Node {
			return g.mp("!array", g.str("items"), l(), g.str("dimensions"), g.sq("!!seq", g.sc("!!int", "2"), g.intScalar(label+"dimtag", n)))
		}
	case 10: // Box<T> == !generic {name: Box, args: [T]} == !generic {name: Box, args: T}
		s, l := g.spell(depth-1, label+".g")
		if depth == 1 {
			// a type argument that is itself written in expanded syntax (a tagged mapping / a sequence), also at the smallest depth
			switch verifChoose(label+"argshape", 4) {
			case 1:
				p := s
				s, l = "("+p+")*", func() *yaml.Node { return g.mp("!vector", g.str("items"), g.str(p)) }
			case 2:
				p := s
				s, l = "string->("+p+")", func() *yaml.Node { return g.mp("!map", g.str("keys"), g.str("string"), g.str("values"), g.str(p)) }
			case 3:
				p := s
				s, l = "("+p+")?", func() *yaml.Node { return g.sq("!!seq", g.sc("!!null", "null"), g.str(p)) }
			}
		}
		form := verifChoose(label+"argform", 2)
		if probe := l(); probe.Kind == yaml.SequenceNode {
			form = 0 // `args: [null, T]` is a list of two arguments, not one optional argument: a sequence-shaped argument needs the list form
		}
		return "Box<" + s + ">", func() *yaml.Node {
			if form == 0 {
				return g.mp("!generic", g.str("name"), g.str("Box"), g.str("args"), g.sq("!!seq", l()))
			}
			return g.mp("!generic", g.str("name"), g.str("Box"), g.str("args"), l())
		}
	default: // T?* and friends: an optional nested in the shorthand string vs the expanded optional
		s, l := g.spell(depth-1, label+".q")
		return "(" + s + ")?*", func() *yaml.Node { return g.mp("!vector", g.str("items"), g.sq("!!seq", g.sc("!!null", "null"), l())) }
	}
}

// C13Yaml(depth): the same model written with shorthand and with expanded type syntax is the same model.
func C13Yaml(depth int) {
	g := &yg{}
	short, long := g.spell(depth, "t")
	build := func(field *yaml.Node, step *yaml.Node, item *yaml.Node) *yaml.Node {
		kv := g.fooDef()
		kv = append(kv, g.str("Box<T>"), g.mp("!record", g.str("fields"), g.mp("!!map", g.str("v"), g.str("T"))))
		kv = append(kv, g.str("R"), g.mp("!record", g.str("fields"), g.mp("!!map", g.str("a"), field)))
		kv = append(kv, g.str("P"), g.mp("!protocol", g.str("sequence"), g.mp("!!map", g.str("s"), step, g.str("t"), g.mp("!stream", g.str("items"), item), g.str("r"), g.str("R"))))
		return g.mp("!!map", kv...)
	}
	rootA := build(g.str(short), g.str(short), g.str(short))
	rootB := build(long(), long(), long())
	nsA, perrA, verrA := yamlPipeline(rootA)
	nsB, perrB, verrB := yamlPipeline(rootB)
	okA := nsA != nil && perrA == nil && verrA == nil
	okB := nsB != nil && perrB == nil && verrB == nil
	verifOut("short", short)
	verifOut("accepted-short", okA)
	verifOut("accepted-long", okB)
	verifAssert("both-spellings-accepted-or-both-rejected", okA == okB)
	if okA && okB {
		envA, _ := dsl.Validate([]*dsl.Namespace{nsA})
		envB, _ := dsl.Validate([]*dsl.Namespace{nsB})
		sa := dsl.GetProtocolSchemaString(envA.Namespaces[0].Protocols[0], envA.SymbolTable)
		sb := dsl.GetProtocolSchemaString(envB.Namespaces[0].Protocols[0], envB.SymbolTable)
		verifOut("schema-short", sa)
		verifOut("schema-long", sb)
		verifAssert("same-schema", sa == sb)
		verifReach("c13-yaml-compared")
	}
	verifReach("c13-yaml-end")
}
