package zzverif

// C19: the static type of a computed field of a GENERIC record is decided per instantiation.
//
// G<T> {w: T*, computed first: w[0], again: first};  R {gi: G<P1>, gs: G<P2>, computed a: gi.<cf> + gi.<cf>,
// b: gs.<cf> + gs.<cf>} with symbolic numeric primitives P1, P2, a symbolic choice of the referenced computed field and a
// symbolic declaration order of a and b.  The real dsl.Validate resolves the types.  Obligations: the model is accepted, the
// static type of a is the promotion of P1 and that of b the promotion of P2 - whatever the other instantiation is and
// whichever of the two is resolved first.

import (
	"github.com/microsoft/yardl/tooling/pkg/dsl"
)

func c19giPromoted(p string) string {
	want := c19sFold([]string{p, p})
	switch want {
	case "int8", "uint8", "int16", "uint16":
		want = "int32"
	}
	return want
}

// C19GenericInstances(full)
func C19GenericInstances(full int) {
	vocab := c19sPrimsQuick
	if full > 0 {
		vocab = numericPrims
	}
	p1 := verifOneOf("first-instantiation", vocab...)
	p2 := verifOneOf("second-instantiation", vocab...)
	cf := []string{"first", "again"}[verifChoose("referenced-computed-field", 2)]
	bFirst := verifChoose("second-declared-first", 2) == 1
	verifOut("p1", p1)
	verifOut("p2", p2)
	b := &mb{file: "model.yml"}
	g := &eg{b: b}
	gen := b.record("Ns", "G", []string{"T"}, b.field("w", b.vec(b.st("T"))))
	first := &dsl.SubscriptExpression{NodeMeta: b.meta(), Target: g.member(nil, "w"), Arguments: []*dsl.SubscriptArgument{{NodeMeta: b.meta(), Value: g.intLit(0)}}}
	gen.ComputedFields = dsl.ComputedFields{{NodeMeta: b.meta(), Name: "first", Expression: first}, {NodeMeta: b.meta(), Name: "again", Expression: g.member(nil, "first")}}
	rec := b.record("Ns", "R", nil, b.field("gi", b.st("G", b.st(p1))), b.field("gs", b.st("G", b.st(p2))))
	sum := func(field string) dsl.Expression {
		return &dsl.BinaryExpression{NodeMeta: b.meta(), Left: g.member(g.member(nil, field), cf), Operator: dsl.BinaryOpAdd, Right: g.member(g.member(nil, field), cf)}
	}
	ca := &dsl.ComputedField{NodeMeta: b.meta(), Name: "a", Expression: sum("gi")}
	cb := &dsl.ComputedField{NodeMeta: b.meta(), Name: "b", Expression: sum("gs")}
	if bFirst {
		rec.ComputedFields = dsl.ComputedFields{cb, ca}
	} else {
		rec.ComputedFields = dsl.ComputedFields{ca, cb}
	}
	n := &dsl.Namespace{Name: "Ns", IsTopLevel: true, TypeDefinitions: dsl.TypeDefinitions{gen, rec}}
	env, err := dsl.Validate([]*dsl.Namespace{n})
	if err != nil {
		verifOut("error", err.Error())
	}
	verifAssert("accepted", err == nil)
	if err != nil {
		return
	}
	types := map[string]string{}
	for _, td := range env.Namespaces[0].TypeDefinitions {
		if r, ok := td.(*dsl.RecordDefinition); ok && r.Name == "R" {
			for _, c := range r.ComputedFields {
				types[c.Name] = c19PrimName(c.Expression.GetResolvedType())
			}
		}
	}
	wa, wb := c19giPromoted(p1), c19giPromoted(p2)
	verifOut("a-type", types["a"])
	verifOut("b-type", types["b"])
	verifAssert("computed-field-of-the-first-instantiation-has-its-own-type", types["a"] == wa)
	verifAssert("computed-field-of-the-second-instantiation-has-its-own-type", types["b"] == wb)
	verifReach("c19gi-end")
}
