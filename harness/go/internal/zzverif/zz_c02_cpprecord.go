package zzverif

// C02 (C++ emitter level): the NDJSON to_json / from_json pair emitted for a record definition
// (cpp/ndjson.writeRecordConverters), read back into statements (zz_cppstmt.go) and evaluated on an abstract
// nlohmann::ordered_json value and an abstract struct value, must denote the documented mapping
// (docs/reference/ndjson.md: "Records are serialized as JSON objects, with a JSON field for each record field.
// Fields are skipped if they are options or unions with null as a option and the value is null"):
//
//   to_json(v)    is a JSON OBJECT - never null, never an array - whose keys are exactly the model names of the
//                 fields that are not (nullable and null), each once, each holding that member's value
//   from_json     of that object gives v back, without an error - into a value-initialised destination and into a REUSED one
//                 holding an arbitrary previous value (the generated CopyTo / batch reads read every item into the same object)
//
// The struct the converters work on is read from the emitted types.h text (member types and names in declaration
// order, c14tReadStruct); a member the converters mention that the struct does not declare is a failure.
//
// Meaning given to what the bodies call (nlohmann/json 3.x basic_json, include/detail/ndjson/serializers.h):
//   j = ordered_json::object()                      j becomes the empty object
//   j.push_back({"k", x})                           object: inserts k unless present; null: j becomes an ARRAY holding
//                                                   the pair ["k", x]; array: appends the pair; otherwise type_error
//   j["k"] = x                                      null: j becomes an object; object: sets k; otherwise type_error
//   j.emplace("k", x)                               null: j becomes an object; object: inserts k unless present; otherwise type_error
//   ShouldSerializeFieldValue(m)                    std::optional: has_value(); std::variant<std::monostate, ...>: index() != 0; else true
//   j.find("k") / j.end() / j.contains("k")         find on anything but an object is end()
//   value.m = {}                                    m is value-initialised (nullopt / monostate / zero)
//   it->get_to(m), j.at("k").get_to(m)              m = the element (JSON null: nullopt / monostate; a type_error for a member
//                                                   that has no null state); at() throws out_of_range when k is absent
//   to_json of an optional / nullable variant member  JSON null when empty, else the inner value

import (
	"fmt"
	"strings"

	cppcommon "github.com/microsoft/yardl/tooling/internal/cpp/common"
	cppndjson "github.com/microsoft/yardl/tooling/internal/cpp/ndjson"
	cpptypes "github.com/microsoft/yardl/tooling/internal/cpp/types"
	"github.com/microsoft/yardl/tooling/pkg/dsl"
)

type c02rVal struct {
	null    bool
	payload uint64
}

type c02rJson struct {
	kind string // "null", "object", "array"
	keys []string
	vals []c02rVal
}

type c02rRun struct {
	members  []string // C++ member names of the struct, declaration order
	nullable []bool   // the member's C++ type has a null state (std::optional / variant starting with std::monostate)
	value    []c02rVal
	j        c02rJson
	it       int // element found by the `auto it = j.find(..)` of the enclosing if
	threw    bool
	unknown  string
}

func (r *c02rRun) member(expr string) int {
	if !strings.HasPrefix(expr, "value.") {
		r.unknown = "operand: " + expr
		return -1
	}
	for i, m := range r.members {
		if m == expr[len("value."):] {
			return i
		}
	}
	r.unknown = "member not declared in the struct: " + expr
	return -1
}

func (r *c02rRun) find(key string) int {
	if r.j.kind != "object" {
		return -1
	}
	for i, k := range r.j.keys {
		if k == key {
			return i
		}
	}
	return -1
}

// elem: the JSON value of member m (to_json of std::optional / std::variant / anything else)
func (r *c02rRun) elem(m int) c02rVal {
	if r.nullable[m] && r.value[m].null {
		return c02rVal{null: true}
	}
	return c02rVal{payload: r.value[m].payload}
}

func (r *c02rRun) getTo(m int, e c02rVal) int {
	if e.null {
		if !r.nullable[m] {
			r.threw = true // type_error.302
			return flowThrow
		}
		r.value[m] = c02rVal{null: true}
		return flowNext
	}
	r.value[m] = c02rVal{payload: e.payload}
	return flowNext
}

// c02rKeyOperand: `"key", value.member`
func c02rKeyOperand(s string) (key, operand string, ok bool) {
	if !strings.HasPrefix(s, "\"") {
		return
	}
	k := strings.Index(s[1:], "\"")
	if k < 0 || !strings.HasPrefix(s[1+k+1:], ", ") {
		return
	}
	return s[1 : 1+k], s[1+k+3:], true
}

func (r *c02rRun) exec(ss []*cstmt) int {
	for _, s := range ss {
		if r.unknown != "" {
			return flowThrow
		}
		switch s.kind {
		case "if":
			var c bool
			if x, ok := cgBetween(s.text, "yardl::ndjson::ShouldSerializeFieldValue(", ")"); ok {
				m := r.member(x)
				if m < 0 {
					return flowThrow
				}
				c = !(r.nullable[m] && r.value[m].null)
			} else if k, ok := cgBetween(s.text, "auto it = j.find(\"", "\"); it != j.end()"); ok {
				r.it = r.find(k)
				c = r.it >= 0
			} else if k, ok := cgBetween(s.text, "j.contains(\"", "\")"); ok {
				c = r.find(k) >= 0
			} else {
				r.unknown = "condition: " + s.text
				return flowThrow
			}
			var f int
			if c {
				f = r.exec(s.body)
			} else {
				f = r.exec(s.els)
			}
			r.it = -1
			if f != flowNext {
				return f
			}
		case "simple":
			if f := r.simple(s.text); f != flowNext {
				return f
			}
		default:
			r.unknown = "statement kind: " + s.kind + " " + s.text
			return flowThrow
		}
	}
	return flowNext
}

func (r *c02rRun) insert(key string, e c02rVal, overwrite bool) {
	if k := r.find(key); k >= 0 {
		if overwrite {
			r.j.vals[k] = e
		}
		return
	}
	r.j.keys = append(r.j.keys, key)
	r.j.vals = append(r.j.vals, e)
}

func (r *c02rRun) simple(t string) int {
	if t == "j = ordered_json::object()" {
		r.j = c02rJson{kind: "object"}
		return flowNext
	}
	if t == "return" {
		return flowReturn
	}
	if strings.HasPrefix(t, "throw ") {
		r.threw = true
		return flowThrow
	}
	if in, ok := cgBetween(t, "j.push_back({", "})"); ok {
		if key, x, ok := c02rKeyOperand(in); ok {
			m := r.member(x)
			if m < 0 {
				return flowThrow
			}
			switch r.j.kind {
			case "object":
				r.insert(key, r.elem(m), false)
			case "null", "array":
				// basic_json::push_back(initializer_list): only an OBJECT takes the pair as a member; a null value becomes an array
				r.j.kind = "array"
				r.j.keys = append(r.j.keys, "")
				r.j.vals = append(r.j.vals, r.elem(m))
			default:
				r.threw = true
				return flowThrow
			}
			return flowNext
		}
	}
	if in, ok := cgBetween(t, "j.emplace(", ")"); ok {
		if key, x, ok := c02rKeyOperand(in); ok {
			m := r.member(x)
			if m < 0 {
				return flowThrow
			}
			if r.j.kind != "null" && r.j.kind != "object" {
				r.threw = true
				return flowThrow
			}
			r.j.kind = "object"
			r.insert(key, r.elem(m), false)
			return flowNext
		}
	}
	if strings.HasPrefix(t, "j[\"") {
		if k := strings.Index(t, "\"] = "); k > 0 {
			key, x := t[3:k], t[k+len("\"] = "):]
			m := r.member(x)
			if m < 0 {
				return flowThrow
			}
			if r.j.kind != "null" && r.j.kind != "object" {
				r.threw = true
				return flowThrow
			}
			r.j.kind = "object"
			r.insert(key, r.elem(m), true)
			return flowNext
		}
	}
	if x, ok := cgBetween(t, "", " = {}"); ok && strings.HasPrefix(x, "value.") {
		m := r.member(x)
		if m < 0 {
			return flowThrow
		}
		r.value[m] = c02rVal{null: r.nullable[m]} // value-initialisation: nullopt / monostate / zero content
		return flowNext
	}
	if x, ok := cgBetween(t, "it->get_to(", ")"); ok && r.it >= 0 {
		m := r.member(x)
		if m < 0 {
			return flowThrow
		}
		return r.getTo(m, r.j.vals[r.it])
	}
	if in, ok := cgBetween(t, "j.at(\"", ")"); ok {
		if k := strings.Index(in, "\").get_to("); k > 0 {
			m := r.member(in[k+len("\").get_to("):])
			if m < 0 {
				return flowThrow
			}
			e := r.find(in[:k])
			if e < 0 {
				r.threw = true // out_of_range.403 (type_error.304 on a non-object)
				return flowThrow
			}
			return r.getTo(m, r.j.vals[e])
		}
	}
	r.unknown = "statement: " + t
	return flowThrow
}

var c02rNameSets = [][]string{
	{"a", "b", "c"},
	{"myValue", "class", "x2"}, // the C++ member name differs from the model name, which is the JSON key
}

// c02rFieldType: the field kinds of the obligation (k < kinds)
func c02rFieldType(b *mb, k int) dsl.Type {
	switch k {
	case 0:
		return b.st("int")
	case 1:
		return b.opt(b.st("string"))
	case 2:
		return b.gt(nil, nil, b.st("int"), b.st("string"))
	case 3:
		return b.vec(b.st("int"))
	case 4:
		return b.opt(b.st("Inner")) // an optional record whose own fields are all nullable
	case 5:
		return b.gt(nil, b.st("int"), b.st("string"))
	}
	return b.mapOf(b.st("string"), b.opt(b.st("int")))
}

// c02rTypeParameterKind: a field whose type is the record's own type parameter T (the record is then generic: Rec<T>);
// whether the instantiation makes it nullable (Rec<int?>) is symbolic
const c02rTypeParameterKind = 100

func c02rIsTypeParameter(t dsl.Type) bool {
	st, ok := t.(*dsl.SimpleType)
	return ok && st.Name == "T"
}

func c02rIsNullable(t dsl.Type) bool {
	g, ok := t.(*dsl.GeneralizedType)
	return ok && g.Dimensionality == nil && len(g.Cases) > 1 && g.Cases[0].Type == nil
}

// C02CppRecord(maxFields, kinds, nameSets, dirty): a record of 1..maxFields fields, each of a symbolic kind among the
// first `kinds` of c02rFieldType, names from one of the first `nameSets` sets; the value of every member (null state
// and content) is symbolic. dirty = 1: the destination of from_json holds arbitrary previous content instead of being
// value-initialised (what CopyTo and the batch reads do: one destination object is read into again and again): every
// member must be assigned, so the result is the same.
func C02CppRecord(maxFields, kinds, nameSets, dirty int) {
	n := 1 + verifChoose("fields", maxFields)
	names := c02rNameSets[verifChoose("names", nameSets)]
	b := &mb{file: "model.yml"}
	var fields []*dsl.Field
	desc := ""
	generic := verifChoose("generic-record", 2) == 1
	tpos := -1
	if generic {
		tpos = verifChoose("type-parameter-field", n)
	}
	for i := 0; i < n; i++ {
		if i == tpos {
			desc += "T"
			fields = append(fields, b.field(names[i], b.st("T")))
			continue
		}
		k := verifChoose(fmt.Sprintf("kind%d", i), kinds)
		desc += fmt.Sprint(k)
		fields = append(fields, b.field(names[i], c02rFieldType(b, k)))
	}
	verifOut("kinds", desc)
	inner := b.record(NS, "Inner", nil, b.field("p", b.opt(b.st("int"))), b.field("q", b.gt(nil, nil, b.st("int"), b.st("float"))))
	var tparams []string
	var recRef dsl.Type = b.st("Rec")
	if generic {
		// Rec<T>, used as Rec<int?>: the member typed T has a null state in that instantiation
		tparams = []string{"T"}
		recRef = b.st("Rec", b.opt(b.st("int")))
	}
	rec := b.record(NS, "Rec", tparams, fields...)
	ns := &dsl.Namespace{Name: NS, IsTopLevel: true, TypeDefinitions: dsl.TypeDefinitions{inner, rec},
		Protocols: []*dsl.ProtocolDefinition{b.protocol(NS, "P", b.step("s", b.opt(recRef)), b.step("t", b.strm(recRef)))}}
	env, err := dsl.Validate([]*dsl.Namespace{ns})
	verifAssert("model-validates", err == nil)
	if err != nil {
		return
	}
	def := env.Namespaces[0].TypeDefinitions[1].(*dsl.RecordDefinition)

	_, memberTypes, members, found := c14tReadStruct(cpptypes.VerifWriteNamespaceMembers(env.Namespaces[0]), cppcommon.TypeIdentifierName(def.Name))
	verifAssert("struct-emitted-with-one-member-per-field", found && len(members) == n)
	if !found || len(members) != n {
		return
	}
	// specNullable: the field is an optional / a union with null - for a field typed by the type parameter T: in the
	// instantiation Rec<int?> that the protocol uses
	specNullable := func(i int) bool {
		return c02rIsNullable(def.Fields[i].Type) || c02rIsTypeParameter(def.Fields[i].Type)
	}
	nullable := make([]bool, n)
	for i, t := range memberTypes {
		if c02rIsTypeParameter(def.Fields[i].Type) {
			verifAssert("type-parameter-member-is-declared-with-the-parameter", t == "T")
			nullable[i] = true
			continue
		}
		nullable[i] = strings.HasPrefix(t, "std::optional<") || strings.HasPrefix(t, "std::variant<std::monostate")
		// the struct member has a null state exactly when the model field is an optional / a union with null
		verifAssert("member-has-a-null-state-iff-the-field-is-nullable", nullable[i] == c02rIsNullable(def.Fields[i].Type))
	}

	fs := parseCppFuncs(cppndjson.VerifWriteRecordConverters(def))
	var tj, fj *cfunc
	for _, f := range fs {
		if f.name == "to_json" {
			tj = f
		}
		if f.name == "from_json" {
			fj = f
		}
	}
	okForm := tj != nil && fj != nil && tj.bad == "" && fj.bad == ""
	verifAssert("converters-emitted", okForm)
	if !okForm {
		return
	}

	v := make([]c02rVal, n)
	for i := range v {
		v[i].payload = verifUint64(fmt.Sprintf("content%d", i))
		if nullable[i] {
			v[i].null = verifBool(fmt.Sprintf("null%d", i))
			if v[i].null {
				v[i].payload = 0
			}
		}
	}

	// `ordered_json j = v;` : to_json runs on a default-constructed (null) json value
	w := &c02rRun{members: members, nullable: nullable, value: append([]c02rVal{}, v...), j: c02rJson{kind: "null"}, it: -1}
	w.exec(tj.body)
	verifOut("unknown-form", w.unknown)
	verifAssert("only-known-statement-forms", w.unknown == "")
	if w.unknown != "" {
		return
	}
	verifAssert("to-json-does-not-throw", !w.threw)
	if w.threw {
		return
	}
	verifOut("json-kind", w.j.kind)
	verifAssert("record-json-is-an-object", w.j.kind == "object")
	if w.j.kind != "object" {
		return
	}
	expected := 0
	for i := 0; i < n; i++ {
		skipped := specNullable(i) && v[i].null
		at := -1
		for q, k := range w.j.keys {
			if k == def.Fields[i].Name {
				verifAssert("object-lists-each-field-once", at < 0)
				at = q
			}
		}
		if skipped {
			verifAssert("null-nullable-field-is-skipped", at < 0)
		} else {
			expected++
			verifAssert("field-present-under-its-model-name", at >= 0)
			if at >= 0 {
				verifAssert("field-holds-the-member-value", !w.j.vals[at].null && w.j.vals[at].payload == v[i].payload)
			}
		}
	}
	verifAssert("object-has-no-other-keys", len(w.j.keys) == expected)

	// `j.get_to(dst)` / `j.get<Rec>()`
	rd := &c02rRun{members: members, nullable: nullable, value: make([]c02rVal, n), j: w.j, it: -1}
	reused := dirty == 1 && verifChoose("destination", 2) == 1
	for i := range rd.value {
		if reused {
			rd.value[i].payload = verifUint64(fmt.Sprintf("previous-content%d", i))
			if nullable[i] {
				rd.value[i].null = verifBool(fmt.Sprintf("previous-null%d", i))
			}
		} else {
			rd.value[i].null = nullable[i] // T{}: nullopt / monostate, zero content
		}
	}
	rd.exec(fj.body)
	verifOut("unknown-form", rd.unknown)
	verifAssert("only-known-statement-forms", rd.unknown == "")
	if rd.unknown != "" {
		return
	}
	verifAssert("from-json-accepts-what-to-json-wrote", !rd.threw)
	if rd.threw {
		return
	}
	for i := 0; i < n; i++ {
		same := rd.value[i].null == v[i].null && (v[i].null || rd.value[i].payload == v[i].payload)
		verifAssert("round-trip", same)
	}
	verifReach("c02-cpp-record-end")
}
