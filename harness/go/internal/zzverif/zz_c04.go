package zzverif

import (
	"math/big"

	"github.com/microsoft/yardl/tooling/pkg/dsl"
)

// leaves: every wire-relevant scalar of the C04 model; symbolic.
type c04Leaves struct {
	p1, p2, key, ebase string
	n, d0, d1          uint64
	e0, e1             uint64 // lengths of the unnamed dimensions of a fixed array
	p3                 string // field type of the imported record that shares its simple name with a local one
}

var c04P1 = []string{"int32", "uint8", "float64", "string"}
var c04P2 = []string{"int64", "bool", "complexfloat32"}

func newC04Leaves() *c04Leaves {
	return &c04Leaves{
		p1:    verifOneOf("p1", c04P1...),
		p2:    verifOneOf("p2", c04P2...),
		key:   verifOneOf("key", "string", "int32"),
		ebase: verifOneOf("ebase", "uint8", "int64"),
		n:     verifUint64("n"),
		d0:    verifUint64("d0"),
		d1:    verifUint64("d1"),
		e0:    verifUint64("e0"),
		e1:    verifUint64("e1"),
		p3:    verifOneOf("p3", "int32", "float32"),
	}
}

// decoration: everything that must NOT influence the schema.
type c04Deco struct {
	comments bool // documentation comments on every commentable node
	computed bool // a computed field on the record
	extra    bool // an unrelated type definition and an unrelated protocol
	reversed bool // definitions listed in reverse order
	file     string
	lineOff  int
}

func (d *c04Deco) c(s string) string {
	if d.comments {
		return "ZZ-comment-" + s
	}
	return ""
}

// structural edits that DO change the wire format (concrete choice), 0 = none
const (
	editNone = iota
	editReorderFields
	editDropField
	editOptional
	editUnionOrder
	editEnumValue
	editVectorFixed
	editArrayRank
	editStepOrder
	editGenericArgs
	editGridDynamic // fixed array with unnamed dimensions -> dynamic array of the same rank
	nEdits
)

func c04Model(L *c04Leaves, d *c04Deco, edit int) *dsl.Namespace {
	b := &mb{file: d.file, line: d.lineOff}
	ns := "Ns"
	dn0, dn1 := "rows", "cols"
	dims := dsl.ArrayDimensions{
		&dsl.ArrayDimension{NodeMeta: b.meta(), Name: &dn0, Length: &L.d0, Comment: d.c("dim0")},
		&dsl.ArrayDimension{NodeMeta: b.meta(), Name: &dn1, Length: &L.d1, Comment: d.c("dim1")},
	}
	if edit == editArrayRank {
		dims = dims[:1]
	}
	arr := b.gt(&dsl.Array{NodeMeta: b.meta(), Dimensions: &dims}, b.st(L.p1))
	var vec dsl.Type = b.gt(&dsl.Vector{NodeMeta: b.meta(), Length: &L.n}, b.st(L.p2))
	if edit == editVectorFixed {
		vec = b.vec(b.st(L.p2))
	}
	fx := b.field("x", b.st(L.p1))
	fy := b.field("y", b.opt(b.st(L.p2)))
	if edit == editOptional {
		fy = b.field("y", b.st(L.p2))
	}
	fdata := b.field("data", arr)
	fv := b.field("v", vec)
	fx.Comment, fy.Comment, fdata.Comment, fv.Comment = d.c("x"), d.c("y"), d.c("data"), d.c("v")
	// p2[e0, e1]: fixed array whose dimensions have lengths but no names; p1[,]: dynamic array of rank 2
	gdims := dsl.ArrayDimensions{&dsl.ArrayDimension{NodeMeta: b.meta(), Length: &L.e0}, &dsl.ArrayDimension{NodeMeta: b.meta(), Length: &L.e1}}
	if edit == editGridDynamic {
		gdims = dsl.ArrayDimensions{&dsl.ArrayDimension{NodeMeta: b.meta()}, &dsl.ArrayDimension{NodeMeta: b.meta()}}
	}
	fgrid := b.field("grid", b.gt(&dsl.Array{NodeMeta: b.meta(), Dimensions: &gdims}, b.st(L.p2)))
	ddims := dsl.ArrayDimensions{&dsl.ArrayDimension{NodeMeta: b.meta()}, &dsl.ArrayDimension{NodeMeta: b.meta()}}
	fdyn := b.field("dyn", b.gt(&dsl.Array{NodeMeta: b.meta(), Dimensions: &ddims}, b.st(L.p1)))
	// a record of an imported namespace with the same simple name as this one
	fext := b.field("ext", b.st("Lib.Point"))
	fields := []*dsl.Field{fx, fy, fdata, fv, fgrid, fdyn, fext}
	switch edit {
	case editReorderFields:
		fields = []*dsl.Field{fy, fx, fdata, fv, fgrid, fdyn, fext}
	case editDropField:
		fields = []*dsl.Field{fx, fdata, fv, fgrid, fdyn, fext}
	}
	point := b.record(ns, "Point", nil, fields...)
	point.Comment = d.c("Point")
	if d.computed {
		lit := &dsl.IntegerLiteralExpression{NodeMeta: b.meta()}
		lit.Value = *big.NewInt(7)
		point.ComputedFields = dsl.ComputedFields{&dsl.ComputedField{NodeMeta: b.meta(), Name: "seven", Comment: d.c("seven"), Expression: lit}}
	}
	color := b.enum(ns, "Color", b.st(L.ebase), "red", "green")
	color.Comment = d.c("Color")
	color.Values[1].Comment = d.c("green")
	if edit == editEnumValue {
		color.Values[1].IntegerValue = *big.NewInt(5)
	}
	pts := b.alias(ns, "Pts", nil, b.vec(b.st("Point")))
	pts.Comment = d.c("Pts")
	pair := b.record(ns, "Pair", []string{"A", "B"}, b.field("first", b.st("A")), b.field("second", b.st("B")))
	u0, u1 := b.st("Color"), b.st("Pair", b.st(L.p1), b.st("Pts"))
	if edit == editGenericArgs {
		u1 = b.st("Pair", b.st("Pts"), b.st(L.p1))
	}
	union := &dsl.GeneralizedType{NodeMeta: b.meta(), Dimensionality: &dsl.Stream{NodeMeta: b.meta()},
		Cases: dsl.TypeCases{&dsl.TypeCase{NodeMeta: b.meta(), Tag: "color", Type: u0}, &dsl.TypeCase{NodeMeta: b.meta(), Tag: "pair", Type: u1}}}
	if edit == editUnionOrder {
		union.Cases[0], union.Cases[1] = union.Cases[1], union.Cases[0]
	}
	s0 := b.step("header", b.st("Point"))
	s1 := b.step("items", union)
	s2 := b.step("lookup", b.mapOf(b.st(L.key), b.st("Pts")))
	s0.Comment, s1.Comment, s2.Comment = d.c("header"), d.c("items"), d.c("lookup")
	steps := []*dsl.ProtocolStep{s0, s1, s2}
	if edit == editStepOrder {
		steps = []*dsl.ProtocolStep{s0, s2, s1}
	}
	proto := b.protocol(ns, "Proto", steps...)
	proto.Comment = d.c("Proto")

	n := &dsl.Namespace{Name: ns, IsTopLevel: true}
	n.TypeDefinitions = dsl.TypeDefinitions{color, point, pts, pair}
	n.Protocols = []*dsl.ProtocolDefinition{proto}
	if d.extra {
		n.TypeDefinitions = append(n.TypeDefinitions, b.record(ns, "Unrelated", nil, b.field("q", b.st("string"))))
		n.Protocols = append(n.Protocols, b.protocol(ns, "Other", b.step("only", b.st("Unrelated"))))
	}
	if d.reversed {
		tds := n.TypeDefinitions
		for i, j := 0, len(tds)-1; i < j; i, j = i+1, j-1 {
			tds[i], tds[j] = tds[j], tds[i]
		}
	}
	bl := &mb{file: "lib/lib.yml", line: d.lineOff}
	lib := &dsl.Namespace{Name: "Lib", TypeDefinitions: dsl.TypeDefinitions{bl.record("Lib", "Point", nil, bl.field("id", bl.st(L.p3)))}}
	n.References = []*dsl.Namespace{lib}
	return n
}

// c04All: the namespaces handed to dsl.Validate (imported namespaces first)
func c04All(n *dsl.Namespace) []*dsl.Namespace {
	return append(append([]*dsl.Namespace{}, n.References...), n)
}

func c04Main(env *dsl.Environment) *dsl.Namespace {
	for _, ns := range env.Namespaces {
		if ns.Name == "Ns" {
			return ns
		}
	}
	return nil
}

func schemaOf(n *dsl.Namespace, protoName string) (string, bool) {
	env, err := dsl.Validate(c04All(n))
	if err != nil {
		verifOut("validate-error", err.Error())
		return "", false
	}
	for _, p := range c04Main(env).Protocols {
		if p.Name == protoName {
			return dsl.GetProtocolSchemaString(p, env.SymbolTable), true
		}
	}
	return "", false
}

// C04Neutral: edits that cannot affect encoding leave the schema text unchanged.
func c04Size(small int) {
	if small == 1 {
		c04P1, c04P2 = c04P1[:2], c04P2[:2]
	}
}

func C04Neutral(small int) {
	c04Size(small)
	L := newC04Leaves()
	plain := &c04Deco{file: "model.yml"}
	s1, ok1 := schemaOf(c04Model(L, plain, editNone), "Proto")
	deco := &c04Deco{
		comments: verifChoose("comments", 2) == 1,
		computed: verifChoose("computed", 2) == 1,
		extra:    verifChoose("extra", 2) == 1,
		reversed: verifChoose("reversed", 2) == 1,
		file:     verifOneOf("file", "model.yml", "other/place.yml"),
		lineOff:  verifInt("lineoff"),
	}
	verifAssume(deco.lineOff >= 0 && deco.lineOff < 100000)
	s2, ok2 := schemaOf(c04Model(L, deco, editNone), "Proto")
	verifAssert("base-validates", ok1)
	verifAssert("decorated-validates", ok2)
	verifOut("schema", s1)
	verifAssert("neutral-edit-keeps-schema", s1 == s2)
	verifAssert("no-comment-in-schema", !containsLit(s2, "ZZ-comment") && !containsLit(s2, "\"comment\""))
	verifAssert("no-computed-field-in-schema", !containsLit(s2, "seven") && !containsLit(s2, "computedFields"))
	verifAssert("no-position-in-schema", !containsLit(s2, "place.yml"))
	verifReach("c04-neutral-end")
}

func containsLit(s, lit string) bool {
	// strings.Contains is decided structurally by the engine for ropes whose atoms are integers
	return stringsContains(s, lit)
}

// C04Determines: every single wire-affecting edit changes the schema text.
func C04Determines(small int) {
	c04Size(small)
	L := newC04Leaves()
	plain := &c04Deco{file: "model.yml"}
	s1, ok1 := schemaOf(c04Model(L, plain, editNone), "Proto")
	verifAssert("base-validates", ok1)
	L2 := *L
	edit := editNone
	what := verifChoose("edit", 9+nEdits-1)
	changed := false // does the edit change the wire plan?
	switch what {
	case 0:
		L2.p1 = verifOneOf("p1b", c04P1...)
		changed = L2.p1 != L.p1
	case 1:
		L2.p2 = verifOneOf("p2b", c04P2...)
		changed = L2.p2 != L.p2
	case 2:
		L2.key = verifOneOf("keyb", "string", "int32")
		changed = L2.key != L.key
	case 3:
		L2.ebase = verifOneOf("ebaseb", "uint8", "int64")
		changed = L2.ebase != L.ebase
	case 4:
		L2.n = verifUint64("nb")
		changed = L2.n != L.n
	case 5:
		L2.d0 = verifUint64("d0b")
		changed = L2.d0 != L.d0
	case 6:
		L2.d1 = verifUint64("d1b")
		changed = L2.d1 != L.d1
	case 7:
		if verifChoose("which-unnamed-dim", 2) == 0 {
			L2.e0 = verifUint64("e0b")
		} else {
			L2.e1 = verifUint64("e1b")
		}
		changed = L2.e0 != L.e0 || L2.e1 != L.e1
	case 8:
		L2.p3 = verifOneOf("p3b", "int32", "float32")
		changed = L2.p3 != L.p3
	default:
		edit = what - 8
		changed = true
	}
	s2, ok2 := schemaOf(c04Model(&L2, plain, edit), "Proto")
	verifAssert("edited-validates", ok2)
	verifOut("edit", what)
	verifAssert("wire-edit-changes-schema", !changed || s1 != s2)
	verifAssert("same-model-same-schema", changed || s1 == s2)
	verifReach("c04-determines-end")
}

func stringsContains(s, lit string) bool { return stringsPkgContains(s, lit) }
