package zzverif

// C05 (C++ emitter level): for a protocol with several listed previous versions, the emitted
// `switch (version_)` of every binary writer / reader method must route EVERY version label to a
// body that reads / writes that version's wire format (docs/cpp/evolution.md: "To write a protocol
// such that it can be read by v1, instantiate a ProtocolWriter with the version v1"):
//
//   the step exists in that version with type T   -> Plan(T) (item plan for streams, block rules of C01)
//   the step does not exist in that version       -> nothing written / read, no end-of-stream length
//   version_ == Current                           -> the current type
//
// The oracle for each label is taken from that version's own validated model (the step looked up by
// name), not from the change objects the emitter consumes.  The change objects are produced by the
// real dsl.ValidateEvolution.  Labels are assigned to versions by a symbolic permutation, so the
// obligation is independent of how labels sort.

import (
	"fmt"

	cppbinary "github.com/microsoft/yardl/tooling/internal/cpp/binary"
	"github.com/microsoft/yardl/tooling/pkg/dsl"
)

var c05Labels = [][]string{{"v10", "v9"}, {"v10", "v9", "beta"}}

const (
	c05Identical = iota // the whole protocol is unchanged in that version
	c05OtherStep        // this step unchanged, the other step has a different type
	c05Absent           // the step does not exist in that version (added later)
	c05Changed          // the step has a different (compatible) type in that version
	c05Kinds
)

// c05Model: protocol P { o: <number>, t: <shape> of <element> }.  ver < 0 builds the current model.
func c05Model(file string, shape, fam, kind int, current bool) *dsl.Namespace {
	b := &mb{file: file}
	num := "long"
	if !current && kind == c05Changed && fam == 0 {
		num = "int"
	}
	var el dsl.Type = b.st(num)
	if fam == 1 {
		el = b.st("Rec")
	}
	var t dsl.Type
	switch shape {
	case 0:
		t = b.strm(el)
	case 1:
		t = b.vec(el)
	default:
		t = b.opt(el)
	}
	o := "long"
	if !current && kind == c05OtherStep {
		o = "int"
	}
	steps := []*dsl.ProtocolStep{b.step("o", b.st(o))}
	if current || kind != c05Absent {
		steps = append(steps, b.step("t", t))
	}
	fields := []*dsl.Field{b.field("a", b.st("int")), b.field("b", b.st("string"))}
	if fam == 1 && (current || kind != c05Changed) {
		fields = append(fields, b.field("c", b.opt(b.st("int")))) // Rec gained an optional field: documented compatible change
	}
	return &dsl.Namespace{Name: NS, IsTopLevel: true,
		TypeDefinitions: dsl.TypeDefinitions{b.record(NS, "Rec", nil, fields...)},
		Protocols:       []*dsl.ProtocolDefinition{b.protocol(NS, "P", steps...)}}
}

func findStep(p *dsl.ProtocolDefinition, name string) *dsl.ProtocolStep {
	for _, s := range p.Sequence {
		if s.Name == name {
			return s
		}
	}
	return nil
}

// C05VersionSwitch(m, shapes, fams, side): m previous versions; the changing step is a stream / vector /
// optional (first `shapes` of these) of a number / a record (first `fams`); side 0 writer, 1 reader.
func C05VersionSwitch(m, shapes, fams, side int) {
	pool := c05Labels[m-2]
	// symbolic assignment of labels to versions
	labels := make([]string, 0, m)
	used := make([]bool, len(pool))
	for j := 0; j < m; j++ {
		k := verifChoose(fmt.Sprintf("label%d", j), len(pool)-j)
		for i := range pool {
			if used[i] {
				continue
			}
			if k == 0 {
				used[i] = true
				labels = append(labels, pool[i])
				break
			}
			k--
		}
	}
	shape := verifChoose("shape", shapes)
	fam := verifChoose("element", fams)
	kinds := make([]int, m)
	for j := range kinds {
		kinds[j] = verifChoose(fmt.Sprintf("kind%d", j), c05Kinds)
		verifOut(labels[j], kinds[j])
	}
	cur, err := dsl.Validate([]*dsl.Namespace{c05Model("model.yml", shape, fam, 0, true)})
	verifAssert("models-validate", err == nil)
	if err != nil {
		return
	}
	olds := make([]*dsl.Environment, m)
	for j := range olds {
		olds[j], err = dsl.Validate([]*dsl.Namespace{c05Model(labels[j]+"/model.yml", shape, fam, kinds[j], false)})
		verifAssert("models-validate", err == nil)
		if err != nil {
			return
		}
	}
	var everr error
	msg, panicked := verifPanics(func() { _, _, everr = dsl.ValidateEvolution(cur, olds, labels) })
	verifOut("panic", msg)
	verifAssert("documented-compatible-changes-accepted", !panicked && everr == nil)
	if panicked || everr != nil {
		verifOut("err", errText(everr))
		return
	}
	p := cur.Namespaces[0].Protocols[0]
	fs := parseCppFuncs(cppbinary.VerifWriteProtocolMethods(p))
	g := newGen()
	registerDefs(g, cur)
	for _, o := range olds {
		registerDefs(g, o) // previous definitions that changed were renamed <Name>_<label> by ValidateEvolution
	}
	y := &protoSyms{}
	if side == 0 {
		y.n = verifInt("batch-length")
		verifAssume(y.n >= 0)
		verifAssume(y.n <= 1<<30)
	} else {
		y.rem, y.next = verifUint64("block-remaining"), verifUint64("next-block-length")
	}
	for _, st := range p.Sequence {
		pascal := "O"
		if st.Name == "t" {
			pascal = "T"
		}
		for j := -1; j < m; j++ {
			version := "Current"
			sp := stepSpec{exists: true, stream: isStreamType(st.Type), plan: Plan(elemOf(st.Type))}
			if j >= 0 {
				version = labels[j]
				old := findStep(olds[j].Namespaces[0].Protocols[0], st.Name)
				sp.exists = old != nil
				if old != nil {
					sp.plan = Plan(elemOf(old.Type))
				}
			}
			if side == 0 {
				checkStepWriter(g, fs, "P", pascal, version, sp, y)
			} else {
				checkStepReader(g, fs, "P", pascal, version, sp, y)
			}
		}
	}
	verifReach("c05-version-switch-end")
}
