package zzverif

// C19: the static type of a switch expression is a function of the SET of its case types.
//
// "A computed field has one meaning: its static type follows the documented promotion rules and does not depend on
// operand order."  A `!switch` over a union with three cases whose expressions are fields of symbolic numeric
// primitive types P0, P1, P2, written in a symbolic case order (all six permutations).  The real dsl.Validate
// (resolveComputedFields: best type of the cases, insertConversion per case) decides acceptance and the static type.
// Obligations:
//   - the static type is the promotion of ALL case types: it equals the left fold of the binary promotion rule
//     (the real dsl.GetCommonType, whose symmetry and kind / width rules c19_static_types decides) over the cases
//     in the order written, and the switch is accepted iff that fold exists;
//   - its kind is the widest kind among the cases (integer < floating point < complex), whatever the order;
//   - whenever two orders of the same cases are both accepted they get the same static type;
//   - every case expression is brought to the static type of the switch by a conversion chain that cannot lose
//     what source and result can both hold (c19CheckOperand, as for the two-case form).

import (
	"github.com/microsoft/yardl/tooling/pkg/dsl"
)

var c19sPrimsQuick = []string{"int16", "int32", "uint8", "uint64", "float32", "float64", "complexfloat32"}

var c19sPerms = [][3]int{{0, 1, 2}, {0, 2, 1}, {1, 0, 2}, {1, 2, 0}, {2, 0, 1}, {2, 1, 0}}

// c19sFold: the promotion of the primitives in the given order by the real binary rule; "" if some step has no common type.
func c19sFold(prims []string) string {
	var acc dsl.Type = primType(prims[0])
	for _, p := range prims[1:] {
		ct, err := dsl.GetCommonType(acc, primType(p))
		if err != nil || ct == nil {
			return ""
		}
		acc = ct
	}
	return c19PrimName(acc)
}

func c19sValidate(prims [3]string, order [3]int) (*dsl.SwitchExpression, bool) {
	b := &mb{file: "model.yml"}
	g := &eg{b: b}
	fields := []string{"fa", "fb", "fc"}
	rec := b.record("Ns", "Rec", nil,
		b.field("fa", b.st(prims[0])), b.field("fb", b.st(prims[1])), b.field("fc", b.st(prims[2])),
		b.field("u", b.gt(nil, b.st("string"), b.st("bool"), b.st("date"))))
	patterns := []dsl.Pattern{
		&dsl.TypePattern{NodeMeta: b.meta(), Type: b.st("string")},
		&dsl.TypePattern{NodeMeta: b.meta(), Type: b.st("bool")},
		&dsl.DiscardPattern{NodeMeta: b.meta()},
	}
	sw := &dsl.SwitchExpression{NodeMeta: b.meta(), Target: g.member(nil, "u")}
	for k := 0; k < 3; k++ {
		sw.Cases = append(sw.Cases, &dsl.SwitchCase{NodeMeta: b.meta(), Pattern: patterns[k], Expression: g.member(nil, fields[order[k]])})
	}
	rec.ComputedFields = dsl.ComputedFields{&dsl.ComputedField{NodeMeta: b.meta(), Name: "c", Expression: sw}}
	n := &dsl.Namespace{Name: "Ns", IsTopLevel: true, TypeDefinitions: dsl.TypeDefinitions{rec}}
	env, err := dsl.Validate([]*dsl.Namespace{n})
	if err != nil {
		return nil, false
	}
	out := env.Namespaces[0].TypeDefinitions[0].(*dsl.RecordDefinition)
	se, isSw := out.ComputedFields[0].Expression.(*dsl.SwitchExpression)
	if !isSw || len(se.Cases) != 3 {
		return nil, true
	}
	return se, true
}

// C19SwitchOrder(full): full = 0 seven primitives, 1 all thirteen.
func C19SwitchOrder(full int) {
	vocab := c19sPrimsQuick
	if full > 0 {
		vocab = numericPrims
	}
	prims := [3]string{verifOneOf("case0", vocab...), verifOneOf("case1", vocab...), verifOneOf("case2", vocab...)}
	pi := verifChoose("order", len(c19sPerms))
	order := c19sPerms[pi]
	verifOut("case0", prims[0])
	verifOut("case1", prims[1])
	verifOut("case2", prims[2])
	verifOut("order", pi)

	written := []string{prims[order[0]], prims[order[1]], prims[order[2]]}
	want := c19sFold(written)
	se, ok := c19sValidate(prims, order)
	verifAssert("accepted-iff-the-cases-have-a-common-type", ok == (want != ""))
	if !ok {
		verifReach("c19s-rejected")
		return
	}
	verifAssert("switch-expression-kept", se != nil)
	if se == nil {
		return
	}
	res := c19PrimName(se.GetResolvedType())
	verifOut("type", res)
	verifAssert("switch-type-is-the-common-type-of-all-cases", res == want)
	kmax := 0
	for _, p := range prims {
		if k := primKind(p); k > kmax {
			kmax = k
		}
	}
	_, numeric := c19RepOf(res)
	verifAssert("switch-kind-is-the-widest-case-kind", numeric && primKind(res) == kmax)
	// the same cases in declaration order: if that order is accepted as well, it has the same static type
	if pi != 0 {
		if other := c19sFold([]string{prims[0], prims[1], prims[2]}); other != "" {
			verifAssert("switch-type-independent-of-case-order", res == other)
			verifReach("c19s-two-orders-compared")
		}
	}
	for k := 0; k < 3; k++ {
		c19CheckOperand(se.Cases[k].Expression, written[k], res)
	}
	verifReach("c19s-accepted")
}
