package zzverif

// C06: the verdict class of a change of an element type does not depend on how deep the element sits.
//
// A leaf type P changes to Q (symbolic primitives) underneath a chain of up to three wrappers - optional, vector,
// fixed-length vector, in any order without two adjacent optionals (that spelling is the subject of c06_item_spelling) -
// as the type of a record field, of a plain protocol step or of the items of a stream step.  The real dsl.Validate and
// dsl.ValidateEvolution classify the change (error / accepted with a warning / accepted silently).  The documentation
// classifies changes of a type by what changes (docs/*/evolution.md: "changing ... between ... types", whatever contains
// them), so the class under any wrapper chain must be the class of the bare change P -> Q in the same position:
//   wrapped-change-has-the-class-of-the-bare-change
// and, as a sanity obligation that does not depend on the reference run, an unchanged model stays silent under every chain.

import (
	"github.com/microsoft/yardl/tooling/pkg/dsl"
)

var c06wPrims = []string{"int32", "string", "float64", "bool", "int64", "float32", "datetime", "uint8"}

func c06wWrap(b *mb, chain []int, leaf string) dsl.Type {
	var t dsl.Type = b.st(leaf)
	for i := len(chain) - 1; i >= 0; i-- { // chain[0] is the outermost wrapper
		switch chain[i] {
		case 0:
			t = b.opt(t)
		case 1:
			t = b.vec(t)
		default:
			t = b.fvec(t, 3)
		}
	}
	return t
}

func c06wModel(file string, ctx int, chain []int, leaf string) *dsl.Namespace {
	b := &mb{file: file}
	t := c06wWrap(b, chain, leaf)
	rec := b.record("Ns", "Rec", nil, b.field("id", b.st("uint32")), b.field("payload", b.st("string")))
	var step dsl.Type
	switch ctx {
	case 0:
		rec.Fields[1].Type = t
		step = b.st("Rec")
	case 1:
		step = t
	default:
		step = b.strm(t)
	}
	return &dsl.Namespace{Name: "Ns", IsTopLevel: true, TypeDefinitions: dsl.TypeDefinitions{rec},
		Protocols: []*dsl.ProtocolDefinition{b.protocol("Ns", "P", b.step("first", b.st("Rec")), b.step("s", step))}}
}

// c06wClass: 0 silent, 1 warning, 2 error, -1 a model did not validate, -2 panic
func c06wClass(ctx int, chain []int, from, to string) int {
	oldEnv, errOld := dsl.Validate([]*dsl.Namespace{c06wModel("v0/model.yml", ctx, chain, from)})
	newEnv, errNew := dsl.Validate([]*dsl.Namespace{c06wModel("model.yml", ctx, chain, to)})
	if errOld != nil || errNew != nil {
		return -1
	}
	var warnings []string
	var err error
	_, panicked := verifPanics(func() { _, warnings, err = dsl.ValidateEvolution(newEnv, []*dsl.Environment{oldEnv}, []string{"v0"}) })
	switch {
	case panicked:
		return -2
	case err != nil:
		return 2
	case len(warnings) > 0:
		return 1
	}
	return 0
}

// C06Wrappers(maxDepth, nprims)
func C06Wrappers(maxDepth, nprims int) {
	from := verifOneOf("from", c06wPrims[:nprims]...)
	to := verifOneOf("to", c06wPrims[:nprims]...)
	ctx := verifChoose("context", 3)
	depth := 1 + verifChoose("depth", maxDepth)
	chain := make([]int, depth)
	for i := range chain {
		chain[i] = verifChoose("wrapper", 3)
		if i > 0 {
			verifAssume(!(chain[i] == 0 && chain[i-1] == 0)) // no optional directly inside an optional
		}
	}
	verifOut("from", from)
	verifOut("to", to)
	verifOut("context", []string{"record-field", "step", "stream-items"}[ctx])
	bare := c06wClass(ctx, nil, from, to)
	wrapped := c06wClass(ctx, chain, from, to)
	same := c06wClass(ctx, chain, from, from)
	verifOut("bare-class", bare)
	verifOut("wrapped-class", wrapped)
	verifAssert("models-validate-and-verdict-without-panic", bare >= 0 && wrapped >= 0 && same >= 0)
	if bare < 0 || wrapped < 0 || same < 0 {
		return
	}
	verifAssert("unchanged-wrapped-type-is-silent", same == 0)
	verifAssert("wrapped-change-has-the-class-of-the-bare-change", wrapped == bare)
	verifReach("c06w-end")
}
