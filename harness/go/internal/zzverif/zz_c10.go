package zzverif

import (
	"math/big"
	"strings"

	"github.com/microsoft/yardl/tooling/pkg/dsl"
)

// exprModel: a record with one field of every kind computed-field expressions can touch.
func exprRecord(b *mb, ns string, intPrim, floatPrim string) *dsl.RecordDefinition {
	x, y := "x", "y"
	two, three := uint64(2), uint64(3)
	fixedDims := dsl.ArrayDimensions{&dsl.ArrayDimension{NodeMeta: b.meta(), Name: &x, Length: &two}, &dsl.ArrayDimension{NodeMeta: b.meta(), Name: &y, Length: &three}}
	rankDims := dsl.ArrayDimensions{&dsl.ArrayDimension{NodeMeta: b.meta()}, &dsl.ArrayDimension{NodeMeta: b.meta()}}
	namedDims := dsl.ArrayDimensions{&dsl.ArrayDimension{NodeMeta: b.meta(), Name: &x}, &dsl.ArrayDimension{NodeMeta: b.meta(), Name: &y}}
	return b.record(ns, "Rec", nil,
		b.field("i", b.st(intPrim)),
		b.field("f", b.st(floatPrim)),
		b.field("s", b.st("string")),
		b.field("v", b.vec(b.st("int"))),
		b.field("fv", b.fvec(b.st("int"), 3)),
		b.field("arr", b.gt(&dsl.Array{NodeMeta: b.meta(), Dimensions: &fixedDims}, b.st("float"))),
		b.field("nd", b.gt(&dsl.Array{NodeMeta: b.meta(), Dimensions: &rankDims}, b.st("float"))),
		b.field("named", b.gt(&dsl.Array{NodeMeta: b.meta(), Dimensions: &namedDims}, b.st("float"))),
		b.field("dyn", b.gt(&dsl.Array{NodeMeta: b.meta()}, b.st("float"))),
		b.field("m", b.mapOf(b.st("string"), b.st("int"))),
		b.field("o", b.opt(b.st("int"))),
		b.field("u", b.gt(nil, b.st("int"), b.st("string"))),
		b.field("sub", b.st("Sub")),
	)
}

var exprFieldNames = []string{"i", "f", "s", "v", "fv", "arr", "nd", "named", "dyn", "m", "o", "u", "sub", "nosuch"}

type eg struct {
	b    *mb
	n    int
	form int // top-level expression form, or -1 for a nondeterministic one
	top  int
}

func (g *eg) label(s string) string {
	g.n++
	return s + string(rune('a'+g.n%26)) + string(rune('0'+g.n/26))
}

func (g *eg) intLit(v int64) dsl.Expression {
	e := &dsl.IntegerLiteralExpression{NodeMeta: g.b.meta()}
	e.Value = *big.NewInt(v)
	return e
}

func (g *eg) member(target dsl.Expression, name string) dsl.Expression {
	return &dsl.MemberAccessExpression{NodeMeta: g.b.meta(), Target: target, Member: name}
}

func (g *eg) leaf() dsl.Expression {
	switch verifChoose(g.label("leaf"), 5) {
	case 0:
		return g.intLit([]int64{0, 1, 2, 3, -1, 1 << 40}[verifChoose(g.label("lit"), 6)])
	case 1:
		return &dsl.FloatingPointLiteralExpression{NodeMeta: g.b.meta(), Value: "1.5"}
	case 2:
		return &dsl.StringLiteralExpression{NodeMeta: g.b.meta(), Value: "x"}
	case 3:
		return g.member(nil, verifOneOf(g.label("field"), exprFieldNames...))
	default:
		return g.member(g.member(nil, "sub"), verifOneOf(g.label("subfield"), "a", "zz"))
	}
}

// argLeaf: the reduced leaf vocabulary used for subscript / call arguments and right operands.
func (g *eg) argLeaf() dsl.Expression {
	switch verifChoose(g.label("arg"), 3) {
	case 0:
		return g.intLit([]int64{0, 2, 3, -1}[verifChoose(g.label("lit"), 4)])
	case 1:
		return g.member(nil, verifOneOf(g.label("afield"), "i", "s", "nosuch"))
	default:
		return &dsl.StringLiteralExpression{NodeMeta: g.b.meta(), Value: verifOneOf(g.label("dimname"), "x", "q")}
	}
}

// expr: nondeterministic expression; args of compound forms are leaves when depth == 1.
func (g *eg) expr(depth int) dsl.Expression {
	if depth <= 0 {
		return g.leaf()
	}
	form := g.form
	if form < 0 || depth != g.top {
		form = verifChoose(g.label("form"), 7)
	}
	switch form {
	case 0:
		return g.leaf()
	case 1:
		return &dsl.UnaryExpression{NodeMeta: g.b.meta(), Expression: g.expr(depth - 1)}
	case 2:
		op := dsl.BinaryOperator(verifChoose(g.label("op"), 5))
		if depth == 1 {
			return &dsl.BinaryExpression{NodeMeta: g.b.meta(), Left: g.leaf(), Operator: op, Right: g.argLeaf()}
		}
		return &dsl.BinaryExpression{NodeMeta: g.b.meta(), Left: g.expr(depth - 1), Operator: op, Right: g.argLeaf()}
	case 3: // subscript
		nargs := verifChoose(g.label("nargs"), 3)
		s := &dsl.SubscriptExpression{NodeMeta: g.b.meta(), Target: g.member(nil, verifOneOf(g.label("target"), "v", "fv", "arr", "nd", "named", "dyn", "m", "i", "s"))}
		for k := 0; k < nargs; k++ {
			a := &dsl.SubscriptArgument{NodeMeta: g.b.meta(), Value: g.argLeaf()}
			if verifChoose(g.label("labelled"), 2) == 1 {
				a.Label = verifOneOf(g.label("label"), "x", "q")
			}
			s.Arguments = append(s.Arguments, a)
		}
		return s
	case 4: // function call
		f := &dsl.FunctionCallExpression{NodeMeta: g.b.meta(), FunctionName: verifOneOf(g.label("fn"), "size", "dimensionIndex", "dimensionCount", "frobnicate")}
		nargs := verifChoose(g.label("nargs"), 4)
		for k := 0; k < nargs; k++ {
			if k == 0 {
				f.Arguments = append(f.Arguments, g.member(nil, verifOneOf(g.label("farg"), "arr", "nd", "named", "dyn", "v", "fv", "m", "i")))
			} else if k == 1 {
				f.Arguments = append(f.Arguments, g.argLeaf())
			} else {
				f.Arguments = append(f.Arguments, g.intLit(0))
			}
		}
		return f
	case 5:
		return &dsl.TypeConversionExpression{NodeMeta: g.b.meta(), Expression: g.expr(depth - 1), Type: g.b.st(verifOneOf(g.label("to"), "int8", "uint64", "float32", "complexfloat64", "string", "Sub", "Nope"))}
	default: // switch
		sw := &dsl.SwitchExpression{NodeMeta: g.b.meta(), Target: g.member(nil, verifOneOf(g.label("swtarget"), "o", "u", "i", "v"))}
		ncases := 1 + verifChoose(g.label("ncases"), 2)
		for k := 0; k < ncases; k++ {
			var ce dsl.Expression = g.intLit(0)
			if verifChoose(g.label("caseexpr"), 2) == 1 {
				ce = g.member(nil, verifOneOf(g.label("cfield"), "i", "val", "s"))
			}
			c := &dsl.SwitchCase{NodeMeta: g.b.meta(), Expression: ce}
			switch verifChoose(g.label("pattern"), 4) {
			case 0:
				c.Pattern = &dsl.DiscardPattern{NodeMeta: g.b.meta()}
			case 1:
				c.Pattern = &dsl.TypePattern{NodeMeta: g.b.meta(), Type: g.b.st(verifOneOf(g.label("ptype"), "int", "string", "float"))}
			case 2:
				c.Pattern = &dsl.TypePattern{NodeMeta: g.b.meta()} // null pattern
			default:
				c.Pattern = &dsl.DeclarationPattern{TypePattern: dsl.TypePattern{NodeMeta: g.b.meta(), Type: g.b.st(verifOneOf(g.label("dtype"), "int", "string"))}, Identifier: "val"}
			}
			sw.Cases = append(sw.Cases, c)
		}
		return sw
	}
}

// C10Computed: dsl.Validate is total on arbitrary computed-field expressions.
func C10Computed(depth int, form int) {
	b := &mb{file: "model.yml"}
	ns := "Ns"
	n := &dsl.Namespace{Name: ns, IsTopLevel: true}
	ip, fp := "int32", "float32"
	if form == 2 || form == 5 || form < 0 {
		// operand types matter for arithmetic and conversions only
		ip, fp = verifOneOf("intprim", "int8", "uint64"), verifOneOf("floatprim", "float64", "complexfloat32")
	}
	rec := exprRecord(b, ns, ip, fp)
	g := &eg{b: b, form: form, top: depth}
	rec.ComputedFields = dsl.ComputedFields{&dsl.ComputedField{NodeMeta: b.meta(), Name: "c", Expression: g.expr(depth)}}
	n.TypeDefinitions = dsl.TypeDefinitions{b.record(ns, "Sub", nil, b.field("a", b.st("int"))), rec}
	var err error
	msg, panicked := verifPanics(func() { _, err = dsl.Validate([]*dsl.Namespace{n}) })
	verifOut("panic", msg)
	verifAssert("validate-does-not-panic", !panicked)
	if err != nil {
		verifAssert("error-is-located", strings.Contains(err.Error(), "model.yml:"))
	}
	verifReach("c10-computed-end")
}
