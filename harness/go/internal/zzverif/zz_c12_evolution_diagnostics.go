package zzverif

// C12 (evolution diagnostics): the diagnostics of an evolution check - which errors and warnings are reported,
// their rendered text and order, and the verdict - must not depend on Go map iteration order.  The real
// dsl.ValidateEvolution compares a package with one predecessor in which three protocols changed: one
// structurally (steps reordered and / or removed, plus a step type change), one with step-level errors (scalar
// -> vector, a non-empty step added) and a warning, one with step-level warnings only; a record they share
// changed in a partially compatible way (a definition-level warning; definition-level errors would end the
// check before protocols are looked at); optionally the predecessor has a fourth protocol that was removed.
// Which protocol plays which role is symbolic.  The check runs once with every map range in insertion order
// and once with one symbolically chosen map range (every range executed is covered) iterating in every other
// order: error text, warning list and verdict must be identical.  Natively a particular order cannot be
// selected, so the native twin confirms a reported dependence by repeating the run until Go's own randomised
// order shows a difference.

import (
	"strings"

	"github.com/microsoft/yardl/tooling/pkg/dsl"
)

var c12ePerms = [][3]int{{0, 1, 2}, {0, 2, 1}, {1, 0, 2}, {1, 2, 0}, {2, 0, 1}, {2, 1, 0}}

const (
	c12eStructural = iota
	c12eStepErrors
	c12eStepWarnings
)

var c12eProtocols = []string{"Acquire", "Calibrate", "Monitor"}
var c12ePrefixes = []string{"a", "c", "m"}

// c12eSteps: the steps of one protocol in the old / new version.  structural: 0 reorder + remove, 1 remove only, 2 reorder only.
func c12eSteps(b *mb, p string, role int, structural int, isNew bool) []*dsl.ProtocolStep {
	pick := func(oldT, newT dsl.Type) dsl.Type {
		if isNew {
			return newT
		}
		return oldT
	}
	switch role {
	case c12eStructural:
		s1 := b.step(p+"1", pick(b.st("int32"), b.st("int64")))
		s2 := b.step(p+"2", b.st("string"))
		s3 := b.step(p+"3", b.st("float32"))
		s4 := b.step(p+"4", b.strm(b.st("Rec")))
		if !isNew {
			return []*dsl.ProtocolStep{s1, s2, s3, s4}
		}
		switch structural {
		case 1:
			return []*dsl.ProtocolStep{s1, s2, s4}
		case 2:
			return []*dsl.ProtocolStep{s2, s1, s3, s4}
		}
		return []*dsl.ProtocolStep{s2, s1, s4}
	case c12eStepErrors:
		steps := []*dsl.ProtocolStep{
			b.step(p+"1", pick(b.st("string"), b.vec(b.st("string")))),
			b.step(p+"2", pick(b.st("int32"), b.st("int64"))),
			b.step(p+"3", pick(b.st("bool"), b.st("datetime"))),
		}
		if isNew {
			steps = append(steps, b.step(p+"4", b.st("int32")))
		}
		return steps
	}
	steps := []*dsl.ProtocolStep{
		b.step(p+"1", pick(b.st("int32"), b.st("int64"))),
		b.step(p+"2", pick(b.st("string"), b.opt(b.st("string")))),
		b.step(p+"3", b.st("Rec")),
		b.step(p+"4", pick(b.opt(b.st("int32")), b.gt(nil, nil, b.st("int32"), b.st("string")))),
	}
	if isNew {
		steps = append(steps, b.step(p+"5", b.opt(b.st("int32"))))
	}
	return steps
}

func c12eModel(file string, roles [3]int, structural int, removed bool, isNew bool) *dsl.Namespace {
	b := &mb{file: file}
	ns := "Main"
	aT := "int32"
	if isNew {
		aT = "int64"
	}
	n := &dsl.Namespace{Name: ns, IsTopLevel: true, TypeDefinitions: dsl.TypeDefinitions{b.record(ns, "Rec", nil, b.field("a", b.st(aT)), b.field("s", b.st("string")))}}
	for i, name := range c12eProtocols {
		n.Protocols = append(n.Protocols, b.protocol(ns, name, c12eSteps(b, c12ePrefixes[i], roles[i], structural, isNew)...))
	}
	if removed && !isNew {
		n.Protocols = append(n.Protocols, b.protocol(ns, "Gone", b.step("g1", b.st("int32")), b.step("g2", b.strm(b.st("Rec")))))
	}
	return n
}

func c12eDiagnostics(roles [3]int, structural int, removed bool, which int, permute bool) (text string, failed bool, permuted, seen int, ok bool) {
	oldEnv, errOld := dsl.Validate([]*dsl.Namespace{c12eModel("v0/model.yml", roles, structural, removed, false)})
	newEnv, errNew := dsl.Validate([]*dsl.Namespace{c12eModel("model.yml", roles, structural, removed, true)})
	if errOld != nil || errNew != nil {
		return errText(errOld) + errText(errNew), false, 0, 0, false
	}
	if permute {
		verifSetMapOrder(-2 - which)
	}
	_, warnings, err := dsl.ValidateEvolution(newEnv, []*dsl.Environment{oldEnv}, []string{"v0"})
	if permute {
		permuted = verifMapRangesPermuted()
		seen = verifMapRangesSeen()
	}
	verifSetMapOrder(0)
	return errText(err) + "\n-- warnings --\n" + strings.Join(warnings, "\n"), err != nil, permuted, seen, true
}

// C12EvolutionDiagnostics(nRoles, nStructural, variants, maxRanges): role assignments out of the first nRoles permutations,
// structural change kinds out of the first nStructural, variants = 2 adds the removed protocol as a symbolic option; one map
// range of ValidateEvolution (symbolic index below maxRanges, checked to cover every range executed) runs in another order.
func C12EvolutionDiagnostics(nRoles, nStructural, variants, maxRanges int) {
	roles := c12ePerms[verifChoose("roles", nRoles)]
	structural := verifChoose("structural-change", nStructural)
	removed := verifChoose("removed-protocol", variants) == 1
	ref, refFailed, _, _, ok := c12eDiagnostics(roles, structural, removed, 0, false)
	verifAssert("both-versions-valid", ok)
	if !ok {
		verifOut("validate-error", ref)
		return
	}
	verifAssert("incompatible-evolution-is-rejected", refFailed && (strings.Contains(ref, "reordering step") || strings.Contains(ref, "removing step")))
	which := verifChoose("permuted-map-range", maxRanges)
	alt, altFailed, permuted, seen, _ := c12eDiagnostics(roles, structural, removed, which, true)
	verifOut("map-ranges", seen)
	verifAssert("every-map-range-covered", seen <= maxRanges)
	if permuted == 0 {
		verifReach("c12-evolution-diagnostics-identity")
		return
	}
	same := ref == alt && refFailed == altFailed
	sameInt := 0
	if same {
		sameInt = 1
	}
	symbolicSame := verifRecord("same-diagnostics-under-chosen-order", sameInt) == 1
	if verifNative() {
		same = true
		for i := 0; i < 64 && same && !symbolicSame; i++ {
			again, againFailed, _, _, _ := c12eDiagnostics(roles, structural, removed, 0, false)
			same = again == ref && againFailed == refFailed
		}
	}
	verifAssert("evolution-diagnostics-independent-of-map-iteration-order", same)
	verifReach("c12-evolution-diagnostics-end")
}
