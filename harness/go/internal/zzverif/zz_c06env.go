package zzverif

import (
	"math/big"

	"github.com/microsoft/yardl/tooling/pkg/dsl"
)

// evolution base model; `e` selects one edit, `hdr` additionally gives Header an optional field
// (a documented compatible change that must not mask or alter the verdict of the other edit).
const (
	evNone = iota
	evReorderDefinitions
	evAddUnusedType
	evRenameViaAlias
	evAddOptionalField
	evReorderFields
	evAddStreamStep
	evAddOptionalStep
	evAddVectorStep
	evNumberToNumber // partial
	evMakeFieldOptional
	evAddRequiredField
	evRemoveRequiredField
	evOptionalToUnion
	evAddUnionCase
	evRemoveStep // errors from here
	evReorderSteps
	evEnumValueChanged
	evEnumValueRemoved
	evEnumBaseChanged
	evScalarToVector
	evGenericSecondArgIncompatible
	evGenericThirdArgIncompatible
	evVectorLengthChanged
	evMapKeyChanged
	evAddPlainStep
	evFieldTypeIncompatible
	nEvEdits
)

var evNames = []string{"none", "reorder-definitions", "add-unused-type", "rename-via-alias", "add-optional-field", "reorder-fields", "add-stream-step",
	"add-optional-step", "add-vector-step", "number-to-number", "make-field-optional", "add-required-field", "remove-required-field", "optional-to-union",
	"add-union-case", "remove-step", "reorder-steps", "enum-value-changed", "enum-value-removed", "enum-base-changed", "scalar-to-vector",
	"generic-second-arg-incompatible", "generic-third-arg-incompatible", "vector-length-changed", "map-key-changed", "add-plain-step", "field-type-incompatible"}

func evClass(e int) string {
	switch {
	case e <= evAddVectorStep:
		return "silent"
	case e <= evAddUnionCase:
		return "warning"
	}
	return "error"
}

type evLeaves struct {
	numFrom, numTo string
	len1, len2     uint64
	container      int // 0: Header is not used inside a map/array; 1: also as a map value; 2: also as a dynamic-array element
	// enum-value-changed: the base type of Kind and the value of its symbol b before / after (sign, magnitude)
	enumBase               string
	enumOldNeg, enumNewNeg bool
	enumOldMag, enumNewMag uint64
}

// evEnumPool: boundary values of an enum base type as (negative, magnitude) pairs; 0 and 2 are the values of the
// neighbouring symbols a and c
func evEnumPool(base string) (neg []bool, mag []uint64) {
	add := func(n bool, m uint64) { neg, mag = append(neg, n), append(mag, m) }
	w := uint(primWidth(base))
	if base[0] == 'u' {
		add(false, 1)
		add(false, 7)
		add(false, uint64(1)<<(w-1))
		add(false, (uint64(1)<<(w-1))-1+(uint64(1)<<(w-1)))
		return
	}
	add(true, uint64(1)<<(w-1))
	add(true, 7)
	add(true, 1)
	add(false, 1)
	add(false, 7)
	add(false, (uint64(1)<<(w-1))-1)
	return
}

func evBig(neg bool, mag uint64) big.Int {
	x := new(big.Int).SetUint64(mag)
	if neg {
		x = new(big.Int).Neg(x)
	}
	return *x
}

func evModel(b *mb, e int, hdr bool, L *evLeaves, isNew bool) *dsl.Namespace {
	ns := "Ns"
	ed := func(x int) bool { return isNew && e == x }
	headerName := "Header"
	if ed(evRenameViaAlias) {
		headerName = "Person"
	}
	idType := L.numFrom
	if ed(evNumberToNumber) {
		idType = L.numTo
	}
	var nameT dsl.Type = b.st("string")
	if ed(evMakeFieldOptional) {
		nameT = b.opt(b.st("string"))
	}
	if ed(evFieldTypeIncompatible) {
		nameT = b.st("Kind")
	}
	hf := []*dsl.Field{b.field("id", b.st(idType)), b.field("name", nameT)}
	if !ed(evRemoveRequiredField) {
		hf = append(hf, b.field("weight", b.st("float")))
	}
	if ed(evAddRequiredField) {
		hf = append(hf, b.field("extra", b.st("int")))
	}
	if ed(evAddOptionalField) || (isNew && hdr) {
		hf = append(hf, b.field("note", b.opt(b.st("string"))))
	}
	if ed(evReorderFields) {
		hf[0], hf[1] = hf[1], hf[0]
	}
	header := b.record(ns, headerName, nil, hf...)
	pair := b.record(ns, "Pair", []string{"A", "B"}, b.field("first", b.st("A")), b.field("second", b.st("B")))
	triple := b.record(ns, "Triple", []string{"A", "B", "C"}, b.field("x", b.st("A")), b.field("y", b.st("B")), b.field("z", b.st("C")))
	var base dsl.Type = b.st("int16")
	if ed(evEnumBaseChanged) {
		base = b.st("int64")
	}
	if e == evEnumValueChanged && L.enumBase != "" {
		base = b.st(L.enumBase)
	}
	kind := b.enum(ns, "Kind", base, "a", "b", "c")
	if e == evEnumValueChanged && L.enumBase != "" {
		// the value of b before and after the edit (a = 0 and c = 2 stay)
		if isNew {
			kind.Values[1].IntegerValue = evBig(L.enumNewNeg, L.enumNewMag)
		} else {
			kind.Values[1].IntegerValue = evBig(L.enumOldNeg, L.enumOldMag)
		}
	} else if ed(evEnumValueChanged) {
		kind.Values[1].IntegerValue = *big.NewInt(7)
	}
	if ed(evEnumValueRemoved) {
		kind.Values = kind.Values[:2]
	}
	tds := dsl.TypeDefinitions{header, pair, triple, kind}
	if ed(evRenameViaAlias) {
		tds = append(tds, b.alias(ns, "Header", nil, b.st("Person")))
	}
	if ed(evAddUnusedType) {
		tds = append(tds, b.record(ns, "Unused", nil, b.field("q", b.st("int"))))
	}
	if ed(evReorderDefinitions) {
		tds[0], tds[3] = tds[3], tds[0]
	}
	hRef := func() dsl.Type { return b.st(headerName) }
	var second dsl.Type = b.st("int")
	if ed(evGenericSecondArgIncompatible) {
		second = b.vec(b.st("string"))
	}
	var third dsl.Type = b.st("int")
	if ed(evGenericThirdArgIncompatible) {
		third = b.st("bool")
	}
	var hStep dsl.Type = hRef()
	if ed(evScalarToVector) {
		hStep = b.vec(hRef())
	}
	vlen := L.len1
	if ed(evVectorLengthChanged) {
		vlen = L.len2
	}
	key := "string"
	if ed(evMapKeyChanged) {
		key = "int"
	}
	var optT dsl.Type = b.opt(b.st("int"))
	if ed(evOptionalToUnion) {
		optT = b.gt(nil, nil, b.st("int"), b.st("string"))
	}
	u := b.gt(nil, b.st("int"), b.st("string"))
	if ed(evAddUnionCase) {
		u = b.gt(nil, b.st("int"), b.st("string"), b.st("float"))
	}
	steps := []*dsl.ProtocolStep{
		b.step("h", hStep),
		b.step("p", b.st("Pair", hRef(), second)),
		b.step("t", b.st("Triple", b.st("int"), hRef(), third)),
		b.step("items", b.strm(hRef())),
		b.step("k", b.st("Kind")),
		b.step("o", optT),
		b.step("u", u),
		b.step("fv", b.gt(&dsl.Vector{NodeMeta: b.meta(), Length: &vlen}, b.st("int"))),
		b.step("m", b.mapOf(b.st(key), b.st("int"))),
	}
	switch L.container {
	case 1:
		steps = append(steps, b.step("mh", b.mapOf(b.st("string"), hRef())))
	case 2:
		steps = append(steps, b.step("ah", b.gt(&dsl.Array{NodeMeta: b.meta()}, hRef())))
	}
	switch {
	case ed(evRemoveStep):
		steps = append(steps[:4], steps[5:]...)
	case ed(evReorderSteps):
		steps[4], steps[5] = steps[5], steps[4]
	case ed(evAddStreamStep):
		steps = append(steps, b.step("more", b.strm(b.st("int"))))
	case ed(evAddOptionalStep):
		steps = append(steps, b.step("more", b.opt(b.st("int"))))
	case ed(evAddVectorStep):
		steps = append(steps, b.step("more", b.vec(b.st("int"))))
	case ed(evAddPlainStep):
		steps = append(steps, b.step("more", b.st("int")))
	}
	return &dsl.Namespace{Name: ns, IsTopLevel: true, TypeDefinitions: tds, Protocols: []*dsl.ProtocolDefinition{b.protocol(ns, "Proto", steps...)}}
}

var evNums = []string{"int32", "int64", "uint8", "float64"}

// C06Env: ValidateEvolution(new, [old]) where new = edit(old) for one documented edit class.
func C06Env() {
	e := verifChoose("edit", nEvEdits)
	hdr := false
	if e != evAddOptionalField && e != evRemoveRequiredField && e != evAddRequiredField {
		hdr = verifChoose("header-also-gains-optional-field", 2) == 1
	}
	L := &evLeaves{numFrom: "int32", numTo: "int32", len1: 3, len2: 3}
	if e == evNone || e == evAddOptionalField || e == evReorderFields || e == evNumberToNumber {
		L.container = verifChoose("header-inside-container", 3)
	}
	verifOut("container", L.container)
	if e == evNumberToNumber {
		L.numFrom, L.numTo = verifOneOf("from", evNums...), verifOneOf("to", evNums...)
	}
	if e == evVectorLengthChanged {
		L.len1, L.len2 = verifUint64("len1"), verifUint64("len2")
	}
	if e == evEnumValueChanged {
		// any two different values of the symbol, over the boundary values of a symbolic base type (a change of sign included)
		bases := []string{"int8", "int16", "int32", "int64", "uint8", "uint64"}
		L.enumBase = bases[verifChoose("enum-base", len(bases))]
		negs, mags := evEnumPool(L.enumBase)
		io, in := verifChoose("enum-old-value", len(mags)), verifChoose("enum-new-value", len(mags))
		verifAssume(io != in)
		L.enumOldNeg, L.enumOldMag, L.enumNewNeg, L.enumNewMag = negs[io], mags[io], negs[in], mags[in]
		verifOut("enum-base", L.enumBase)
	}
	verifOut("edit", evNames[e])
	oldEnv, errOld := dsl.Validate([]*dsl.Namespace{evModel(&mb{file: "v0/model.yml"}, e, hdr, L, false)})
	newEnv, errNew := dsl.Validate([]*dsl.Namespace{evModel(&mb{file: "model.yml"}, e, hdr, L, true)})
	verifAssert("both-versions-valid", errOld == nil && errNew == nil)
	if errOld != nil || errNew != nil {
		verifOut("validate-error", errText(errOld)+errText(errNew))
		return
	}
	var warnings []string
	var err error
	msg, panicked := verifPanics(func() { _, warnings, err = dsl.ValidateEvolution(newEnv, []*dsl.Environment{oldEnv}, []string{"v0"}) })
	verifOut("panic", msg)
	verifAssert("verdict-without-panic", !panicked)
	if panicked {
		return
	}
	verifOut("err", errText(err))
	verifOut("nwarnings", len(warnings))
	class := evClass(e)
	if e == evNumberToNumber && L.numFrom == L.numTo {
		class = "silent"
	}
	if e == evVectorLengthChanged && L.len1 == L.len2 {
		class = "silent"
	}
	verifOut("class", class)
	switch class {
	case "error":
		verifAssert("breaking-change-rejected", err != nil)
	case "warning":
		verifAssert("partial-change-accepted", err == nil)
		verifAssert("partial-change-warned", len(warnings) > 0)
	default:
		verifAssert("compatible-change-accepted", err == nil)
		verifAssert("compatible-change-silent", len(warnings) == 0)
	}
	verifReach("c06-env-end")
}
