package zzverif

// C05 / C04 / C15 (C++ emitter level): the constructors of the generated binary reader / writer classes
// (cpp/binary writeHeaderFile -> binary/protocols.h).
//
// docs/cpp/evolution.md: a writer instantiated "with the version v1" writes a stream the v1 release reads.  The v1 reader
// recognises a stream by the schema in its header (docs/reference/binary.md) and a writer converts every step according to
// its member `version_` (c05_version_switch_writer).  Both only fit together when every constructor hands the base class
// yardl::binary::BinaryWriter the schema of the SAME version it stores in version_, and stores the version it was asked for.
// The reader's version_ must be the version whose schema the base class yardl::binary::BinaryReader read from the header.
//
// binary/protocols.h is read back: class heads with their base classes, every constructor with its parameter list
// (default arguments) and its mem-initialiser list.  The mem-initialisers are evaluated with C++ meaning (bases in
// declaration order, then members; an unqualified name is a constructor parameter or a member) on top of the translation
// unit of protocols.h/.cc as read by zz_c04_cppschemas.go (SchemaFromVersion / VersionFromSchema / schema_ are evaluated,
// not assumed), for symbolic version labels and per-version change kinds, for EVERY enumerator of `Version` as the
// constructor argument and for the default argument.

import (
	"fmt"
	"os"
	"strings"

	cppbinary "github.com/microsoft/yardl/tooling/internal/cpp/binary"
	cppprotocols "github.com/microsoft/yardl/tooling/internal/cpp/protocols"
	"github.com/microsoft/yardl/tooling/pkg/dsl"
	"github.com/microsoft/yardl/tooling/pkg/packaging"
)

type c05cCtor struct {
	params []string   // parameter names
	types  []string   // parameter types
	defs   []string   // default argument texts ("" = none)
	inits  [][]string // mem-initialisers: target, arguments...
}

type c05cClass struct {
	name  string
	bases []string
	ctors []*c05cCtor
	bad   string
}

// c05cSplit: split at top-level occurrences of sep (outside parentheses / angle brackets / braces)
func c05cSplit(s string, sep byte) []string {
	var out []string
	depth, start := 0, 0
	for i := 0; i < len(s); i++ {
		switch s[i] {
		case '(', '{', '<':
			depth++
		case ')', '}', '>':
			depth--
		}
		if s[i] == sep && depth == 0 {
			out = append(out, strings.TrimSpace(s[start:i]))
			start = i + 1
		}
	}
	if strings.TrimSpace(s[start:]) != "" || len(out) > 0 {
		out = append(out, strings.TrimSpace(s[start:]))
	}
	return out
}

// c05cCall: `callee(args)` -> callee, args
func c05cCall(s string) (string, []string, bool) {
	k := strings.Index(s, "(")
	if k <= 0 || !strings.HasSuffix(s, ")") {
		return "", nil, false
	}
	return s[:k], c05cSplit(s[k+1:len(s)-1], ','), true
}

func c05cReadClasses(text string) []*c05cClass {
	var out []*c05cClass
	var cur *c05cClass
	lines := strings.Split(text, "\n")
	for i := 0; i < len(lines); i++ {
		l := strings.TrimSpace(lines[i])
		if strings.HasPrefix(l, "class ") && strings.HasSuffix(l, " {") {
			head := l[len("class ") : len(l)-2]
			cur = &c05cClass{}
			if k := strings.Index(head, " : "); k > 0 {
				cur.name = head[:k]
				for _, b := range c05cSplit(head[k+3:], ',') {
					cur.bases = append(cur.bases, strings.TrimPrefix(b, "public "))
				}
			} else {
				cur.name = head
			}
			out = append(out, cur)
			continue
		}
		if l == "};" {
			cur = nil
			continue
		}
		if cur == nil || !strings.HasPrefix(l, cur.name+"(") {
			continue
		}
		// a constructor: `Name(params)` then `: mem-initialisers {` [body] `}`
		c := &c05cCtor{}
		_, params, ok := c05cCall(l)
		if !ok || i+1 >= len(lines) {
			cur.bad = "constructor head: " + l
			continue
		}
		for _, p := range params {
			def := ""
			if k := strings.Index(p, "="); k > 0 {
				def = strings.TrimSpace(p[k+1:])
				p = strings.TrimSpace(p[:k])
			}
			sp := strings.LastIndex(p, " ")
			if sp < 0 {
				cur.bad = "parameter: " + p
				break
			}
			c.params, c.types, c.defs = append(c.params, p[sp+1:]), append(c.types, p[:sp]), append(c.defs, def)
		}
		il := strings.TrimSpace(lines[i+1])
		if !strings.HasPrefix(il, ": ") || !(strings.HasSuffix(il, " {") || strings.HasSuffix(il, " {}")) {
			cur.bad = "mem-initialiser list: " + il
			continue
		}
		body := ""
		if strings.HasSuffix(il, " {}") {
			il = il[:len(il)-1]
		} else if i+2 < len(lines) {
			body = strings.TrimSpace(lines[i+2])
			if body != "}" {
				cur.bad = "constructor body is not empty: " + body
			}
		}
		for _, mi := range c05cSplit(il[2:len(il)-2], ',') {
			t, args, ok := c05cCall(mi)
			if !ok {
				cur.bad = "mem-initialiser: " + mi
				break
			}
			c.inits = append(c.inits, append([]string{t}, args...))
		}
		cur.ctors = append(cur.ctors, c)
		i++
	}
	return out
}

type c05cEval struct {
	mc     *c04sMachine
	tu     *c04sTU
	toks   []c04sTok
	locals map[string]*c04sVal
	class  string // the class whose scope unqualified member names are looked up in
	bad    string
}

func (e *c05cEval) fail(msg string) *c04sVal {
	if e.bad == "" {
		e.bad = msg
	}
	return &c04sVal{k: 's'}
}

// expr: a parameter / member / qualified name, or a call of a one-parameter static member function of the unit
func (e *c05cEval) expr(s string) *c04sVal {
	if callee, args, ok := c05cCall(s); ok {
		q := strings.Split(callee, "::")
		if len(q) < 2 || len(args) != 1 {
			return e.fail("call: " + s)
		}
		arg := e.expr(args[0])
		if e.bad != "" {
			return arg
		}
		for _, f := range e.tu.funcs {
			if f.class == q[len(q)-2] && f.name == q[len(q)-1] {
				o, v := e.mc.call(e.toks, f, arg)
				if e.mc.bad != "" {
					return e.fail(e.mc.bad)
				}
				if o == c04sThrew {
					return &c04sVal{k: 't'} // the constructor throws
				}
				if o != c04sReturned || v == nil {
					return e.fail("call does not return a value: " + s)
				}
				return v
			}
		}
		return e.fail("unknown function " + callee)
	}
	toks, bad := c04sLex(s)
	if bad != "" {
		return e.fail(bad)
	}
	p := &c04sParser{toks: toks}
	x := p.expr()
	if p.bad != "" || p.pos != len(toks) {
		return e.fail("expression: " + s)
	}
	e.mc.locals, e.mc.class, e.mc.current = e.locals, e.class, "constructor"
	v := e.mc.eval(x)
	if e.mc.bad != "" {
		return e.fail(e.mc.bad)
	}
	return v
}

// C05CppConstructors(m, kinds, nLabels): as C04CppSchemas.
func C05CppConstructors(m, kinds, nLabels int) {
	labels := make([]string, m)
	for j := range labels {
		labels[j] = verifOneOf(fmt.Sprintf("label-%d", j), c04sLabelPool[:nLabels]...)
		for i := 0; i < j; i++ {
			verifAssume(labels[i] != labels[j])
		}
	}
	kind := make([]int, m)
	for j := range kind {
		kind[j] = verifChoose(fmt.Sprintf("kind-%d", j), kinds)
	}
	cur, err := dsl.Validate([]*dsl.Namespace{c04sModel("model.yml", c04sSame)})
	verifAssert("models-validate", err == nil)
	if err != nil {
		return
	}
	olds := make([]*dsl.Environment, m)
	for j := range olds {
		olds[j], err = dsl.Validate([]*dsl.Namespace{c04sModel(fmt.Sprintf("prev%d/model.yml", j), kind[j])})
		verifAssert("models-validate", err == nil)
		if err != nil {
			return
		}
	}
	np := len(cur.Namespaces[0].Protocols)
	wantCur := make([]string, np)
	wantOld := make([][]string, np)
	for pi, p := range cur.Namespaces[0].Protocols {
		wantCur[pi] = dsl.GetProtocolSchemaString(p, cur.SymbolTable)
		wantOld[pi] = make([]string, m)
		for j := range olds {
			wantOld[pi][j] = dsl.GetProtocolSchemaString(olds[j].Namespaces[0].Protocols[pi], olds[j].SymbolTable)
		}
	}
	var everr error
	_, panicked := verifPanics(func() { _, _, everr = dsl.ValidateEvolution(cur, olds, labels) })
	verifAssert("documented-compatible-changes-accepted", !panicked && everr == nil)
	if panicked || everr != nil {
		return
	}
	ns := cur.Namespaces[0]
	unit := c04sConc(cppprotocols.VerifWriteDeclarations(ns) + "\n" + cppprotocols.VerifWriteDefinitions(ns, cur.SymbolTable))
	toks, bad := c04sLex(unit)
	var tu *c04sTU
	if bad == "" {
		tu, bad = c04sParseTU(toks)
	}
	var mc *c04sMachine
	if bad == "" {
		mc = c04sInit(tu)
		bad = mc.bad
		if bad == "" && mc.enum == nil {
			bad = "no enum class Version"
		}
	}
	verifOut("unit", bad)
	verifAssert("emitted-unit-understood", bad == "")
	if bad != "" {
		return
	}
	nv := len(mc.enum.items) // the labels in declaration order, then Current
	verifAssert("version-enum-lists-each-label-once", nv == m+1)
	if nv != m+1 {
		return
	}

	dir := verifPath("/out/cpp/binary")
	if err := os.MkdirAll(dir, 0775); err != nil {
		verifAssert("header-written", false)
		return
	}
	err = cppbinary.VerifWriteHeaderFile(cur, packaging.CppCodegenOptions{SourcesOutputDir: dir})
	header, found := verifFsGet("/out/cpp/binary/protocols.h")
	verifAssert("header-written", err == nil && found)
	if err != nil || !found {
		return
	}
	classes := c05cReadClasses(c04sConc(header))

	for pi, p := range ns.Protocols {
		wantOf := func(v int) string {
			if v < m {
				return wantOld[pi][v]
			}
			return wantCur[pi]
		}
		for side, suffix := range []string{"WriterBase", "ReaderBase"} {
			var cl *c05cClass
			for _, c := range classes {
				for _, b := range c.bases {
					if strings.HasSuffix(b, "::"+p.Name+suffix) {
						cl = c
					}
				}
			}
			okClass := cl != nil && cl.bad == "" && len(cl.ctors) > 0
			if cl != nil {
				verifOut("class", cl.name+" "+cl.bad)
			}
			verifAssert("generated-class-and-constructors-understood", okClass)
			if !okClass {
				return
			}
			runtimeBase := []string{"yardl::binary::BinaryWriter", "yardl::binary::BinaryReader"}[side]
			hasRuntimeBase := false
			for _, b := range cl.bases {
				hasRuntimeBase = hasRuntimeBase || b == runtimeBase
			}
			verifAssert("class-derives-from-the-runtime-stream-class", hasRuntimeBase)
			sawStream, sawFile := false, false
			for _, ct := range cl.ctors {
				if len(ct.params) == 0 {
					verifAssert("generated-class-and-constructors-understood", false)
					return
				}
				sawStream = sawStream || strings.Contains(ct.types[0], "stream&")
				sawFile = sawFile || ct.types[0] == "std::string"
				// the constructor argument: every enumerator, and (index nv) the default argument
				for arg := 0; arg <= nv; arg++ {
					e := &c05cEval{mc: mc, tu: tu, toks: toks, class: p.Name + suffix, locals: map[string]*c04sVal{}}
					asked := -1
					for k, prm := range ct.params {
						switch {
						case ct.types[k] == "Version" && arg < nv:
							e.locals[prm], asked = &c04sVal{k: 'e', n: arg}, arg
						case ct.types[k] == "Version" && ct.defs[k] != "":
							d := e.expr(ct.defs[k])
							e.locals[prm] = d
							if d.k == 'e' {
								asked = d.n
							}
						case ct.types[k] == "Version":
							e.fail("version parameter without default argument") // documented: the version argument is optional
						default:
							e.locals[prm] = &c04sVal{k: 's', s: "<parameter " + prm + ">"}
						}
					}
					if side == 1 {
						if arg == nv {
							continue
						}
						// yardl::binary::BinaryReader(stream) reads the header: schema_read_ is the schema text found there
						e.locals["schema_read_"] = &c04sVal{k: 's', s: wantOf(arg)}
					}
					var baseArgs []*c04sVal
					var version *c04sVal
					for _, in := range ct.inits {
						switch {
						case in[0] == runtimeBase:
							for _, a := range in[1:] {
								baseArgs = append(baseArgs, e.expr(a))
							}
						case in[0] == "version_" && len(in) == 2:
							version = e.expr(in[1])
						case strings.HasSuffix(in[0], "::"+p.Name+suffix):
							// the abstract base class: not concerned with the stream
						default:
							e.fail("mem-initialiser of " + in[0])
						}
					}
					verifOut("constructor", e.bad)
					verifAssert("generated-class-and-constructors-understood", e.bad == "")
					if e.bad != "" {
						return
					}
					first := "<parameter " + ct.params[0] + ">"
					if side == 0 {
						verifAssert("writer-opens-the-stream-it-was-given", len(baseArgs) == 2 && baseArgs[0].k == 's' && baseArgs[0].s == first)
						verifAssert("writer-stores-the-version-it-was-asked-for", version != nil && version.k == 'e' && version.n == asked)
						if len(baseArgs) == 2 && version != nil && version.k == 'e' {
							verifAssert("header-schema-is-the-schema-of-the-version-the-writer-converts-to", baseArgs[1].k == 's' && baseArgs[1].s == wantOf(version.n))
						}
					} else {
						verifAssert("reader-opens-the-stream-it-was-given", len(baseArgs) == 1 && baseArgs[0].k == 's' && baseArgs[0].s == first)
						verifAssert("reader-version-is-a-version-with-the-schema-read", version != nil && version.k == 'e' && wantOf(version.n) == wantOf(arg))
					}
				}
			}
			verifAssert("stream-and-file-name-constructors-generated", sawStream && sawFile)
		}
	}
	verifReach("c05c-end")
}
