package zzverif

// C09, "an ill-typed computed field is rejected": element access `target[args]` on vectors, arrays and maps.
// Every subscript built here is well-shaped (right number of arguments, labels - if any - naming the
// dimensions in order, literal indices inside fixed bounds); what is symbolic is the STATIC TYPE of each
// argument expression.  Oracle: the model is accepted iff every index argument has an integral type
// (map lookup: iff the argument has the key type); otherwise it is rejected with an error naming the file.

import (
	"strings"

	"github.com/microsoft/yardl/tooling/pkg/dsl"
)

// integral primitives (docs/*/language.md, "Primitive types": the signed / unsigned integers and size)
var c09subIntegral = map[string]bool{"int8": true, "uint8": true, "int16": true, "uint16": true, "int32": true, "uint32": true, "int64": true, "uint64": true,
	"int": true, "uint": true, "long": true, "ulong": true, "size": true}

// documented aliases of primitives (docs/*/language.md, table of primitive types: int = int32, uint = uint32, long = int64,
// ulong = uint64, float = float32, double = float64, ...).  `size` is described as "equivalent to uint64" without being called
// an alias: whether a size value may look up a uint64-keyed map (or the reverse) is left undecided here.
var c09subCanonical = map[string]string{"int": "int32", "uint": "uint32", "long": "int64", "ulong": "uint64", "float": "float32", "double": "float64",
	"complexfloat": "complexfloat32", "complexdouble": "complexfloat64"}

func c09subSamePrimitive(p, q string) bool {
	if c, ok := c09subCanonical[p]; ok {
		p = c
	}
	if c, ok := c09subCanonical[q]; ok {
		q = c
	}
	return p == q
}

func c09subCanon(p string) string {
	if c, ok := c09subCanonical[p]; ok {
		return c
	}
	return p
}

func c09subUnspecifiedPair(p, q string) bool {
	return (p == "size" && c09subCanon(q) == "uint64") || (q == "size" && c09subCanon(p) == "uint64")
}

var c09subPrimsQuick = []string{"int", "uint64", "float", "string", "bool"}
var c09subPrimsFull = []string{"int", "uint64", "int8", "long", "size", "float", "complexfloat", "string", "bool", "date"}

const (
	c09subVector = iota
	c09subFixedVector
	c09subNamed1     // float[x]
	c09subNamed2     // float[x, y]
	c09subFixedNamed // float[x:2, y:3]
	c09subFixed      // float[2, 3]
	c09subRank2      // float[,]
	c09subDynamic    // float[]
	c09subMap
	c09subNTargets
)

var c09subTargetNames = []string{"vector", "fixed-vector", "array[x]", "array[x,y]", "array[x:2,y:3]", "array[2,3]", "array[,]", "array[]", "map"}

func c09subTargetType(b *mb, target int, key string) dsl.Type {
	x, y := "x", "y"
	two, three := uint64(2), uint64(3)
	arr := func(dims ...*dsl.ArrayDimension) dsl.Type {
		a := &dsl.Array{NodeMeta: b.meta()}
		if dims != nil {
			d := dsl.ArrayDimensions(dims)
			a.Dimensions = &d
		}
		return b.gt(a, b.st("float"))
	}
	dim := func(name *string, length *uint64) *dsl.ArrayDimension {
		return &dsl.ArrayDimension{NodeMeta: b.meta(), Name: name, Length: length}
	}
	switch target {
	case c09subVector:
		return b.vec(b.st("float"))
	case c09subFixedVector:
		return b.fvec(b.st("float"), 3)
	case c09subNamed1:
		return arr(dim(&x, nil))
	case c09subNamed2:
		return arr(dim(&x, nil), dim(&y, nil))
	case c09subFixedNamed:
		return arr(dim(&x, &two), dim(&y, &three))
	case c09subFixed:
		return arr(dim(nil, &two), dim(nil, &three))
	case c09subRank2:
		return arr(dim(nil, nil), dim(nil, nil))
	case c09subDynamic:
		return arr()
	default:
		return b.mapOf(b.st(key), b.st("float"))
	}
}

func c09subArity(target int) int {
	switch target {
	case c09subNamed2, c09subFixedNamed, c09subFixed, c09subRank2:
		return 2
	}
	return 1
}

func c09subHasNames(target int) bool {
	return target == c09subNamed1 || target == c09subNamed2 || target == c09subFixedNamed
}

const (
	c09subArgField       = iota // a field of a symbolic primitive type
	c09subArgIntLiteral         // 0
	c09subArgFloatLit           // 1.5
	c09subArgStringLit          // "x"
	c09subArgVectorField        // a field of type int*
	c09subArgOptional           // a field of type int?
	c09subArgAliasField         // a field whose type is an alias of a symbolic primitive type
	c09subArgConverted          // <float field> as <symbolic primitive>
	c09subArgSum                // <field of symbolic primitive type> + 1
	c09subArgComputed           // another computed field of the record, of a symbolic primitive type (a conversion)
	c09subNArgForms
)

var c09subArgFormNames = []string{"field", "int-literal", "float-literal", "string-literal", "vector-field", "optional-field", "alias-typed-field",
	"conversion", "sum", "computed-field"}

type c09subGen struct {
	b      *mb
	ns     string
	prims  []string
	fields []*dsl.Field
	comps  dsl.ComputedFields
	defs   dsl.TypeDefinitions
}

func (g *c09subGen) member(name string) dsl.Expression {
	return &dsl.MemberAccessExpression{NodeMeta: g.b.meta(), Member: name}
}

// arg: the k-th argument expression; returns (expression, static type is integral, form)
func (g *c09subGen) arg(k int, nforms int) (dsl.Expression, bool, int) {
	b := g.b
	sfx := string(rune('0' + k))
	form := verifChoose("arg"+sfx+"-form", nforms)
	verifOut("arg"+sfx, c09subArgFormNames[form])
	switch form {
	case c09subArgField:
		p := verifOneOf("arg"+sfx+"-type", g.prims...)
		g.fields = append(g.fields, b.field("k"+sfx, b.st(p)))
		return g.member("k" + sfx), c09subIntegral[p], form
	case c09subArgIntLiteral:
		e := &dsl.IntegerLiteralExpression{NodeMeta: b.meta()}
		return e, true, form
	case c09subArgFloatLit:
		return &dsl.FloatingPointLiteralExpression{NodeMeta: b.meta(), Value: "1.5"}, false, form
	case c09subArgStringLit:
		return &dsl.StringLiteralExpression{NodeMeta: b.meta(), Value: "x"}, false, form
	case c09subArgVectorField:
		g.fields = append(g.fields, b.field("k"+sfx, b.vec(b.st("int"))))
		return g.member("k" + sfx), false, form
	case c09subArgOptional:
		g.fields = append(g.fields, b.field("k"+sfx, b.opt(b.st("int"))))
		return g.member("k" + sfx), false, form
	case c09subArgAliasField:
		p := verifOneOf("arg"+sfx+"-type", "int", "uint64", "size", "float", "string")
		g.defs = append(g.defs, b.alias(g.ns, "Idx"+sfx, nil, b.st(p)))
		g.fields = append(g.fields, b.field("k"+sfx, b.st("Idx"+sfx)))
		return g.member("k" + sfx), c09subIntegral[p], form
	case c09subArgConverted:
		p := verifOneOf("arg"+sfx+"-type", "int", "uint64", "size", "float", "float64")
		g.fields = append(g.fields, b.field("k"+sfx, b.st("float")))
		return &dsl.TypeConversionExpression{NodeMeta: b.meta(), Expression: g.member("k" + sfx), Type: b.st(p)}, c09subIntegral[p], form
	case c09subArgSum:
		p := verifOneOf("arg"+sfx+"-type", "int", "uint64", "int8", "float", "float64")
		g.fields = append(g.fields, b.field("k"+sfx, b.st(p)))
		one := &dsl.IntegerLiteralExpression{NodeMeta: b.meta()}
		one.Value.SetInt64(1)
		return &dsl.BinaryExpression{NodeMeta: b.meta(), Left: g.member("k" + sfx), Operator: dsl.BinaryOperator(0), Right: one}, c09subIntegral[p], form
	default:
		p := verifOneOf("arg"+sfx+"-type", "int", "uint64", "float", "float64")
		g.fields = append(g.fields, b.field("k"+sfx, b.st("float")))
		g.comps = append(g.comps, &dsl.ComputedField{NodeMeta: b.meta(), Name: "ck" + sfx,
			Expression: &dsl.TypeConversionExpression{NodeMeta: b.meta(), Expression: g.member("k" + sfx), Type: b.st(p)}})
		return g.member("ck" + sfx), c09subIntegral[p], form
	}
}

// C09Subscripts(full): target shape x labelled? x target written inline / through an alias / on a sub-record x per-argument (form, static type).
func C09Subscripts(full int) {
	b := &mb{file: "main/model.yml"}
	ns := "Main"
	g := &c09subGen{b: b, ns: ns, prims: c09subPrimsQuick}
	nforms := c09subArgOptional + 1
	if full == 1 {
		g.prims = c09subPrimsFull
		nforms = c09subNArgForms
	}
	target := verifChoose("target", c09subNTargets)
	verifOut("rule", "subscript-argument-type:"+c09subTargetNames[target])
	labelled := false
	if c09subHasNames(target) {
		labelled = verifChoose("labelled", 2) == 1
	}
	via := verifChoose("target-via", 3) // 0: field type written inline, 1: field of an alias type, 2: field of a sub-record
	key := "string"
	if target == c09subMap {
		key = verifOneOf("map-key", g.prims...)
	}
	tt := c09subTargetType(b, target, key)
	var targetExpr dsl.Expression
	switch via {
	case 0:
		g.fields = append(g.fields, b.field("t", tt))
		targetExpr = g.member("t")
	case 1:
		g.defs = append(g.defs, b.alias(ns, "Target", nil, tt))
		g.fields = append(g.fields, b.field("t", b.st("Target")))
		targetExpr = g.member("t")
	default:
		g.defs = append(g.defs, b.record(ns, "Sub", nil, b.field("t", tt)))
		g.fields = append(g.fields, b.field("sub", b.st("Sub")))
		targetExpr = &dsl.MemberAccessExpression{NodeMeta: b.meta(), Target: g.member("sub"), Member: "t"}
	}
	sub := &dsl.SubscriptExpression{NodeMeta: b.meta(), Target: targetExpr}
	ok, unspecified := true, false
	extended := false // thorough tier: at most one argument takes one of the extended forms
	labels := []string{"x", "y"}
	for k := 0; k < c09subArity(target); k++ {
		if target == c09subMap {
			// a map lookup takes a value of the key type: fields of a bare primitive type only (the static type of a literal is not documented)
			p := verifOneOf("arg0-type", g.prims...)
			g.fields = append(g.fields, b.field("k0", b.st(p)))
			sub.Arguments = append(sub.Arguments, &dsl.SubscriptArgument{NodeMeta: b.meta(), Value: g.member("k0")})
			ok = c09subSamePrimitive(p, key)
			unspecified = c09subUnspecifiedPair(p, key)
			continue
		}
		nf := nforms
		if extended {
			nf = c09subArgOptional + 1
		}
		e, integral, form := g.arg(k, nf)
		extended = extended || form > c09subArgOptional
		a := &dsl.SubscriptArgument{NodeMeta: b.meta(), Value: e}
		if labelled {
			a.Label = labels[k]
		}
		sub.Arguments = append(sub.Arguments, a)
		ok = ok && integral
	}
	rec := b.record(ns, "Rec", nil, g.fields...)
	rec.ComputedFields = append(g.comps, &dsl.ComputedField{NodeMeta: b.meta(), Name: "element", Expression: sub})
	n := &dsl.Namespace{Name: ns, IsTopLevel: true}
	n.TypeDefinitions = append(g.defs, rec)
	var err error
	msg, panicked := verifPanics(func() { _, err = dsl.Validate([]*dsl.Namespace{n}) })
	verifOut("panic", msg)
	verifAssert("no-panic", !panicked)
	verifOut("err", errText(err))
	if unspecified {
		verifReach("c09-subscripts-size-vs-uint64-key")
	} else if ok {
		verifAssert("well-typed-subscript-accepted", err == nil)
	} else {
		verifAssert("violation-rejected", err != nil)
		verifAssert("error-names-offending-file", err == nil || strings.Contains(errText(err), "main/model.yml:"))
	}
	verifReach("c09-subscripts-end")
}
