package zzverif

// C13, "non-documentation comments and whitespace" clause: the documentation comment the YAML layer
// attaches to an element (dsl.normalizeComment applied to yaml.v3's HeadComment, the only way comment
// text enters the model) is the block of comment lines directly above the element; comment blocks
// separated from it by a blank line never influence it.

import (
	"strings"

	"github.com/microsoft/yardl/tooling/pkg/dsl"
)

type commentLine struct {
	text      string // the line as it appears in the head comment
	isComment bool
	doc       string // what the line contributes to a documentation comment ('#' and one optional space removed)
}

// specDocComment: written from the documented behaviour (docs/*/language.md "Comments placed above
// ... types and their fields are captured"; a blank line detaches a comment from the element):
// the maximal trailing run of comment lines, each stripped, joined by newlines.
func specDocComment(lines []commentLine) string {
	run := []string{}
	for _, l := range lines {
		if l.isComment {
			run = append(run, l.doc)
		} else {
			run = []string{}
		}
	}
	return strings.Join(run, "\n")
}

func headCommentOf(lines []commentLine) string {
	texts := []string{}
	for _, l := range lines {
		texts = append(texts, l.text)
	}
	return strings.Join(texts, "\n")
}

func anyCommentLine(label string, texts []string) commentLine {
	switch verifChoose(label+"-kind", 4) {
	case 0:
		return commentLine{text: "", isComment: false}
	case 1:
		return commentLine{text: "#", isComment: true, doc: ""}
	case 2: // "# text"
		t := verifOneOf(label+"-text", texts...)
		return commentLine{text: "# " + t, isComment: true, doc: t}
	default: // "#text" (no space after the '#'; the text itself may start with a space)
		t := verifOneOf(label+"-text", texts...)
		return commentLine{text: "#" + t, isComment: true, doc: strings.TrimPrefix(t, " ")}
	}
}

var commentTexts = []string{"doc", " indented", "a #b: c", "x  "}

// C13Comments: head comment of k <= maxLines lines, each blank / "#" / "# text" / "#text" with text from
// a finite domain of ntexts strings.
func C13Comments(maxLines int, ntexts int) {
	k := verifChoose("nlines", maxLines+1)
	lines := []commentLine{}
	for i := 0; i < k; i++ {
		lines = append(lines, anyCommentLine("line"+string(rune('0'+i)), commentTexts[:ntexts]))
	}
	head := headCommentOf(lines)
	verifOut("head", head)
	got := dsl.VerifNormalizeComment(head)
	verifOut("doc", got)
	want := specDocComment(lines)
	verifAssert("doc-comment-is-the-attached-block", got == want)

	// non-documentation comments: blocks detached from the element by blank lines, written above
	banner := commentLine{text: "# ZZ banner", isComment: true, doc: "ZZ banner"}
	rule := commentLine{text: "#", isComment: true}
	note := commentLine{text: "#ZZ note", isComment: true, doc: "ZZ note"}
	blank := commentLine{}
	for _, detached := range [][]commentLine{
		{banner, blank},
		{banner, blank, blank},
		{banner, rule, note, blank},
		{banner, blank, note, blank},
		{blank, banner, blank, rule, note, blank, blank},
	} {
		all := append(append([]commentLine{}, detached...), lines...)
		got2 := dsl.VerifNormalizeComment(headCommentOf(all))
		verifAssert("detached-comment-blocks-do-not-change-the-doc-comment", got2 == got)
		verifAssert("doc-comment-is-the-attached-block", got2 == specDocComment(all))
	}
	// blank lines alone above the comment do not matter either
	got3 := dsl.VerifNormalizeComment(headCommentOf(append([]commentLine{blank}, lines...)))
	verifAssert("leading-blank-lines-do-not-change-the-doc-comment", got3 == got)
	verifReach("c13-comments-end")
}
