package zzverif

// C09 / C19: unary minus is an arithmetic operator - it is defined for an operand exactly when binary minus is.
//
// Record Rec of zz_c10.go (fields of an integer, a floating-point, string, vector, fixed vector, arrays, map, optional, union and
// record type) with ONE computed field: `-<field>` or, as the reference, `<field> - <field>` for a symbolic field.  The real
// dsl.Validate decides (arrays of numbers may be negated as well: element-wise in numpy and xtensor).  Metamorphic oracle: the verdict on the binary form with the same operand on both sides (no promotion involved).  (An operand that binary minus refuses - a string, a
// vector, a record - makes every backend emit `-(x)` on a value that has no negation: the generated C++ does not compile, the
// generated Python raises TypeError.)

import (
	"github.com/microsoft/yardl/tooling/pkg/dsl"
)

func c09uVerdict(field string, unary bool, intPrim, floatPrim string) (accepted bool, panicked bool) {
	b := &mb{file: "model.yml"}
	g := &eg{b: b}
	rec := exprRecord(b, "Ns", intPrim, floatPrim)
	var e dsl.Expression
	if unary {
		e = &dsl.UnaryExpression{NodeMeta: b.meta(), Operator: dsl.UnaryOpNegate, Expression: g.member(nil, field)}
	} else {
		e = &dsl.BinaryExpression{NodeMeta: b.meta(), Left: g.member(nil, field), Operator: dsl.BinaryOpSub, Right: g.member(nil, field)}
	}
	rec.ComputedFields = dsl.ComputedFields{&dsl.ComputedField{NodeMeta: b.meta(), Name: "c", Expression: e}}
	sub := b.record("Ns", "Sub", nil, b.field("a", b.st("int")))
	n := &dsl.Namespace{Name: "Ns", IsTopLevel: true, TypeDefinitions: dsl.TypeDefinitions{sub, rec}}
	var err error
	_, panicked = verifPanics(func() { _, err = dsl.Validate([]*dsl.Namespace{n}) })
	return err == nil, panicked
}

// C09UnaryOperand()
func C09UnaryOperand() {
	fields := []string{"i", "f", "s", "v", "fv", "arr", "dyn", "m", "o", "u", "sub"}
	field := fields[verifChoose("operand-field", len(fields))]
	intPrim := verifOneOf("int-prim", "int32", "uint8", "int64", "uint64")
	floatPrim := verifOneOf("float-prim", "float32", "float64", "complexfloat32")
	verifOut("operand", field)
	binOK, p1 := c09uVerdict(field, false, intPrim, floatPrim)
	unOK, p2 := c09uVerdict(field, true, intPrim, floatPrim)
	verifAssert("no-panic", !p1 && !p2)
	verifOut("binary-accepted", binOK)
	verifOut("unary-accepted", unOK)
	// arrays of numbers: `-a[0]` negates the array before it is subscripted, and numpy / xtensor negate arrays element-wise:
	// such models have always been accepted (binary operators are not defined on arrays)
	numericArray := field == "arr" || field == "dyn"
	verifAssert("negation-is-defined-iff-subtraction-is", unOK == (binOK || numericArray))
	verifReach("c09u-end")
}
