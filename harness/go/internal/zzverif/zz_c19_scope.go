package zzverif

// C19: a computed field has ONE static type - it does not depend on where the field is referenced from.
//
// `inner.dbl` (a computed field of another record) or `own` (a computed field of the same record) is referenced
// (i) as a plain computed field and (ii) from inside a `!switch` case that declares a variable (`P v: ...`).  The
// name of the variable is symbolic and may coincide with the name of a FIELD that the referenced computed field
// reads; the order in which the two referencing computed fields are declared is symbolic as well.  The real
// dsl.Validate (resolveComputedFields) decides the static types.  Obligations:
//   - the model is accepted whenever the declared variable does not shadow a field of the record that declares it;
//   - the static type of every reference to the computed field equals the static type of the computed field's own
//     body (read from the validated model), whatever surrounds the reference and whichever is resolved first;
//   - the static type of the referenced field is the documented promotion of its operand type, whatever the type
//     of the declared variable is;
//   - the body of the referenced computed field mentions no variable (it declares none).

import (
	"github.com/microsoft/yardl/tooling/pkg/dsl"
)

func c19scCountVariableUses(n dsl.Node) int {
	k := 0
	dsl.Visit(n, func(self dsl.Visitor, node dsl.Node) {
		if m, ok := node.(*dsl.MemberAccessExpression); ok && m.Kind == dsl.MemberAccessVariable {
			k++
		}
		self.VisitChildren(node)
	})
	return k
}

// C19Scope(full): full = 0 seven primitives, 1 all thirteen.
func C19Scope(full int) {
	vocab := c19sPrimsQuick
	if full > 0 {
		vocab = numericPrims
	}
	pField := verifOneOf("field-type", vocab...)  // type of the field the referenced computed field reads
	pVar := verifOneOf("variable-type", vocab...) // type of the variable a switch case declares
	otherRecord := verifChoose("referenced-field-in-other-record", 2) == 1
	varName := []string{"v", "z"}[verifChoose("variable-name", 2)] // v = the name of the field read by the referenced computed field
	swFirst := verifChoose("switch-declared-first", 2) == 1
	verifOut("field-type", pField)
	verifOut("variable-type", pVar)

	b := &mb{file: "model.yml"}
	g := &eg{b: b}
	body := func() dsl.Expression { // v + v
		return &dsl.BinaryExpression{NodeMeta: b.meta(), Left: g.member(nil, "v"), Operator: dsl.BinaryOpAdd, Right: g.member(nil, "v")}
	}
	ref := func() dsl.Expression {
		if otherRecord {
			return g.member(g.member(nil, "inner"), "dbl")
		}
		return g.member(nil, "dbl")
	}
	inner := b.record("Ns", "Inner", nil, b.field("v", b.st(pField)))
	inner.ComputedFields = dsl.ComputedFields{&dsl.ComputedField{NodeMeta: b.meta(), Name: "dbl", Expression: body()}}
	outer := b.record("Ns", "Outer", nil, b.field("inner", b.st("Inner")), b.field("opt", b.opt(b.st(pVar))))
	if !otherRecord {
		outer.Fields = append(outer.Fields, b.field("v", b.st(pField)))
	}
	sw := &dsl.SwitchExpression{NodeMeta: b.meta(), Target: g.member(nil, "opt")}
	sw.Cases = append(sw.Cases,
		&dsl.SwitchCase{NodeMeta: b.meta(), Pattern: &dsl.DeclarationPattern{TypePattern: dsl.TypePattern{NodeMeta: b.meta(), Type: b.st(pVar)}, Identifier: varName}, Expression: ref()},
		&dsl.SwitchCase{NodeMeta: b.meta(), Pattern: &dsl.DiscardPattern{NodeMeta: b.meta()}, Expression: ref()})
	cfSw := &dsl.ComputedField{NodeMeta: b.meta(), Name: "viaSwitch", Expression: sw}
	cfPlain := &dsl.ComputedField{NodeMeta: b.meta(), Name: "plain", Expression: ref()}
	if swFirst {
		outer.ComputedFields = dsl.ComputedFields{cfSw, cfPlain}
	} else {
		outer.ComputedFields = dsl.ComputedFields{cfPlain, cfSw}
	}
	if !otherRecord {
		outer.ComputedFields = append(outer.ComputedFields, &dsl.ComputedField{NodeMeta: b.meta(), Name: "dbl", Expression: body()})
	}
	n := &dsl.Namespace{Name: "Ns", IsTopLevel: true, TypeDefinitions: dsl.TypeDefinitions{inner, outer}}
	env, err := dsl.Validate([]*dsl.Namespace{n})
	shadows := !otherRecord && varName == "v"
	if err != nil {
		verifOut("error", err.Error())
	}
	if !shadows {
		verifAssert("accepted", err == nil)
	}
	if err != nil {
		verifReach("c19sc-rejected")
		return
	}
	var outInner, outOuter *dsl.RecordDefinition
	for _, td := range env.Namespaces[0].TypeDefinitions {
		if r, ok := td.(*dsl.RecordDefinition); ok {
			if r.Name == "Inner" {
				outInner = r
			} else if r.Name == "Outer" {
				outOuter = r
			}
		}
	}
	verifAssert("records-kept", outInner != nil && outOuter != nil)
	if outInner == nil || outOuter == nil {
		return
	}
	owner := outInner
	if !otherRecord {
		owner = outOuter
	}
	var referenced *dsl.ComputedField
	types := map[string]string{}
	for _, cf := range owner.ComputedFields {
		if cf.Name == "dbl" {
			referenced = cf
		}
	}
	for _, cf := range outOuter.ComputedFields {
		types[cf.Name] = c19PrimName(cf.Expression.GetResolvedType())
	}
	verifAssert("referenced-field-kept", referenced != nil)
	if referenced == nil {
		return
	}
	own := c19PrimName(referenced.Expression.GetResolvedType())
	want := c19sFold([]string{pField, pField})
	switch want { // small integers are promoted to int32 (documented)
	case "int8", "uint8", "int16", "uint16":
		want = "int32"
	}
	verifOut("own-type", own)
	verifOut("plain-type", types["plain"])
	verifOut("switch-type", types["viaSwitch"])
	verifAssert("referenced-field-has-the-promoted-type-of-its-operands", own == want)
	verifAssert("plain-reference-has-the-type-of-the-field", types["plain"] == own)
	verifAssert("reference-inside-a-switch-case-has-the-type-of-the-field", types["viaSwitch"] == own)
	verifAssert("referenced-field-body-uses-no-variable", c19scCountVariableUses(referenced.Expression) == 0)
	// the copies of the referenced body that the references resolved to are variable-free as well
	if !shadows {
		for _, cf := range outOuter.ComputedFields {
			if cf.Name == "plain" {
				verifAssert("plain-reference-uses-no-variable", c19scCountVariableUses(cf.Expression) == 0)
			}
		}
	}
	verifReach("c19sc-accepted")
}
