package zzverif

// Reading emitted C++ method bodies back into statements (if / switch-case / for / simple) and a
// small interpreter that gives the bodies of the binary protocol methods their wire meaning.
//
// Interpretation of the runtime entry points the bodies call (the kernels themselves are verified
// against the reference codec by the llsym parts c01_cc_kernels / c17_cc_blocks; documented in
// docs/reference/binary.md "Streams"):
//
//   F(stream_, x)                        one value of x laid out as the plan F denotes (zz_plan.go)
//   WriteInteger(stream_, 0U)            the single byte 0: a block length of zero
//   WriteBlock<T,W>(stream_, x)          block length 1, then one item W(x)
//   WriteVector<T,W>(stream_, xs)        the length of xs, then every element W(xs[i])
//   ReadBlock<T,R>(stream_, rem, x)      if rem == 0 { rem = next block length; if rem == 0 return false }
//                                        x = one item; rem--; return true
//   ReadBlocksIntoVector<T,R>(stream_, rem, xs)
//                                        xs = the next items (up to its capacity); afterwards rem == 0
//                                        iff the zero-length block ending the stream was consumed
//
// With gen.bulk set (zz_c05_bulk.go) the plans are structural (a record is the sequence of its fields' plans, read from
// the emitted serializer bodies) and the combinators the runtime implements with a bulk path (WriteVector,
// ReadBlocksIntoVector, Read/WriteVector / Array / NDArray inside serializer expressions) move sizeof(T) bytes per
// element when T is trivially serializable, whatever W / R is.
//
// Everything else in a body must be one of the recognised conversion / bookkeeping forms; an
// unrecognised form is reported (obligation only-known-statement-forms), never skipped.

import (
	"strings"
)

type cstmt struct {
	kind  string // "simple", "if", "for", "switch", "try" (body, els = the catch (...) handler)
	text  string // simple: the statement without ';' — otherwise the header expression
	body  []*cstmt
	els   []*cstmt
	cases []*ccase
}

type ccase struct {
	label string // "" = default
	body  []*cstmt
}

type cfunc struct {
	ret, class, name, params string
	body                      []*cstmt
	bad                       string
}

type cparser struct {
	lines []string
	pos   int
	bad   string
}

func (p *cparser) peek() string {
	if p.pos < len(p.lines) {
		return p.lines[p.pos]
	}
	return ""
}

func (p *cparser) expect(l string) {
	if p.bad != "" {
		return
	}
	if p.peek() != l {
		p.bad = "expected '" + l + "' got '" + p.peek() + "'"
		return
	}
	p.pos++
}

func (p *cparser) stmts(inSwitch bool) []*cstmt {
	var out []*cstmt
	for p.pos < len(p.lines) && p.bad == "" {
		l := p.lines[p.pos]
		if strings.HasPrefix(l, "}") {
			return out
		}
		if inSwitch && (strings.HasPrefix(l, "case ") || strings.HasPrefix(l, "default:")) {
			return out
		}
		p.pos++
		switch {
		case strings.HasPrefix(l, "if (") && strings.HasSuffix(l, ") {"):
			s := &cstmt{kind: "if", text: l[4 : len(l)-3]}
			s.body = p.stmts(false)
			if p.peek() == "} else {" {
				p.pos++
				s.els = p.stmts(false)
			}
			p.expect("}")
			out = append(out, s)
		case strings.HasPrefix(l, "for (") && strings.HasSuffix(l, ") {"):
			s := &cstmt{kind: "for", text: l[5 : len(l)-3]}
			s.body = p.stmts(false)
			p.expect("}")
			out = append(out, s)
		case strings.HasPrefix(l, "switch (") && strings.HasSuffix(l, ") {"):
			s := &cstmt{kind: "switch", text: l[8 : len(l)-3]}
			for p.bad == "" {
				c := p.peek()
				if strings.HasPrefix(c, "case ") && strings.HasSuffix(c, ": {") {
					p.pos++
					cs := &ccase{label: c[5 : len(c)-3]}
					cs.body = p.stmts(false)
					p.expect("}")
					s.cases = append(s.cases, cs)
				} else if strings.HasPrefix(c, "case ") && strings.HasSuffix(c, ":") {
					p.pos++
					s.cases = append(s.cases, &ccase{label: c[5 : len(c)-1], body: p.stmts(true)})
				} else if c == "default:" {
					p.pos++
					s.cases = append(s.cases, &ccase{body: p.stmts(true)})
				} else if strings.HasPrefix(c, "default: ") && strings.HasSuffix(c, ";") {
					p.pos++
					s.cases = append(s.cases, &ccase{body: []*cstmt{{kind: "simple", text: c[9 : len(c)-1]}}})
				} else {
					break
				}
			}
			p.expect("}")
			out = append(out, s)
		case l == "try {":
			// try { body } catch (...) { els }
			s := &cstmt{kind: "try"}
			s.body = p.stmts(false)
			p.expect("} catch (...) {")
			s.els = p.stmts(false)
			p.expect("}")
			out = append(out, s)
		case strings.HasSuffix(l, ";"):
			out = append(out, &cstmt{kind: "simple", text: l[:len(l)-1]})
		default:
			p.bad = "unrecognised line: " + l
		}
	}
	return out
}

// parseCppFuncs splits emitted text into function definitions `ret Class::Name(params) {` ... `}`
// and free functions `... void Name(params) {`.
func parseCppFuncs(text string) []*cfunc {
	var out []*cfunc
	var lines []string
	for _, l := range strings.Split(text, "\n") {
		if t := strings.TrimSpace(l); t != "" {
			lines = append(lines, t)
		}
	}
	for i := 0; i < len(lines); i++ {
		l := lines[i]
		if !strings.HasSuffix(l, ") {") || strings.HasPrefix(l, "if (") || strings.HasPrefix(l, "for (") || strings.HasPrefix(l, "switch (") {
			continue
		}
		op := strings.Index(l, "(")
		head := l[:op]
		sp := strings.LastIndex(head, " ")
		if sp < 0 {
			continue
		}
		f := &cfunc{ret: head[:sp], params: l[op+1 : len(l)-3]}
		qn := head[sp+1:]
		if k := strings.Index(qn, "::"); k >= 0 {
			f.class, f.name = qn[:k], qn[k+2:]
		} else {
			f.name = qn
		}
		p := &cparser{lines: lines, pos: i + 1}
		f.body = p.stmts(false)
		p.expect("}")
		f.bad = p.bad
		i = p.pos - 1
		out = append(out, f)
	}
	return out
}

// findFunc: plural selects the batch overload (parameter named `values`).
func findFunc(fs []*cfunc, class, name string, plural bool) *cfunc {
	for _, f := range fs {
		if f.class == class && f.name == name && strings.HasSuffix(f.params, " values") == plural {
			return f
		}
	}
	return nil
}

// ---- interpreter for the bodies of binary protocol methods ------------------------------------

type ptok struct {
	kind string // "count": a block length; "items": n items of one plan; "value": one value of a plan
	n    int    // the length / the number of items (symbolic where the batch length is)
	plan string
	v    string // the variable written from / read into
}

type protoRun struct {
	g       *gen
	write   bool
	stream  bool   // the step is a stream (WriteVector on it is a block, not a value)
	version string // version_ : "Current" or a previous version's label
	types   map[string]string // variable -> declared C++ type
	lens    map[string]int    // vector variable -> length
	from    map[string]string // variable -> the variable its content was converted / moved from
	fresh   map[string]bool   // variable -> it currently holds a value-initialised ({}) object or was clear()ed
	toks    []ptok
	// reader state
	rem, nextCount  uint64 // current_block_remaining_; the next block length waiting on the wire
	countsRead      int
	ok              bool // read_block_successful
	batchRead       bool
	returned        bool
	retVal          bool
	mayThrow        bool // a value-dependent conversion error is possible (documented partial compatibility)
	dupLabel        bool
	unknown         string
}

func newProtoRun(g *gen, write, stream bool, version string, param string) *protoRun {
	r := &protoRun{g: g, write: write, stream: stream, version: version,
		types: map[string]string{}, lens: map[string]int{}, from: map[string]string{}, fresh: map[string]bool{}}
	// param: "T const& value" / "T& value" / "std::vector<T> const& values" / ""
	if param != "" {
		sp := strings.LastIndex(param, " ")
		name, ty := param[sp+1:], param[:sp]
		ty = strings.TrimSuffix(ty, "&")
		ty = strings.TrimSuffix(ty, " const")
		r.types[name] = ty
	}
	return r
}

func baseVar(x string) string {
	x = strings.TrimSuffix(x, ".value()")
	x = strings.TrimSuffix(x, "[i]")
	return x
}

// root: the parameter / local a variable's content ultimately comes from.
func (r *protoRun) root(x string) string {
	x = baseVar(x)
	for k := 0; k < 8; k++ {
		y, ok := r.from[x]
		if !ok {
			break
		}
		x = baseVar(y)
	}
	return x
}

func isIdent(s string) bool {
	if s == "" {
		return false
	}
	for i := 0; i < len(s); i++ {
		c := s[i]
		if !(c == '_' || c >= 'a' && c <= 'z' || c >= 'A' && c <= 'Z' || c >= '0' && c <= '9' && i > 0) {
			return false
		}
	}
	return true
}

const (
	flowNext = iota
	flowBreak
	flowReturn
	flowThrow
)

func (r *protoRun) cond(c string) (val bool, known bool) {
	switch {
	case c == "!values.empty()":
		return r.lens["values"] != 0, true
	case c == "read_block_successful":
		return r.ok, true
	}
	return false, false
}

func isOverflowGuard(c string) bool {
	return strings.Contains(c, "std::numeric_limits<") || strings.HasSuffix(c, " < 0")
}

func (r *protoRun) planOf(fn, ty *vnode) string {
	verb := "Read"
	if r.write {
		verb = "Write"
	}
	if r.g.bulk != nil {
		return r.g.bulk.denote(fn, ty, verb)
	}
	return r.g.cppPlan(fn, ty, verb)
}

// itemPlan: the plan of one item moved by the block combinator comb<T, F> (fn). With gen.bulk set, a combinator that the
// runtime implements with a bulk path moves sizeof(T) bytes per item when T is trivially serializable and calls F otherwise.
func (r *protoRun) itemPlan(comb string, fn *vnode) string {
	if r.g.bulk != nil {
		verb := "Read"
		if r.write {
			verb = "Write"
		}
		return r.g.bulk.elem(verb+comb, fn.kids[0], fn.kids[1], verb)
	}
	return r.planOf(fn.kids[1], fn.kids[0])
}

func (r *protoRun) exec(ss []*cstmt) int {
	for _, s := range ss {
		if r.unknown != "" {
			return flowThrow
		}
		switch s.kind {
		case "if":
			if isOverflowGuard(s.text) && len(s.body) == 1 && s.els == nil && strings.HasPrefix(s.body[0].text, "throw std::runtime_error(") {
				r.mayThrow = true // taken only for values the older type cannot hold
				continue
			}
			if strings.HasSuffix(s.text, ".has_value()") && isIdent(s.text[:len(s.text)-len(".has_value()")]) {
				// conversion of the contained value when there is one: run it on the generic element, like a loop body;
				// the only thing the null branch may do is give targets their zero value
				for _, e := range s.els {
					if (e.kind != "" && e.kind != "simple") || !strings.HasSuffix(e.text, " = {}") || !isIdent(baseVar(e.text[:len(e.text)-len(" = {}")])) {
						r.unknown = "null branch of a conversion: " + e.text
						return flowThrow
					}
				}
				if f := r.exec(s.body); f != flowNext {
					return f
				}
				continue
			}
			v, known := r.cond(s.text)
			if !known {
				r.unknown = "condition: " + s.text
				return flowThrow
			}
			var f int
			if v {
				f = r.exec(s.body)
			} else {
				f = r.exec(s.els)
			}
			if f != flowNext {
				return f
			}
		case "for":
			// element-wise conversion loop `for (size_t i = 0; i < xs.size(); i++)`: run the body once on the generic element
			const pre, post = "size_t i = 0; i < ", ".size(); i++"
			if !strings.HasPrefix(s.text, pre) || !strings.HasSuffix(s.text, post) || !isIdent(s.text[len(pre):len(s.text)-len(post)]) {
				r.unknown = "loop: " + s.text
				return flowThrow
			}
			if f := r.exec(s.body); f != flowNext {
				return f
			}
		case "switch":
			if s.text != "version_" {
				r.unknown = "switch on: " + s.text
				return flowThrow
			}
			start := -1
			for i, c := range s.cases {
				for j := 0; j < i; j++ {
					if s.cases[j].label == c.label {
						r.dupLabel = true
					}
				}
				if c.label == "Version::"+r.version {
					start = i
				}
			}
			if start < 0 {
				for i, c := range s.cases {
					if c.label == "" {
						start = i
					}
				}
			}
			// C++: execution continues into the following case bodies until a break
			for i := start; i >= 0 && i < len(s.cases); i++ {
				f := r.exec(s.cases[i].body)
				if f == flowBreak {
					break
				}
				if f != flowNext {
					return f
				}
			}
		default:
			if f := r.simple(s.text); f != flowNext {
				return f
			}
		}
	}
	return flowNext
}

func (r *protoRun) simple(t string) int {
	switch {
	case t == "break":
		return flowBreak
	case t == "bool read_block_successful = false":
		r.ok = false
		return flowNext
	case t == "return false":
		r.returned, r.retVal = true, false
		return flowReturn
	case t == "return true":
		r.returned, r.retVal = true, true
		return flowReturn
	case t == "return read_block_successful":
		r.returned, r.retVal = true, r.ok
		return flowReturn
	case t == "return !read_block_successful":
		r.returned, r.retVal = true, !r.ok
		return flowReturn
	case t == "return current_block_remaining_ != 0", t == "return current_block_remaining_ > 0":
		r.returned, r.retVal = true, r.rem != 0
		return flowReturn
	case t == "return current_block_remaining_ == 0":
		r.returned, r.retVal = true, r.rem == 0
		return flowReturn
	case strings.HasPrefix(t, "throw "):
		return flowThrow
	case strings.HasSuffix(t, " = {}"):
		d := t[:len(t)-len(" = {}")]
		sp := strings.LastIndex(d, " ")
		if sp < 0 || !isIdent(d[sp+1:]) {
			break
		}
		r.types[d[sp+1:]] = d[:sp]
		r.lens[d[sp+1:]] = 0
		r.fresh[d[sp+1:]] = true
		return flowNext
	case strings.HasSuffix(t, ".clear()") && isIdent(t[:len(t)-len(".clear()")]):
		x := t[:len(t)-len(".clear()")]
		r.lens[x] = 0
		r.fresh[x] = true
		delete(r.from, x)
		return flowNext
	case strings.HasSuffix(t, ".capacity())") && strings.Contains(t, ".reserve("):
		return flowNext // capacity only: no effect on content or length
	case strings.HasSuffix(t, ".size())") && strings.Contains(t, ".resize("):
		k := strings.Index(t, ".resize(")
		x, y := t[:k], t[k+len(".resize("):len(t)-len(".size())")]
		if !isIdent(x) || !isIdent(y) {
			break
		}
		r.lens[x] = r.lens[y]
		return flowNext
	case strings.Contains(t, "(stream_, "):
		return r.call(t)
	case strings.Contains(t, " = "):
		k := strings.Index(t, " = ")
		lhs, rhs := t[:k], t[k+3:]
		if !isIdent(baseVar(lhs)) {
			break
		}
		src := ""
		switch {
		case strings.HasPrefix(rhs, "static_cast<") && strings.HasSuffix(rhs, ")") && strings.Contains(rhs, ">("):
			src = rhs[strings.Index(rhs, ">(")+2 : len(rhs)-1]
			if strings.HasPrefix(src, "std::round(") && strings.HasSuffix(src, ")") {
				src = src[len("std::round(") : len(src)-1]
			}
		case strings.HasPrefix(rhs, "std::move(") && strings.HasSuffix(rhs, ")"):
			src = rhs[len("std::move(") : len(rhs)-1]
		default:
			src = rhs
		}
		if !isIdent(baseVar(src)) {
			break
		}
		r.from[baseVar(lhs)] = src
		r.fresh[baseVar(lhs)] = r.fresh[baseVar(src)]
		return flowNext
	}
	r.unknown = "statement: " + t
	return flowThrow
}

func (r *protoRun) call(t string) int {
	k := strings.Index(t, "(stream_, ")
	callee, args := t[:k], t[k+len("(stream_, "):]
	if !strings.HasSuffix(args, ")") {
		r.unknown = "call: " + t
		return flowThrow
	}
	args = args[:len(args)-1]
	assignOK := false
	if strings.HasPrefix(callee, "read_block_successful = ") {
		assignOK = true
		callee = callee[len("read_block_successful = "):]
	}
	fn, ok := parseExpr(callee)
	if !ok {
		r.unknown = "callee: " + callee
		return flowThrow
	}
	const pre = "yardl::binary::"
	switch {
	case fn.head == pre+"WriteInteger" && fn.open == "" && args == "0U" && r.write:
		r.toks = append(r.toks, ptok{kind: "count", n: 0})
	case fn.head == pre+"WriteBlock" && len(fn.kids) == 2 && r.write && isIdent(args):
		r.toks = append(r.toks, ptok{kind: "count", n: 1}, ptok{kind: "items", n: 1, plan: r.itemPlan("Block", fn), v: args})
	case fn.head == pre+"WriteVector" && len(fn.kids) == 2 && r.write && r.stream && isIdent(args):
		n := r.lens[args]
		r.toks = append(r.toks, ptok{kind: "count", n: n}, ptok{kind: "items", n: n, plan: r.itemPlan("Vector", fn), v: args})
	case fn.head == pre+"ReadBlock" && len(fn.kids) == 2 && !r.write && assignOK && strings.HasPrefix(args, "current_block_remaining_, ") && isIdent(args[len("current_block_remaining_, "):]):
		x := args[len("current_block_remaining_, "):]
		got := true
		if r.rem == 0 {
			r.rem = r.nextCount
			r.countsRead++
			if r.rem == 0 {
				got = false
			}
		}
		if got {
			r.toks = append(r.toks, ptok{kind: "items", n: 1, plan: r.itemPlan("Block", fn), v: x})
			r.rem--
			r.fresh[x] = false
		}
		r.ok = got
	case fn.head == pre+"ReadBlocksIntoVector" && len(fn.kids) == 2 && !r.write && !assignOK && strings.HasPrefix(args, "current_block_remaining_, ") && isIdent(args[len("current_block_remaining_, "):]):
		x := args[len("current_block_remaining_, "):]
		n := verifInt("items-delivered-by-batch-read")
		verifAssume(n >= 0)
		verifAssume(n <= 1<<30)
		r.rem = verifUint64("block-remaining-after-batch-read")
		r.lens[x] = n
		r.fresh[x] = false
		r.batchRead = true
		r.toks = append(r.toks, ptok{kind: "items", n: n, plan: r.itemPlan("BlocksIntoVector", fn), v: x})
	case !assignOK && isIdent(args) && !(r.stream && (strings.HasPrefix(fn.head, pre+"WriteBlock") || strings.HasPrefix(fn.head, pre+"ReadBlock"))):
		ty, ok := parseExpr(r.types[args])
		if !ok {
			r.unknown = "type of " + args + ": " + r.types[args]
			return flowThrow
		}
		r.toks = append(r.toks, ptok{kind: "value", n: 1, plan: r.planOf(fn, ty), v: args})
		r.fresh[args] = false
	default:
		r.unknown = "call: " + t
		return flowThrow
	}
	return flowNext
}
