package zzverif

// Package manifest (C10: "any bytes supplied as ... package manifest"): the real packaging.readPackageInfo -
// file lookup, yaml decoding into PackageInfo (struct fields by yaml tag, KnownFields, the Imports / Versions /
// CppCodegenOptions / PythonCodegenOptions UnmarshalYAML methods), validate() - on a symbolic manifest document:
// a mapping of <= n pairs whose keys range over the manifest's field names (and an unknown one) and whose values
// are arbitrary nodes of depth <= 2 over a manifest vocabulary; also a document that is a scalar / sequence / null.

import (
	"strconv"
	"strings"

	"github.com/microsoft/yardl/tooling/internal/validation"
	"github.com/microsoft/yardl/tooling/pkg/packaging"
	"gopkg.in/yaml.v3"
)

var mScalarDesc = []string{"Ns", "lower", "empty", "path", "i3", "true", "null", "tagged"}
var mScalarTag = []string{"!!str", "!!str", "!!str", "!!str", "!!int", "!!bool", "!!null", "!custom"}
var mScalarVal = []string{"Ns", "lower", "", "../x", "3", "true", "", "x"}

var mTopKeys = []string{"namespace", "imports", "versions", "json", "cpp", "python", "matlab", "bogus"}
var mSubKeys = []string{"outputDir", "sourcesOutputDir", "disabled", "generateHDF5", "generateNDJson", "v1", "Bad Label", "bogus"}

func (g *yg) mScalar(label string) *yaml.Node {
	d := verifOneOf(label, mScalarDesc...)
	return g.sc(verifMapStr(label+"tag", d, mScalarDesc, mScalarTag), verifMapStr(label+"val", d, mScalarDesc, mScalarVal))
}

func (g *yg) mNode(depth int, label string) *yaml.Node {
	nk := 1
	if depth > 0 {
		nk = 3
	}
	switch verifChoose(label+"kind", nk) {
	case 0:
		return g.mScalar(label)
	case 1:
		np := verifChoose(label+"pairs", g.maxPairs+1)
		m := g.mp("!!map")
		for i := 0; i < np; i++ {
			l := label + "." + strconv.Itoa(i)
			key := g.str(verifOneOf(l+"key", mSubKeys...))
			if i == 0 && verifChoose(l+"keykind", 3) == 2 {
				key = g.sc("!!int", "1") // a non-string key
			}
			m.Content = append(m.Content, key, g.mNode(depth-1, l))
		}
		return m
	default:
		ni := verifChoose(label+"items", g.maxItems+1)
		sq := g.sq("!!seq")
		for i := 0; i < ni; i++ {
			sq.Content = append(sq.Content, g.mNode(depth-1, label+"."+strconv.Itoa(i)))
		}
		return sq
	}
}

// C10Manifest(pairs, depth): totality of the manifest reader.
func C10Manifest(pairs, depth, fan int) {
	g := &yg{maxPairs: fan, maxItems: fan}
	dir := "/pk/m"
	var root *yaml.Node
	switch verifChoose("document", 4) {
	case 0, 1:
		root = g.mp("!!map")
		if verifChoose("with-namespace", 2) == 1 {
			root.Content = append(root.Content, g.str("namespace"), g.str("Ns"))
		}
		np := 1 + verifChoose("top-pairs", pairs)
		for i := 0; i < np; i++ {
			l := "t" + strconv.Itoa(i)
			root.Content = append(root.Content, g.str(verifOneOf(l+"key", mTopKeys...)), g.mNode(depth, l))
		}
	case 2:
		root = g.mScalar("doc") // incl. the null document
	default:
		root = g.sq("!!seq", g.mScalar("item"))
	}
	verifYamlDoc(dir+"/_package.yml", root)
	var info *packaging.PackageInfo
	var err error
	msg, panicked := verifPanics(func() { info, err = packaging.VerifReadPackageInfo(verifPath(dir)) })
	verifOut("panic", msg)
	verifAssert("manifest-reader-does-not-panic", !panicked)
	if panicked {
		return
	}
	verifAssert("manifest-or-error", err != nil || info != nil)
	if err != nil {
		text := err.Error()
		verifAssert("error-names-the-manifest", strings.Contains(text, "_package.yml"))
		// errors raised while decoding the document point into it; the consistency checks of validate() (missing / ill-formed
		// namespace, version label format, empty output directory) are reported per file
		if ve, ok := err.(validation.ValidationError); ok {
			fromValidate := strings.Contains(text, "field is missing") || strings.Contains(text, "must be PascalCased") || strings.Contains(text, "must not be empty") || strings.Contains(text, "version label")
			if !fromValidate {
				verifAssert("decode-error-has-line", ve.Line != nil)
			}
		}
	} else {
		verifAssert("accepted-manifest-has-namespace", info.Namespace != "")
	}
	verifReach("c10-manifest-end")
}
