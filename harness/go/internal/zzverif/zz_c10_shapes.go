package zzverif

// C10, totality of the front end on *ill-formed type shapes*: every type shape the YAML layer can hand
// to dsl.Validate (rule-violating or not), at every position a type can occur, gives a normal return
// with either success or a located diagnostic - never a panic.
//
// The shapes are exactly those yaml.go / parser can produce (UnmarshalTypeYAML, convertType):
//   - arrays whose dimensions independently have / lack a length and a name (names arbitrary strings,
//     lengths arbitrary uint64 incl. 0), `dimensions: 0` / `[]`;
//   - vectors / maps / arrays / streams / plain case lists with 0, 1, 2, 3 cases, null anywhere;
//   - `!union` maps with explicit (possibly empty, duplicate, badly cased) tags and null types;
//   - names that do not resolve, resolve to a protocol, a generic (wrong argument counts), a type
//     parameter (in or out of scope), wrong / ill-formed type arguments;
//   - arbitrary types as map keys and enum bases; generalized types nested in generalized types.

import (
	"strings"

	"github.com/microsoft/yardl/tooling/pkg/dsl"
)

type sg struct {
	b *mb
	n int
}

func (g *sg) label(s string) string {
	g.n++
	return s + string(rune('a'+g.n%26)) + string(rune('0'+g.n/26))
}

func (g *sg) cases(ts ...dsl.Type) dsl.TypeCases {
	cs := dsl.TypeCases{}
	for _, t := range ts {
		cs = append(cs, &dsl.TypeCase{NodeMeta: g.b.meta(), Type: t})
	}
	return cs
}

func (g *sg) gen(dim dsl.Dimensionality, cs dsl.TypeCases) *dsl.GeneralizedType {
	return &dsl.GeneralizedType{NodeMeta: g.b.meta(), Dimensionality: dim, Cases: cs}
}

// ---- family 0: arrays, per-dimension symbolic length / name -------------------------------------

var dimNameChoices0 = []string{"x", "X", ""}
var dimNameChoicesN = []string{"x", "y"}

func (g *sg) famArray(maxRank int, deep int) dsl.Type {
	b := g.b
	arr := &dsl.Array{NodeMeta: b.meta()}
	rank := verifChoose("rank", maxRank+2) - 1 // -1: no dimensions entry at all
	if rank >= 0 {
		dims := dsl.ArrayDimensions{}
		for i := 0; i < rank; i++ {
			d := &dsl.ArrayDimension{NodeMeta: b.meta()}
			// length absent / 0 / 3 (concrete: lengths end up as decimal text inside union tags, which the engine cannot keep symbolic)
			if k := verifChoose(g.label("length"), 3); k > 0 {
				n := uint64(3 * (k - 1))
				d.Length = &n
			}
			// name absent / x / y-or-x-again / badly cased / empty.  (Concrete choices: symbolic names send the
			// member-name regular expression to the solver, which answers unknown.)
			names := dimNameChoices0[:2+deep]
			if i > 0 {
				names = dimNameChoicesN
			}
			if k := verifChoose(g.label("name"), 1+len(names)); k > 0 {
				name := names[k-1]
				d.Name = &name
			}
			dims = append(dims, d)
		}
		arr.Dimensions = &dims
	}
	return g.gen(arr, g.cases(b.st("float")))
}

// ---- family 1: case lists x dimensionality --------------------------------------------------------

func (g *sg) anyCaseList(label string) dsl.TypeCases {
	b := g.b
	switch verifChoose(label, 8) {
	case 0:
		return dsl.TypeCases{}
	case 1:
		return g.cases(nil)
	case 2:
		return g.cases(b.st("int"))
	case 3:
		return g.cases(nil, b.st("int"))
	case 4:
		return g.cases(b.st("int"), b.st("string"))
	case 5:
		return g.cases(nil, b.st("int"), b.st("int32"))
	case 6:
		return g.cases(b.st("int"), nil)
	default:
		return g.cases(nil, nil)
	}
}

func (g *sg) anyDim(label string, n int) dsl.Dimensionality {
	b := g.b
	switch verifChoose(label, n) {
	case 0:
		return nil
	case 1:
		return &dsl.Vector{NodeMeta: b.meta()}
	case 2:
		l := uint64(3 * verifChoose(g.label("veclen"), 2)) // 0 or 3
		return &dsl.Vector{NodeMeta: b.meta(), Length: &l}
	case 3:
		return &dsl.Map{NodeMeta: b.meta(), KeyType: b.st("string")}
	case 4:
		return &dsl.Array{NodeMeta: b.meta()}
	case 5:
		return &dsl.Stream{NodeMeta: b.meta()}
	default:
		l := uint64(3)
		x := "x"
		dims := dsl.ArrayDimensions{&dsl.ArrayDimension{NodeMeta: b.meta(), Length: &l}, &dsl.ArrayDimension{NodeMeta: b.meta(), Name: &x}}
		return &dsl.Array{NodeMeta: b.meta(), Dimensions: &dims}
	}
}

func (g *sg) famCases() dsl.Type {
	return g.gen(g.anyDim("dimensionality", 6), g.anyCaseList("cases"))
}

// ---- family 2: names, arity, null type arguments ------------------------------------------------

func (g *sg) famNames() dsl.Type {
	b := g.b
	name := verifOneOf("name", "int", "Rec", "Color", "GRec", "GAlias", "T", "Nope", "Proto", "Ns.Rec", "Other.Rec")
	t := b.st(name)
	switch verifChoose("type-arguments", 7) {
	case 0: // none (TypeArguments nil)
	case 1:
		t.TypeArguments = []dsl.Type{} // `!generic {args: []}`
	case 2:
		t.TypeArguments = []dsl.Type{b.st("int")}
	case 3:
		// (a null type argument, `!generic {args: [null]}`, made the tree panic; since fix 70c3945 the parser rejects it, so
		// a nil entry in TypeArguments is outside dsl.Validate's precondition and is not generated)
		t.TypeArguments = []dsl.Type{b.vec(b.st("int"))}
	case 4:
		t.TypeArguments = []dsl.Type{b.st(verifOneOf("argname", "Nope", "GRec", "T"))}
	case 5:
		t.TypeArguments = []dsl.Type{b.st("int"), b.st("string")}
	default:
		t.TypeArguments = []dsl.Type{b.st("Rec"), g.gen(nil, dsl.TypeCases{})}
	}
	return t
}

// ---- family 3: map keys ------------------------------------------------------------------------------

func (g *sg) famKeys() dsl.Type {
	b := g.b
	var key dsl.Type
	switch verifChoose("key", 8) {
	case 0:
		key = b.st(verifOneOf("keyname", "string", "Rec", "Color", "Alias", "ARec", "T", "Nope", "GRec", "Proto"))
	case 1:
		key = b.st("GRec", b.st("int"))
	case 2:
		key = b.vec(b.st("int"))
	case 3:
		key = b.opt(b.st("int"))
	case 4:
		key = b.gt(nil, b.st("int"), b.st("string"))
	case 5:
		key = g.gen(nil, dsl.TypeCases{})
	case 6:
		key = b.mapOf(b.st("string"), b.st("int"))
	default:
		key = b.st("GAlias", b.st("string"))
	}
	return g.gen(&dsl.Map{NodeMeta: b.meta(), KeyType: key}, g.anyCaseList("values"))
}

// ---- family 4: generalized types nested in generalized types ------------------------------------

func (g *sg) famNested() dsl.Type {
	b := g.b
	inner := g.gen(g.anyDim("inner-dimensionality", 7), g.cases(b.st("int")))
	switch verifChoose("inner-cases", 3) {
	case 0:
	case 1:
		inner.Cases = g.cases(b.st("int"), b.st("string"))
	default:
		inner.Cases = g.cases(nil, b.st("Nope"), b.st("Rec"))
	}
	switch verifChoose("outer", 6) {
	case 0:
		return g.gen(nil, g.cases(nil, inner))
	case 1:
		return g.gen(nil, g.cases(b.st("string"), inner))
	case 2:
		return g.gen(nil, g.cases(nil, inner, b.st("int")))
	case 3:
		return g.gen(&dsl.Vector{NodeMeta: b.meta()}, g.cases(inner))
	case 4:
		return g.gen(&dsl.Array{NodeMeta: b.meta()}, g.cases(nil, inner))
	default:
		return g.gen(&dsl.Map{NodeMeta: b.meta(), KeyType: inner}, g.cases(b.st("int")))
	}
}

// ---- family 5: `!union` with explicit tags ---------------------------------------------------------

func (g *sg) famTags() dsl.Type {
	b := g.b
	var types []dsl.Type
	switch verifChoose("tagged-cases", 9) {
	case 0:
	case 1:
		types = []dsl.Type{b.st("int")}
	case 2:
		types = []dsl.Type{nil}
	case 3:
		types = []dsl.Type{b.st("int"), b.st("string")}
	case 4:
		types = []dsl.Type{nil, b.st("int")}
	case 5:
		types = []dsl.Type{b.st("int"), b.st("int")}
	case 6:
		types = []dsl.Type{b.st("int"), nil}
	case 7:
		types = []dsl.Type{nil, b.st("int"), b.vec(b.st("string"))}
	default:
		types = []dsl.Type{b.st("Nope"), b.st("int"), b.st("string")}
	}
	// tags: distinct / all the same / first badly cased / first empty
	tags := [][]string{{"a", "b", "c"}, {"a", "a", "a"}, {"A", "b", "c"}, {"", "b", "c"}}[verifChoose("tags", 4)]
	cs := dsl.TypeCases{}
	for i, t := range types {
		cs = append(cs, &dsl.TypeCase{NodeMeta: b.meta(), Type: t, ExplicitTag: true, Tag: tags[i]})
	}
	u := g.gen(nil, cs) // `!union {tag: type, ...}` never carries a dimensionality itself
	if verifChoose("tagged-union-as-vector-element", 2) == 1 {
		return g.gen(&dsl.Vector{NodeMeta: b.meta()}, g.cases(u))
	}
	return u
}

var shapeFamilyNames = []string{"array-dimensions", "case-lists", "names-and-arity", "map-keys", "nested-generalized", "explicit-tags"}

func (g *sg) shape(family int, deep int) dsl.Type {
	switch family {
	case 0:
		return g.famArray(2+deep, deep)
	case 1:
		return g.famCases()
	case 2:
		return g.famNames()
	case 3:
		return g.famKeys()
	case 4:
		return g.famNested()
	default:
		return g.famTags()
	}
}

// ---- positions ---------------------------------------------------------------------------------------

var shapePositionNames = []string{"record-field", "union-case", "vector-element", "map-value", "alias-target", "protocol-step", "generic-argument",
	"generic-record-field", "generic-alias-target", "optional-inner", "stream-item", "map-key", "enum-base", "array-element"}

const nQuickShapePositions = 9

func shapeModel(b *mb, pos int, t dsl.Type) *dsl.Namespace {
	ns := "Ns"
	n := &dsl.Namespace{Name: ns, IsTopLevel: true}
	n.TypeDefinitions = dsl.TypeDefinitions{
		b.enum(ns, "Color", nil, "red", "green"),
		b.record(ns, "Rec", nil, b.field("a", b.st("int"))),
		b.alias(ns, "Alias", nil, b.st("int")),
		b.alias(ns, "ARec", nil, b.st("Rec")),
		b.record(ns, "GRec", []string{"T"}, b.field("v", b.st("T"))),
		b.alias(ns, "GAlias", []string{"T"}, b.vec(b.st("T"))),
	}
	n.Protocols = []*dsl.ProtocolDefinition{b.protocol(ns, "Proto", b.step("s", b.st("int")))}
	add := func(td dsl.TypeDefinition) { n.TypeDefinitions = append(n.TypeDefinitions, td) }
	switch pos {
	case 0:
		add(b.record(ns, "Holder", nil, b.field("held", t), b.field("other", b.st("Rec"))))
	case 1:
		add(b.record(ns, "Holder", nil, b.field("held", b.gt(nil, b.st("string"), t))))
	case 2:
		add(b.record(ns, "Holder", nil, b.field("held", b.vec(t))))
	case 3:
		add(b.record(ns, "Holder", nil, b.field("held", b.mapOf(b.st("string"), t))))
	case 4:
		add(b.alias(ns, "Held", nil, t))
		add(b.record(ns, "User", nil, b.field("u", b.st("Held"))))
	case 5:
		n.Protocols = append(n.Protocols, b.protocol(ns, "Carrier", b.step("first", b.st("Rec")), b.step("held", t)))
	case 6:
		add(b.record(ns, "Holder", nil, b.field("held", b.st("GRec", t))))
	case 7:
		add(b.record(ns, "Holder", []string{"T"}, b.field("held", t), b.field("other", b.st("T"))))
		add(b.alias(ns, "Uses", nil, b.st("Holder", b.st("Rec"))))
	case 8:
		add(b.alias(ns, "Held", []string{"T"}, t))
		add(b.record(ns, "User", nil, b.field("u", b.st("Held", b.st("int")))))
	case 9:
		add(b.record(ns, "Holder", nil, b.field("held", b.opt(t))))
	case 10:
		n.Protocols = append(n.Protocols, b.protocol(ns, "Carrier", b.step("held", b.strm(t))))
	case 11:
		add(b.record(ns, "Holder", nil, b.field("held", b.mapOf(t, b.st("int")))))
	case 12:
		add(b.enum(ns, "Fruit", t, "apple", "pear"))
	default:
		add(b.record(ns, "Holder", nil, b.field("held", b.gt(&dsl.Array{NodeMeta: b.meta()}, t))))
	}
	return n
}

// errorIsLocated: some diagnostic names the model file (every node of the harness model carries a line >= 1).
func errorIsLocated(err error, file string) bool {
	return strings.Contains(err.Error(), "❌ "+file+":")
}

// C10TypeShapes: dsl.Validate is total on every producible type shape of one family (family < 0: of every family) at every position.
// allPositions == 0: the first 9 positions; 1: all 14.  deep: extra array rank.
func C10TypeShapes(family int, allPositions int, deep int) {
	if family < 0 {
		family = verifChoose("family", len(shapeFamilyNames))
	}
	npos := nQuickShapePositions
	if allPositions == 1 {
		npos = len(shapePositionNames)
	}
	pos := verifChoose("position", npos)
	verifOut("family", shapeFamilyNames[family])
	verifOut("position", shapePositionNames[pos])
	b := &mb{file: "model.yml"}
	g := &sg{b: b}
	t := g.shape(family, deep)
	n := shapeModel(b, pos, t)
	var err error
	msg, panicked := verifPanics(func() { _, err = dsl.Validate([]*dsl.Namespace{n}) })
	verifOut("panic", msg)
	verifAssert("validate-does-not-panic", !panicked)
	if !panicked && err != nil {
		verifOut("err", err.Error())
		verifAssert("error-is-located", errorIsLocated(err, "model.yml"))
	}
	verifReach("c10-shapes-end")
}
