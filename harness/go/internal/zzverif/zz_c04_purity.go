package zzverif

// C04: "that schema text is the same for every target language, depends only on the protocol and the named types it
// transitively uses".
//
// All backends of one `yardl generate` run work on ONE resolved model, one after the other (C++, Python, MATLAB).
// The schema text a backend embeds is computed from that shared model when the backend runs, so the property needs
//   (1) a generator does not change the model: the protocol's schema text, and the whole model as data (the order and
//       content of every list in it: enum / flags values, fields, union cases, steps, definitions, and its JSON
//       rendering), are the same before and after each backend has generated;
//   (2) whatever ORDER the backends run in, each embeds exactly the schema text of the model as validated.
// The complete real generators run (C++: types, protocols, binary, NDJSON writers; Python: python.Generate; MATLAB:
// matlab.Generate) on a virtual file system.  What is symbolic: the order of the three backends (6), which integer
// each symbol of a !flags and of an !enum definition carries (6 assignments each: declared ascending, descending and
// mixed), and whether the flags / enum definitions have an explicit base.

import (
	"encoding/json"
	"fmt"
	"math/big"
	"os"
	"strings"

	cppbinary "github.com/microsoft/yardl/tooling/internal/cpp/binary"
	cppndjson "github.com/microsoft/yardl/tooling/internal/cpp/ndjson"
	cppprotocols "github.com/microsoft/yardl/tooling/internal/cpp/protocols"
	cpptypes "github.com/microsoft/yardl/tooling/internal/cpp/types"
	matlab "github.com/microsoft/yardl/tooling/internal/matlab"
	python "github.com/microsoft/yardl/tooling/internal/python"
	"github.com/microsoft/yardl/tooling/pkg/dsl"
	"github.com/microsoft/yardl/tooling/pkg/packaging"
)

var c04pBackends = []string{"cpp", "python", "matlab"}
var c04pOrders = [][3]int{{0, 1, 2}, {0, 2, 1}, {1, 0, 2}, {1, 2, 0}, {2, 0, 1}, {2, 1, 0}}

func c04pValues(b *mb, syms []string, vals [3]int64) []*dsl.EnumValue {
	var out []*dsl.EnumValue
	for i, s := range syms {
		ev := &dsl.EnumValue{NodeMeta: b.meta(), Symbol: s}
		ev.IntegerValue = *big.NewInt(vals[i])
		out = append(out, ev)
	}
	return out
}

func c04pModel(flagVals, enumVals [3]int64, withBase bool) *dsl.Namespace {
	b := &mb{file: "model.yml"}
	perm := &dsl.EnumDefinition{DefinitionMeta: b.dmeta(NS, "Perm"), IsFlags: true, Values: c04pValues(b, []string{"exec", "read", "write"}, flagVals)}
	level := &dsl.EnumDefinition{DefinitionMeta: b.dmeta(NS, "Level"), Values: c04pValues(b, []string{"high", "low", "mid"}, enumVals)}
	if withBase {
		perm.BaseType = b.st("uint16")
		level.BaseType = b.st("int64")
	}
	rec := b.record(NS, "Entry", nil,
		b.field("perm", b.st("Perm")),
		b.field("level", b.opt(b.st("Level"))),
		b.field("choice", b.gt(nil, b.st("string"), b.st("Perm"), b.st("int"))),
		b.field("zeta", b.st("float")),
		b.field("alpha", b.vec(b.st("Level"))))
	names := b.alias(NS, "Lookup", nil, b.mapOf(b.st("string"), b.st("Entry")))
	// unions whose cases are ALIASES (of a primitive, of a vector, of a record): backends look through aliases to decide how
	// to render a union - they must do so on a copy
	label := b.alias(NS, "Label", nil, b.st("string"))
	ids := b.alias(NS, "Ids", nil, b.vec(b.st("uint32")))
	entryAlias := b.alias(NS, "EntryAlias", nil, b.st("Entry"))
	tagged := b.record(NS, "Tagged", nil, b.field("what", b.gt(nil, b.st("Label"), b.st("Ids"))), b.field("n", b.st("int")))
	proto := b.protocol(NS, "Proto",
		b.step("header", b.st("Entry")),
		b.step("perms", b.strm(b.st("Perm"))),
		b.step("either", b.gt(nil, nil, b.st("Level"), b.st("Entry"))),
		b.step("lookup", b.st("Lookup")),
		b.step("aliased", b.strm(b.gt(nil, b.st("Label"), b.st("EntryAlias"), b.st("int")))),
		b.step("tagged", b.st("Tagged")))
	return &dsl.Namespace{Name: NS, IsTopLevel: true, TypeDefinitions: dsl.TypeDefinitions{rec, perm, names, level, label, ids, entryAlias, tagged}, Protocols: []*dsl.ProtocolDefinition{proto}}
}

// c04pFingerprint: the model as data - every list in declaration order.
func c04pTypeText(t dsl.Type) string {
	switch t := t.(type) {
	case nil:
		return "null"
	case *dsl.SimpleType:
		s := t.Name
		for _, a := range t.TypeArguments {
			s += "<" + c04pTypeText(a) + ">"
		}
		return s
	case *dsl.GeneralizedType:
		s := "["
		for _, c := range t.Cases {
			s += c.Tag + ":" + c04pTypeText(c.Type) + "|"
		}
		s += "]"
		switch d := t.Dimensionality.(type) {
		case *dsl.Vector:
			s += "*"
		case *dsl.Stream:
			s += "stream"
		case *dsl.Array:
			s += "array"
		case *dsl.Map:
			s += "map(" + c04pTypeText(d.KeyType) + ")"
		}
		return s
	}
	return "?"
}

func c04pFingerprint(env *dsl.Environment) string {
	var sb strings.Builder
	for _, ns := range env.Namespaces {
		sb.WriteString("namespace " + ns.Name + "\n")
		for _, td := range ns.TypeDefinitions {
			switch d := td.(type) {
			case *dsl.EnumDefinition:
				sb.WriteString(fmt.Sprintf("enum %s flags=%v base=%s:", d.Name, d.IsFlags, c04pTypeText(d.BaseType)))
				for _, v := range d.Values {
					sb.WriteString(" " + v.Symbol + "=" + v.IntegerValue.String())
				}
			case *dsl.RecordDefinition:
				sb.WriteString("record " + d.Name + ":")
				for _, f := range d.Fields {
					sb.WriteString(" " + f.Name + ":" + c04pTypeText(f.Type))
				}
			case *dsl.NamedType:
				sb.WriteString("alias " + d.Name + " = " + c04pTypeText(d.Type))
			}
			sb.WriteString("\n")
		}
		for _, p := range ns.Protocols {
			sb.WriteString("protocol " + p.Name + ":")
			for _, s := range p.Sequence {
				sb.WriteString(" " + s.Name + ":" + c04pTypeText(s.Type))
			}
			sb.WriteString("\n")
		}
	}
	return sb.String()
}

func c04pJSON(env *dsl.Environment) string {
	out, err := json.Marshal(env.Namespaces)
	if err != nil {
		return "error: " + err.Error()
	}
	return string(out)
}

func c04pGenerate(backend int, env *dsl.Environment) error {
	switch backend {
	case 0:
		opts := packaging.CppCodegenOptions{SourcesOutputDir: verifPath("/out/cpp"), GenerateNDJson: true}
		if err := os.MkdirAll(opts.SourcesOutputDir, 0775); err != nil { // as cpp.Generate does before calling the writers
			return err
		}
		if err := cpptypes.WriteTypes(env, opts); err != nil {
			return err
		}
		if err := cppprotocols.WriteProtocols(env, opts); err != nil {
			return err
		}
		if err := cppbinary.WriteBinary(env, opts); err != nil {
			return err
		}
		return cppndjson.WriteNdJson(env, opts)
	case 1:
		return python.VerifGenerate(env, packaging.PythonCodegenOptions{OutputDir: verifPath("/out/py"), GenerateNDJson: true})
	}
	return matlab.Generate(env, packaging.MatlabCodegenOptions{OutputDir: verifPath("/out/m")})
}

var c04pAssignments = [][3]int64{{1, 2, 4}, {1, 4, 2}, {2, 1, 4}, {2, 4, 1}, {4, 1, 2}, {4, 2, 1}}

// C04GeneratorsPure(full): full = 0: the flags and enum values share one symbolic assignment; 1: independent assignments.
func C04GeneratorsPure(full int) {
	verifUseRepl("CopyEmbeddedStaticFiles")
	order := c04pOrders[verifChoose("backend-order", len(c04pOrders))]
	fa := verifChoose("flags-values", len(c04pAssignments))
	ea := fa
	if full > 0 {
		ea = verifChoose("enum-values", len(c04pAssignments))
	}
	withBase := verifChoose("explicit-base", 2) == 1
	verifOut("order", c04pBackends[order[0]]+","+c04pBackends[order[1]]+","+c04pBackends[order[2]])
	env, err := dsl.Validate([]*dsl.Namespace{c04pModel(c04pAssignments[fa], c04pAssignments[ea], withBase)})
	verifAssert("model-validates", err == nil)
	if err != nil {
		verifOut("error", err.Error())
		return
	}
	proto := env.Namespaces[0].Protocols[0]
	schema := dsl.GetProtocolSchemaString(proto, env.SymbolTable)
	data := c04pFingerprint(env)
	js := c04pJSON(env)
	verifOut("schema-length", len(schema))
	verifAssert("schema-lists-values-in-declaration-order", strings.Contains(schema, "\"exec\"") &&
		strings.Index(schema, "\"exec\"") < strings.Index(schema, "\"read\"") && strings.Index(schema, "\"read\"") < strings.Index(schema, "\"write\""))

	for _, backend := range order {
		gerr := c04pGenerate(backend, env)
		verifAssert("generation-succeeds", gerr == nil)
		if gerr != nil {
			verifOut("error", c04pBackends[backend]+": "+gerr.Error())
			return
		}
		verifOut("generated", c04pBackends[backend])
		verifAssert("generator-leaves-the-schema-unchanged", dsl.GetProtocolSchemaString(proto, env.SymbolTable) == schema)
		verifAssert("generator-leaves-the-model-unchanged", c04pFingerprint(env) == data)
		verifAssert("generator-leaves-the-model-json-unchanged", c04pJSON(env) == js)
	}

	cpp, okc := verifFsGet("/out/cpp/protocols.cc")
	verifAssert("cpp-protocols-written", okc)
	verifAssert("cpp-embeds-the-validated-schema", strings.Count(cpp, "ProtoWriterBase::schema_ = R\"("+schema+")\";") == 1)
	py, okp := verifFsGet("/out/py/ns/protocols.py")
	verifAssert("python-protocols-written", okp)
	verifAssert("python-embeds-the-validated-schema", strings.Count(py, "schema = r\"\"\""+schema+"\"\"\"") == 1)
	mw, okm := verifFsGet("/out/m/+ns/ProtoWriterBase.m")
	verifAssert("matlab-protocols-written", okm)
	verifAssert("matlab-embeds-the-validated-schema", strings.Count(mw, "res = string('"+schema+"');") == 1)
	verifReach("c04p-end")
}
