package zzverif

// The wire plan of a type (spec, written from docs/reference/binary.md and protocol-schema.md) and
// the readers that recover the plan each backend's emitted serializer expression denotes.

import (
	"fmt"
	"strings"

	"github.com/microsoft/yardl/tooling/pkg/dsl"
)

// ---- spec ----------------------------------------------------------------------------------

func primPlan(name string) string {
	switch name {
	case "bool":
		return "bool"
	case "int8":
		return "i8"
	case "uint8":
		return "u8"
	case "int16":
		return "zz16"
	case "int32":
		return "zz32"
	case "int64":
		return "zz64"
	case "uint16":
		return "uv16"
	case "uint32":
		return "uv32"
	case "uint64":
		return "uv64"
	case "size":
		return "size"
	case "float32":
		return "f32"
	case "float64":
		return "f64"
	case "complexfloat32":
		return "c64"
	case "complexfloat64":
		return "c128"
	case "string":
		return "str"
	case "date":
		return "date"
	case "time":
		return "time"
	case "datetime":
		return "datetime"
	}
	return "?prim:" + name
}

func planDef(td dsl.TypeDefinition) string {
	switch t := td.(type) {
	case dsl.PrimitiveDefinition:
		return primPlan(string(t))
	case *dsl.EnumDefinition:
		base := "zz32"
		if t.BaseType != nil {
			base = Plan(t.BaseType)
		}
		return fmt.Sprintf("enum(%s:%s)", t.Name, base)
	case *dsl.RecordDefinition:
		args := ""
		for _, a := range t.TypeArguments {
			args += ";" + Plan(a)
		}
		return fmt.Sprintf("rec(%s%s)", t.Name, args)
	case *dsl.GenericTypeParameter:
		return "param(" + t.Name + ")"
	case *dsl.NamedType:
		return Plan(t.Type) // aliases are transparent on the wire
	}
	return "?def"
}

func planCases(cs dsl.TypeCases) string {
	if len(cs) == 1 {
		return Plan(cs[0].Type)
	}
	if len(cs) == 2 && cs[0].Type == nil {
		return "opt(" + Plan(cs[1].Type) + ")"
	}
	parts := make([]string, len(cs))
	for i, c := range cs {
		parts[i] = Plan(c.Type)
	}
	return "union(" + strings.Join(parts, "|") + ")"
}

// Plan is the specification: how a value of type t is laid out in the compact binary format.
func Plan(t dsl.Type) string {
	switch t := t.(type) {
	case nil:
		return "null"
	case *dsl.SimpleType:
		return planDef(t.ResolvedDefinition)
	case *dsl.GeneralizedType:
		el := planCases(t.Cases)
		switch d := t.Dimensionality.(type) {
		case nil:
			return el
		case *dsl.Stream:
			return "stream(" + el + ")"
		case *dsl.Vector:
			if d.Length == nil {
				return "vec(" + el + ")"
			}
			return fmt.Sprintf("fvec(%s,%d)", el, *d.Length)
		case *dsl.Array:
			if d.Dimensions == nil {
				return "dynarr(" + el + ")"
			}
			fixed := true
			for _, dim := range *d.Dimensions {
				if dim.Length == nil {
					fixed = false
				}
			}
			if !fixed {
				return fmt.Sprintf("ndarr(%s,%d)", el, len(*d.Dimensions))
			}
			s := "farr(" + el
			for _, dim := range *d.Dimensions {
				s += fmt.Sprintf(",%d", *dim.Length)
			}
			return s + ")"
		case *dsl.Map:
			return "map(" + Plan(d.KeyType) + "," + el + ")"
		}
	}
	return "?type"
}

// ---- generic bracket parser over verifTokens -----------------------------------------------

type vnode struct {
	head string
	open string // "<" "(" "[" "{" or ""
	kids []*vnode
}

type vparser struct {
	toks []string
	pos  int
	bad  bool
}

func closer(o string) string {
	switch o {
	case "<":
		return ">"
	case "(":
		return ")"
	case "[":
		return "]"
	}
	return "}"
}

func isOpen(t string) bool  { return t == "<" || t == "(" || t == "[" || t == "{" }
func isClose(t string) bool { return t == ">" || t == ")" || t == "]" || t == "}" }

func (p *vparser) peek() string {
	if p.pos < len(p.toks) {
		return p.toks[p.pos]
	}
	return ""
}

func (p *vparser) list(cl string) []*vnode {
	var out []*vnode
	for p.pos < len(p.toks) {
		t := p.peek()
		if t == cl {
			p.pos++
			return out
		}
		if t == "," {
			p.pos++
			continue
		}
		out = append(out, p.item())
		if p.bad {
			return out
		}
	}
	p.bad = true
	return out
}

func (p *vparser) item() *vnode {
	t := p.peek()
	if t == "" || isClose(t) || t == "," {
		p.bad = true
		return &vnode{head: "?"}
	}
	n := &vnode{}
	if isOpen(t) {
		p.pos++
		n.open = t
		n.kids = p.list(closer(t))
	} else {
		p.pos++
		n.head = t
		if o := p.peek(); isOpen(o) && o != "{" {
			p.pos++
			n.open = o
			n.kids = p.list(closer(o))
		}
	}
	// suffix such as ".Tag" after an indexed class: Cls[T].Tag
	if nx := p.peek(); strings.HasPrefix(nx, ".") {
		p.pos++
	}
	return n
}

func parseExpr(s string) (*vnode, bool) {
	p := &vparser{toks: verifTokens(s)}
	n := p.item()
	return n, !p.bad && p.pos == len(p.toks)
}

func numTok(n *vnode) string {
	if v, ok := verifAtoi(n.head); ok && n.open == "" {
		return fmt.Sprintf("%d", v)
	}
	return "?num:" + n.head
}

// ---- C++ -----------------------------------------------------------------------------------

func cppLeaf(kind string, ty *vnode) string {
	if ty == nil {
		return "?notype"
	}
	t := ty.head
	switch kind {
	case "Integer":
		switch t {
		case "bool":
			return "bool"
		case "int8_t":
			return "i8"
		case "uint8_t":
			return "u8"
		case "int16_t":
			return "zz16"
		case "int32_t":
			return "zz32"
		case "int64_t":
			return "zz64"
		case "uint16_t":
			return "uv16"
		case "uint32_t":
			return "uv32"
		case "uint64_t":
			return "uv64"
		case "yardl::Size":
			return "size"
		}
	case "FloatingPoint":
		switch t {
		case "float":
			return "f32"
		case "double":
			return "f64"
		case "std::complex":
			if len(ty.kids) == 1 && ty.kids[0].head == "float" {
				return "c64"
			}
			if len(ty.kids) == 1 && ty.kids[0].head == "double" {
				return "c128"
			}
		}
	case "String":
		if t == "std::string" {
			return "str"
		}
	case "Date":
		if t == "yardl::Date" {
			return "date"
		}
	case "Time":
		if t == "yardl::Time" {
			return "time"
		}
	case "DateTime":
		if t == "yardl::DateTime" {
			return "datetime"
		}
	}
	return "?leaf:" + kind + ":" + t
}

// cppPlan maps a parsed C++ rw-function expression (with the C++ type it is applied to) to a plan.
// enumBase resolves an enum's declared base (the C++ enum class underlying type is emitted elsewhere).
func (g *gen) cppPlan(f *vnode, ty *vnode, verb string) string {
	h := f.head
	const pre = "yardl::binary::"
	if strings.HasPrefix(h, pre+verb) {
		k := h[len(pre)+len(verb):]
		a := f.kids
		switch k {
		case "Integer", "FloatingPoint", "String", "Date", "Time", "DateTime":
			if f.open == "" {
				return cppLeaf(k, ty)
			}
		case "Monostate":
			return "null"
		case "Optional":
			if len(a) == 2 {
				return "opt(" + g.cppPlan(a[1], a[0], verb) + ")"
			}
		case "Vector":
			if len(a) == 2 {
				return "vec(" + g.cppPlan(a[1], a[0], verb) + ")"
			}
		case "Array":
			if len(a) == 3 {
				return "fvec(" + g.cppPlan(a[1], a[0], verb) + "," + numTok(a[2]) + ")"
			}
		case "FixedNDArray":
			if len(a) >= 2 {
				s := "farr(" + g.cppPlan(a[1], a[0], verb)
				for _, d := range a[2:] {
					s += "," + numTok(d)
				}
				return s + ")"
			}
		case "NDArray":
			if len(a) == 3 {
				return "ndarr(" + g.cppPlan(a[1], a[0], verb) + "," + numTok(a[2]) + ")"
			}
		case "DynamicNDArray":
			if len(a) == 2 {
				return "dynarr(" + g.cppPlan(a[1], a[0], verb) + ")"
			}
		case "Map":
			if len(a) == 4 {
				return "map(" + g.cppPlan(a[2], a[0], verb) + "," + g.cppPlan(a[3], a[1], verb) + ")"
			}
		case "Enum", "Flags":
			if len(a) == 1 {
				return g.namedPlanCpp(a[0].head, nil, verb)
			}
		}
		return "?cpp:" + h
	}
	if h == verb+"Union" && len(f.kids) >= 4 && len(f.kids)%2 == 0 {
		parts := make([]string, len(f.kids)/2)
		for i := range parts {
			parts[i] = g.cppPlan(f.kids[2*i+1], f.kids[2*i], verb)
		}
		return "union(" + strings.Join(parts, "|") + ")"
	}
	if h == verb+"T" {
		return "param(T)"
	}
	nsPre := "ns::binary::" + verb
	if strings.HasPrefix(h, nsPre) {
		return g.namedPlanCpp("ns::"+h[len(nsPre):], f.kids, verb)
	}
	return "?cpp:" + h
}

// namedPlanCpp: a reference to a named definition. Records stay references (with argument plans),
// enums carry their declared base, aliases are expanded through the alias' own serializer body.
func (g *gen) namedPlanCpp(cppName string, args []*vnode, verb string) string {
	name := strings.TrimPrefix(cppName, "ns::")
	td, ok := g.defs[NS+"."+name]
	if !ok {
		return "?cppname:" + cppName
	}
	switch t := td.(type) {
	case *dsl.EnumDefinition:
		return planDef(t) // base type is declared by the types emitter; checked in C14 enum-base obligation
	case *dsl.RecordDefinition:
		s := "rec(" + t.Name
		for i := 0; i+1 < len(args); i += 2 {
			s += ";" + g.cppPlan(args[i+1], args[i], verb)
		}
		return s + ")"
	case *dsl.NamedType:
		body, ok1 := parseExpr(cppTypeRw(t.Type, verb == "Write"))
		ty, ok2 := parseExpr(cppTypeSyntax(t.Type))
		if !ok1 || !ok2 {
			return "?cppalias"
		}
		return g.cppPlan(body, ty, verb)
	}
	return "?cppdef"
}

// ---- Python binary -------------------------------------------------------------------------

func pyPrim(h string) (string, bool) {
	const pre = "_binary."
	const suf = "_serializer"
	if strings.HasPrefix(h, pre) && strings.HasSuffix(h, suf) {
		return primPlan(h[len(pre) : len(h)-len(suf)]), true
	}
	return "", false
}

func (g *gen) pyPlan(n *vnode) string {
	h := n.head
	a := n.kids
	if n.open == "" {
		if h == "_binary.none_serializer" || h == "None" {
			return "null"
		}
		if h == "t_serializer" {
			return "param(T)"
		}
		if p, ok := pyPrim(h); ok {
			return p
		}
		return "?py:" + h
	}
	switch h {
	case "_binary.OptionalSerializer":
		if len(a) == 1 {
			return "opt(" + g.pyPlan(a[0]) + ")"
		}
	case "_binary.UnionSerializer":
		if len(a) == 2 && a[1].open == "[" {
			parts := make([]string, len(a[1].kids))
			for i, c := range a[1].kids {
				if c.open == "(" && c.head == "" && len(c.kids) == 2 {
					parts[i] = g.pyPlan(c.kids[1])
				} else {
					parts[i] = g.pyPlan(c)
				}
			}
			return "union(" + strings.Join(parts, "|") + ")"
		}
	case "_binary.StreamSerializer":
		if len(a) == 1 {
			return "stream(" + g.pyPlan(a[0]) + ")"
		}
	case "_binary.VectorSerializer":
		if len(a) == 1 {
			return "vec(" + g.pyPlan(a[0]) + ")"
		}
	case "_binary.FixedVectorSerializer":
		if len(a) == 2 {
			return "fvec(" + g.pyPlan(a[0]) + "," + numTok(a[1]) + ")"
		}
	case "_binary.FixedNDArraySerializer":
		if len(a) == 2 && a[1].open == "(" && a[1].head == "" {
			s := "farr(" + g.pyPlan(a[0])
			for _, d := range a[1].kids {
				s += "," + numTok(d)
			}
			return s + ")"
		}
	case "_binary.NDArraySerializer":
		if len(a) == 2 {
			return "ndarr(" + g.pyPlan(a[0]) + "," + numTok(a[1]) + ")"
		}
	case "_binary.DynamicNDArraySerializer":
		if len(a) == 1 {
			return "dynarr(" + g.pyPlan(a[0]) + ")"
		}
	case "_binary.MapSerializer":
		if len(a) == 2 {
			return "map(" + g.pyPlan(a[0]) + "," + g.pyPlan(a[1]) + ")"
		}
	case "_binary.EnumSerializer":
		if len(a) == 2 {
			return "enum(" + a[1].head + ":" + g.pyPlan(a[0]) + ")"
		}
	}
	if strings.HasSuffix(h, "Serializer") && n.open == "(" && !strings.Contains(h, ".") {
		s := "rec(" + strings.TrimSuffix(h, "Serializer")
		for _, k := range a {
			s += ";" + g.pyPlan(k)
		}
		return s + ")"
	}
	return "?py:" + h
}

// ---- MATLAB binary -------------------------------------------------------------------------

func matlabPrim(h string) (string, bool) {
	const pre = "yardl.binary."
	const suf = "Serializer"
	if !strings.HasPrefix(h, pre) || !strings.HasSuffix(h, suf) {
		return "", false
	}
	switch h[len(pre) : len(h)-len(suf)] {
	case "Bool":
		return "bool", true
	case "Int8":
		return "i8", true
	case "Uint8":
		return "u8", true
	case "Int16":
		return "zz16", true
	case "Int32":
		return "zz32", true
	case "Int64":
		return "zz64", true
	case "Uint16":
		return "uv16", true
	case "Uint32":
		return "uv32", true
	case "Uint64":
		return "uv64", true
	case "Size":
		return "size", true
	case "Float32":
		return "f32", true
	case "Float64":
		return "f64", true
	case "Complexfloat32":
		return "c64", true
	case "Complexfloat64":
		return "c128", true
	case "String":
		return "str", true
	case "Date":
		return "date", true
	case "Time":
		return "time", true
	case "Datetime":
		return "datetime", true
	case "None":
		return "null", true
	}
	return "", false
}

func (g *gen) matlabPlan(n *vnode) string {
	h := n.head
	a := n.kids
	if n.open == "" {
		if h == "t_serializer" {
			return "param(T)"
		}
		if p, ok := matlabPrim(h); ok {
			return p
		}
		return "?m:" + h
	}
	switch h {
	case "yardl.binary.OptionalSerializer":
		if len(a) == 1 {
			return "opt(" + g.matlabPlan(a[0]) + ")"
		}
	case "yardl.binary.UnionSerializer":
		if len(a) == 3 && a[1].open == "{" && a[2].open == "{" && len(a[1].kids) == len(a[2].kids) {
			parts := make([]string, len(a[1].kids))
			for i, c := range a[1].kids {
				parts[i] = g.matlabPlan(c)
			}
			return "union(" + strings.Join(parts, "|") + ")"
		}
	case "yardl.binary.StreamSerializer":
		if len(a) == 1 {
			return "stream(" + g.matlabPlan(a[0]) + ")"
		}
	case "yardl.binary.VectorSerializer":
		if len(a) == 1 {
			return "vec(" + g.matlabPlan(a[0]) + ")"
		}
	case "yardl.binary.FixedVectorSerializer":
		if len(a) == 2 {
			return "fvec(" + g.matlabPlan(a[0]) + "," + numTok(a[1]) + ")"
		}
	case "yardl.binary.FixedNDArraySerializer":
		if len(a) == 2 && a[1].open == "[" {
			// MATLAB is column-major: the emitter lists dimensions reversed; un-reverse
			s := "farr(" + g.matlabPlan(a[0])
			for i := len(a[1].kids) - 1; i >= 0; i-- {
				s += "," + numTok(a[1].kids[i])
			}
			return s + ")"
		}
	case "yardl.binary.NDArraySerializer":
		if len(a) == 2 {
			return "ndarr(" + g.matlabPlan(a[0]) + "," + numTok(a[1]) + ")"
		}
	case "yardl.binary.DynamicNDArraySerializer":
		if len(a) == 1 {
			return "dynarr(" + g.matlabPlan(a[0]) + ")"
		}
	case "yardl.binary.MapSerializer":
		if len(a) == 2 {
			return "map(" + g.matlabPlan(a[0]) + "," + g.matlabPlan(a[1]) + ")"
		}
	case "yardl.binary.EnumSerializer":
		if len(a) == 3 {
			return "enum(" + strings.TrimPrefix(strings.Trim(a[0].head, "'"), "ns.") + ":" + g.matlabPlan(a[2]) + ")"
		}
	}
	if strings.HasPrefix(h, "ns.binary.") && strings.HasSuffix(h, "Serializer") && n.open == "(" {
		s := "rec(" + strings.TrimSuffix(strings.TrimPrefix(h, "ns.binary."), "Serializer")
		for _, k := range a {
			s += ";" + g.matlabPlan(k)
		}
		return s + ")"
	}
	return "?m:" + h
}
