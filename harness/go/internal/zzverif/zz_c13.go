package zzverif

import (
	"github.com/microsoft/yardl/tooling/pkg/dsl"
)

// deps collects the names of same-namespace definitions a type mentions (through compound types and type arguments).
func depsOfType(t dsl.Type, out map[string]bool) {
	switch t := t.(type) {
	case *dsl.SimpleType:
		if t.ResolvedDefinition != nil {
			switch d := t.ResolvedDefinition.(type) {
			case dsl.PrimitiveDefinition, *dsl.GenericTypeParameter:
			default:
				out[d.GetDefinitionMeta().Name] = true
				for _, a := range d.GetDefinitionMeta().TypeArguments {
					depsOfType(a, out)
				}
			}
		}
		for _, a := range t.TypeArguments {
			depsOfType(a, out)
		}
	case *dsl.GeneralizedType:
		for _, c := range t.Cases {
			depsOfType(c.Type, out)
		}
		if m, ok := t.Dimensionality.(*dsl.Map); ok {
			depsOfType(m.KeyType, out)
		}
	}
}

func depsOfDef(td dsl.TypeDefinition) map[string]bool {
	out := map[string]bool{}
	switch d := td.(type) {
	case *dsl.RecordDefinition:
		for _, f := range d.Fields {
			depsOfType(f.Type, out)
		}
	case *dsl.NamedType:
		depsOfType(d.Type, out)
	case *dsl.EnumDefinition:
		if d.BaseType != nil {
			depsOfType(d.BaseType, out)
		}
	}
	delete(out, td.GetDefinitionMeta().Name)
	return out
}

// c13Model: definitions with dependencies through plain references, compound type arguments,
// aliases and generics; symbolic leaves as in C04.
func c13Defs(b *mb, L *c04Leaves) (dsl.TypeDefinitions, []*dsl.ProtocolDefinition) {
	ns := "Ns"
	sample := b.record(ns, "Sample", nil, b.field("id", b.st(L.p1)), b.field("v", b.fvec(b.st(L.p2), 3)))
	sample.Fields[1].Type.(*dsl.GeneralizedType).Dimensionality.(*dsl.Vector).Length = &L.n
	wrapper := b.record(ns, "Wrapper", []string{"T"}, b.field("item", b.st("T")), b.field("count", b.st("uint")))
	batch := b.alias(ns, "Batch", nil, b.st("Wrapper", b.vec(b.st("Sample"))))
	kind := b.enum(ns, "Kind", b.st(L.ebase), "a", "b")
	tagged := b.record(ns, "Tagged", nil, b.field("kind", b.st("Kind")), b.field("batch", b.opt(b.st("Batch"))), b.field("m", b.mapOf(b.st(L.key), b.st("Sample"))))
	opt := b.alias(ns, "MaybeTagged", nil, b.st("Wrapper", b.opt(b.st("Tagged"))))
	proto := b.protocol(ns, "Proto", b.step("first", b.st("MaybeTagged")), b.step("rest", b.strm(b.st("Tagged"))))
	return dsl.TypeDefinitions{sample, wrapper, batch, kind, tagged, opt}, []*dsl.ProtocolDefinition{proto}
}

var c13Perms = [][]int{
	{0, 1, 2, 3, 4, 5}, {5, 4, 3, 2, 1, 0}, {2, 5, 0, 4, 1, 3}, {5, 2, 4, 3, 1, 0}, {4, 5, 2, 1, 0, 3}, {1, 0, 3, 2, 5, 4}, {2, 0, 1, 5, 3, 4}, {3, 4, 5, 0, 1, 2},
}

// C13Order: listing the same definitions in another order / spread over other files is the same model.
func C13Order(small int) {
	c04Size(small)
	L := newC04Leaves()
	b1 := &mb{file: "model.yml"}
	tds1, protos1 := c13Defs(b1, L)
	n1 := &dsl.Namespace{Name: "Ns", IsTopLevel: true, TypeDefinitions: tds1, Protocols: protos1}
	env1, err1 := dsl.Validate([]*dsl.Namespace{n1})
	verifAssert("canonical-order-accepted", err1 == nil)

	b2 := &mb{file: "model.yml"}
	tds2, protos2 := c13Defs(b2, L)
	perm := c13Perms[verifChoose("perm", len(c13Perms))]
	shuffled := make(dsl.TypeDefinitions, len(tds2))
	split := verifChoose("split-files", 3) // 0: one file, 1: alternate files, 2: everything in another file
	for i, j := range perm {
		shuffled[i] = tds2[j]
		if split == 2 || (split == 1 && i%2 == 1) {
			shuffled[i].GetDefinitionMeta().File = "extra.yml"
		}
	}
	n2 := &dsl.Namespace{Name: "Ns", IsTopLevel: true, TypeDefinitions: shuffled, Protocols: protos2}
	env2, err2 := dsl.Validate([]*dsl.Namespace{n2})
	if err2 != nil {
		verifOut("err2", err2.Error())
	}
	verifAssert("reordered-accepted", err2 == nil)
	if err1 != nil || err2 != nil {
		return
	}
	s1 := dsl.GetProtocolSchemaString(env1.Namespaces[0].Protocols[0], env1.SymbolTable)
	s2 := dsl.GetProtocolSchemaString(env2.Namespaces[0].Protocols[0], env2.SymbolTable)
	verifAssert("same-schema", s1 == s2)
	// the validated environment lists every definition after the definitions it depends on
	for _, env := range []*dsl.Environment{env1, env2} {
		pos := map[string]int{}
		for i, td := range env.Namespaces[0].TypeDefinitions {
			pos[td.GetDefinitionMeta().Name] = i
		}
		verifAssert("all-definitions-kept", len(pos) == 6)
		for i, td := range env.Namespaces[0].TypeDefinitions {
			for dep := range depsOfDef(td) {
				j, ok := pos[dep]
				verifAssert("dependencies-first", ok && j < i)
			}
		}
	}
	// each definition's serializer expressions are the same in both environments
	g := newGen()
	for _, td1 := range env1.Namespaces[0].TypeDefinitions {
		for _, td2 := range env2.Namespaces[0].TypeDefinitions {
			if td1.GetDefinitionMeta().Name != td2.GetDefinitionMeta().Name {
				continue
			}
			r1, ok1 := td1.(*dsl.RecordDefinition)
			r2, ok2 := td2.(*dsl.RecordDefinition)
			if ok1 && ok2 && len(r1.TypeParameters) == 0 {
				for k := range r1.Fields {
					verifAssert("same-field-plan", len(r2.Fields) == len(r1.Fields) && Plan(r1.Fields[k].Type) == Plan(r2.Fields[k].Type))
					verifAssert("same-python-serializer", g.pyExpr(r1.Fields[k].Type) == g.pyExpr(r2.Fields[k].Type))
				}
			}
		}
	}
	verifReach("c13-order-end")
}
