package zzverif

// C06 (reference shapes): the verdict class of a documented edit must not depend on the *shape of the
// reference* through which the protocol reaches the edited / re-instantiated definition.  The old and the
// new version independently reach the same target through a direct reference, a closed alias of a generic,
// an alias of an alias, a generic alias with explicit type arguments or a closed alias of a generic alias;
// aliases exist only where they are needed or (symbolically) everywhere.  Oracle: docs/cpp/evolution.md
// ("Adding or removing aliases to types" is compatible; "Changing the type arguments to a generic type" is
// breaking; the class of an edit of a record / enum definition is the documented one wherever it is used).

import (
	"math/big"

	"github.com/microsoft/yardl/tooling/pkg/dsl"
)

// reference shapes, generic family (target G<X>)
const (
	rsDirect   = iota // G<X>
	rsClosed          // Closed: G<X>;      step: Closed
	rsClosed2         // Closed2: Closed;   step: Closed2
	rsGenAlias        // GA<T>: G<T>;       step: GA<X>
	rsClosedGA        // CGA: GA<X>;        step: CGA
	nRefShapes
)

var rsNames = []string{"direct", "closed-alias", "alias-of-alias", "generic-alias-with-args", "closed-alias-of-generic-alias"}

// reference shapes, plain family (target R or E)
const (
	psDirect = iota // R
	psAlias         // RA: R;   step: RA
	psAlias2        // RAA: RA; step: RAA
	nPlainShapes
)

// edits of the referenced definition
const (
	rdNone = iota
	rdAddOptionalField
	rdAddRequiredField
	rdNumberToNumber
	rdScalarToVector
	nRecEdits
)

var rdNames = []string{"none", "add-optional-field", "add-required-field", "number-to-number", "scalar-to-vector"}

func rdClass(e int) string {
	switch e {
	case rdNone, rdAddOptionalField:
		return "silent"
	case rdAddRequiredField, rdNumberToNumber:
		return "warning"
	}
	return "error"
}

const (
	enNone = iota
	enValueChanged
	enValueRemoved
	enBaseChanged
	nEnumEdits
)

var enNames = []string{"none", "enum-value-changed", "enum-value-removed", "enum-base-changed"}

// wrappers of the reference inside the step type
const (
	rwNone = iota
	rwStream
	rwVector
	rwOptional
	nRefWraps
)

var rwNames = []string{"plain", "stream", "vector", "optional"}

type rsVersion struct {
	shape    int
	arg      string // type argument of G (family 0/1) — a primitive name or "R"
	allAlias bool   // define every alias of the family, not only the ones the reference needs
	recEdit  int    // edit applied to the record (G in family 0, R in families 1/2)
	enumEdit int    // edit applied to E (family 3)
	wrap     int
}

func rsRecordFields(b *mb, first *dsl.Field, e int) []*dsl.Field {
	nT := "int32"
	if e == rdNumberToNumber {
		nT = "int64"
	}
	var sT dsl.Type = b.st("string")
	if e == rdScalarToVector {
		sT = b.vec(b.st("string"))
	}
	fs := []*dsl.Field{}
	if first != nil {
		fs = append(fs, first)
	}
	fs = append(fs, b.field("n", b.st(nT)), b.field("s", sT))
	if e == rdAddOptionalField {
		fs = append(fs, b.field("note", b.opt(b.st("string"))))
	}
	if e == rdAddRequiredField {
		fs = append(fs, b.field("extra", b.st("int32")))
	}
	return fs
}

// rsModel builds one version.  family 0: G<prim>; 1: G<R>; 2: R; 3: E.
func rsModel(b *mb, family int, v *rsVersion) *dsl.Namespace {
	ns := "Ns"
	var tds dsl.TypeDefinitions
	var refT dsl.Type
	switch family {
	case 0, 1:
		gEdit, rEdit := v.recEdit, rdNone
		if family == 1 {
			gEdit, rEdit = rdNone, v.recEdit
			tds = append(tds, b.record(ns, "R", nil, rsRecordFields(b, nil, rEdit)...))
		}
		tds = append(tds, b.record(ns, "G", []string{"T"}, rsRecordFields(b, b.field("v", b.st("T")), gEdit)...))
		need := func(s int) bool {
			if v.allAlias {
				return true
			}
			switch s {
			case rsClosed:
				return v.shape == rsClosed || v.shape == rsClosed2
			case rsClosed2:
				return v.shape == rsClosed2
			case rsGenAlias:
				return v.shape == rsGenAlias || v.shape == rsClosedGA
			case rsClosedGA:
				return v.shape == rsClosedGA
			}
			return false
		}
		if need(rsClosed) {
			tds = append(tds, b.alias(ns, "Closed", nil, b.st("G", b.st(v.arg))))
		}
		if need(rsClosed2) {
			tds = append(tds, b.alias(ns, "Closed2", nil, b.st("Closed")))
		}
		if need(rsGenAlias) {
			tds = append(tds, b.alias(ns, "GA", []string{"T"}, b.st("G", b.st("T"))))
		}
		if need(rsClosedGA) {
			tds = append(tds, b.alias(ns, "CGA", nil, b.st("GA", b.st(v.arg))))
		}
		switch v.shape {
		case rsDirect:
			refT = b.st("G", b.st(v.arg))
		case rsClosed:
			refT = b.st("Closed")
		case rsClosed2:
			refT = b.st("Closed2")
		case rsGenAlias:
			refT = b.st("GA", b.st(v.arg))
		default:
			refT = b.st("CGA")
		}
	default:
		target := "R"
		if family == 2 {
			tds = append(tds, b.record(ns, "R", nil, rsRecordFields(b, nil, v.recEdit)...))
		} else {
			target = "E"
			var base dsl.Type = b.st("int16")
			if v.enumEdit == enBaseChanged {
				base = b.st("int64")
			}
			e := b.enum(ns, "E", base, "a", "b", "c")
			if v.enumEdit == enValueChanged {
				e.Values[1].IntegerValue = *big.NewInt(7)
			}
			if v.enumEdit == enValueRemoved {
				e.Values = e.Values[:2]
			}
			tds = append(tds, e)
		}
		if v.allAlias || v.shape >= psAlias {
			tds = append(tds, b.alias(ns, target+"A", nil, b.st(target)))
		}
		if v.allAlias || v.shape >= psAlias2 {
			tds = append(tds, b.alias(ns, target+"AA", nil, b.st(target+"A")))
		}
		refT = b.st([]string{target, target + "A", target + "AA"}[v.shape])
	}
	switch v.wrap {
	case rwStream:
		refT = b.strm(refT)
	case rwVector:
		refT = b.vec(refT)
	case rwOptional:
		refT = b.opt(refT)
	}
	steps := []*dsl.ProtocolStep{b.step("first", b.st("int32")), b.step("x", refT), b.step("last", b.strm(b.st("string")))}
	return &dsl.Namespace{Name: ns, IsTopLevel: true, TypeDefinitions: tds, Protocols: []*dsl.ProtocolDefinition{b.protocol(ns, "Proto", steps...)}}
}

// c06Verdict runs the real pipeline on (old, new) and asserts the documented verdict class.
// class "" = not a documented class: totality only.
func c06Verdict(oldNs, newNs *dsl.Namespace, class string) {
	oldEnv, errOld := dsl.Validate([]*dsl.Namespace{oldNs})
	newEnv, errNew := dsl.Validate([]*dsl.Namespace{newNs})
	verifAssert("both-versions-valid", errOld == nil && errNew == nil)
	if errOld != nil || errNew != nil {
		verifOut("validate-error", errText(errOld)+errText(errNew))
		return
	}
	var warnings []string
	var err error
	msg, panicked := verifPanics(func() { _, warnings, err = dsl.ValidateEvolution(newEnv, []*dsl.Environment{oldEnv}, []string{"v0"}) })
	verifOut("panic", msg)
	verifAssert("verdict-without-panic", !panicked)
	if panicked {
		return
	}
	verifOut("err", errText(err))
	verifOut("nwarnings", len(warnings))
	verifOut("class", class)
	switch class {
	case "error":
		verifAssert("breaking-change-rejected", err != nil)
	case "warning":
		verifAssert("partial-change-accepted", err == nil)
		verifAssert("partial-change-warned", len(warnings) > 0)
	case "silent":
		verifAssert("compatible-change-accepted", err == nil)
		verifAssert("compatible-change-silent", len(warnings) == 0)
	}
}

var rsArgsOld = []string{"int32", "string"}
var rsArgsNew = []string{"int32", "string", "int64"}

func rsClosedShape(s int) bool { return s == rsClosed || s == rsClosed2 || s == rsClosedGA }

// C06RefShape.  mode 0 = quick decomposition: slice A = reference shapes x type arguments x alias sets (definition
// unedited, no wrapper, the same alias policy in both versions); slice B = reference shapes x definition edits x
// {plain, stream} with equal type arguments and only the needed aliases.  mode 1 = full cross product.
// strict 0 skips the class assertion where both versions reach the generic through differently named closed aliases
// and the type argument changed or was edited (reported defect of the unchanged tree); strict 1 asserts it too.
func C06RefShape(mode int, strict int) {
	family := verifChoose("family", 4)
	verifOut("family", family)
	o, n := &rsVersion{}, &rsVersion{}
	nShapes := nRefShapes
	if family >= 2 {
		nShapes = nPlainShapes
	}
	o.shape, n.shape = verifChoose("old-shape", nShapes), verifChoose("new-shape", nShapes)
	argsVary, editsVary := true, true
	if mode == 0 {
		if verifChoose("quick-slice", 2) == 0 {
			editsVary = false
		} else {
			argsVary = false
		}
	}
	switch family {
	case 0:
		o.arg, n.arg = "int32", "int32"
		if argsVary {
			o.arg, n.arg = verifOneOf("old-arg", rsArgsOld...), verifOneOf("new-arg", rsArgsNew...)
		}
	case 1:
		o.arg, n.arg = "R", "R"
	}
	if argsVary {
		o.allAlias = verifBool("old-defines-all-aliases")
		n.allAlias = o.allAlias
		if mode != 0 {
			n.allAlias = verifBool("new-defines-all-aliases")
		}
	}
	class := "silent"
	edit := "none"
	if editsVary {
		if family == 3 {
			n.enumEdit = verifChoose("enum-edit", nEnumEdits)
			edit = enNames[n.enumEdit]
			if n.enumEdit != enNone {
				class = "error"
			}
		} else {
			n.recEdit = verifChoose("record-edit", nRecEdits)
			edit = rdNames[n.recEdit]
			class = rdClass(n.recEdit)
		}
		nw := nRefWraps
		if mode == 0 {
			nw = 2
		}
		w := verifChoose("wrapper", nw)
		o.wrap, n.wrap = w, w
	}
	argChanged := o.arg != n.arg
	if argChanged {
		class = "error"
		edit += "+type-argument-changed"
	}
	closedPair := family <= 1 && rsClosedShape(o.shape) && rsClosedShape(n.shape) && o.shape != n.shape && (argChanged || (family == 1 && n.recEdit != rdNone))
	verifOut("edit", "refshape:"+edit)
	verifOut("old-ref", rsNames[o.shape])
	verifOut("new-ref", rsNames[n.shape])
	verifOut("wrapper", rwNames[n.wrap])
	verifOut("closed-pair", closedPair)
	if closedPair && strict == 0 {
		class = ""
	}
	c06Verdict(rsModel(&mb{file: "v0/model.yml"}, family, o), rsModel(&mb{file: "model.yml"}, family, n), class)
	verifReach("c06-refshape-end")
}
