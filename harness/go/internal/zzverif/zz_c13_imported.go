package zzverif

// C13, definition order when dependencies run through an *imported generic type instantiated with
// local (generic) types*: the local definitions are listed in every order; verdict, schema,
// dependency order of the validated environment and serializer expressions must not depend on it.

import (
	"github.com/microsoft/yardl/tooling/pkg/dsl"
)

// localDepsOfType: names of definitions of namespace ns that t mentions, through compound types, type
// arguments and type arguments of (imported or local) generic instantiations.
func localDepsOfType(t dsl.Type, ns string, out map[string]bool) {
	switch t := t.(type) {
	case *dsl.SimpleType:
		if t.ResolvedDefinition != nil {
			switch d := t.ResolvedDefinition.(type) {
			case dsl.PrimitiveDefinition, *dsl.GenericTypeParameter:
			default:
				m := d.GetDefinitionMeta()
				if m.Namespace == ns {
					out[m.Name] = true
				}
				for _, a := range m.TypeArguments {
					localDepsOfType(a, ns, out)
				}
			}
		}
		for _, a := range t.TypeArguments {
			localDepsOfType(a, ns, out)
		}
	case *dsl.GeneralizedType:
		for _, c := range t.Cases {
			localDepsOfType(c.Type, ns, out)
		}
		if m, ok := t.Dimensionality.(*dsl.Map); ok {
			localDepsOfType(m.KeyType, ns, out)
		}
	}
}

func localDepsOfDef(td dsl.TypeDefinition, ns string) map[string]bool {
	out := map[string]bool{}
	switch d := td.(type) {
	case *dsl.RecordDefinition:
		for _, f := range d.Fields {
			localDepsOfType(f.Type, ns, out)
		}
	case *dsl.NamedType:
		localDepsOfType(d.Type, ns, out)
	case *dsl.EnumDefinition:
		if d.BaseType != nil {
			localDepsOfType(d.BaseType, ns, out)
		}
	}
	delete(out, td.GetDefinitionMeta().Name)
	return out
}

// c13Lib: the imported namespace: generic record, generic record with two parameters, generic alias.
func c13Lib(b *mb) *dsl.Namespace {
	ns := "Lib"
	n := &dsl.Namespace{Name: ns}
	n.TypeDefinitions = dsl.TypeDefinitions{
		b.record(ns, "Box", []string{"T"}, b.field("item", b.st("T")), b.field("count", b.st("uint"))),
		b.record(ns, "Two", []string{"A", "B"}, b.field("a", b.st("A")), b.field("b", b.opt(b.st("B")))),
		b.alias(ns, "Many", []string{"T"}, b.vec(b.st("T"))),
	}
	return n
}

// c13ImportedDefs: local definitions, in dependency order.  Inner, Wrapper and Seq are used by the
// other definitions ONLY inside type arguments of generics imported from Lib.
func c13ImportedDefs(b *mb, L *c04Leaves) (dsl.TypeDefinitions, []*dsl.ProtocolDefinition) {
	ns := "Ns"
	inner := b.record(ns, "Inner", []string{"T"}, b.field("v", b.st("T")))
	wrapper := b.record(ns, "Wrapper", []string{"T"}, b.field("inner", b.st("Inner", b.st("T"))), b.field("count", b.st("uint")))
	seq := b.alias(ns, "Seq", []string{"T"}, b.fvec(b.st("T"), 3))
	seq.Type.(*dsl.GeneralizedType).Dimensionality.(*dsl.Vector).Length = &L.n
	kind := b.enum(ns, "Kind", b.st(L.ebase), "a", "b")
	user := b.record(ns, "User", nil,
		b.field("boxed", b.st("Lib.Box", b.st("Wrapper", b.st(L.p1)))),
		b.field("kinds", b.st("Lib.Many", b.st("Seq", b.st("Kind")))),
		b.field("m", b.mapOf(b.st(L.key), b.st("Lib.Two", b.st("string"), b.st("Lib.Box", b.st("Inner", b.st(L.p2)))))))
	top := b.alias(ns, "Top", nil, b.st("Lib.Two", b.st("User"), b.st("Wrapper", b.st("Kind"))))
	proto := b.protocol(ns, "Proto",
		b.step("first", b.st("Top")),
		b.step("direct", b.st("Lib.Box", b.st("Wrapper", b.st("Seq", b.st("int"))))),
		b.step("rest", b.strm(b.st("User"))))
	return dsl.TypeDefinitions{inner, wrapper, seq, kind, user, top}, []*dsl.ProtocolDefinition{proto}
}

func c13Ns(env *dsl.Environment, name string) *dsl.Namespace {
	for _, n := range env.Namespaces {
		if n.Name == name {
			return n
		}
	}
	return nil
}

// c13ImportedLeaves: symLeaves == 1: only the primitive used as type argument is symbolic (2 values);
// 2: that and the enum base; 3: all leaves of the C04/C13 family.  The vector length is always symbolic.
func c13ImportedLeaves(symLeaves int) *c04Leaves {
	if symLeaves >= 3 {
		return newC04Leaves()
	}
	L := &c04Leaves{p1: verifOneOf("p1", "int32", "string"), p2: "int64", key: "string", ebase: "uint8", n: verifUint64("n"), p3: "int32"}
	if symLeaves == 2 {
		L.ebase = verifOneOf("ebase", "uint8", "int64")
	}
	return L
}

// C13ImportedGenerics: every permutation of the local definitions (symbolic Lehmer code).
// all6 == 1: all 720 orders of the 6 definitions; otherwise all 120 orders of Inner, Wrapper, Seq,
// User, Top with the enum Kind listed first or last.  The file layout (one file / alternating files /
// another file) is derived from the permutation so that all three occur.
func C13ImportedGenerics(all6 int, symLeaves int) {
	L := c13ImportedLeaves(symLeaves)
	bl1, b1 := &mb{file: "lib/lib.yml"}, &mb{file: "model.yml"}
	tds1, protos1 := c13ImportedDefs(b1, L)
	lib1 := c13Lib(bl1)
	n1 := &dsl.Namespace{Name: "Ns", IsTopLevel: true, TypeDefinitions: tds1, Protocols: protos1, References: []*dsl.Namespace{lib1}}
	env1, err1 := dsl.Validate([]*dsl.Namespace{lib1, n1})
	if err1 != nil {
		verifOut("err1", err1.Error())
	}
	verifAssert("canonical-order-accepted", err1 == nil)

	bl2, b2 := &mb{file: "lib/lib.yml"}, &mb{file: "model.yml"}
	tds2, protos2 := c13ImportedDefs(b2, L)
	lib2 := c13Lib(bl2)
	// permutation: position i takes the k-th of the remaining definitions
	remaining := dsl.TypeDefinitions{}
	for _, td := range tds2 {
		if all6 == 1 || td.GetDefinitionMeta().Name != "Kind" {
			remaining = append(remaining, td)
		}
	}
	shuffled := dsl.TypeDefinitions{}
	code := 0
	order := ""
	for len(remaining) > 1 {
		k := verifChoose("pick"+string(rune('0'+len(remaining))), len(remaining))
		code = code*7 + k
		shuffled = append(shuffled, remaining[k])
		rest := dsl.TypeDefinitions{}
		for i, td := range remaining {
			if i != k {
				rest = append(rest, td)
			}
		}
		remaining = rest
	}
	shuffled = append(shuffled, remaining[0])
	if all6 != 1 {
		if code%2 == 0 {
			shuffled = append(dsl.TypeDefinitions{tds2[3]}, shuffled...)
		} else {
			shuffled = append(shuffled, tds2[3])
		}
	}
	split := (code / 2) % 3 // 0: one file, 1: alternate files, 2: everything in another file
	for i, td := range shuffled {
		order += td.GetDefinitionMeta().Name + " "
		if split == 2 || (split == 1 && i%2 == 1) {
			td.GetDefinitionMeta().File = "extra.yml"
		}
	}
	verifOut("order", order)
	n2 := &dsl.Namespace{Name: "Ns", IsTopLevel: true, TypeDefinitions: shuffled, Protocols: protos2, References: []*dsl.Namespace{lib2}}
	var env2 *dsl.Environment
	var err2 error
	msg, panicked := verifPanics(func() { env2, err2 = dsl.Validate([]*dsl.Namespace{lib2, n2}) })
	verifOut("panic", msg)
	verifAssert("reordered-does-not-panic", !panicked)
	if err2 != nil {
		verifOut("err2", err2.Error())
	}
	verifAssert("reordered-accepted", err2 == nil)
	if err1 != nil || err2 != nil || panicked {
		return
	}
	m1, m2 := c13Ns(env1, "Ns"), c13Ns(env2, "Ns")
	for k := range m1.Protocols {
		s1 := dsl.GetProtocolSchemaString(m1.Protocols[k], env1.SymbolTable)
		s2 := dsl.GetProtocolSchemaString(m2.Protocols[k], env2.SymbolTable)
		verifAssert("same-schema", s1 == s2)
	}
	// the validated environment lists every local definition after the local definitions it depends
	// on, including those it mentions only inside type arguments of imported generics
	for _, m := range []*dsl.Namespace{m1, m2} {
		pos := map[string]int{}
		for i, td := range m.TypeDefinitions {
			pos[td.GetDefinitionMeta().Name] = i
		}
		verifAssert("all-definitions-kept", len(pos) == 6 && len(m.TypeDefinitions) == 6)
		for i, td := range m.TypeDefinitions {
			for dep := range localDepsOfDef(td, "Ns") {
				j, ok := pos[dep]
				verifAssert("dependencies-first", ok && j < i)
			}
		}
	}
	// sanity of the oracle: User depends on Wrapper, Inner, Seq and Kind (all through imported generics)
	for _, td := range m2.TypeDefinitions {
		if td.GetDefinitionMeta().Name == "User" {
			d := localDepsOfDef(td, "Ns")
			verifAssert("oracle-sees-through-imported-generics", d["Wrapper"] && d["Inner"] && d["Seq"] && d["Kind"])
		}
	}
	g := newGen()
	for _, td1 := range m1.TypeDefinitions {
		for _, td2 := range m2.TypeDefinitions {
			if td1.GetDefinitionMeta().Name != td2.GetDefinitionMeta().Name {
				continue
			}
			r1, ok1 := td1.(*dsl.RecordDefinition)
			r2, ok2 := td2.(*dsl.RecordDefinition)
			if ok1 && ok2 && len(r1.TypeParameters) == 0 {
				for k := range r1.Fields {
					verifAssert("same-field-plan", len(r2.Fields) == len(r1.Fields) && Plan(r1.Fields[k].Type) == Plan(r2.Fields[k].Type))
					verifAssert("same-python-serializer", g.pyExpr(r1.Fields[k].Type) == g.pyExpr(r2.Fields[k].Type))
				}
			}
		}
	}
	for k := range m1.Protocols {
		for j := range m1.Protocols[k].Sequence {
			verifAssert("same-step-plan", Plan(m1.Protocols[k].Sequence[j].Type) == Plan(m2.Protocols[k].Sequence[j].Type))
		}
	}
	verifReach("c13-imported-end")
}
