package zzverif

// C06 / C10: evolution verdicts are total when definitions DISAPPEAR.
//
// new = old minus a symbolic selection: the protocol, every type definition, or both (an empty latest model is a valid
// model), with one or two protocols in the previous version.  The real dsl.Validate and dsl.ValidateEvolution run on
// the pair.  Obligations:
//   verdict-without-panic                      whatever was removed;
//   removed-protocol-is-reported-not-silent    a previous version's protocol that is gone is mentioned (warning or error);
//   every-diagnostic-is-located                every warning carries a file (of the latest or of the previous version).

import (
	"strings"

	"github.com/microsoft/yardl/tooling/pkg/dsl"
)

func c06rModel(file string, keepTypes, keepP, keepQ bool) *dsl.Namespace {
	b := &mb{file: file}
	n := &dsl.Namespace{Name: "Ns", IsTopLevel: true}
	if keepTypes {
		n.TypeDefinitions = dsl.TypeDefinitions{
			b.record("Ns", "Header", nil, b.field("id", b.st("uint32")), b.field("name", b.st("string"))),
			b.alias("Ns", "Ids", nil, b.vec(b.st("uint32"))),
		}
	}
	hdr := func() dsl.Type {
		if keepTypes {
			return b.st("Header")
		}
		return b.st("string")
	}
	if keepP {
		n.Protocols = append(n.Protocols, b.protocol("Ns", "P", b.step("h", hdr()), b.step("xs", b.strm(b.st("int32")))))
	}
	if keepQ {
		n.Protocols = append(n.Protocols, b.protocol("Ns", "Q", b.step("v", b.st("float64"))))
	}
	return n
}

// C06Removal()
func C06Removal() {
	oldHasQ := verifChoose("previous-has-second-protocol", 2) == 1
	keepTypes := verifChoose("latest-keeps-types", 2) == 1
	keepP := verifChoose("latest-keeps-protocol-P", 2) == 1
	keepQ := oldHasQ && verifChoose("latest-keeps-protocol-Q", 2) == 1
	oldEnv, errOld := dsl.Validate([]*dsl.Namespace{c06rModel("v0/model.yml", true, true, oldHasQ)})
	newEnv, errNew := dsl.Validate([]*dsl.Namespace{c06rModel("model.yml", keepTypes, keepP, keepQ)})
	verifAssert("both-versions-valid", errOld == nil && errNew == nil)
	if errOld != nil || errNew != nil {
		verifOut("validate-error", errText(errOld)+errText(errNew))
		return
	}
	var warnings []string
	var err error
	msg, panicked := verifPanics(func() { _, warnings, err = dsl.ValidateEvolution(newEnv, []*dsl.Environment{oldEnv}, []string{"v0"}) })
	verifOut("panic", msg)
	verifAssert("verdict-without-panic", !panicked)
	if panicked {
		return
	}
	all := strings.Join(warnings, "\n") + "\n" + errText(err)
	verifOut("diagnostics", all)
	if !keepP {
		verifAssert("removed-protocol-is-reported-not-silent", strings.Contains(all, "'P'"))
	}
	if oldHasQ && !keepQ {
		verifAssert("removed-protocol-is-reported-not-silent", strings.Contains(all, "'Q'"))
	}
	for _, w := range warnings {
		verifAssert("every-diagnostic-is-located", strings.Contains(w, "model.yml"))
	}
	verifReach("c06r-end")
}
