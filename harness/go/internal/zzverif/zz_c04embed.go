package zzverif

import (
	"strings"

	cppprotocols "github.com/microsoft/yardl/tooling/internal/cpp/protocols"
	mcommon "github.com/microsoft/yardl/tooling/internal/matlab/common"
	mprotocols "github.com/microsoft/yardl/tooling/internal/matlab/protocols"
	pyprotocols "github.com/microsoft/yardl/tooling/internal/python/protocols"
	"github.com/microsoft/yardl/tooling/pkg/dsl"
)

// C04Embed: every backend embeds exactly the protocol schema text, once as the writer's schema,
// and readers refer to the writer's.
func C04Embed() {
	L := newC04Leaves()
	// lengths concrete here: the obligation is about verbatim embedding of the text
	L.n, L.d0, L.d1 = 3, 2, 5
	deco := &c04Deco{file: "model.yml", comments: verifChoose("comments", 2) == 1}
	L.e0, L.e1 = 4, 6
	env, err := dsl.Validate(c04All(c04Model(L, deco, editNone)))
	verifAssert("model-validates", err == nil)
	if err != nil {
		return
	}
	ns := c04Main(env)
	schema := dsl.GetProtocolSchemaString(ns.Protocols[0], env.SymbolTable)
	verifOut("schema-length", len(schema))
	verifAssert("schema-has-no-delimiter-clash", !strings.Contains(schema, ")\"") && !strings.Contains(schema, "\"\"\"") && !strings.Contains(schema, "'"))

	cpp := cppprotocols.VerifWriteDefinitions(ns, env.SymbolTable)
	verifAssert("cpp-embeds-schema-verbatim", strings.Count(cpp, "ProtoWriterBase::schema_ = R\"("+schema+")\";") == 1)
	verifAssert("cpp-reader-uses-writer-schema", strings.Contains(cpp, "ProtoReaderBase::schema_ = ProtoWriterBase::schema_;"))
	verifAssert("cpp-version-from-schema-ends-in-throw", strings.Contains(cpp, "if (schema == ProtoWriterBase::schema_) {") &&
		strings.Contains(cpp, "throw std::runtime_error(\"The schema does not match any version supported by protocol Proto.\");"))

	verifUseRepl("CopyEmbeddedStaticFiles")
	// the output directories exist (natively the generators do not create them)
	verifFsPut("/out/py/.keep", "x")
	verifFsPut("/out/m/.keep", "x")
	perr := pyprotocols.WriteProtocols(ns, env.SymbolTable, verifPath("/out/py"))
	py, ok := verifFsGet("/out/py/protocols.py")
	verifAssert("python-protocols-written", perr == nil && ok)
	verifAssert("python-embeds-schema-verbatim", strings.Count(py, "schema = r\"\"\""+schema+"\"\"\"") == 1)
	verifAssert("python-reader-uses-writer-schema", strings.Contains(py, "schema = ProtoWriterBase.schema"))

	fw := &mcommon.MatlabFileWriter{PackageDir: verifPath("/out/m")}
	merr := mprotocols.WriteProtocols(fw, ns, env.SymbolTable)
	mw, okw := verifFsGet("/out/m/ProtoWriterBase.m")
	mr, okr := verifFsGet("/out/m/ProtoReaderBase.m")
	verifAssert("matlab-protocols-written", merr == nil && okw && okr)
	verifAssert("matlab-embeds-schema-verbatim", strings.Count(mw, "res = string('"+schema+"');") == 1)
	verifAssert("matlab-reader-uses-writer-schema", strings.Contains(mr, "ProtoWriterBase.schema;"))
	verifReach("c04-embed-end")
}
