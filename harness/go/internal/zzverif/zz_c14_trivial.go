package zzverif

// C14 / C01 / C03 (C++): the compile-time guard `IsTriviallySerializable<Record>::value` the binary generator emits
// per record decides whether values of the record (and vectors / arrays / blocks of them) are written and read with
// one memcpy of the in-memory struct instead of field by field.  The emitted specialization is read back, its
// `value` expression is parsed as a C++ constant expression and evaluated over a SYMBOLIC struct layout (per member a
// solver-chosen size and alignment, offsets by the usual ABI rule, a solver-chosen declaration order of the members,
// symbolic "is standard layout" and per-field "is trivially serializable" facts).  Obligation: whenever the guard
// is true, the memcpy image is the field-by-field encoding the plan prescribes: standard layout, every field
// trivially serializable, members laid out in the record's field order, no padding byte anywhere.  The converse is
// not required (a guard may be conservative).

import (
	"fmt"
	"strings"

	cppbinary "github.com/microsoft/yardl/tooling/internal/cpp/binary"
	cppcommon "github.com/microsoft/yardl/tooling/internal/cpp/common"
	cpptypes "github.com/microsoft/yardl/tooling/internal/cpp/types"
	"github.com/microsoft/yardl/tooling/pkg/dsl"
)

// ---- a reader for C++ constant expressions -----------------------------------------------------

func c14tIsIdentStart(c byte) bool {
	return c == '_' || (c >= 'a' && c <= 'z') || (c >= 'A' && c <= 'Z')
}

func c14tIsDigit(c byte) bool { return c >= '0' && c <= '9' }

// c14tLex: C++ tokens (identifiers, numbers, maximal-munch operators).
func c14tLex(s string) ([]string, bool) {
	var out []string
	for i := 0; i < len(s); {
		c := s[i]
		switch {
		case c == ' ' || c == '\n' || c == '\t' || c == '\r':
			i++
		case c14tIsIdentStart(c):
			j := i + 1
			for j < len(s) && (c14tIsIdentStart(s[j]) || c14tIsDigit(s[j])) {
				j++
			}
			out = append(out, s[i:j])
			i = j
		case c14tIsDigit(c):
			j := i + 1
			for j < len(s) && (c14tIsIdentStart(s[j]) || c14tIsDigit(s[j])) {
				j++
			}
			out = append(out, s[i:j])
			i = j
		default:
			if i+1 < len(s) {
				two := s[i : i+2]
				switch two {
				case "::", "&&", "||", "==", "!=", "<=", ">=", "++", "--", "->", "<<", ">>":
					out = append(out, two)
					i += 2
					continue
				}
			}
			if !strings.Contains("()<>,+-*/%!&|=;.?:[]{}~^", string(c)) {
				return nil, false
			}
			out = append(out, string(c))
			i++
		}
	}
	return out, true
}

type c14tNode struct {
	op   string // "num" "bool" "sizeof" "alignof" "offsetof" "stdlayout" "triv" or an operator
	text string // literal text / member name ("" = the record type itself)
	kids []*c14tNode
}

type c14tParser struct {
	toks []string
	pos  int
	bad  string
}

func (p *c14tParser) peek() string {
	if p.pos < len(p.toks) {
		return p.toks[p.pos]
	}
	return ""
}

func (p *c14tParser) next() string {
	t := p.peek()
	p.pos++
	return t
}

func (p *c14tParser) expect(t string) {
	if p.next() != t && p.bad == "" {
		p.bad = "expected " + t + " at token " + fmt.Sprint(p.pos-1)
	}
}

var c14tLevels = [][]string{{"||"}, {"&&"}, {"==", "!="}, {"<", "<=", ">", ">="}, {"+", "-"}, {"*", "/", "%"}}

func c14tIn(s string, set []string) bool {
	for _, x := range set {
		if x == s {
			return true
		}
	}
	return false
}

// binary: left-associative binary operators of C++ at precedence level lv and above.
func (p *c14tParser) binary(lv int) *c14tNode {
	if lv == len(c14tLevels) {
		return p.unary()
	}
	l := p.binary(lv + 1)
	for p.bad == "" && c14tIn(p.peek(), c14tLevels[lv]) {
		op := p.next()
		r := p.binary(lv + 1)
		l = &c14tNode{op: op, kids: []*c14tNode{l, r}}
	}
	return l
}

func (p *c14tParser) unary() *c14tNode {
	switch p.peek() {
	case "!":
		p.next()
		return &c14tNode{op: "!", kids: []*c14tNode{p.unary()}}
	case "(":
		p.next()
		n := p.binary(0)
		p.expect(")")
		return n
	}
	return p.primary()
}

// typeOperand: `__T__` (the record), `__T__::m` / `decltype(__T__::m)` (the type of member m). Returns the member ("" = record).
func (p *c14tParser) typeOperand() string {
	if p.peek() == "decltype" {
		p.next()
		p.expect("(")
		m := p.typeOperand()
		p.expect(")")
		if m == "" && p.bad == "" {
			p.bad = "decltype of the record type"
		}
		return m
	}
	p.expect("__T__")
	if p.peek() == "::" {
		p.next()
		m := p.next()
		if m == "" || !c14tIsIdentStart(m[0]) {
			p.bad = "member name expected"
		}
		return m
	}
	return ""
}

func (p *c14tParser) primary() *c14tNode {
	t := p.next()
	switch {
	case t == "":
		p.bad = "unexpected end"
		return &c14tNode{op: "?"}
	case c14tIsDigit(t[0]):
		return &c14tNode{op: "num", text: t}
	case t == "true" || t == "false":
		return &c14tNode{op: "bool", text: t}
	case t == "sizeof" || t == "alignof":
		p.expect("(")
		m := p.typeOperand()
		p.expect(")")
		return &c14tNode{op: t, text: m}
	case t == "offsetof":
		p.expect("(")
		if p.typeOperand() != "" {
			p.bad = "offsetof: first operand must be the record type"
		}
		p.expect(",")
		m := p.next()
		p.expect(")")
		return &c14tNode{op: "offsetof", text: m}
	case t == "std":
		p.expect("::")
		name := p.next()
		p.expect("<")
		m := p.typeOperand()
		p.expect(">")
		switch name {
		case "is_standard_layout_v":
			if m != "" {
				p.bad = "is_standard_layout_v of a member"
			}
			return &c14tNode{op: "stdlayout"}
		}
		p.bad = "unknown std trait " + name
		return &c14tNode{op: "?"}
	case t == "IsTriviallySerializable" || t == "yardl":
		if t == "yardl" {
			p.expect("::")
			p.expect("binary")
			p.expect("::")
			p.expect("IsTriviallySerializable")
		}
		p.expect("<")
		m := p.typeOperand()
		p.expect(">")
		p.expect("::")
		p.expect("value")
		if m == "" {
			p.bad = "IsTriviallySerializable of the record inside its own definition"
		}
		return &c14tNode{op: "triv", text: m}
	}
	if p.bad == "" {
		p.bad = "unexpected token " + t
	}
	return &c14tNode{op: "?"}
}

// ---- the symbolic layout --------------------------------------------------------------------------

type c14tLayout struct {
	members []string // C++ member names, indexed by the record's field index
	size    []uint64 // sizeof(member type)
	align   []uint64 // alignof(member type)
	off     []uint64 // offsetof(T, member)
	triv    []bool   // IsTriviallySerializable<member type>::value, i.e. (inductively) its memcpy image is its encoding
	sizeofT uint64
	alignT  uint64
	std     bool
	bad     string
}

func c14tRoundUp(x, a uint64) uint64 { return (x + a - 1) &^ (a - 1) }

// c14tSymbolicLayout: member k of the C++ struct (declaration position k) is the record's field order[k].
func c14tSymbolicLayout(members []string, order []int) *c14tLayout {
	n := len(members)
	l := &c14tLayout{members: members, size: make([]uint64, n), align: make([]uint64, n), off: make([]uint64, n), triv: make([]bool, n)}
	for i := 0; i < n; i++ {
		a := verifUint64(fmt.Sprintf("align%d", i))
		verifAssume(a != 0)
		verifAssume(a&(a-1) == 0)
		verifAssume(a <= 16)
		s := verifUint64(fmt.Sprintf("size%d", i))
		verifAssume(s != 0)
		verifAssume(s <= 64)
		verifAssume(s&(a-1) == 0) // sizeof is a multiple of alignof
		l.size[i], l.align[i] = s, a
		l.triv[i] = verifBool(fmt.Sprintf("trivial%d", i))
	}
	l.std = verifBool("standard-layout")
	end := uint64(0)
	for _, f := range order {
		l.off[f] = c14tRoundUp(end, l.align[f])
		end = l.off[f] + l.size[f]
	}
	// sizeof(T) = end rounded up to the largest member alignment (rounding up to each power of two in turn is the same)
	l.sizeofT = end
	for i := 0; i < n; i++ {
		l.sizeofT = c14tRoundUp(l.sizeofT, l.align[i])
	}
	return l
}

func (l *c14tLayout) member(name string) int {
	for i, m := range l.members {
		if m == name {
			return i
		}
	}
	if l.bad == "" {
		l.bad = "no such member: " + name
	}
	return 0
}

type c14tVal struct {
	isBool bool
	b      bool
	n      uint64
}

func (l *c14tLayout) num(e *c14tNode) uint64 {
	v := l.eval(e)
	if v.isBool {
		if v.b {
			return 1
		}
		return 0
	}
	return v.n
}

func (l *c14tLayout) truth(e *c14tNode) bool {
	v := l.eval(e)
	if v.isBool {
		return v.b
	}
	return v.n != 0
}

// eval: the C++ value of the expression (size_t arithmetic is modulo 2^64; && and || evaluate left to right).
func (l *c14tLayout) eval(e *c14tNode) c14tVal {
	switch e.op {
	case "num":
		digits := e.text
		for len(digits) > 1 && strings.Contains("uUlL", digits[len(digits)-1:]) {
			digits = digits[:len(digits)-1]
		}
		v, ok := verifAtoi(digits)
		if !ok && l.bad == "" {
			l.bad = "number " + e.text
		}
		return c14tVal{n: v}
	case "bool":
		return c14tVal{isBool: true, b: e.text == "true"}
	case "sizeof":
		if e.text == "" {
			return c14tVal{n: l.sizeofT}
		}
		return c14tVal{n: l.size[l.member(e.text)]}
	case "alignof":
		if e.text == "" {
			if l.bad == "" {
				l.bad = "alignof(record) not modelled"
			}
			return c14tVal{}
		}
		return c14tVal{n: l.align[l.member(e.text)]}
	case "offsetof":
		return c14tVal{n: l.off[l.member(e.text)]}
	case "stdlayout":
		return c14tVal{isBool: true, b: l.std}
	case "triv":
		return c14tVal{isBool: true, b: l.triv[l.member(e.text)]}
	case "!":
		return c14tVal{isBool: true, b: !l.truth(e.kids[0])}
	case "&&":
		return c14tVal{isBool: true, b: l.truth(e.kids[0]) && l.truth(e.kids[1])}
	case "||":
		return c14tVal{isBool: true, b: l.truth(e.kids[0]) || l.truth(e.kids[1])}
	}
	if len(e.kids) == 2 {
		a, b := l.num(e.kids[0]), l.num(e.kids[1])
		switch e.op {
		case "==":
			return c14tVal{isBool: true, b: a == b}
		case "!=":
			return c14tVal{isBool: true, b: a != b}
		case "<":
			return c14tVal{isBool: true, b: a < b}
		case "<=":
			return c14tVal{isBool: true, b: a <= b}
		case ">":
			return c14tVal{isBool: true, b: a > b}
		case ">=":
			return c14tVal{isBool: true, b: a >= b}
		case "+":
			return c14tVal{n: a + b}
		case "-":
			return c14tVal{n: a - b}
		case "*":
			return c14tVal{n: a * b}
		}
	}
	if l.bad == "" {
		l.bad = "operator " + e.op
	}
	return c14tVal{}
}

// ---- reading the emitted texts back ------------------------------------------------------------

type c14tSpec struct {
	tparams string // text between `template <` and `>`
	target  string // X of `struct IsTriviallySerializable<X>`
	alias   string // X of `using __T__ = X;`
	guard   string // the initializer of `static constexpr bool value`
	ok      bool
}

func c14tReadSpecialization(text string) c14tSpec {
	var s c14tSpec
	lines := strings.Split(text, "\n")
	i := 0
	skip := func() {
		for i < len(lines) && strings.TrimSpace(lines[i]) == "" {
			i++
		}
	}
	skip()
	if i >= len(lines) || !strings.HasPrefix(lines[i], "template <") || !strings.HasSuffix(lines[i], ">") {
		return s
	}
	s.tparams = lines[i][len("template <") : len(lines[i])-1]
	i++
	const head = "struct IsTriviallySerializable<"
	if i >= len(lines) || !strings.HasPrefix(lines[i], head) || !strings.HasSuffix(lines[i], "> {") {
		return s
	}
	s.target = lines[i][len(head) : len(lines[i])-3]
	i++
	l := strings.TrimSpace(lines[i])
	if !strings.HasPrefix(l, "using __T__ = ") || !strings.HasSuffix(l, ";") {
		return s
	}
	s.alias = l[len("using __T__ = ") : len(l)-1]
	i++
	l = strings.TrimSpace(lines[i])
	if l != "static constexpr bool value =" {
		return s
	}
	i++
	var g []string
	for ; i < len(lines); i++ {
		l = strings.TrimSpace(lines[i])
		if strings.HasSuffix(l, ";") {
			g = append(g, l[:len(l)-1])
			i++
			break
		}
		g = append(g, l)
	}
	s.guard = strings.Join(g, " ")
	skip()
	if i >= len(lines) || strings.TrimSpace(lines[i]) != "};" {
		return s
	}
	i++
	skip()
	s.ok = i == len(lines)
	return s
}

// c14tReadStruct: from the types.h text of a namespace, the data members (type text, name) of `struct <name>` in
// declaration order, and the template parameter list written before it.
func c14tReadStruct(text, name string) (tparams string, memberTypes, members []string, found bool) {
	lines := strings.Split(text, "\n")
	for i, l := range lines {
		if l != "struct "+name+" {" {
			continue
		}
		if i > 0 && strings.HasPrefix(lines[i-1], "template <") && strings.HasSuffix(lines[i-1], ">") {
			tparams = lines[i-1][len("template <") : len(lines[i-1])-1]
		}
		for _, m := range lines[i+1:] {
			if m == "};" {
				break
			}
			// data members are the two-space-indented `Type name{};` lines (methods have bodies / parentheses)
			if strings.HasPrefix(m, "  ") && !strings.HasPrefix(m, "   ") && strings.HasSuffix(m, "{};") {
				m = strings.TrimSuffix(strings.TrimSpace(m), "{};")
				k := strings.LastIndex(m, " ")
				if k < 0 {
					return
				}
				memberTypes = append(memberTypes, m[:k])
				members = append(members, m[k+1:])
			}
		}
		found = true
		return
	}
	return
}

var c14tPerms = map[int][][]int{
	1: {{0}},
	2: {{0, 1}, {1, 0}},
	3: {{0, 1, 2}, {0, 2, 1}, {1, 0, 2}, {1, 2, 0}, {2, 0, 1}, {2, 1, 0}},
}

func c14tPerm(n, k int) []int {
	if n <= 3 {
		return c14tPerms[n][k]
	}
	// n == 4: insert 3 at position k%4 of the (k/4)-th permutation of 0..2
	base := c14tPerms[3][k/4]
	at := k % 4
	var out []int
	for i := 0; i <= len(base); i++ {
		if i == at {
			out = append(out, 3)
		}
		if i < len(base) {
			out = append(out, base[i])
		}
	}
	return out
}

var c14tNameSets = [][]string{
	{"a", "b", "c", "d"},
	{"class", "myValue", "x2", "static"}, // reserved words / camelCase: the C++ member name differs from the yardl name
}

// C14TriviallySerializable: see the header comment.  maxFields = 3 (quick) / 4 (thorough).
func C14TriviallySerializable(maxFields int) {
	n := 1 + verifChoose("fields", maxFields)
	names := c14tNameSets[verifChoose("names", len(c14tNameSets))]
	generic := verifChoose("generic", 2) == 1
	prims := []string{"uint8", "float64", "float32", "complexfloat64"}
	b := &mb{file: "model.yml"}
	var fields []*dsl.Field
	for i := 0; i < n; i++ {
		var t dsl.Type = b.st(prims[i])
		if generic && i == 0 {
			t = b.st("T")
		}
		fields = append(fields, b.field(names[i], t))
	}
	var tparams []string
	if generic {
		tparams = []string{"T"}
	}
	defs := dsl.TypeDefinitions{b.record("Ns", "Rec", tparams, fields...)}
	ns := &dsl.Namespace{Name: "Ns", IsTopLevel: true, TypeDefinitions: defs}
	env, err := dsl.Validate([]*dsl.Namespace{ns})
	verifAssert("model-validates", err == nil)
	if err != nil {
		return
	}
	rec := env.Namespaces[0].TypeDefinitions[0].(*dsl.RecordDefinition)

	// the struct as types.h declares it
	structTparams, _, members, found := c14tReadStruct(cpptypes.VerifWriteNamespaceMembers(env.Namespaces[0]), cppcommon.TypeIdentifierName(rec.Name))
	verifAssert("struct-emitted-with-one-member-per-field", found && len(members) == n)
	if !found || len(members) != n {
		return
	}

	spec := c14tReadSpecialization(cppbinary.VerifWriteIsTriviallySerializableSpecialization(rec))
	verifOut("guard", spec.guard)
	verifAssert("specialization-has-the-known-form", spec.ok)
	if !spec.ok {
		return
	}
	// the specialization is for the record's own C++ type (namespace-qualified struct, its own template parameters)
	want := cppcommon.NamespaceIdentifierName(rec.Namespace) + "::" + cppcommon.TypeIdentifierName(rec.Name)
	if generic {
		var ps []string
		for _, p := range strings.Split(structTparams, ",") {
			ps = append(ps, strings.TrimPrefix(strings.TrimSpace(p), "typename "))
		}
		want += "<" + strings.Join(ps, ", ") + ">"
	}
	verifAssert("specialization-is-for-the-record-type", spec.target == want && spec.alias == want && spec.tparams == structTparams)

	toks, lexed := c14tLex(spec.guard)
	p := &c14tParser{toks: toks}
	var g *c14tNode
	if lexed {
		g = p.binary(0)
		if p.bad == "" && p.pos != len(toks) {
			p.bad = "trailing tokens from " + p.peek()
		}
	} else {
		p.bad = "lexical error"
	}
	verifOut("guard-parse", p.bad)
	verifAssert("guard-is-a-known-constant-expression", p.bad == "")
	if p.bad != "" {
		return
	}

	nperm := 1
	for i := 2; i <= n; i++ {
		nperm *= i
	}
	order := c14tPerm(n, verifChoose("member-order", nperm))
	l := c14tSymbolicLayout(members, order)
	memcpy := l.truth(g)
	verifOut("guard-eval", l.bad)
	verifAssert("guard-only-mentions-members-of-the-struct", l.bad == "")
	if l.bad != "" {
		return
	}
	if !memcpy {
		// field-by-field path: always the plan's encoding; nothing is required of a conservative guard
		verifReach("c14t-field-by-field")
		return
	}
	verifAssert("memcpy-only-if-standard-layout", l.std)
	sum := uint64(0)
	for i := 0; i < n; i++ {
		verifAssert("memcpy-only-if-every-field-trivially-serializable", l.triv[i])
		sum += l.size[i]
		if i > 0 {
			verifAssert("memcpy-only-if-members-in-field-order", l.off[i-1] < l.off[i])
		}
	}
	verifAssert("memcpy-only-if-no-padding", l.sizeofT == sum)
	verifAssert("memcpy-only-if-first-field-at-offset-0", l.off[0] == 0)
	verifReach("c14t-memcpy")
}
