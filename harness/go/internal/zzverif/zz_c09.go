package zzverif

import (
	"math/big"
	"strings"

	"github.com/microsoft/yardl/tooling/pkg/dsl"
)

// ---- type-level rule violations --------------------------------------------------------------

const (
	rUnknownType = iota
	rArityTooFew
	rArityTooMany
	rArgsOnNonGeneric
	rArgsOnPrimitive
	rEmptyUnion
	rOnlyNullUnion
	rNullNotFirst
	rNestedUnion
	rDuplicateCase
	rStreamMisplaced
	rNonPrimitiveMapKey
	rMixedArrayDims
	rDuplicateDimNames
	rProtocolReference
	rBadDimName
	nTypeRules
)

var typeRuleNames = []string{"unknown-type", "generic-arity-too-few", "generic-arity-too-many", "type-args-on-non-generic", "type-args-on-primitive",
	"empty-union", "only-null-union", "null-not-first", "nested-union", "duplicate-union-case", "stream-outside-step", "non-primitive-map-key",
	"mixed-array-dimension-lengths", "duplicate-dimension-name", "reference-to-protocol", "bad-dimension-name"}

func badType(b *mb, rule int) dsl.Type {
	switch rule {
	case rUnknownType:
		return b.st(verifOneOf("unknown-name", "Nope", "int33", "Pointt"))
	case rArityTooFew:
		return b.st("Pair", b.st("int"))
	case rArityTooMany:
		return b.st("Pair", b.st("int"), b.st("int"), b.st("int"))
	case rArgsOnNonGeneric:
		return b.st(verifOneOf("nongeneric", "Point", "Color", "Points"), b.st("int"))
	case rArgsOnPrimitive:
		return b.st(verifOneOf("prim", "string", "int", "float64"), b.st("int"))
	case rEmptyUnion:
		return b.gt(nil)
	case rOnlyNullUnion:
		return b.gt(nil, nil)
	case rNullNotFirst:
		return b.gt(nil, b.st("int"), nil)
	case rNestedUnion:
		return b.gt(nil, b.gt(nil, b.st("int"), b.st("string")), b.st("float"))
	case rDuplicateCase:
		return b.gt(nil, b.st("int"), b.st(verifOneOf("dup", "int", "int32")))
	case rStreamMisplaced:
		return b.strm(b.st("int"))
	case rNonPrimitiveMapKey:
		return b.mapOf(b.st(verifOneOf("keytype", "Point", "Color", "Points")), b.st("int"))
	case rMixedArrayDims:
		two := uint64(2)
		dims := dsl.ArrayDimensions{&dsl.ArrayDimension{NodeMeta: b.meta(), Length: &two}, &dsl.ArrayDimension{NodeMeta: b.meta()}}
		return b.gt(&dsl.Array{NodeMeta: b.meta(), Dimensions: &dims}, b.st("int"))
	case rDuplicateDimNames:
		x := "x"
		dims := dsl.ArrayDimensions{&dsl.ArrayDimension{NodeMeta: b.meta(), Name: &x}, &dsl.ArrayDimension{NodeMeta: b.meta(), Name: &x}}
		return b.gt(&dsl.Array{NodeMeta: b.meta(), Dimensions: &dims}, b.st("int"))
	case rProtocolReference:
		return b.st("Proto")
	default:
		x := verifOneOf("dimname", "X", "my_dim", "9a")
		dims := dsl.ArrayDimensions{&dsl.ArrayDimension{NodeMeta: b.meta(), Name: &x}}
		return b.gt(&dsl.Array{NodeMeta: b.meta(), Dimensions: &dims}, b.st("int"))
	}
}

const (
	pRecordField = iota
	pAlias
	pProtocolStep
	pVectorItem
	pOptionalInner
	pUnionCase
	pMapValue
	pGenericArgument
	pStreamItem
	pFixedVectorInAliasOfAlias
	nPositions
)

var positionNames = []string{"record-field", "alias", "protocol-step", "vector-item", "optional-inner", "union-case", "map-value", "generic-argument", "stream-item", "alias-chain"}

// place puts the type t at a position inside namespace n (definitions are created with builder b).
func place(b *mb, n *dsl.Namespace, pos int, t dsl.Type) {
	ns := n.Name
	switch pos {
	case pRecordField:
		n.TypeDefinitions = append(n.TypeDefinitions, b.record(ns, "Holder", nil, b.field("held", t)))
	case pAlias:
		n.TypeDefinitions = append(n.TypeDefinitions, b.alias(ns, "Held", nil, t))
	case pProtocolStep:
		n.Protocols = append(n.Protocols, b.protocol(ns, "Carrier", b.step("held", t)))
	case pVectorItem:
		n.TypeDefinitions = append(n.TypeDefinitions, b.record(ns, "Holder", nil, b.field("held", b.vec(t))))
	case pOptionalInner:
		n.TypeDefinitions = append(n.TypeDefinitions, b.record(ns, "Holder", nil, b.field("held", b.opt(t))))
	case pUnionCase:
		n.TypeDefinitions = append(n.TypeDefinitions, b.alias(ns, "Held", nil, b.gt(nil, b.st("string"), t)))
	case pMapValue:
		n.TypeDefinitions = append(n.TypeDefinitions, b.record(ns, "Holder", nil, b.field("held", b.mapOf(b.st("string"), t))))
	case pGenericArgument:
		n.TypeDefinitions = append(n.TypeDefinitions, b.alias(ns, "Held", nil, b.st("Pair", b.st("int"), t)))
	case pStreamItem:
		n.Protocols = append(n.Protocols, b.protocol(ns, "Carrier", b.step("first", b.st("int")), b.step("held", b.strm(t))))
	default:
		n.TypeDefinitions = append(n.TypeDefinitions, b.alias(ns, "Inner", nil, b.fvec(t, 3)), b.alias(ns, "Outer", nil, b.st("Inner")))
	}
}

func errText(err error) string {
	if err == nil {
		return ""
	}
	return err.Error()
}

// C09TypeRule: one type-level rule violation at one position, in the main namespace or in an
// imported one, makes validation fail with an error that names the offending file.
func C09TypeRule() {
	rule := verifChoose("rule", nTypeRules)
	pos := verifChoose("position", nPositions)
	inImport := verifChoose("in-imported-namespace", 2) == 1
	verifOut("rule", typeRuleNames[rule])
	verifOut("position", positionNames[pos])
	bDep := &mb{file: "dep/dep.yml"}
	bMain := &mb{file: "main/model.yml"}
	dep := baseModel(bDep, "Dep")
	dep.IsTopLevel = false
	dep.Protocols = nil
	// the imported namespace defines Proto as well so that rule reference-to-protocol is meaningful there
	dep.Protocols = []*dsl.ProtocolDefinition{bDep.protocol("Dep", "Proto", bDep.step("s", bDep.st("int")))}
	main := baseModel(bMain, "Main")
	main.References = []*dsl.Namespace{dep}
	target, tb, file := main, bMain, "main/model.yml"
	if inImport {
		target, tb, file = dep, bDep, "dep/dep.yml"
	}
	place(tb, target, pos, badType(tb, rule))
	var err error
	msg, panicked := verifPanics(func() { _, err = dsl.Validate([]*dsl.Namespace{dep, main}) })
	verifOut("panic", msg)
	verifAssert("no-panic", !panicked)
	legal := rule == rStreamMisplaced && pos == pProtocolStep
	if legal {
		verifAssert("stream-step-accepted", err == nil)
	} else {
		verifOut("err", errText(err))
		verifAssert("violation-rejected", err != nil)
		verifAssert("error-names-offending-file", err == nil || strings.Contains(errText(err), file+":"))
	}
	verifReach("c09-type-rule-end")
}

// ---- definition-level rule violations ---------------------------------------------------------

var defRuleNames = []string{"duplicate-type-name", "bad-type-name-casing", "bad-field-name-casing", "duplicate-field-name", "bad-step-name-casing",
	"duplicate-step-name", "bad-enum-symbol-casing", "duplicate-enum-symbol", "duplicate-enum-value", "enum-value-out-of-range", "non-integer-enum-base",
	"generic-enum", "generic-protocol", "unused-type-parameter", "reference-cycle-records", "reference-cycle-aliases", "self-reference", "reserved-type-name",
	"bad-type-parameter-casing", "duplicate-computed-field-name", "flags-value-out-of-range", "reference-cycle-plain-aliases"}

func violateDef(b *mb, n *dsl.Namespace, rule int) {
	ns := n.Name
	add := func(td dsl.TypeDefinition) { n.TypeDefinitions = append(n.TypeDefinitions, td) }
	switch rule {
	case 0:
		add(b.record(ns, "Point", nil, b.field("z", b.st("int"))))
	case 1:
		add(b.record(ns, verifOneOf("badtypename", "point", "Po_int", "9Point"), nil, b.field("z", b.st("int"))))
	case 2:
		add(b.record(ns, "Holder", nil, b.field(verifOneOf("badfield", "Zed", "my_field", "9z"), b.st("int"))))
	case 3:
		add(b.record(ns, "Holder", nil, b.field("z", b.st("int")), b.field("z", b.st("string"))))
	case 4:
		n.Protocols = append(n.Protocols, b.protocol(ns, "Carrier", b.step(verifOneOf("badstep", "Step", "my_step"), b.st("int"))))
	case 5:
		n.Protocols = append(n.Protocols, b.protocol(ns, "Carrier", b.step("s", b.st("int")), b.step("s", b.st("string"))))
	case 6:
		add(b.enum(ns, "Fruit", nil, "apple", verifOneOf("badsym", "Pear", "my_pear")))
	case 7:
		add(b.enum(ns, "Fruit", nil, "apple", "apple"))
	case 8:
		e := b.enum(ns, "Fruit", nil, "apple", "pear")
		e.Values[1].IntegerValue = *big.NewInt(0)
		add(e)
	case 9:
		base := verifOneOf("ebase", "int8", "uint8", "int16", "uint16", "int32", "uint32")
		e := b.enum(ns, "Fruit", b.st(base), "apple", "pear")
		limits := map[string]int64{"int8": 128, "uint8": 256, "int16": 32768, "uint16": 65536, "int32": 2147483648, "uint32": 4294967296}
		v := limits[base]
		if verifChoose("below", 2) == 1 {
			v = -1
			if strings.HasPrefix(base, "int") {
				v = -limits[base] - 1
			}
		}
		e.Values[1].IntegerValue = *big.NewInt(v)
		add(e)
	case 10:
		add(b.enum(ns, "Fruit", b.st(verifOneOf("nonint", "float", "string", "bool", "Point")), "apple", "pear"))
	case 11:
		e := b.enum(ns, "Fruit", nil, "apple", "pear")
		e.TypeParameters = []*dsl.GenericTypeParameter{{NodeMeta: b.meta(), Name: "T"}}
		add(e)
	case 12:
		p := b.protocol(ns, "Carrier", b.step("s", b.st("int")))
		p.TypeParameters = []*dsl.GenericTypeParameter{{NodeMeta: b.meta(), Name: "T"}}
		n.Protocols = append(n.Protocols, p)
	case 13:
		add(b.record(ns, "Holder", []string{"T", "U"}, b.field("z", b.st("T"))))
	case 14:
		add(b.record(ns, "Aa", nil, b.field("b", b.st("Bb"))))
		add(b.record(ns, "Bb", nil, b.field("a", b.opt(b.st("Aa")))))
	case 15:
		add(b.alias(ns, "Aa", nil, b.vec(b.st("Bb"))))
		add(b.alias(ns, "Bb", nil, b.st("Cc")))
		add(b.alias(ns, "Cc", nil, b.opt(b.st("Aa"))))
	case 16:
		add(b.record(ns, "Selfish", nil, b.field("me", b.vec(b.st("Selfish")))))
	case 17:
		add(b.record(ns, verifOneOf("reserved", "int", "string", "complexfloat", "size"), nil, b.field("z", b.st("int"))))
	case 18:
		add(b.record(ns, "Holder", []string{verifOneOf("badtp", "t", "my_T")}, b.field("z", b.st("int"))))
	case 19:
		r := b.record(ns, "Holder", nil, b.field("z", b.st("int")))
		lit := &dsl.IntegerLiteralExpression{NodeMeta: b.meta()}
		lit.Value = *big.NewInt(1)
		r.ComputedFields = dsl.ComputedFields{&dsl.ComputedField{NodeMeta: b.meta(), Name: "z", Expression: lit}}
		add(r)
	case 21:
		// aliases that are plain names of each other (no vector / optional in between), or of themselves
		if verifChoose("plain-alias-cycle-length", 2) == 0 {
			add(b.alias(ns, "Xa", nil, b.st("Xa")))
		} else {
			add(b.alias(ns, "Xa", nil, b.st("Xb")))
			add(b.alias(ns, "Xb", nil, b.st("Xa")))
		}
	default:
		e := b.enum(ns, "Opts", b.st("uint8"), "a", "b")
		e.IsFlags = true
		e.Values[1].IntegerValue = *big.NewInt(256)
		add(e)
	}
}

func C09DefRule() {
	rule := verifChoose("rule", len(defRuleNames))
	inImport := verifChoose("in-imported-namespace", 2) == 1
	verifOut("rule", defRuleNames[rule])
	bDep := &mb{file: "dep/dep.yml"}
	bMain := &mb{file: "main/model.yml"}
	dep := baseModel(bDep, "Dep")
	dep.IsTopLevel = false
	main := baseModel(bMain, "Main")
	main.References = []*dsl.Namespace{dep}
	target, tb, file := main, bMain, "main/model.yml"
	if inImport {
		target, tb, file = dep, bDep, "dep/dep.yml"
	}
	violateDef(tb, target, rule)
	var err error
	msg, panicked := verifPanics(func() { _, err = dsl.Validate([]*dsl.Namespace{dep, main}) })
	verifOut("panic", msg)
	verifAssert("no-panic", !panicked)
	verifOut("err", errText(err))
	verifAssert("violation-rejected", err != nil)
	verifAssert("error-names-offending-file", err == nil || strings.Contains(errText(err), file+":"))
	verifReach("c09-def-rule-end")
}

// C09Base: the unmodified base models are accepted (guards the harness against over-rejection).
func C09Base() {
	bDep := &mb{file: "dep/dep.yml"}
	bMain := &mb{file: "main/model.yml"}
	dep := baseModel(bDep, "Dep")
	dep.IsTopLevel = false
	main := baseModel(bMain, "Main")
	main.References = []*dsl.Namespace{dep}
	main.TypeDefinitions = append(main.TypeDefinitions, bMain.alias("Main", "Remote", nil, bMain.vec(bMain.st("Dep.Point"))))
	_, err := dsl.Validate([]*dsl.Namespace{dep, main})
	verifOut("err", errText(err))
	verifAssert("base-accepted", err == nil)
}
