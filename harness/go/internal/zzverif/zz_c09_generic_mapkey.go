package zzverif

// C09: a rule about a POSITION holds for whatever a generic instantiation puts into that position.
//
// "map key type must be a primitive scalar type" (validateMaps).  The key position of a generic map alias
// Lib.Dict<K, V> = K->V is filled by a type argument: directly (Lib.Dict<X, int>), through a local generic alias of the
// imported one (LocalDict<X> = Lib.Dict<X, string>), nested in another generic (Lib.Box<Lib.Dict<X, int>>) or as the key of a
// generic record's map field (Lib.Index<X>: {byKey: X->string}).  X ranges over a primitive, an alias of a primitive, a
// record, an enum, an alias of a vector and an imported record.  Metamorphic oracle: the verdict of the real dsl.Validate on
// the map WRITTEN OUT (X->int in the same position) - the instantiated form must get the same verdict, and when it is
// rejected the error must name the file in which the instantiation is written.

import (
	"strings"

	"github.com/microsoft/yardl/tooling/pkg/dsl"
)

var c09mkArgs = []string{"string", "int", "Name", "Point", "Color", "Points", "Lib.Leaf"}
var c09mkCarriers = []string{"Lib.Dict<X,int>", "LocalDict<X>", "Lib.Box<Lib.Dict<X,int>>", "Lib.Index<X>", "X->int (written out)"}

func c09mkBuild(carrier int, arg string, inImport bool, where int) (nss []*dsl.Namespace, file string) {
	lib, dep, main, bDep, bMain := threeNamespaces()
	bl := &mb{file: "lib/lib.yml"}
	lib.TypeDefinitions = append(lib.TypeDefinitions,
		bl.alias("Lib", "Dict", []string{"K", "V"}, bl.mapOf(bl.st("K"), bl.st("V"))),
		bl.record("Lib", "Index", []string{"K"}, bl.field("byKey", bl.mapOf(bl.st("K"), bl.st("string"))), bl.field("n", bl.st("int"))),
		bl.record("Lib", "Leaf", nil, bl.field("v", bl.st("int"))))
	n, b := main, bMain
	file = "main/model.yml"
	if inImport {
		n, b, file = dep, bDep, "dep/dep.yml"
	}
	n.TypeDefinitions = append(n.TypeDefinitions, b.alias(n.Name, "Name", nil, b.st("string")))
	x := func() dsl.Type { return b.st(arg) }
	var t dsl.Type
	switch carrier {
	case 0:
		t = b.st("Lib.Dict", x(), b.st("int"))
	case 1:
		n.TypeDefinitions = append(n.TypeDefinitions, b.alias(n.Name, "LocalDict", []string{"T"}, b.st("Lib.Dict", b.st("T"), b.st("string"))))
		t = b.st("LocalDict", x())
	case 2:
		t = b.st("Lib.Box", b.st("Lib.Dict", x(), b.st("int")))
	case 3:
		t = b.st("Lib.Index", x())
	default:
		t = b.mapOf(x(), b.st("int"))
	}
	switch where {
	case 0:
		place(b, n, pRecordField, t)
	case 1:
		place(b, n, pAlias, t)
	default:
		place(b, n, pProtocolStep, t)
	}
	return []*dsl.Namespace{lib, dep, main}, file
}

// C09GenericMapKey()
func C09GenericMapKey() {
	carrier := verifChoose("carrier", len(c09mkCarriers)-1)
	arg := c09mkArgs[verifChoose("key-argument", len(c09mkArgs))]
	inImport := verifChoose("in-imported-namespace", 2) == 1
	where := verifChoose("where", 3)
	verifOut("carrier", c09mkCarriers[carrier])
	verifOut("key-argument", arg)
	ref, _ := c09mkBuild(len(c09mkCarriers)-1, arg, inImport, where)
	_, refErr := dsl.Validate(ref)
	nss, file := c09mkBuild(carrier, arg, inImport, where)
	var err error
	msg, panicked := verifPanics(func() { _, err = dsl.Validate(nss) })
	verifOut("panic", msg)
	verifAssert("no-panic", !panicked)
	if panicked {
		return
	}
	verifOut("written-out-verdict", errText(refErr))
	verifOut("err", errText(err))
	verifAssert("instantiated-key-position-has-the-verdict-of-the-map-written-out", (err == nil) == (refErr == nil))
	if err != nil && refErr != nil {
		verifAssert("error-names-the-file-of-the-instantiation", strings.Contains(errText(err), file+":"))
	}
	verifReach("c09-generic-map-key-end")
}
