package zzverif

// C08 ("generated Python modules compile and import"), class-name side.
//
// C08PythonNames: the complete real Python generator on the shared package family of zz_c08_cpppackage.go (one
// namespace | Top -> Base | Top -> Mid -> Base; with / without protocols; definition kinds incl. the closed alias of a
// generic with two union arguments) extended, under the unions feature, by a named union one of whose cases is a vector
// of an anonymous union, and a record with a field of that named union.  The emitted Python is read back per package:
//   - types.py is executed top to bottom as a list of bindings: `class NAME` (re)binds NAME to a fresh class,
//     `NAME.Tag = type(...)` gives the class currently bound to NAME the attribute Tag, an indented `MEMBER = value`
//     gives the enclosing (enum) class the attribute MEMBER, `NAME = <expr>` at column 0 binds an alias / type variable;
//   - no class is defined twice in one module (the second definition would replace the first one together with its tags);
//   - every class name used where the module is evaluated at import time - default values and annotations of record
//     constructors, right-hand sides of alias statements, dtype registrations - resolves to a binding of the module it
//     comes from (`ns.Name` in the types module of package ns), and every `X.Tag` names an attribute the class bound
//     to X has;
//   - every `_binary.UnionSerializer(C, [(C.Tag, ...), ...])` / `_ndjson.UnionConverter(C, [(C.Tag, ...), ...])` in
//     binary.py / ndjson.py is built for a class C that resolves (aliases followed) to a class defined once, and every
//     option names a tag of that same class;
//   - every name a module imports from its sibling types module (`from .types import (...)` in __init__.py,
//     protocols.py, binary.py, ndjson.py) is bound there.

import (
	"strings"

	python "github.com/microsoft/yardl/tooling/internal/python"
	"github.com/microsoft/yardl/tooling/pkg/dsl"
	"github.com/microsoft/yardl/tooling/pkg/packaging"
)

// c08pnModule: the bindings of one types.py after it has run.
type c08pnModule struct {
	file    string
	classes map[string]int             // class statements per name
	attrs   map[string]map[string]bool // attributes of the class currently bound to the name
	alias   map[string]string          // NAME = Other (a bare name); "" for any other right-hand side
	bound   map[string]bool            // every top-level binding (class, alias, type variable, def, import)
	order   []string                   // class names in order of first definition
	checked []string                   // lines evaluated at import time
}

func c08pnIdent(s string) bool {
	if s == "" {
		return false
	}
	for i := 0; i < len(s); i++ {
		c := s[i]
		if !(c == '_' || (c >= 'a' && c <= 'z') || (c >= 'A' && c <= 'Z') || (i > 0 && c >= '0' && c <= '9')) {
			return false
		}
	}
	return true
}

func c08pnReadTypes(file, text string) *c08pnModule {
	m := &c08pnModule{file: file, classes: map[string]int{}, attrs: map[string]map[string]bool{}, alias: map[string]string{}, bound: map[string]bool{}}
	cur := ""
	inInit := false
	for _, line := range strings.Split(text, "\n") {
		trimmed := strings.TrimSpace(line)
		if trimmed == "" {
			continue
		}
		indent := 0
		for indent < len(line) && line[indent] == ' ' {
			indent++
		}
		if indent == 0 {
			cur = ""
			inInit = false
			switch {
			case strings.HasPrefix(line, "class "):
				name := line[len("class "):]
				if i := strings.Index(name, "("); i >= 0 {
					name = name[:i]
				}
				if i := strings.Index(name, ":"); i >= 0 {
					name = name[:i]
				}
				name = strings.TrimSpace(name)
				if m.classes[name] == 0 {
					m.order = append(m.order, name)
				}
				m.classes[name]++
				m.attrs[name] = map[string]bool{} // a fresh class object: earlier tags are gone
				delete(m.alias, name)
				m.bound[name] = true
				cur = name
			case strings.HasPrefix(line, "def "):
				name := line[len("def "):]
				if i := strings.Index(name, "("); i >= 0 {
					name = name[:i]
				}
				m.bound[name] = true
			case strings.HasPrefix(line, "from ") || strings.HasPrefix(line, "import "):
				toks := verifTokens(line)
				m.bound[toks[len(toks)-1]] = true
			default:
				eq := strings.Index(line, " = ")
				if eq < 0 {
					continue
				}
				lhs, rhs := line[:eq], strings.TrimSpace(line[eq+3:])
				if dot := strings.Index(lhs, "."); dot >= 0 && c08pnIdent(lhs[:dot]) && c08pnIdent(lhs[dot+1:]) {
					// NAME.Tag = type("NAME.Tag", (NAMEUnionCase,), {...})
					if a, ok := m.attrs[lhs[:dot]]; ok {
						a[lhs[dot+1:]] = true
					} else {
						verifOut("attribute-set-on-unbound-name", file+": "+line)
						verifAssert("python-name-resolves", false)
					}
					continue
				}
				if !c08pnIdent(lhs) {
					continue
				}
				m.bound[lhs] = true
				if c08pnIdent(rhs) {
					m.alias[lhs] = rhs
				} else {
					m.alias[lhs] = ""
				}
				if m.classes[lhs] > 0 {
					// the class is no longer reachable under this name
					delete(m.attrs, lhs)
				}
				if !strings.HasPrefix(rhs, "typing.TypeVar(") && !strings.HasPrefix(rhs, "_mk_get_dtype(") {
					m.checked = append(m.checked, rhs)
				}
			}
			continue
		}
		if cur != "" && indent == 4 {
			inInit = strings.HasPrefix(trimmed, "def __init__(")
			if eq := strings.Index(trimmed, " = "); eq > 0 && c08pnIdent(trimmed[:eq]) {
				m.attrs[cur][trimmed[:eq]] = true // enum member
			}
			continue
		}
		if cur != "" && inInit && indent == 8 {
			if trimmed == "):" || strings.HasPrefix(trimmed, "self.") {
				inInit = false
				continue
			}
			m.checked = append(m.checked, trimmed) // `field: Type = Default,` of a constructor signature
			continue
		}
		if strings.HasPrefix(trimmed, "dtype_map.setdefault(") {
			body := trimmed[len("dtype_map.setdefault("):]
			if i := strings.Index(body, "lambda "); i >= 0 {
				body = body[:i] // a lambda body runs later
			}
			m.checked = append(m.checked, body)
		}
	}
	return m
}

// resolve: does the dotted chain denote something the module binds (and, for Class.Attr, an attribute the class has)?
func (m *c08pnModule) resolve(chain []string) (ok bool, why string) {
	name := chain[0]
	for hops := 0; hops < 8; hops++ {
		t, isAlias := m.alias[name]
		if !isAlias || t == "" {
			break
		}
		name = t
	}
	if !m.bound[name] {
		return false, "unbound name " + name
	}
	if len(chain) == 1 {
		return true, ""
	}
	a, isClass := m.attrs[name]
	if !isClass {
		return false, name + " is not a class"
	}
	if !a[chain[1]] {
		return false, "class " + name + " has no attribute " + chain[1]
	}
	return true, ""
}

type c08pnPackages struct {
	byId map[string]*c08pnModule
	ids  []string
}

// resolveIn: resolve a chain as seen from package `from` (a leading namespace identifier selects another package).
func (p *c08pnPackages) resolveIn(from string, chain []string) (bool, string) {
	if other, ok := p.byId[chain[0]]; ok && len(chain) > 1 {
		return other.resolve(chain[1:])
	}
	return p.byId[from].resolve(chain)
}

// isClassRef: does the token look like a use of a generated class (PascalCase head or a namespace identifier head)?
func (p *c08pnPackages) isClassRef(tok string) ([]string, bool) {
	tok = strings.TrimSuffix(tok, ":")
	chain := strings.Split(tok, ".")
	for _, c := range chain {
		if !c08pnIdent(c) {
			return nil, false
		}
	}
	head := chain[0]
	if _, ok := p.byId[head]; ok && len(chain) > 1 {
		return chain, true
	}
	if head[0] < 'A' || head[0] > 'Z' {
		return nil, false
	}
	switch head {
	case "None", "True", "False":
		return nil, false
	}
	return chain, true
}

func (p *c08pnPackages) checkExpr(from, file, text string) int {
	n := 0
	for _, tok := range verifTokens(text) {
		if strings.Contains(tok, "\"") || strings.Contains(tok, "'") {
			continue
		}
		chain, ok := p.isClassRef(tok)
		if !ok {
			continue
		}
		n++
		ok, why := p.resolveIn(from, chain)
		if !ok {
			verifOut("unresolved-name", file+": "+tok+" ("+why+") in `"+text+"`")
		}
		verifAssert("python-name-resolves", ok)
	}
	return n
}

// checkUnionSerializers reads every UnionSerializer / UnionConverter expression of a binary.py / ndjson.py.
func (p *c08pnPackages) checkUnionSerializers(from, file, text string) int {
	n := 0
	toks := verifTokens(text)
	for i, t := range toks {
		if !(strings.HasSuffix(t, ".UnionSerializer") || strings.HasSuffix(t, ".UnionConverter")) {
			continue
		}
		if i+5 >= len(toks) || toks[i+1] != "(" || toks[i+3] != "," || toks[i+4] != "[" {
			verifOut("union-serializer-not-understood", file+": "+t)
			verifAssert("union-serializer-understood", false)
			continue
		}
		n++
		cls := toks[i+2]
		chain := strings.Split(cls, ".")
		ok, why := p.resolveIn(from, chain)
		if !ok {
			verifOut("unresolved-union-class", file+": "+cls+" ("+why+")")
		}
		verifAssert("union-serializer-class-resolves", ok)
		depth := 1
		for j := i + 5; j < len(toks) && depth > 0; j++ {
			switch toks[j] {
			case "(", "[", "{":
				if depth == 1 && toks[j] == "(" && j+1 < len(toks) {
					opt := toks[j+1]
					good := strings.HasPrefix(opt, cls+".") && c08pnIdent(opt[len(cls)+1:])
					why := "option does not name a tag of " + cls
					if good {
						good, why = p.resolveIn(from, append(append([]string{}, chain...), opt[len(cls)+1:]))
					}
					if !good {
						verifOut("unresolved-union-tag", file+": "+opt+" ("+why+")")
					}
					verifAssert("union-option-names-a-tag-of-its-class", good)
				}
				depth++
			case ")", "]", "}":
				depth--
			}
		}
	}
	return n
}

// c08pnImportedFromTypes: names of `from .types import (...)` / `from .types import a, b`.
func c08pnImportedFromTypes(text string) []string {
	var out []string
	lines := strings.Split(text, "\n")
	for i := 0; i < len(lines); i++ {
		l := strings.TrimSpace(lines[i])
		if !strings.HasPrefix(l, "from .types import ") {
			continue
		}
		rest := strings.TrimSpace(strings.TrimPrefix(l, "from .types import "))
		if rest == "*" {
			continue
		}
		if rest == "(" {
			for i++; i < len(lines) && strings.TrimSpace(lines[i]) != ")"; i++ {
				if nm := strings.TrimSuffix(strings.TrimSpace(lines[i]), ","); nm != "" {
					out = append(out, nm)
				}
			}
			continue
		}
		for _, nm := range strings.Split(rest, ",") {
			if nm = strings.TrimSpace(nm); nm != "" {
				out = append(out, nm)
			}
		}
	}
	return out
}

// c08pnExtend: under the unions feature every namespace also has a named union with a case that is a vector of an
// anonymous union, a named vector of a union, and a record with fields of both.
func c08pnExtend(n *dsl.Namespace, file string) {
	b := &mb{file: file}
	u := b.gt(nil, b.st("int"), b.vec(b.gt(nil, b.st("float"), b.st("string"))))
	u.Cases[0].Tag, u.Cases[0].ExplicitTag = "i", true
	u.Cases[1].Tag, u.Cases[1].ExplicitTag = "fs", true
	items := b.gt(&dsl.Vector{NodeMeta: b.meta()}, b.st("int"), b.st("bool"))
	n.TypeDefinitions = append(n.TypeDefinitions,
		b.alias(n.Name, "Tagged", nil, u),
		b.alias(n.Name, "Items", nil, items),
		b.record(n.Name, "Holder", nil, b.field("u", b.st("Tagged")), b.field("items", b.st("Items"))))
	for _, p := range n.Protocols {
		if p.Name == "Flow" {
			p.Sequence = append(p.Sequence, b.step("holder", b.st("Holder")), b.step("taggeds", b.strm(b.st("Tagged"))))
		}
	}
}

func C08PythonNames(level int) {
	verifUseRepl("CopyEmbeddedStaticFiles")
	all, _, _, feat := c08cpFamily(level)
	if feat&c08cpUnions != 0 {
		for _, n := range all {
			c08pnExtend(n, strings.ToLower(n.Name)+"/extra.yml")
		}
	}
	ndjson := verifBool("generate-ndjson")
	env, err := dsl.Validate(all)
	verifAssert("model-validates", err == nil)
	if err != nil {
		verifOut("err", err.Error())
		return
	}
	opts := packaging.PythonCodegenOptions{OutputDir: verifPath(c08Out), GenerateNDJson: ndjson}
	var gerr error
	msg, panicked := verifPanics(func() { gerr = python.VerifGenerate(env, opts) })
	verifOut("panic", msg)
	verifAssert("generation-does-not-panic", !panicked)
	verifAssert("generation-succeeds", gerr == nil)
	if panicked || gerr != nil {
		return
	}

	pk := &c08pnPackages{byId: map[string]*c08pnModule{}}
	texts := map[string]string{}
	var files []string
	for _, f := range verifFsList() {
		if strings.HasPrefix(f, c08Out+"/") && strings.HasSuffix(f, ".py") {
			files = append(files, f)
			text, _ := verifFsGet(f)
			texts[f] = text
			if strings.HasSuffix(f, "/types.py") {
				d := c08Dir(f)
				id := d[strings.LastIndex(d, "/")+1:]
				pk.byId[id] = c08pnReadTypes(f, text)
				pk.ids = append(pk.ids, id)
			}
		}
	}
	verifAssert("one-types-module-per-namespace", len(pk.ids) == len(all))

	nclasses, nuses, nser, nimp := 0, 0, 0, 0
	for _, id := range pk.ids {
		m := pk.byId[id]
		for _, name := range m.order {
			cnt := m.classes[name]
			nclasses++
			if cnt != 1 {
				verifOut("class-defined-more-than-once", m.file+": class "+name)
			}
			verifAssert("class-defined-once-per-module", cnt == 1)
		}
		for _, expr := range m.checked {
			nuses += pk.checkExpr(id, m.file, expr)
		}
	}
	for _, f := range files {
		d := c08Dir(f)
		id := d[strings.LastIndex(d, "/")+1:]
		m, ok := pk.byId[id]
		if !ok {
			continue
		}
		bn := f[strings.LastIndex(f, "/")+1:]
		if bn == "binary.py" || bn == "ndjson.py" {
			nser += pk.checkUnionSerializers(id, f, texts[f])
		}
		if bn == "types.py" || strings.HasPrefix(bn, "_") && bn != "__init__.py" || bn == "yardl_types.py" {
			continue
		}
		for _, nm := range c08pnImportedFromTypes(texts[f]) {
			nimp++
			if !m.bound[nm] {
				verifOut("imported-name-not-defined", f+": from .types import "+nm)
			}
			verifAssert("name-imported-from-types-is-defined-there", m.bound[nm])
		}
	}
	verifOut("classes", nclasses)
	verifOut("class-uses", nuses)
	verifOut("union-serializers", nser)
	verifOut("imported-names", nimp)
	verifReach("c08-python-names-end")
}
