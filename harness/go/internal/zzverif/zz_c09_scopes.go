package zzverif

// C09, scoping of type-parameter names: a type parameter is visible inside the definition that declares it
// and nowhere else.  A reference whose name is not a definition, a primitive or a type parameter IN SCOPE
// at that position is an unknown type, whatever other definitions (earlier, later, in an imported
// namespace) happen to use the same spelling for one of their own parameters.

import (
	"strings"

	"github.com/microsoft/yardl/tooling/pkg/dsl"
)

const (
	c09scNotDeclared = iota // host definition is not generic
	c09scOtherParams        // host definition is generic, with other parameter names
	c09scDeclared           // host definition declares the referenced name itself (control: accepted)
)

var c09scHostNames = []string{"non-generic-host", "host-with-other-parameters", "host-declares-the-name"}

// c09scNames: where the spelling of the reference comes from
//   E2 second parameter of a generic record defined EARLIER in the same namespace (Early<E1, E2>)
//   E3 parameter of a generic ALIAS defined earlier in the same namespace (EarlyAlias<E3>)
//   A  parameter of the base model's Pair<A, B> (same namespace, and every imported one)
//   T  parameter of Lib.Box / Lib.Seq / Lib.Choice (imported namespace, visited first)
//   D1 parameter of a generic that only the imported namespace Dep has (for Main: imported; for Dep: own, earlier)
//   L1 parameter of a generic defined LATER in the same namespace
//   Qq nobody's parameter
var c09scNames = []string{"E2", "E3", "A", "T", "D1", "L1", "Qq"}

var c09scPositionNames = append(append([]string{}, positionNames...), "argument-of-imported-generic", "map-key", "computed-field-conversion")

// c09scHostable: positions whose host is a type definition (which may declare parameters); the others sit in a protocol
func c09scHostable(pos int) bool { return pos != pProtocolStep && pos != pStreamItem }

// c09scPlace: place() of zz_c09.go with a host definition that may declare type parameters; `other` is a use of the
// host's other parameter (every declared parameter must be used), nil if there is none.
func c09scPlace(b *mb, n *dsl.Namespace, pos int, t dsl.Type, tparams []string, other dsl.Type) {
	ns := n.Name
	add := func(td dsl.TypeDefinition) { n.TypeDefinitions = append(n.TypeDefinitions, td) }
	rec := func(ft dsl.Type) {
		fields := []*dsl.Field{b.field("held", ft)}
		if other != nil {
			fields = append(fields, b.field("other", other))
		}
		add(b.record(ns, "Holder", tparams, fields...))
	}
	// aliases have one type only: the other parameter is used through a Pair
	ali := func(name string, at dsl.Type) {
		if other != nil {
			at = b.st("Pair", at, other)
		}
		add(b.alias(ns, name, tparams, at))
	}
	switch pos {
	case pRecordField:
		rec(t)
	case pAlias:
		ali("Held", t)
	case pProtocolStep:
		n.Protocols = append(n.Protocols, b.protocol(ns, "Carrier", b.step("held", t)))
	case pVectorItem:
		rec(b.vec(t))
	case pOptionalInner:
		rec(b.opt(t))
	case pUnionCase:
		ali("Held", b.gt(nil, b.st("string"), t))
	case pMapValue:
		rec(b.mapOf(b.st("string"), t))
	case pGenericArgument:
		ali("Held", b.st("Pair", b.st("int"), t))
	case pStreamItem:
		n.Protocols = append(n.Protocols, b.protocol(ns, "Carrier", b.step("first", b.st("int")), b.step("held", b.strm(t))))
	case pFixedVectorInAliasOfAlias:
		ali("Inner", b.fvec(t, 3))
		var args []dsl.Type
		for _, p := range tparams {
			args = append(args, b.st(p))
		}
		add(b.alias(ns, "Outer", tparams, b.st("Inner", args...)))
	case nPositions:
		rec(b.st("Lib.Box", b.st("Lib.Seq", t)))
	case nPositions + 1:
		rec(b.mapOf(t, b.st("int")))
	default:
		fields := []*dsl.Field{b.field("x", b.st("int"))}
		for i, p := range tparams {
			fields = append(fields, b.field("p"+string(rune('a'+i)), b.st(p)))
		}
		r := b.record(ns, "Holder", tparams, fields...)
		r.ComputedFields = dsl.ComputedFields{&dsl.ComputedField{NodeMeta: b.meta(), Name: "conv",
			Expression: &dsl.TypeConversionExpression{NodeMeta: b.meta(), Expression: &dsl.MemberAccessExpression{NodeMeta: b.meta(), Member: "x"}, Type: t}}}
		add(r)
	}
}

// C09Scopes: name x position x host x {main, imported namespace}.
func C09Scopes() {
	pos := verifChoose("position", len(c09scPositionNames))
	host := c09scNotDeclared
	if c09scHostable(pos) {
		host = verifChoose("host", 3)
	}
	inImport := verifChoose("in-imported-namespace", 2) == 1
	name := verifOneOf("name", c09scNames...)
	verifOut("rule", "type-parameter-out-of-scope")
	verifOut("position", c09scPositionNames[pos])
	verifOut("host", c09scHostNames[host])
	lib, dep, main, bDep, bMain := threeNamespaces()
	// a generic that only Dep has
	dep.TypeDefinitions = append(dep.TypeDefinitions, bDep.record("Dep", "DepOnly", []string{"D1"}, bDep.field("d", bDep.st("D1"))))
	n, b, file := main, bMain, "main/model.yml"
	if inImport {
		n, b, file = dep, bDep, "dep/dep.yml"
	}
	ns := n.Name
	n.TypeDefinitions = append(n.TypeDefinitions,
		b.record(ns, "Early", []string{"E1", "E2"}, b.field("one", b.st("E1")), b.field("two", b.vec(b.st("E2")))),
		b.alias(ns, "EarlyAlias", []string{"E3"}, b.opt(b.st("E3"))))
	var tparams []string
	var other dsl.Type
	switch host {
	case c09scOtherParams:
		tparams, other = []string{"Zz"}, b.st("Zz")
	case c09scDeclared:
		tparams = []string{name}
	}
	ref := b.st(name)
	if pos == nPositions+2 && host == c09scDeclared {
		// the declared parameter is used by the field pa already; the conversion target stays the reference under test
		verifOut("case", "conversion-to-own-type-parameter")
	}
	c09scPlace(b, n, pos, ref, tparams, other)
	n.TypeDefinitions = append(n.TypeDefinitions, b.record(ns, "Late", []string{"L1"}, b.field("l", b.st("L1"))))
	var err error
	msg, panicked := verifPanics(func() { _, err = dsl.Validate([]*dsl.Namespace{lib, dep, main}) })
	verifOut("panic", msg)
	verifAssert("no-panic", !panicked)
	verifOut("err", errText(err))
	if host == c09scDeclared {
		if pos != nPositions+1 && pos != nPositions+2 {
			// (a type parameter as map key / conversion target is not what this part is about: no verdict asserted)
			verifAssert("own-type-parameter-accepted", err == nil)
		}
	} else {
		verifAssert("violation-rejected", err != nil)
		verifAssert("error-names-offending-file", err == nil || strings.Contains(errText(err), file+":"))
	}
	verifReach("c09-scopes-end")
}
