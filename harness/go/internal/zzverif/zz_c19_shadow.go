package zzverif

// C19: a name denotes the INNERMOST declaration in scope, in the static typing as in every target language.
//
// `!switch u: {P1 x: !switch v: {P2 <name>: <name> + <name>, _: 0}, _: 0}` with symbolic numeric P1, P2 and the inner
// variable named like the outer one (x) or differently (y).  C++, Python and MATLAB bind the inner declaration (a lambda
// parameter / local assignment), so the static type of `<name> + <name>` must be the promotion of P2, whatever P1 is; the
// field read through the outer variable in the same case (`x` when the inner one is y) has the promotion of P1.

import (
	"github.com/microsoft/yardl/tooling/pkg/dsl"
)

// C19Shadow(full): full = 0 seven primitives, 1 all thirteen.
func C19Shadow(full int) {
	vocab := c19sPrimsQuick
	if full > 0 {
		vocab = numericPrims
	}
	p1 := verifOneOf("outer-variable-type", vocab...)
	p2 := verifOneOf("inner-variable-type", vocab...)
	inner := []string{"x", "y"}[verifChoose("inner-variable-name", 2)]
	used := inner
	if inner == "y" && verifChoose("case-reads-the-outer-variable", 2) == 1 {
		used = "x"
	}
	b := &mb{file: "model.yml"}
	g := &eg{b: b}
	rec := b.record("Ns", "Rec", nil, b.field("u", b.opt(b.st(p1))), b.field("v", b.opt(b.st(p2))))
	sum := &dsl.BinaryExpression{NodeMeta: b.meta(), Left: g.member(nil, used), Operator: dsl.BinaryOpAdd, Right: g.member(nil, used)}
	zero := func() dsl.Expression { return g.intLit(0) }
	innerSw := &dsl.SwitchExpression{NodeMeta: b.meta(), Target: g.member(nil, "v"), Cases: []*dsl.SwitchCase{
		{NodeMeta: b.meta(), Pattern: &dsl.DeclarationPattern{TypePattern: dsl.TypePattern{NodeMeta: b.meta(), Type: b.st(p2)}, Identifier: inner}, Expression: sum},
		{NodeMeta: b.meta(), Pattern: &dsl.DiscardPattern{NodeMeta: b.meta()}, Expression: zero()}}}
	outerSw := &dsl.SwitchExpression{NodeMeta: b.meta(), Target: g.member(nil, "u"), Cases: []*dsl.SwitchCase{
		{NodeMeta: b.meta(), Pattern: &dsl.DeclarationPattern{TypePattern: dsl.TypePattern{NodeMeta: b.meta(), Type: b.st(p1)}, Identifier: "x"}, Expression: innerSw},
		{NodeMeta: b.meta(), Pattern: &dsl.DiscardPattern{NodeMeta: b.meta()}, Expression: zero()}}}
	rec.ComputedFields = dsl.ComputedFields{&dsl.ComputedField{NodeMeta: b.meta(), Name: "c", Expression: outerSw}}
	n := &dsl.Namespace{Name: "Ns", IsTopLevel: true, TypeDefinitions: dsl.TypeDefinitions{rec}}
	env, err := dsl.Validate([]*dsl.Namespace{n})
	verifOut("outer", p1)
	verifOut("inner", p2)
	if err != nil {
		// an inner declaration that hides an outer one may be refused outright (a consistent meaning, too), and some variable
		// types have no common type with the literal of the default case (complex with an integer literal): no verdict asserted
		verifOut("error", err.Error())
		verifReach("c19sh-rejected")
		return
	}
	out := env.Namespaces[0].TypeDefinitions[0].(*dsl.RecordDefinition)
	var found *dsl.BinaryExpression
	dsl.Visit(out.ComputedFields[0].Expression, func(self dsl.Visitor, node dsl.Node) {
		if be, ok := node.(*dsl.BinaryExpression); ok && found == nil {
			found = be
			return
		}
		self.VisitChildren(node)
	})
	verifAssert("inner-case-expression-kept", found != nil)
	if found == nil {
		return
	}
	src := p2
	if used == "x" && inner == "y" {
		src = p1
	}
	want := c19sFold([]string{src, src})
	switch want {
	case "int8", "uint8", "int16", "uint16":
		want = "int32"
	}
	got := c19PrimName(found.GetResolvedType())
	verifOut("type", got)
	verifAssert("name-denotes-the-innermost-declaration", got == want)
	verifReach("c19sh-accepted")
}
