package zzverif

// C05 / C17 / C01 (C++ emitter level): the compatibility serializers the generator emits for a previous
// version must actually be what runs on that version's bytes.
//
// The runtime (tooling/internal/cpp/include/detail/binary/serializers.h) implements the container
// combinators  {Read,Write}Vector<T,F>, {Read,Write}Array<T,F,N>, {Read,Write}{Fixed,Dynamic,}NDArray<T,F,..>
// and ReadBlocksIntoVector<T,F>  with a bulk path:
//
//     if constexpr (IsTriviallySerializable<T>::value)  ->  one ReadBytes / WriteBytes of count * sizeof(T)
//     else                                              ->  F(stream, element) per element
//
// ({Read,Write}Block, Optional, Map and the union helpers always call F).  IsTriviallySerializable<T> is decided by
// the runtime's own specializations (1-byte integers, float, double, std::complex, std::array / FixedNDArray of
// those) and, for records, by the specialization the generator emits (zz_c14_trivial.go reads it back).  So the
// meaning of  Comb<T, F>(stream, xs)  is "sizeof(T) bytes per element" whenever T — the C++ type named by the
// template argument, i.e. the CURRENT definition behind a `using Rec_v0 = ns::Rec;` alias — is trivially
// serializable, whatever F is.  That is only the meaning the call site intends if the memcpy image of T *is* what F
// reads / writes.  Obligations:
//
//   bulk-path-preserves-element-function   for every call of a bulk-capable combinator in any emitted serializer,
//        compatibility serializer or protocol method: T trivially serializable  =>  image(T) == plan denoted by F
//   (then, F being the meaning either way) for every listed previous version and Current, every writer / reader
//        method routes version_ to a body that writes / reads exactly THAT version's wire format — with
//        *structural* plans: a record is the sequence of its fields' plans in that version's own model, not a name
//
// Everything is read back from the real emitters' output for a model pair produced by the real dsl.Validate /
// dsl.ValidateEvolution: types.h members (struct layouts, `using` aliases), the IsTriviallySerializable
// specializations, the serializers and compatibility serializers (bodies interpreted call by call), the protocol
// methods (zz_cppstmt.go).  Struct layout uses the LP64 / little-endian ABI (sizes and alignments of the
// fixed-width C++ types), the same one under which the runtime declares float / double / complex trivially
// serializable.

import (
	"fmt"
	"sort"
	"strings"

	cppbinary "github.com/microsoft/yardl/tooling/internal/cpp/binary"
	cppcommon "github.com/microsoft/yardl/tooling/internal/cpp/common"
	cppinclude "github.com/microsoft/yardl/tooling/internal/cpp/include"
	cpptypes "github.com/microsoft/yardl/tooling/internal/cpp/types"
	"github.com/microsoft/yardl/tooling/pkg/dsl"
)

// ---- what the runtime header says (transcribed; the native replay re-derives it from the embedded header) -------

// the function templates of serializers.h whose body has the `if constexpr (IsTriviallySerializable<T>::value)` bulk path
const c05bBulkCombinators = "ReadArray ReadBlocksIntoVector ReadDynamicNDArray ReadFixedNDArray ReadNDArray ReadVector " +
	"WriteArray WriteDynamicNDArray WriteFixedNDArray WriteNDArray WriteVector"

// the partial specializations of IsTriviallySerializable in serializers.h (argument, condition)
const c05bTrivialRules = "T: std::is_integral_v<T> && sizeof(T) == 1 | T: std::is_floating_point_v<T> | " +
	"T: std::is_same_v<T, std::complex<float>> || std::is_same_v<T, std::complex<double>> | " +
	"std::array<T, N>: IsTriviallySerializable<T>::value | yardl::FixedNDArray<T, Dims...>: IsTriviallySerializable<T>::value"

func c05bSquash(s string) string { return strings.Join(strings.Fields(s), " ") }

// c05bRuntimeFacts: (bulk combinators, triviality rules).  Under gosym the transcription above; natively re-derived from
// the header the generator ships, so a changed runtime makes the replay disagree (INCONCLUSIVE) instead of being ignored.
func c05bRuntimeFacts() (string, string) {
	if !verifNative() {
		return c05bBulkCombinators, c05bTrivialRules
	}
	data, err := cppinclude.DetailBinaryHeaders.ReadFile("detail/binary/serializers.h")
	if err != nil {
		return "?" + err.Error(), "?"
	}
	lines := strings.Split(string(data), "\n")
	var bulk, rules []string
	cur := ""
	for i := 0; i < len(lines); i++ {
		l := lines[i]
		if strings.HasPrefix(l, "inline ") {
			if k := strings.Index(l, "("); k > 0 {
				head := strings.Fields(l[:k])
				cur = head[len(head)-1]
			}
		}
		if strings.Contains(l, "if constexpr (IsTriviallySerializable<T>::value)") && cur != "" {
			if len(bulk) == 0 || bulk[len(bulk)-1] != cur {
				bulk = append(bulk, cur)
			}
		}
		if strings.HasPrefix(l, "struct IsTriviallySerializable<") {
			// struct IsTriviallySerializable<ARG, typename std::enable_if_t<COND>> \n : std::true_type {
			text := ""
			for j := i; j < len(lines) && !strings.Contains(lines[j], ": std::"); j++ {
				text += " " + lines[j]
			}
			text = c05bSquash(text)
			const mid = ", typename std::enable_if_t<"
			k := strings.Index(text, mid)
			if k < 0 || !strings.HasSuffix(text, ">>") {
				rules = append(rules, "?"+text)
				continue
			}
			rules = append(rules, text[len("struct IsTriviallySerializable<"):k]+": "+c05bSquash(text[k+len(mid):len(text)-2]))
		}
	}
	sort.Strings(bulk)
	return strings.Join(bulk, " "), strings.Join(rules, " | ")
}

func c05bIsBulk(comb string) bool {
	for _, c := range strings.Fields(c05bBulkCombinators) {
		if c == comb {
			return true
		}
	}
	return false
}

// ---- the emitted C++ read back ----------------------------------------------------------------------------------

type c05bStruct struct{ types, names []string }

type c05bWorld struct {
	structs   map[string]*c05bStruct // "ns::Rec" -> data members in declaration order
	usings    map[string]string      // "ns::Rec_v0" -> "ns::Rec"
	guards    map[string]string      // "ns::Rec" -> `value` expression of the emitted IsTriviallySerializable specialization
	funcs     []*cfunc
	bad       string // first form that was not understood
	depth     int
	bulkTrue  int  // bulk-capable call sites whose element type is trivially serializable
	checkBulk bool // assert bulk-path-preserves-element-function at every such call site
}

func (w *c05bWorld) fail(msg string) {
	if w.bad == "" {
		w.bad = msg
	}
}

// c05bParseFuncs: `if constexpr (C) {` is read as an if whose condition text is "constexpr C".
func c05bParseFuncs(text string) []*cfunc {
	return parseCppFuncs(strings.ReplaceAll(text, "if constexpr (", "if (constexpr "))
}

func c05bReadWorld(env *dsl.Environment) *c05bWorld {
	w := &c05bWorld{structs: map[string]*c05bStruct{}, usings: map[string]string{}, guards: map[string]string{}}
	for _, ns := range env.Namespaces {
		cppns := cppcommon.NamespaceIdentifierName(ns.Name)
		text := cpptypes.VerifWriteNamespaceMembers(ns)
		for _, l := range strings.Split(text, "\n") {
			if strings.HasPrefix(l, "struct ") && strings.HasSuffix(l, " {") {
				name := l[len("struct ") : len(l)-2]
				_, mt, mn, found := c14tReadStruct(text, name)
				if !found {
					w.fail("struct " + name)
				}
				w.structs[cppns+"::"+name] = &c05bStruct{types: mt, names: mn}
			}
			if strings.HasPrefix(l, "using ") && strings.HasSuffix(l, ";") && strings.Contains(l, " = ") {
				k := strings.Index(l, " = ")
				w.usings[cppns+"::"+l[len("using "):k]] = l[k+3 : len(l)-1]
			}
		}
		w.funcs = append(w.funcs, c05bParseFuncs(cppbinary.VerifWriteNamespaceDefinitions(ns))...)
	}
	for _, f := range w.funcs {
		if f.bad != "" {
			w.fail("function " + f.name + ": " + f.bad)
		}
	}
	// the block of IsTriviallySerializable specializations, one `template <..>` ... `};` segment each
	var seg []string
	for _, l := range strings.Split(cppbinary.VerifWriteIsTriviallySerializableSpecializations(env), "\n") {
		if strings.HasPrefix(l, "template <") {
			seg = []string{l}
			continue
		}
		if seg != nil {
			seg = append(seg, l)
			if l == "};" {
				spec := c14tReadSpecialization(strings.Join(seg, "\n"))
				if !spec.ok || spec.target != spec.alias {
					w.fail("IsTriviallySerializable specialization: " + strings.Join(seg, " "))
				} else {
					w.guards[spec.target] = spec.guard
				}
				seg = nil
			}
		}
	}
	return w
}

func c05bTypeText(n *vnode) string {
	s := n.head
	if n.open != "" {
		parts := make([]string, len(n.kids))
		for i, k := range n.kids {
			parts[i] = c05bTypeText(k)
		}
		s += n.open + strings.Join(parts, ", ") + closer(n.open)
	}
	return s
}

func (w *c05bWorld) parseType(t string) *vnode {
	n, ok := parseExpr(t)
	if !ok {
		w.fail("type: " + t)
		return &vnode{head: "?"}
	}
	return n
}

// resolve: through `using` aliases to the type they name.
func (w *c05bWorld) resolve(n *vnode) *vnode {
	for k := 0; k < 8 && n.open == ""; k++ {
		t, ok := w.usings[n.head]
		if !ok {
			break
		}
		n = w.parseType(t)
	}
	return n
}

func c05bRoundUp(x, a uint64) uint64 {
	if a == 0 {
		return x
	}
	return (x + a - 1) / a * a
}

// abi: sizeof / alignof under the LP64 ABI; ok = false for types whose layout is not modelled (none of them is
// trivially serializable, so their size is never needed by a guard that gets that far).
func (w *c05bWorld) abi(n *vnode) (size, align uint64, ok bool) {
	n = w.resolve(n)
	if n.open == "" {
		switch n.head {
		case "bool", "int8_t", "uint8_t", "char":
			return 1, 1, true
		case "int16_t", "uint16_t":
			return 2, 2, true
		case "int32_t", "uint32_t", "float":
			return 4, 4, true
		case "int64_t", "uint64_t", "double", "yardl::Size", "size_t":
			return 8, 8, true
		}
		if st, isStruct := w.structs[n.head]; isStruct {
			l := w.layout(st)
			return l.sizeofT, l.alignT, l.bad == ""
		}
		return 0, 1, false
	}
	switch {
	case n.head == "std::complex" && len(n.kids) == 1 && n.kids[0].head == "float":
		return 8, 4, true
	case n.head == "std::complex" && len(n.kids) == 1 && n.kids[0].head == "double":
		return 16, 8, true
	case n.head == "std::array" && len(n.kids) == 2:
		s, a, ok := w.abi(n.kids[0])
		cnt, ok2 := verifAtoi(n.kids[1].head)
		return s * cnt, a, ok && ok2
	}
	return 0, 1, false
}

// layout: the struct's members placed in declaration order by the usual rule (each at the next multiple of its alignment).
func (w *c05bWorld) layout(st *c05bStruct) *c14tLayout {
	n := len(st.names)
	l := &c14tLayout{members: st.names, size: make([]uint64, n), align: make([]uint64, n), off: make([]uint64, n), triv: make([]bool, n), std: true, alignT: 1}
	w.depth++
	defer func() { w.depth-- }()
	if w.depth > 6 {
		l.bad = "nesting too deep"
		return l
	}
	end := uint64(0)
	for i := range st.names {
		ty := w.parseType(st.types[i])
		l.triv[i] = w.triv(ty)
		s, a, ok := w.abi(ty)
		if !ok && l.triv[i] {
			l.bad = "no layout for " + st.types[i]
		}
		l.size[i], l.align[i] = s, a
		l.off[i] = c05bRoundUp(end, a)
		end = l.off[i] + s
		if a > l.alignT {
			l.alignT = a
		}
	}
	l.sizeofT = c05bRoundUp(end, l.alignT)
	if n == 0 {
		l.sizeofT = 1
	}
	return l
}

// triv: IsTriviallySerializable<n>::value — the runtime's rules (c05bTrivialRules), for a record the emitted guard
// evaluated on the record's own layout, the primary template (false) for everything else.
func (w *c05bWorld) triv(n *vnode) bool {
	n = w.resolve(n)
	if n.open == "" {
		switch n.head {
		case "bool", "int8_t", "uint8_t", "char", "float", "double":
			return true
		}
		st, isStruct := w.structs[n.head]
		guard, has := w.guards[n.head]
		if !isStruct || !has {
			return false
		}
		toks, lexed := c14tLex(guard)
		p := &c14tParser{toks: toks}
		if !lexed {
			w.fail("guard of " + n.head + ": lexical error")
			return false
		}
		g := p.binary(0)
		if p.bad != "" || p.pos != len(toks) {
			w.fail("guard of " + n.head + ": " + p.bad)
			return false
		}
		l := w.layout(st)
		v := l.truth(g)
		if l.bad != "" {
			w.fail("guard of " + n.head + ": " + l.bad)
			return false
		}
		return v
	}
	switch n.head {
	case "std::complex":
		return len(n.kids) == 1 && (n.kids[0].head == "float" || n.kids[0].head == "double")
	case "std::array":
		return len(n.kids) == 2 && w.triv(n.kids[0])
	case "yardl::FixedNDArray":
		return len(n.kids) >= 1 && w.triv(n.kids[0])
	}
	return false
}

// image: the wire plan that the bytes of an object of trivially serializable type n amount to.
func (w *c05bWorld) image(n *vnode) string {
	n = w.resolve(n)
	if n.open == "" {
		switch n.head {
		case "bool":
			return "bool"
		case "int8_t":
			return "i8"
		case "uint8_t":
			return "u8"
		case "float":
			return "f32"
		case "double":
			return "f64"
		}
		if st, ok := w.structs[n.head]; ok {
			parts := make([]string, len(st.types))
			for i, t := range st.types {
				parts[i] = w.image(w.parseType(t))
			}
			return "rec[" + strings.Join(parts, ",") + "]"
		}
	}
	switch {
	case n.head == "std::complex" && len(n.kids) == 1 && n.kids[0].head == "float":
		return "c64"
	case n.head == "std::complex" && len(n.kids) == 1 && n.kids[0].head == "double":
		return "c128"
	case n.head == "std::array" && len(n.kids) == 2:
		return "fvec(" + w.image(n.kids[0]) + "," + numTok(n.kids[1]) + ")"
	}
	w.fail("memcpy image of " + c05bTypeText(n))
	return "?image:" + c05bTypeText(n)
}

// elem: what one element of comb<T, F> is on the wire (comb: the runtime function's name).
func (w *c05bWorld) elem(comb string, T, F *vnode, verb string) string {
	own := w.denote(F, T, verb)
	if !c05bIsBulk(comb) || !w.triv(T) {
		return own
	}
	w.bulkTrue++
	img := w.image(T)
	if w.bad == "" && w.checkBulk {
		if img != own {
			verifOut("bulk-call", comb+"<"+c05bTypeText(T)+", "+c05bTypeText(F)+">")
			verifOut("bulk-image", img)
			verifOut("element-function-plan", own)
		}
		// the memcpy of sizeof(T) bytes per element is the element function's wire format
		verifAssert("bulk-path-preserves-element-function", img == own)
	}
	// the remaining obligations take the element function's meaning, so that each defect is reported once
	return own
}

// denote: the structural wire plan of the serializer expression fn applied to an object of C++ type ty.
func (w *c05bWorld) denote(fn, ty *vnode, verb string) string {
	const pre = "yardl::binary::"
	w.depth++
	defer func() { w.depth-- }()
	if w.depth > 12 {
		w.fail("serializer nesting too deep")
		return "?deep"
	}
	h, a := fn.head, fn.kids
	if strings.HasPrefix(h, pre+verb) {
		k := h[len(pre)+len(verb):]
		switch k {
		case "Integer", "FloatingPoint", "String", "Date", "Time", "DateTime":
			if fn.open == "" {
				return cppLeaf(k, w.resolve(ty))
			}
		case "Monostate":
			return "null"
		case "Optional":
			if len(a) == 2 {
				return "opt(" + w.elem(verb+k, a[0], a[1], verb) + ")"
			}
		case "Vector":
			if len(a) == 2 {
				return "vec(" + w.elem(verb+k, a[0], a[1], verb) + ")"
			}
		case "Array":
			if len(a) == 3 {
				return "fvec(" + w.elem(verb+k, a[0], a[1], verb) + "," + numTok(a[2]) + ")"
			}
		case "FixedNDArray":
			if len(a) >= 2 {
				s := "farr(" + w.elem(verb+k, a[0], a[1], verb)
				for _, d := range a[2:] {
					s += "," + numTok(d)
				}
				return s + ")"
			}
		case "NDArray":
			if len(a) == 3 {
				return "ndarr(" + w.elem(verb+k, a[0], a[1], verb) + "," + numTok(a[2]) + ")"
			}
		case "DynamicNDArray":
			if len(a) == 2 {
				return "dynarr(" + w.elem(verb+k, a[0], a[1], verb) + ")"
			}
		case "Map":
			if len(a) == 4 {
				return "map(" + w.denote(a[2], a[0], verb) + "," + w.denote(a[3], a[1], verb) + ")"
			}
		}
		w.fail("runtime serializer: " + c05bTypeText(fn))
		return "?cpp:" + h
	}
	if h == verb+"Union" && len(a) >= 4 && len(a)%2 == 0 {
		parts := make([]string, len(a)/2)
		for i := range parts {
			parts[i] = w.denote(a[2*i+1], a[2*i], verb)
		}
		return "union(" + strings.Join(parts, "|") + ")"
	}
	if k := strings.Index(h, "::binary::"+verb); k > 0 && fn.open == "" {
		name := h[k+len("::binary::"):]
		var found *cfunc
		cnt := 0
		for _, f := range w.funcs {
			if f.class == "" && f.name == name {
				found = f
				cnt++
			}
		}
		if cnt != 1 {
			w.fail(fmt.Sprintf("%d definitions of %s", cnt, name))
			return "?fn:" + name
		}
		return w.funcPlan(found, verb)
	}
	w.fail("serializer: " + c05bTypeText(fn))
	return "?cpp:" + h
}

func c05bMentionsStream(ss []*cstmt) bool {
	for _, s := range ss {
		if strings.Contains(s.text, "(stream") || c05bMentionsStream(s.body) || c05bMentionsStream(s.els) {
			return true
		}
		for _, c := range s.cases {
			if c05bMentionsStream(c.body) {
				return true
			}
		}
	}
	return false
}

// c05bValueType: the C++ type of the `value` parameter of an emitted (compatibility) serializer.
func c05bValueType(f *cfunc) (string, bool) {
	k := strings.Index(f.params, "& stream, ")
	if k < 0 || !strings.HasSuffix(f.params, " value") {
		return "", false
	}
	t := f.params[k+len("& stream, ") : len(f.params)-len(" value")]
	t = strings.TrimSuffix(t, "&")
	t = strings.TrimSuffix(t, " const")
	return t, true
}

// typeOfTarget: `value`, `value.member`, or a local declared earlier in the body.
func (w *c05bWorld) typeOfTarget(x string, types map[string]string) (*vnode, bool) {
	if t, ok := types[x]; ok {
		return w.parseType(t), true
	}
	if strings.HasPrefix(x, "value.") {
		owner := w.resolve(w.parseType(types["value"]))
		if st, ok := w.structs[owner.head]; ok && owner.open == "" {
			for i, m := range st.names {
				if m == x[len("value."):] {
					return w.parseType(st.types[i]), true
				}
			}
		}
	}
	return nil, false
}

// funcPlan: the wire plan of one emitted serializer / compatibility serializer: its stream calls in order.  A record
// (the `value` parameter is a struct) is the sequence of those pieces; an alias is transparent (exactly one piece).
func (w *c05bWorld) funcPlan(f *cfunc, verb string) string {
	vt, ok := c05bValueType(f)
	if !ok {
		w.fail("signature of " + f.name + ": " + f.params)
		return "?sig"
	}
	types := map[string]string{"value": vt}
	ps := &c05bPieces{}
	w.serializerBody(f, f.body, types, ps, verb)
	if ps.whole != "" {
		if len(ps.list) != 0 {
			w.fail(f.name + ": stream calls besides the memcpy of the whole value")
		}
		return ps.whole
	}
	owner := w.resolve(w.parseType(vt))
	if _, isStruct := w.structs[owner.head]; isStruct && owner.open == "" {
		return "rec[" + strings.Join(ps.list, ",") + "]"
	}
	if len(ps.list) != 1 {
		w.fail(fmt.Sprintf("%s: %d stream calls for a non-record", f.name, len(ps.list)))
		return "?pieces"
	}
	return ps.list[0]
}

type c05bPieces struct {
	list  []string // plans of the stream calls, in order
	whole string   // the value was moved as one object by {Read,Write}TriviallySerializable(stream, value)
}

func (w *c05bWorld) serializerBody(f *cfunc, ss []*cstmt, types map[string]string, ps *c05bPieces, verb string) (returned bool) {
	const trivPre, trivSuf = "constexpr yardl::binary::IsTriviallySerializable<", ">::value"
	for _, s := range ss {
		if s.kind == "if" && strings.HasPrefix(s.text, "constexpr ") {
			if !strings.HasPrefix(s.text, trivPre) || !strings.HasSuffix(s.text, trivSuf) || s.els != nil {
				w.fail(f.name + ": compile-time condition: " + s.text)
				return true
			}
			if w.triv(w.parseType(s.text[len(trivPre) : len(s.text)-len(trivSuf)])) {
				if w.serializerBody(f, s.body, types, ps, verb) {
					return true
				}
			}
			continue
		}
		if s.kind != "simple" {
			// control flow of a value conversion (null tests, range checks, element loops): no stream access allowed inside
			if c05bMentionsStream([]*cstmt{s}) {
				w.fail(f.name + ": stream access under run-time control flow: " + s.text)
				return true
			}
			continue
		}
		t := s.text
		switch {
		case t == "return":
			return true
		case strings.Contains(t, "(stream, ") && strings.HasSuffix(t, ")"):
			k := strings.Index(t, "(stream, ")
			fn, ok := parseExpr(t[:k])
			x := t[k+len("(stream, ") : len(t)-1]
			ty, ok2 := w.typeOfTarget(x, types)
			if !ok || !ok2 {
				w.fail(f.name + ": call: " + t)
				return true
			}
			switch {
			case fn.head == "yardl::binary::"+verb+"TriviallySerializable" && fn.open == "" && x == "value":
				ps.whole = w.image(ty)
			case fn.head == "yardl::binary::"+verb+"TriviallySerializable" && fn.open == "":
				ps.list = append(ps.list, w.image(ty))
			default:
				ps.list = append(ps.list, w.denote(fn, ty, verb))
			}
		case strings.Contains(t, "stream"):
			w.fail(f.name + ": statement: " + t)
			return true
		case strings.HasSuffix(t, " = {}") && strings.Count(t[:len(t)-len(" = {}")], " ") >= 1 && isIdent(t[strings.LastIndex(t[:len(t)-len(" = {}")], " ")+1:len(t)-len(" = {}")]):
			d := t[:len(t)-len(" = {}")]
			sp := strings.LastIndex(d, " ")
			types[d[sp+1:]] = d[:sp]
		case strings.Contains(t, " = "), strings.HasPrefix(t, "throw "), strings.Contains(t, ".resize("), t == "break":
			// value conversion between a temporary and `value` (its data flow is the subject of c05_definite_assignment)
		default:
			w.fail(f.name + ": statement: " + t)
			return true
		}
	}
	return false
}

// ---- specification: structural wire plans ------------------------------------------------------------------------

func c05bSpecDef(td dsl.TypeDefinition) string {
	switch t := td.(type) {
	case *dsl.RecordDefinition:
		parts := make([]string, len(t.Fields))
		for i, f := range t.Fields {
			parts[i] = c05bSpecPlan(f.Type)
		}
		return "rec[" + strings.Join(parts, ",") + "]"
	case *dsl.NamedType:
		return c05bSpecPlan(t.Type)
	}
	return planDef(td)
}

// c05bSpecPlan: Plan (zz_plan.go) with records spelled out as the plans of their fields, in field order
// (docs/reference/binary.md: "Records are encoded as the concatenation of the value of its fields, in the order they are defined").
func c05bSpecPlan(t dsl.Type) string {
	switch t := t.(type) {
	case nil:
		return "null"
	case *dsl.SimpleType:
		return c05bSpecDef(t.ResolvedDefinition)
	case *dsl.GeneralizedType:
		var el string
		cs := t.Cases
		switch {
		case len(cs) == 1:
			el = c05bSpecPlan(cs[0].Type)
		case len(cs) == 2 && cs[0].Type == nil:
			el = "opt(" + c05bSpecPlan(cs[1].Type) + ")"
		default:
			parts := make([]string, len(cs))
			for i, c := range cs {
				parts[i] = c05bSpecPlan(c.Type)
			}
			el = "union(" + strings.Join(parts, "|") + ")"
		}
		switch d := t.Dimensionality.(type) {
		case nil:
			return el
		case *dsl.Stream:
			return "stream(" + el + ")"
		case *dsl.Vector:
			if d.Length == nil {
				return "vec(" + el + ")"
			}
			return fmt.Sprintf("fvec(%s,%d)", el, *d.Length)
		case *dsl.Map:
			return "map(" + c05bSpecPlan(d.KeyType) + "," + el + ")"
		}
	}
	return "?type"
}

// ---- the model family -------------------------------------------------------------------------------------------

const (
	c05bAdded     = iota // the current record has a field the previous version lacks
	c05bRemoved          // the previous version has a field (in the middle) the current record dropped
	c05bRetyped          // field `a` (resp. the alias target) was a different number type
	c05bUnchanged        // nothing changed in that version
	c05bKinds
)

var c05bKindNames = []string{"field-added", "field-removed", "retyped", "unchanged"}

// field types: fixed-width leaves whose in-memory image is their encoding, a fixed array of one, and two leaves
// (varint, string) that are not trivially serializable
var c05bFieldTypes = []string{"float32", "float64", "uint8", "complexfloat32", "bool", "float32*2", "int32", "string"}

// the second field: with a 4-byte float, a 1-byte integer or a string next to field a, records with and without padding,
// with and without a non-trivial member arise
var c05bSecondFieldTypes = []string{"float32", "uint8", "string", "float64", "complexfloat32", "int32"}

// the number type field a (resp. the alias) had before it was retyped (widening and narrowing changes)
var c05bOldNumber = map[string]string{"float32": "float64", "float64": "float32", "uint8": "float32", "int32": "float64"}
var c05bContexts = []string{"direct", "vector", "stream", "fixed-vector", "optional", "vector-in-record-field", "map-value", "map-value-in-record-field"}

// contexts in which the documentation promises that a compatible change of Rec is accepted; in the others (Rec as a map
// value) the unchanged tree rejects the change (known finding of C06) - IF it is accepted there, every obligation about the
// emitted code applies all the same: an accepted change must come with a conversion
const c05bDocumentedContexts = 6

func c05bLeaf(b *mb, name string) dsl.Type {
	if strings.HasSuffix(name, "*2") {
		return b.fvec(b.st(strings.TrimSuffix(name, "*2")), 2)
	}
	return b.st(name)
}

func c05bIsNumber(name string) bool {
	_, ok := c05bOldNumber[name]
	return ok
}

// c05bModel: family 0: record Rec {a: p1, b: p2}; family 1: alias Rec = p1.  Protocol P { s: <context of Rec> }.
func c05bModel(file string, current bool, fam, kind, ctx int, p1, p2 string) *dsl.Namespace {
	b := &mb{file: file}
	var defs dsl.TypeDefinitions
	a, q := p1, "float32"
	if !current && kind == c05bRetyped {
		a = c05bOldNumber[p1]
	}
	if fam == 0 {
		fields := []*dsl.Field{b.field("a", c05bLeaf(b, a))}
		if !current && kind == c05bRemoved {
			fields = append(fields, b.field("c", c05bLeaf(b, q)))
		}
		if current || kind != c05bAdded {
			fields = append(fields, b.field("b", c05bLeaf(b, p2)))
		}
		defs = append(defs, b.record(NS, "Rec", nil, fields...))
	} else {
		defs = append(defs, b.alias(NS, "Rec", nil, c05bLeaf(b, a)))
	}
	var t dsl.Type
	switch ctx {
	case 0:
		t = b.st("Rec")
	case 1:
		t = b.vec(b.st("Rec"))
	case 2:
		t = b.strm(b.st("Rec"))
	case 3:
		t = b.fvec(b.st("Rec"), 3)
	case 4:
		t = b.opt(b.st("Rec"))
	case 5:
		defs = append(defs, b.record(NS, "Outer", nil, b.field("n", b.st("string")), b.field("r", b.vec(b.st("Rec")))))
		t = b.st("Outer")
	case 6:
		t = b.mapOf(b.st("string"), b.st("Rec"))
	default:
		defs = append(defs, b.record(NS, "Outer", nil, b.field("n", b.st("string")), b.field("r", b.mapOf(b.st("uint32"), b.st("Rec")))))
		t = b.st("Outer")
	}
	return &dsl.Namespace{Name: NS, IsTopLevel: true, TypeDefinitions: defs,
		Protocols: []*dsl.ProtocolDefinition{b.protocol(NS, "P", b.step("s", t))}}
}

// C05BulkBypass(m, nctx, nb, mode): m previous versions (labels v0, v1), each with its own symbolic change kind; the first nctx
// contexts; the first nb types for field b.  mode 0: bulk-path-preserves-element-function at every call site of the emitted
// code; mode 1: (taking the element functions' meaning) every writer and reader method writes / reads each version's own
// structural wire plan.  Two modes = two parts, so that counterexamples of the second are never crowded out by the first's.
func C05BulkBypass(m, nctx, nb, mode int) {
	bulk, rules := c05bRuntimeFacts()
	verifOut("runtime-bulk-combinators", bulk)
	verifOut("runtime-trivially-serializable-rules", rules)
	fam := verifChoose("family", 2)
	ctx := verifChoose("context", nctx)
	p1 := c05bFieldTypes[verifChoose("field-a", len(c05bFieldTypes))]
	p2 := "float32"
	if fam == 0 {
		p2 = c05bSecondFieldTypes[verifChoose("field-b", nb)]
	}
	labels := []string{"v0", "v1"}[:m]
	kinds := make([]int, m)
	for j := range kinds {
		kinds[j] = verifChoose(fmt.Sprintf("change%d", j), c05bKinds)
		if fam == 1 {
			verifAssume(kinds[j] >= c05bRetyped)
		}
		if kinds[j] == c05bRetyped {
			verifAssume(c05bIsNumber(p1))
		}
	}
	verifOut("family", []string{"record", "alias"}[fam])
	verifOut("context", c05bContexts[ctx])
	verifOut("a", p1)
	verifOut("b", p2)
	for j := range kinds {
		verifOut("change-"+labels[j], c05bKindNames[kinds[j]])
	}
	cur, err := dsl.Validate([]*dsl.Namespace{c05bModel("model.yml", true, fam, 0, ctx, p1, p2)})
	verifAssert("models-validate", err == nil)
	if err != nil {
		verifOut("err", errText(err))
		return
	}
	olds := make([]*dsl.Environment, m)
	for j := range olds {
		olds[j], err = dsl.Validate([]*dsl.Namespace{c05bModel(labels[j]+"/model.yml", false, fam, kinds[j], ctx, p1, p2)})
		verifAssert("models-validate", err == nil)
		if err != nil {
			verifOut("err", errText(err))
			return
		}
	}
	var everr error
	msg, panicked := verifPanics(func() { _, _, everr = dsl.ValidateEvolution(cur, olds, labels) })
	verifOut("panic", msg)
	if ctx < c05bDocumentedContexts || panicked {
		verifAssert("documented-compatible-changes-accepted", !panicked && everr == nil)
	}
	if panicked || everr != nil {
		verifOut("err", errText(everr))
		verifReach("c05b-change-rejected")
		return
	}
	var w *c05bWorld
	msg, panicked = verifPanics(func() { w = c05bReadWorld(cur) })
	verifOut("panic", msg)
	verifAssert("emitters-total", !panicked)
	if panicked {
		return
	}
	g := newGen()
	g.bulk = w
	p := cur.Namespaces[0].Protocols[0]
	st := p.Sequence[0]
	if mode == 0 {
		// every call site of the emitted code, reached through every writer / reader method under every version (a batch of
		// one item, a reader at a block boundary: the block bookkeeping is the subject of mode 1)
		w.checkBulk = true
		for _, f := range w.funcs {
			if f.class != "PWriter" && f.class != "PReader" || !strings.HasSuffix(f.name, "SImpl") {
				continue
			}
			for j := -1; j < m; j++ {
				version := "Current"
				if j >= 0 {
					version = labels[j]
				}
				runMethod(g, f, f.class == "PWriter", isStreamType(st.Type), version, &protoSyms{n: 1, rem: 0, next: 1})
			}
		}
		verifOut("unknown-form", w.bad)
		verifAssert("only-known-serializer-forms", w.bad == "")
		verifOut("bulk-call-sites", w.bulkTrue)
		verifReach("c05b-end")
		return
	}
	yw, yr := &protoSyms{}, &protoSyms{}
	yw.n = verifInt("batch-length")
	verifAssume(yw.n >= 0)
	verifAssume(yw.n <= 1<<30)
	yr.rem, yr.next = verifUint64("block-remaining"), verifUint64("next-block-length")
	for j := -1; j < m; j++ {
		version := "Current"
		stepT := st.Type
		if j >= 0 {
			version = labels[j]
			stepT = findStep(olds[j].Namespaces[0].Protocols[0], "s").Type
		}
		// the oracle: the step's type in that version's own validated model, records spelled out field by field
		sp := stepSpec{exists: true, stream: isStreamType(st.Type), plan: c05bSpecPlan(elemOf(stepT))}
		checkStepWriter(g, w.funcs, "P", "S", version, sp, yw)
		checkStepReader(g, w.funcs, "P", "S", version, sp, yr)
	}
	verifOut("unknown-form", w.bad)
	verifAssert("only-known-serializer-forms", w.bad == "")
	verifOut("bulk-call-sites", w.bulkTrue)
	verifReach("c05b-end")
}
