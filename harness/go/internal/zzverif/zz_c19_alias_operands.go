package zzverif

// C19: the meaning of a computed field depends on the RESOLVED primitive of its operands' static types, never on how
// those types are spelled.
//
// "Evaluating a computed field yields the mathematical value of the expression ..., the same in every target
// language."  Which operator / conversion / literal form a backend emits for a node of the resolved expression tree
// is chosen from the static type of that node (Python: `//` for integers and `/` otherwise; C++: literal suffixes,
// static_cast targets; MATLAB: conversion functions).  A named alias `Count: uint64` (docs/*/language.md, "Type
// aliases": "simply another name for the type") is the same type as `uint64`, so a model whose operand fields are
// typed through 1-2 alias levels must get, node by node,
//   - the same accept / reject verdict,
//   - the same resolved primitive, kind of node and inserted conversions in the resolved expression tree,
//   - dsl.IsIntegralType(static type) iff the resolved primitive is one of the nine integer primitives,
//   - the same emitted expression in every backend (read back with the target language's grammar; floor division and
//     true division are different operations of Python)
// as the twin model in which the alias is replaced by the bare primitive.  Field names are the same in both models,
// so the read-back trees are compared literally.
//
// What is symbolic: the primitive P (13 numeric primitives; quick: 6), the number of alias levels (1-2), the operator
// (5), a second bare primitive Q, and the operand shape (14): the same field twice, two fields of the alias, two elements
// of one vector / fixed vector of the alias, field with element, field with literal (both orders), field with a
// bare-typed field (both orders), negated operand, converted operand, an alias-typed subscript index, the variable
// of a switch case used on both sides, and a three-operand nest.

import (
	"strings"

	cpptypes "github.com/microsoft/yardl/tooling/internal/cpp/types"
	mtypes "github.com/microsoft/yardl/tooling/internal/matlab/types"
	pytypes "github.com/microsoft/yardl/tooling/internal/python/types"
	"github.com/microsoft/yardl/tooling/pkg/dsl"
)

// Python with `//` and `/` kept apart (zz_c08_cppexpr.go maps both to "div": there the question is the tree shape)
var c19aPython = &c08xLang{
	name:  "python",
	multi: []string{"**=", "//=", "**", "//", "<<", ">>", "<=", ">=", "==", "!=", "+=", "-=", "*=", "/=", ":=", "->"},
	binary: map[string]int{"**": 12, "*": 10, "/": 10, "//": 10, "%": 10, "@": 10, "+": 9, "-": 9, "<<": 8, ">>": 8, "&": 7, "^": 6, "|": 5,
		"<": 4, "<=": 4, ">": 4, ">=": 4, "==": 4, "!=": 4},
	right:     map[string]bool{"**": true},
	canon:     map[string]string{"+": "add", "-": "sub", "*": "mul", "/": "truediv", "//": "floordiv", "**": "pow"},
	unaryPrec: 11,
	prefix:    map[string]string{"-": "neg", "+": "pos", "~": "compl"},
	postfix:   map[string]string{},
	selfName:  "self",
}

var c19aPrimsQuick = []string{"uint8", "int32", "uint64", "size", "float32", "complexfloat64"}
var c19aSecondPrims = []string{"int16", "float64", "complexfloat32"}

const c19aShapes = 14

var c19aShapeNames = []string{"x.x", "x.y", "v[0].v[1]", "x.v[0]", "x.literal", "literal.x", "x.q", "q.x", "(-x).x", "(x as Q).x",
	"v[x].x", "fv[0].fv[1]", "switch n: n.n", "(x.y).v[0]"}

// c19aResolvedPrim: the primitive a static type denotes, written here from the definition of aliases (independent of
// yardl's own GetUnderlyingType / GetPrimitiveType).
func c19aResolvedPrim(t dsl.Type) string {
	for depth := 0; depth < 8; depth++ {
		switch tt := t.(type) {
		case *dsl.SimpleType:
			if tt == nil {
				return "?"
			}
			switch d := tt.ResolvedDefinition.(type) {
			case dsl.PrimitiveDefinition:
				return string(d)
			case *dsl.NamedType:
				t = d.Type
				continue
			}
			return "?"
		case *dsl.GeneralizedType:
			if tt != nil && tt.Dimensionality == nil && len(tt.Cases) == 1 && tt.Cases[0].Type != nil {
				t = tt.Cases[0].Type
				continue
			}
			return "?"
		default:
			return "?"
		}
	}
	return "?"
}

// c19aTree: the resolved expression tree with the resolved primitive of every node's static type.
func c19aTree(e dsl.Expression) string {
	if e == nil {
		return "nil"
	}
	ty := ":" + c19aResolvedPrim(e.GetResolvedType())
	switch t := e.(type) {
	case *dsl.UnaryExpression:
		return "neg" + ty + "(" + c19aTree(t.Expression) + ")"
	case *dsl.BinaryExpression:
		op := "?"
		if int(t.Operator) >= 0 && int(t.Operator) < len(c08xOpNames) {
			op = c08xOpNames[t.Operator]
		}
		return op + ty + "(" + c19aTree(t.Left) + "," + c19aTree(t.Right) + ")"
	case *dsl.TypeConversionExpression:
		return "conv<" + c19aResolvedPrim(t.Type) + ">" + ty + "(" + c19aTree(t.Expression) + ")"
	case *dsl.IntegerLiteralExpression:
		return "int" + ty + "(" + t.Value.String() + ")"
	case *dsl.FloatingPointLiteralExpression:
		return "float" + ty + "(" + t.Value + ")"
	case *dsl.MemberAccessExpression:
		if t.Target != nil {
			return "member" + ty + "(" + c19aTree(t.Target) + "." + t.Member + ")"
		}
		return "name" + ty + "(" + t.Member + ")"
	case *dsl.SubscriptExpression:
		s := "index" + ty + "(" + c19aTree(t.Target)
		for _, a := range t.Arguments {
			s += "," + c19aTree(a.Value)
		}
		return s + ")"
	case *dsl.SwitchExpression:
		s := "switch" + ty + "(" + c19aTree(t.Target)
		for _, c := range t.Cases {
			s += "," + c19aTree(c.Expression)
		}
		return s + ")"
	}
	return "?node"
}

// c19aIntegralConsistent: on every node of the resolved tree, dsl.IsIntegralType(static type) iff the resolved primitive is an integer.
func c19aIntegralConsistent(e dsl.Expression) bool {
	ok := true
	var walk func(e dsl.Expression)
	walk = func(e dsl.Expression) {
		if e == nil {
			return
		}
		if t := e.GetResolvedType(); t != nil {
			if p := c19aResolvedPrim(t); p != "?" {
				_, numeric := c19RepOf(p)
				want := numeric && primKind(p) == 0
				if dsl.IsIntegralType(t) != want {
					ok = false
				}
			}
		}
		switch t := e.(type) {
		case *dsl.UnaryExpression:
			walk(t.Expression)
		case *dsl.BinaryExpression:
			walk(t.Left)
			walk(t.Right)
		case *dsl.TypeConversionExpression:
			walk(t.Expression)
		case *dsl.MemberAccessExpression:
			if t.Target != nil {
				walk(t.Target)
			}
		case *dsl.SubscriptExpression:
			walk(t.Target)
			for _, a := range t.Arguments {
				walk(a.Value)
			}
		case *dsl.SwitchExpression:
			walk(t.Target)
			for _, c := range t.Cases {
				walk(c.Expression)
			}
		}
	}
	walk(e)
	return ok
}

func c19aExpr(b *mb, shape int, op dsl.BinaryOperator, q string) dsl.Expression {
	name := func(n string) dsl.Expression { return &dsl.MemberAccessExpression{NodeMeta: b.meta(), Member: n} }
	lit := func(v int64) dsl.Expression {
		g := &eg{b: b}
		return g.intLit(v)
	}
	at := func(target dsl.Expression, idx dsl.Expression) dsl.Expression {
		return &dsl.SubscriptExpression{NodeMeta: b.meta(), Target: target, Arguments: []*dsl.SubscriptArgument{{NodeMeta: b.meta(), Value: idx}}}
	}
	bin := func(l, r dsl.Expression) dsl.Expression {
		return &dsl.BinaryExpression{NodeMeta: b.meta(), Left: l, Operator: op, Right: r}
	}
	switch shape {
	case 0:
		return bin(name("xa"), name("xa"))
	case 1:
		return bin(name("xa"), name("yb"))
	case 2:
		return bin(at(name("vec"), lit(0)), at(name("vec"), lit(1)))
	case 3:
		return bin(name("xa"), at(name("vec"), lit(0)))
	case 4:
		return bin(name("xa"), lit(2))
	case 5:
		return bin(lit(7), name("xa"))
	case 6:
		return bin(name("xa"), name("qf"))
	case 7:
		return bin(name("qf"), name("xa"))
	case 8:
		return bin(&dsl.UnaryExpression{NodeMeta: b.meta(), Operator: dsl.UnaryOpNegate, Expression: name("xa")}, name("xa"))
	case 9:
		return bin(&dsl.TypeConversionExpression{NodeMeta: b.meta(), Expression: name("xa"), Type: b.st(q)}, name("xa"))
	case 10:
		return bin(at(name("vec"), name("xa")), name("xa"))
	case 11:
		return bin(at(name("fixed"), lit(0)), at(name("fixed"), lit(1)))
	case 12:
		return nil // built by the caller (the pattern names the operand type)
	default:
		return bin(bin(name("xa"), name("yb")), at(name("vec"), lit(0)))
	}
}

type c19aResult struct {
	ok         bool
	tree       string
	integralOK bool
	py, cpp, m string
	pyBad      string
	cppBad     string
	mBad       string
}

// c19aReturnLines: the expressions of the `return` statements of an emitted Python body, in order.
func c19aStatements(text, prefix, suffix string) []string {
	var out []string
	for _, l := range strings.Split(text, "\n") {
		l = strings.TrimSpace(l)
		if strings.HasPrefix(l, prefix) && strings.HasSuffix(l, suffix) {
			out = append(out, strings.TrimSpace(l[len(prefix):len(l)-len(suffix)]))
		}
	}
	return out
}

func c19aReadAll(lg *c08xLang, exprs []string) (string, string) {
	trees, bad := "", ""
	if len(exprs) == 0 {
		bad = "no expression statement found"
	}
	for _, x := range exprs {
		t, b, effects := c08xRead(lg, x)
		trees += t + ";"
		if b != "" && bad == "" {
			bad = b
		}
		if len(effects) > 0 && bad == "" {
			bad = "side effect " + effects[0]
		}
	}
	return trees, bad
}

// c19aRun: validate the model whose operand type is `operand` (the bare primitive, or an alias name) and emit `c` in every backend.
func c19aRun(p, operand, q string, shape int, op dsl.BinaryOperator) c19aResult {
	b := &mb{file: "model.yml"}
	a1 := b.alias("Ns", "CountOne", nil, b.st(p))
	a2 := b.alias("Ns", "CountTwo", nil, b.st("CountOne"))
	rec := b.record("Ns", "Rec", nil,
		b.field("xa", b.st(operand)), b.field("yb", b.st(operand)),
		b.field("vec", b.vec(b.st(operand))), b.field("fixed", b.fvec(b.st(operand), 3)),
		b.field("opt", b.opt(b.st(operand))),
		b.field("qf", b.st(q)))
	var e dsl.Expression
	if shape == 12 {
		n := func() dsl.Expression {
			return &dsl.MemberAccessExpression{NodeMeta: b.meta(), Member: "nv"}
		}
		e = &dsl.SwitchExpression{NodeMeta: b.meta(), Target: &dsl.MemberAccessExpression{NodeMeta: b.meta(), Member: "opt"}, Cases: []*dsl.SwitchCase{
			{NodeMeta: b.meta(), Pattern: &dsl.DeclarationPattern{TypePattern: dsl.TypePattern{NodeMeta: b.meta(), Type: b.st(operand)}, Identifier: "nv"},
				Expression: &dsl.BinaryExpression{NodeMeta: b.meta(), Left: n(), Operator: op, Right: n()}},
			{NodeMeta: b.meta(), Pattern: &dsl.DiscardPattern{NodeMeta: b.meta()},
				Expression: &dsl.BinaryExpression{NodeMeta: b.meta(), Left: &dsl.MemberAccessExpression{NodeMeta: b.meta(), Member: "xa"}, Operator: op, Right: &dsl.MemberAccessExpression{NodeMeta: b.meta(), Member: "xa"}}},
		}}
	} else {
		e = c19aExpr(b, shape, op, q)
	}
	rec.ComputedFields = dsl.ComputedFields{&dsl.ComputedField{NodeMeta: b.meta(), Name: "c", Expression: e}}
	ns := &dsl.Namespace{Name: "Ns", IsTopLevel: true, TypeDefinitions: dsl.TypeDefinitions{a1, a2, rec}}
	env, err := dsl.Validate([]*dsl.Namespace{ns})
	if err != nil {
		return c19aResult{}
	}
	var out *dsl.RecordDefinition
	for _, td := range env.Namespaces[0].TypeDefinitions {
		if r, ok := td.(*dsl.RecordDefinition); ok && r.Name == "Rec" {
			out = r
		}
	}
	if out == nil || len(out.ComputedFields) != 1 {
		return c19aResult{}
	}
	re := out.ComputedFields[0].Expression
	res := c19aResult{ok: true, tree: c19aTree(re), integralOK: c19aIntegralConsistent(re)}

	pyText := pytypes.VerifWriteComputedFieldExpression(re, "Ns")
	res.py, res.pyBad = c19aReadAll(c19aPython, c19aStatements(pyText, "return ", ""))
	if shape != 12 {
		// (the C++ / MATLAB statement forms of a switch name the operand type in declarations: only their Python
		// `return` expressions are read for that shape)
		cppText := cpptypes.VerifWriteComputedFieldExpression(re)
		// `static_cast<std::complex<float>>(e)`: since C++11 a `>>` inside a template argument list closes two lists
		cppText = strings.ReplaceAll(cppText, ">>(", "> >(")
		res.cpp, res.cppBad = c19aReadAll(c08xCpp, []string{strings.TrimSpace(cppText)})
		mText := mtypes.VerifWriteComputedFieldExpression(re, "Ns")
		res.m, res.mBad = c19aReadAll(c08xMatlab, c19aStatements(mText, "res = ", ";"))
	}
	return res
}

// C19AliasOperands(full): full = 0 quick vocabulary of P, 1 all thirteen numeric primitives.
func C19AliasOperands(full int) {
	prims := c19aPrimsQuick
	if full > 0 {
		prims = numericPrims
	}
	p := verifOneOf("prim", prims...)
	levels := 1 + verifChoose("alias-levels", 2)
	shape := verifChoose("shape", c19aShapes)
	op := dsl.BinaryOperator(verifChoose("op", 5))
	q := "float64"
	if shape == 6 || shape == 7 || shape == 9 {
		q = verifOneOf("second", c19aSecondPrims...)
	}
	verifOut("prim", p)
	verifOut("levels", levels)
	verifOut("shape", c19aShapeNames[shape])
	operand := "CountOne"
	if levels == 2 {
		operand = "CountTwo"
	}
	bare := c19aRun(p, p, q, shape, op)
	aliased := c19aRun(p, operand, q, shape, op)
	verifAssert("accept-reject-independent-of-alias-levels", bare.ok == aliased.ok)
	if !bare.ok || !aliased.ok {
		verifReach("c19a-rejected")
		return
	}
	verifOut("tree", aliased.tree)
	verifOut("python", aliased.py)
	verifAssert("resolved-tree-and-static-types-independent-of-alias-levels", bare.tree == aliased.tree)
	verifAssert("integral-classification-follows-the-resolved-primitive", bare.integralOK && aliased.integralOK)
	verifAssert("emitted-python-understood", bare.pyBad == "" && aliased.pyBad == "")
	verifAssert("python-operators-independent-of-alias-levels", bare.py == aliased.py)
	if shape != 12 {
		verifAssert("emitted-cpp-understood", bare.cppBad == "" && aliased.cppBad == "")
		verifAssert("cpp-expression-independent-of-alias-levels", bare.cpp == aliased.cpp)
		verifAssert("emitted-matlab-understood", bare.mBad == "" && aliased.mBad == "")
		verifAssert("matlab-expression-independent-of-alias-levels", bare.m == aliased.m)
	}
	verifReach("c19a-accepted")
}
