package zzverif

import (
	"bytes"
	"errors"
	"strings"

	"github.com/microsoft/yardl/tooling/internal/iocommon"

	"github.com/microsoft/yardl/tooling/internal/validation"
)

func symPos(label string) *int {
	if verifChoose(label+"-present", 2) == 0 {
		return nil
	}
	v := verifInt(label)
	verifAssume(v >= 1 && v <= 1000000) // yaml.v3 line/column numbers are 1-based
	return &v
}

func symDiag(i int) validation.ValidationError {
	l := string(rune('a' + i))
	return validation.ValidationError{
		Message: errors.New(verifOneOf("msg"+l, "m1", "m2")),
		File:    verifOneOf("file"+l, "a.yml", "b.yml"),
		Line:    symPos("line" + l),
		Column:  symPos("col" + l),
	}
}

func samePos(a, b *int) bool {
	if a == nil || b == nil {
		return a == nil && b == nil
	}
	return *a == *b
}

func perm3(k int) [3]int {
	return [6][3]int{{0, 1, 2}, {0, 2, 1}, {1, 0, 2}, {1, 2, 0}, {2, 0, 1}, {2, 1, 0}}[k]
}

// C12ErrorOrder: the rendered diagnostics do not depend on the order in which errors were recorded.
func C12ErrorOrder(n int) {
	ds := make([]validation.ValidationError, n)
	for i := range ds {
		ds[i] = symDiag(i)
	}
	s1 := &validation.ErrorSink{}
	for i := 0; i < n; i++ {
		s1.Add(ds[i])
	}
	s2 := &validation.ErrorSink{}
	if n == 2 {
		s2.Add(ds[1])
		s2.Add(ds[0])
	} else {
		p := perm3(1 + verifChoose("perm", 5))
		for _, j := range p {
			s2.Add(ds[j])
		}
	}
	r1 := s1.AsError().Error()
	s2.AsError()
	verifOut("r1", r1)
	// AsError sorts the sink in place and renders each record from (File, Line, Column, Message) only,
	// so the text is order-independent iff the sorted records agree field by field
	for i := 0; i < n; i++ {
		a, b := s1.Errors[i], s2.Errors[i]
		verifAssert("errors-order-independent", a.File == b.File && samePos(a.Line, b.Line) && samePos(a.Column, b.Column) && a.Message.Error() == b.Message.Error())
	}
	verifReach("c12-errors-end")
}

func C12WarningOrder(n int) {
	ds := make([]validation.ValidationWarning, n)
	for i := range ds {
		l := string(rune('a' + i))
		ds[i] = validation.ValidationWarning{
			Message: verifOneOf("msg"+l, "m1", "m2"),
			File:    verifOneOf("file"+l, "a.yml", "b.yml"),
			Line:    symPos("line" + l),
			Column:  symPos("col" + l),
		}
	}
	s1 := &validation.WarningSink{}
	s2 := &validation.WarningSink{}
	for i := 0; i < n; i++ {
		s1.Add(ds[i])
		s2.Add(ds[n-1-i])
	}
	a, b := s1.AsStrings(), s2.AsStrings()
	verifAssert("warnings-same-count", len(a) == len(b))
	for i := 0; i < n; i++ {
		x, y := s1.Warnings[i], s2.Warnings[i]
		verifAssert("warnings-order-independent", x.File == y.File && samePos(x.Line, y.Line) && samePos(x.Column, y.Column) && x.Message == y.Message)
	}
	verifReach("c12-warnings-end")
}

// C12WriteIfNeeded: regenerating identical content performs no write; different content is written exactly.
func C12WriteIfNeeded() {
	existing := verifChoose("file-exists", 2) == 1
	// contents: unconstrained symbolic strings, or strings from a small pool (with / without a final newline,
	// empty) for code that looks inside the contents
	var oldC, newC string
	if verifChoose("content-model", 2) == 0 {
		oldC, newC = verifStr("old"), verifStr("new")
	} else {
		// incl. contents differing only in line terminators, and contents that differ only after a line longer than 64 KiB
		long := strings.Repeat("x", 70000)
		pool := []string{"", "a", "a\n", "ab\n", "b", "a\n\n", "a\r\n", long + "\nA\n", long + "\nB\n"}
		// concrete choices (the long contents are not sent to the solver)
		oldC, newC = pool[verifChoose("old-from-pool", len(pool))], pool[verifChoose("new-from-pool", len(pool))]
	}
	if existing {
		verifFsPut("/out/gen.py", oldC)
	} else {
		verifFsPut("/out/other.txt", "x") // make sure the directory exists natively
	}
	var b bytes.Buffer
	b.WriteString(newC)
	err := iocommon.WriteFileIfNeeded(verifPath("/out/gen.py"), b.Bytes(), 0644)
	verifAssert("no-error", err == nil)
	wrote := false
	for _, e := range verifEnvLog() {
		if e == "write:/out/gen.py" {
			wrote = true
		}
	}
	if existing {
		verifAssert("untouched-iff-identical", wrote == (oldC != newC))
	} else {
		verifAssert("created-when-missing", wrote)
	}
	got, ok := verifFsGet("/out/gen.py")
	verifAssert("final-content", ok && got == newC)
	verifReach("c12-write-end")
}
