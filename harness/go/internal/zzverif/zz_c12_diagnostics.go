package zzverif

// C12: the diagnostics of an INVALID package (content and order) must not depend on Go map iteration
// order.  The real dsl.Validate runs on a model with many errors - several at the same source position,
// coming from validators that collect their findings in maps (enum symbols sharing a value, duplicate
// names, unknown types, duplicate steps / fields / union cases) - once with every map range in insertion
// order and once with one symbolically chosen map range iterating in another order: the rendered error
// text must be identical.  Natively a particular order cannot be selected, so the native twin confirms a
// reported dependence by repeating the run until Go's own randomised order shows a difference.

import (
	"math/big"
	"strings"

	"github.com/microsoft/yardl/tooling/pkg/dsl"
)

func c12InvalidModel(variant int) []*dsl.Namespace {
	b := &mb{file: "model.yml"}
	ns := "Main"
	// an enum with three groups of symbols that share an integer value: all reported at the enum's position
	e := b.enum(ns, "Kind", nil, "a", "b", "c", "d", "e", "f", "g")
	for i, v := range []int64{1, 1, 2, 2, 3, 3, 4} {
		e.Values[i].IntegerValue = *big.NewInt(v)
	}
	flags := b.enum(ns, "Perm", nil, "r", "w", "x", "y")
	flags.IsFlags = true
	for i, v := range []int64{1, 1, 2, 2} {
		flags.Values[i].IntegerValue = *big.NewInt(v)
	}
	rec := b.record(ns, "Rec", nil,
		b.field("p", b.st("NoSuchTypeA")), b.field("q", b.st("NoSuchTypeB")), b.field("p", b.st("int")), b.field("q", b.st("int")),
		b.field("u", b.gt(nil, b.st("int"), b.st("int"), b.st("string"), b.st("string"))))
	dup1 := b.record(ns, "Twice", nil, b.field("x", b.st("int")))
	dup2 := b.record(ns, "Twice", nil, b.field("y", b.st("int")))
	dup3 := b.alias(ns, "Again", nil, b.st("int"))
	dup4 := b.alias(ns, "Again", nil, b.st("string"))
	gen := b.record(ns, "Gen", []string{"T", "U", "T"}, b.field("t", b.st("T")))
	proto := b.protocol(ns, "P", b.step("s", b.st("Rec")), b.step("s", b.st("Kind")), b.step("t", b.st("Missing")), b.step("t", b.st("Gone")))
	n := &dsl.Namespace{Name: ns, IsTopLevel: true, TypeDefinitions: dsl.TypeDefinitions{e, flags, rec, dup1, dup2, dup3, dup4, gen}, Protocols: []*dsl.ProtocolDefinition{proto}}
	if variant == 1 {
		// the same kinds of errors in an imported namespace as well
		bl := &mb{file: "lib/lib.yml"}
		le := bl.enum("Lib", "Kind", nil, "a", "b", "c", "d")
		for i, v := range []int64{7, 7, 9, 9} {
			le.Values[i].IntegerValue = *big.NewInt(v)
		}
		lib := &dsl.Namespace{Name: "Lib", TypeDefinitions: dsl.TypeDefinitions{le, bl.record("Lib", "R", nil, bl.field("a", bl.st("Nope")), bl.field("b", bl.st("Nada")))}}
		n.References = []*dsl.Namespace{lib}
		return []*dsl.Namespace{lib, n}
	}
	return []*dsl.Namespace{n}
}

func c12Diagnostics(variant int, which int, permute bool) (text string, permuted, seen int) {
	if permute {
		verifSetMapOrder(-2 - which)
	}
	_, err := dsl.Validate(c12InvalidModel(variant))
	if permute {
		permuted = verifMapRangesPermuted()
		seen = verifMapRangesSeen()
	}
	verifSetMapOrder(0)
	if err != nil {
		text = err.Error()
	}
	return
}

// C12DiagnosticsMapOrder(variants, maxRanges): one map range of the validation passes (symbolic index
// below maxRanges, checked to cover every range executed) runs in a different order.
func C12DiagnosticsMapOrder(variants, maxRanges int) {
	variant := verifChoose("variant", variants)
	ref, _, _ := c12Diagnostics(variant, 0, false)
	verifAssert("invalid-model-is-rejected-with-several-errors", len(ref) > 0 && strings.Count(ref, "\n") >= 8)
	which := verifChoose("permuted-map-range", maxRanges)
	alt, permuted, seen := c12Diagnostics(variant, which, true)
	verifOut("map-ranges", seen)
	verifAssert("every-map-range-covered", seen <= maxRanges)
	if permuted == 0 {
		verifReach("c12-diagnostics-identity")
		return
	}
	same := ref == alt
	sameInt := 0
	if same {
		sameInt = 1
	}
	symbolicSame := verifRecord("same-diagnostics-under-chosen-order", sameInt) == 1
	if verifNative() {
		same = true
		for i := 0; i < 64 && same && !symbolicSame; i++ {
			again, _, _ := c12Diagnostics(variant, 0, false)
			same = again == ref
		}
	}
	verifAssert("diagnostics-independent-of-map-iteration-order", same)
	verifReach("c12-diagnostics-end")
}
