package zzverif

// C05 / C17 (C++ emitter level): definite assignment in the emitted evolution code.
//
// The C++ readers hand the generated code a destination that is REUSED (`while (r.ReadX(v))`, batch vectors whose
// elements survive `resize`, CopyTo, elements of a vector read again): whatever a reader method, a compatibility
// serializer or a conversion does not assign keeps the value of an earlier read.  docs/cpp/evolution.md promises a
// value converted from what was written or, where there is none (a null, another union case, a field / step the
// previous version does not have), the zero value.  So, reading the emitted statements back (zz_cppstmt.go) and
// running them on an abstract store in which every variable is
//
//     stale  (still what the caller's object held)   <   zero ( `= {}` / clear() )   <   set (from the wire / the source)
//
// with every data-dependent condition of the emitted code (has_value(), index() == k, the range guards, the block
// read succeeding) a symbolic input, the following must hold on every path that does not throw:
//
//   read-target-definitely-assigned      a reader method that reports a value leaves `value` / `values` non-stale, for
//                                        every version it can be asked to read (element-wise for batches)
//   compat-reader-assigns-every-field    a (compatibility) serializer reading into `value` leaves no member of the
//                                        destination record (resp. the aliased value) stale
//   written-value-definitely-assigned    whatever a writer passes to the stream was declared zero or assigned before
//   only-known-statement-forms           every emitted statement is one of the forms given a meaning below
//
// The model pairs come from the real dsl.Validate / ValidateEvolution: one change of every kind the analyser
// produces (evolution_changes.go: number<->number, complex, number<->string, scalar<->optional, scalar<->union,
// optional type changed, union<->optional, union type set changed, vector / stream type changed, definition changed,
// step added) in a symbolic context: the step itself, the element of a vector step, the item of a stream step, a field
// of a record that also gains / loses other fields (as a plain step and as the item of a stream), the target of an alias.

import (
	"strings"

	"github.com/microsoft/yardl/tooling/pkg/dsl"
)

const (
	c05aStale = iota
	c05aZero
	c05aSet
)

type c05aRun struct {
	w        *c05bWorld
	name     string // the function being run (labels of its symbolic conditions)
	write    bool
	version  string
	types    map[string]string
	st       map[string]int
	members  []string          // "value.m" keys when `value` is a record read / written member by member
	sized    map[string]string // vector -> the vector it was resized to; its elements are assigned by the loop over that vector
	stored   map[string]bool   // vector -> the running loop body has stored a non-stale element at [i]
	conds    map[string]bool
	okVar    bool // read_block_successful
	retKnown bool
	retVal   bool
	unknown  string
	staleOut []string // stream writes of a stale variable
}

func (r *c05aRun) fail(msg string) {
	if r.unknown == "" {
		r.unknown = r.name + ": " + msg
	}
}

// cond: a data-dependent condition of the emitted code is a symbolic input (the same text has the same value within one run).
func (r *c05aRun) cond(text string) bool {
	if v, ok := r.conds[text]; ok {
		return v
	}
	v := verifBool(c05aLabel(r.name + "-" + r.version + "-" + text))
	r.conds[text] = v
	return v
}

// c05aLabel: a condition's text as the name of its symbolic input.
func c05aLabel(s string) string {
	b := []byte(s)
	for i, c := range b {
		if !c05aIdentChar(c) {
			b[i] = '-'
		}
	}
	if len(b) > 60 {
		b = b[:60]
	}
	return string(b)
}

func c05aIdentChar(c byte) bool {
	return c == '_' || (c >= 'a' && c <= 'z') || (c >= 'A' && c <= 'Z') || (c >= '0' && c <= '9')
}

// mentioned: the tracked variables an expression reads (`value.m` as a unit; names after `.` or next to `::` are members / namespaces).
func (r *c05aRun) mentioned(e string) []string {
	var out []string
	for i := 0; i < len(e); {
		if !c05aIdentChar(e[i]) {
			i++
			continue
		}
		j := i
		for j < len(e) && c05aIdentChar(e[j]) {
			j++
		}
		tok := e[i:j]
		afterDot := i > 0 && (e[i-1] == '.' || e[i-1] == ':')
		beforeScope := j+1 < len(e) && e[j] == ':' && e[j+1] == ':'
		if !afterDot && !beforeScope {
			if tok == "value" && j < len(e) && e[j] == '.' {
				k := j + 1
				for k < len(e) && c05aIdentChar(e[k]) {
					k++
				}
				if _, ok := r.st["value."+e[j+1:k]]; ok {
					out = append(out, "value."+e[j+1:k])
					i = k
					continue
				}
			}
			if _, ok := r.st[tok]; ok {
				out = append(out, tok)
			} else if tok == "value" && len(r.members) > 0 {
				out = append(out, "value")
			}
		}
		i = j
	}
	return out
}

func (r *c05aRun) status(x string) int {
	if x == "value" && len(r.members) > 0 {
		s := c05aSet
		for _, m := range r.members {
			if r.st[m] < s {
				s = r.st[m]
			}
		}
		return s
	}
	return r.st[x]
}

func (r *c05aRun) assign(x string, s int) {
	if x == "value" && len(r.members) > 0 {
		for _, m := range r.members {
			r.st[m] = s
		}
		return
	}
	r.st[x] = s
	delete(r.sized, x)
}

// exprStatus: the zero literals, or the weakest status among the variables the expression reads.
func (r *c05aRun) exprStatus(e string) (int, bool) {
	switch e {
	case "{}", "std::monostate{}", "std::nullopt":
		return c05aZero, true
	}
	vars := r.mentioned(e)
	if len(vars) == 0 {
		return 0, false
	}
	s := c05aSet
	for _, v := range vars {
		if r.status(v) == c05aStale {
			s = c05aStale
		}
	}
	return s, true
}

// target: `x`, `value.m`, `x.value()` -> the tracked variable written through it.
func (r *c05aRun) target(lhs string) (string, bool) {
	if _, ok := r.st[lhs]; ok {
		return lhs, true
	}
	if lhs == "value" && len(r.members) > 0 {
		return lhs, true
	}
	return "", false
}

func (r *c05aRun) exec(ss []*cstmt) int {
	for _, s := range ss {
		if r.unknown != "" {
			return flowThrow
		}
		switch s.kind {
		case "if":
			var taken bool
			switch {
			case strings.HasPrefix(s.text, "constexpr "):
				const pre, suf = "constexpr yardl::binary::IsTriviallySerializable<", ">::value"
				if !strings.HasPrefix(s.text, pre) || !strings.HasSuffix(s.text, suf) {
					r.fail("compile-time condition: " + s.text)
					return flowThrow
				}
				taken = r.w.triv(r.w.parseType(s.text[len(pre) : len(s.text)-len(suf)]))
			case s.text == "read_block_successful":
				taken = r.okVar
			default:
				// a condition on the data: it may only read variables (never stale ones)
				vars := r.mentioned(s.text)
				if len(vars) == 0 {
					r.fail("condition: " + s.text)
					return flowThrow
				}
				for _, v := range vars {
					if r.status(v) == c05aStale {
						r.fail("condition reads a stale variable: " + s.text)
						return flowThrow
					}
				}
				taken = r.cond(s.text)
			}
			var f int
			if taken {
				f = r.exec(s.body)
			} else {
				f = r.exec(s.els)
			}
			if f != flowNext {
				return f
			}
		case "for":
			const pre, post = "size_t i = 0; i < ", ".size(); i++"
			if !strings.HasPrefix(s.text, pre) || !strings.HasSuffix(s.text, post) || !isIdent(s.text[len(pre):len(s.text)-len(post)]) {
				r.fail("loop: " + s.text)
				return flowThrow
			}
			over := s.text[len(pre) : len(s.text)-len(post)]
			if _, nested := r.st["i"]; nested {
				r.fail("nested element loop re-declares i")
				return flowThrow
			}
			r.st["i"] = c05aSet
			r.stored = map[string]bool{}
			f := r.exec(s.body) // the generic element
			delete(r.st, "i")
			delete(r.st, "item")
			if f != flowNext {
				return f
			}
			for v, src := range r.sized {
				if src == over && r.stored[v] && r.status(over) != c05aStale {
					r.st[v] = c05aSet
					delete(r.sized, v)
				}
			}
			r.stored = nil
		case "switch":
			if s.text == "version_" {
				start := -1
				for i, c := range s.cases {
					if c.label == "Version::"+r.version {
						start = i
					}
				}
				if start < 0 {
					for i, c := range s.cases {
						if c.label == "" {
							start = i
						}
					}
				}
				for i := start; i >= 0 && i < len(s.cases); i++ {
					f := r.exec(s.cases[i].body)
					if f == flowBreak {
						break
					}
					if f != flowNext {
						return f
					}
				}
				continue
			}
			// switch (x.index()): one symbolic case (or none of them: the default)
			if st, ok := r.exprStatus(s.text); !strings.HasSuffix(s.text, ".index()") || !ok || st == c05aStale {
				r.fail("switch on: " + s.text)
				return flowThrow
			}
			k := verifChoose(c05aLabel(r.name+"-"+r.version+"-"+s.text), len(s.cases))
			for i := k; i < len(s.cases); i++ {
				f := r.exec(s.cases[i].body)
				if f == flowBreak {
					break
				}
				if f != flowNext {
					return f
				}
			}
		case "try":
			// the handler re-throws: nothing continues after an exception
			if hf := (&c05aRun{w: r.w, name: r.name, st: map[string]int{}, types: map[string]string{}, sized: map[string]string{}, conds: map[string]bool{}}).exec(s.els); hf != flowThrow {
				r.fail("catch handler that does not throw")
				return flowThrow
			}
			if f := r.exec(s.body); f != flowNext {
				return f
			}
		default:
			if f := r.simple(s.text); f != flowNext {
				return f
			}
		}
	}
	return flowNext
}

func (r *c05aRun) simple(t string) int {
	streamArg := "(stream_, "
	if !strings.Contains(t, streamArg) {
		streamArg = "(stream, "
	}
	switch {
	case t == "break":
		return flowBreak
	case t == "return":
		return flowReturn
	case t == "return false":
		r.retKnown, r.retVal = true, false
		return flowReturn
	case t == "return true":
		r.retKnown, r.retVal = true, true
		return flowReturn
	case t == "return read_block_successful":
		r.retKnown, r.retVal = true, r.okVar
		return flowReturn
	case strings.HasPrefix(t, "return current_block_remaining_ "):
		return flowReturn
	case strings.HasPrefix(t, "throw "):
		return flowThrow
	case t == "bool read_block_successful = false":
		r.okVar = false
		return flowNext
	case t == "stream_.Flush()", t == "stream_.VerifyFinished()":
		return flowNext
	case strings.Contains(t, streamArg) && strings.HasSuffix(t, ")"):
		return r.call(t, streamArg)
	case strings.HasSuffix(t, ".clear()") && r.known(t[:len(t)-len(".clear()")]):
		r.assign(t[:len(t)-len(".clear()")], c05aZero)
		return flowNext
	case strings.HasSuffix(t, ".capacity())") && strings.Contains(t, ".reserve("):
		return flowNext
	case strings.HasSuffix(t, ".size())") && strings.Contains(t, ".resize("):
		k := strings.Index(t, ".resize(")
		x, y := t[:k], t[k+len(".resize("):len(t)-len(".size())")]
		if !r.known(x) || !r.known(y) {
			break
		}
		// the length now comes from y; elements that were there before keep their content until stored
		r.st[x] = c05aStale
		r.sized[x] = y
		return flowNext
	case strings.Contains(t, " = "):
		k := strings.Index(t, " = ")
		lhs, rhs := t[:k], t[k+3:]
		if sp := strings.LastIndex(lhs, " "); sp >= 0 {
			// a declaration `T x = init`
			name := lhs[sp+1:]
			if !isIdent(name) {
				break
			}
			if _, dup := r.st[name]; dup {
				r.fail("re-declaration of " + name)
				return flowThrow
			}
			r.types[name] = lhs[:sp]
			if rhs == "{}" {
				r.st[name] = c05aZero
			} else if strings.HasPrefix(rhs, "{") && strings.HasSuffix(rhs, "}") && len(r.mentioned(rhs)) == 0 {
				r.st[name] = c05aSet // a constant initialiser list
			} else {
				break
			}
			return flowNext
		}
		s, ok := r.exprStatus(rhs)
		if !ok {
			break
		}
		if strings.HasSuffix(lhs, "[i]") && r.known(lhs[:len(lhs)-3]) && r.stored != nil {
			if s != c05aStale {
				r.stored[lhs[:len(lhs)-3]] = true
			}
			return flowNext
		}
		x, ok := r.target(lhs)
		if !ok {
			break
		}
		r.assign(x, s)
		return flowNext
	}
	r.fail("statement: " + t)
	return flowThrow
}

func (r *c05aRun) known(x string) bool {
	_, ok := r.st[x]
	return ok
}

func (r *c05aRun) call(t, streamArg string) int {
	k := strings.Index(t, streamArg)
	callee, args := t[:k], t[k+len(streamArg):len(t)-1]
	blockRead := false
	if strings.HasPrefix(callee, "read_block_successful = ") {
		blockRead = true
		callee = callee[len("read_block_successful = "):]
	}
	fn, ok := parseExpr(callee)
	if !ok {
		r.fail("callee: " + callee)
		return flowThrow
	}
	const pre = "yardl::binary::"
	verb := "Read"
	if r.write {
		verb = "Write"
	}
	if fn.head == pre+"WriteInteger" && args == "0U" && r.write {
		return flowNext
	}
	x := args
	if strings.HasPrefix(args, "current_block_remaining_, ") && !r.write {
		x = args[len("current_block_remaining_, "):]
	}
	tx, okT := r.target(x)
	if !okT || !(strings.HasPrefix(fn.head, pre+verb) || strings.HasPrefix(fn.head, verb+"Union") || strings.Contains(fn.head, "::binary::"+verb)) {
		r.fail("call: " + t)
		return flowThrow
	}
	if r.write {
		if r.status(tx) == c05aStale {
			r.staleOut = append(r.staleOut, tx)
		}
		return flowNext
	}
	switch {
	case blockRead && fn.head == pre+"ReadBlock":
		// one item, if there is one: the kernel assigns the whole item (c17_cc_reuse); a (compatibility) serializer passed
		// as element function does so by compat-reader-assigns-every-field
		r.okVar = r.cond("the block read delivers an item")
		if r.okVar {
			r.assign(tx, c05aSet)
		}
	case blockRead:
		r.fail("call: " + t)
		return flowThrow
	default:
		r.assign(tx, c05aSet)
	}
	return flowNext
}

// c05aMethod: one protocol reader / writer method for one version_.
func c05aMethod(w *c05bWorld, f *cfunc, write, stream bool, version string) {
	r := &c05aRun{w: w, name: f.class + "::" + f.name, write: write, version: version, types: map[string]string{}, st: map[string]int{},
		sized: map[string]string{}, conds: map[string]bool{}}
	plural := strings.HasSuffix(f.params, " values")
	param := "value"
	if plural {
		param = "values"
		r.conds["!values.empty()"] = true // an empty batch writes nothing
	}
	r.types[param] = f.params
	if write {
		r.st[param] = c05aSet
	} else {
		r.st[param] = c05aStale
	}
	flow := r.exec(f.body)
	verifOut("unknown-form", r.unknown+f.bad)
	verifAssert("only-known-statement-forms", r.unknown == "" && f.bad == "")
	if r.unknown != "" || f.bad != "" || flow == flowThrow {
		return
	}
	if write {
		verifOut("stale-written", strings.Join(r.staleOut, ","))
		verifAssert("written-value-definitely-assigned", len(r.staleOut) == 0)
		return
	}
	reports := !stream || plural || (r.retKnown && r.retVal)
	if reports {
		verifAssert("read-target-definitely-assigned", r.status(param) != c05aStale)
	}
}

// c05aSerializer: one emitted serializer / compatibility serializer `void {Read,Write}X(stream, T [const]& value)`.
func c05aSerializer(w *c05bWorld, f *cfunc) {
	write := strings.HasPrefix(f.name, "Write")
	r := &c05aRun{w: w, name: f.name, write: write, version: "Current", types: map[string]string{}, st: map[string]int{},
		sized: map[string]string{}, conds: map[string]bool{}}
	vt, ok := c05bValueType(f)
	verifAssert("only-known-statement-forms", ok && f.bad == "")
	if !ok || f.bad != "" {
		verifOut("unknown-form", f.name+": "+f.params+f.bad)
		return
	}
	initial := c05aStale
	if write {
		initial = c05aSet
	}
	r.types["value"] = vt
	owner := w.resolve(w.parseType(vt))
	if st, isStruct := w.structs[owner.head]; isStruct && owner.open == "" && len(st.names) > 0 {
		for _, m := range st.names {
			r.members = append(r.members, "value."+m)
			r.st["value."+m] = initial
		}
	} else {
		r.st["value"] = initial
	}
	flow := r.exec(f.body)
	verifOut("unknown-form", r.unknown)
	verifAssert("only-known-statement-forms", r.unknown == "")
	if r.unknown != "" || flow == flowThrow {
		return
	}
	if write {
		verifOut("stale-written", strings.Join(r.staleOut, ","))
		verifAssert("written-value-definitely-assigned", len(r.staleOut) == 0)
		return
	}
	var stale []string
	for _, m := range r.members {
		if r.st[m] == c05aStale {
			stale = append(stale, m)
		}
	}
	if len(r.members) == 0 && r.st["value"] == c05aStale {
		stale = append(stale, "value")
	}
	verifOut("left-stale", f.name+": "+strings.Join(stale, ","))
	verifAssert("compat-reader-assigns-every-field", len(stale) == 0)
}

// ---- the model family -------------------------------------------------------------------------------------------

var c05aChangeNames = []string{"int32->int64", "int64->int32", "float64->int32", "complexfloat64->complexfloat32", "int32->string", "string->int32",
	"int32->int32?", "int32?->int32", "int32->[string,int32]", "[string,int32]->int32", "int32?->int64?", "[null,int32,string]->int32?",
	"int32?->[null,int32,string]", "[int32,string]->[int32,string,bool]", "[int32,string,bool]->[string,int32]", "int32?->string?", "unchanged"}

var c05aContextNames = []string{"step", "vector-element", "stream-item", "record-field", "record-field-of-stream-item", "alias-target"}

// c05aCases: the cases of the changed type in the previous (old) / current model (nil = the null case).
func c05aCases(b *mb, k int, old bool) []dsl.Type {
	t := func(names ...string) []dsl.Type {
		out := make([]dsl.Type, len(names))
		for i, n := range names {
			if n != "" {
				out[i] = b.st(n)
			}
		}
		return out
	}
	pick := func(o, n []dsl.Type) []dsl.Type {
		if old {
			return o
		}
		return n
	}
	switch k {
	case 0:
		return pick(t("int32"), t("int64"))
	case 1:
		return pick(t("int64"), t("int32"))
	case 2:
		return pick(t("float64"), t("int32"))
	case 3:
		return pick(t("complexfloat64"), t("complexfloat32"))
	case 4:
		return pick(t("int32"), t("string"))
	case 5:
		return pick(t("string"), t("int32"))
	case 6:
		return pick(t("int32"), t("", "int32"))
	case 7:
		return pick(t("", "int32"), t("int32"))
	case 8:
		return pick(t("int32"), t("string", "int32"))
	case 9:
		return pick(t("string", "int32"), t("int32"))
	case 10:
		return pick(t("", "int32"), t("", "int64"))
	case 11:
		return pick(t("", "int32", "string"), t("", "int32"))
	case 12:
		return pick(t("", "int32"), t("", "int32", "string"))
	case 13:
		return pick(t("int32", "string"), t("int32", "string", "bool"))
	case 14:
		return pick(t("int32", "string", "bool"), t("string", "int32"))
	case 15:
		return pick(t("", "int32"), t("", "string"))
	}
	return t("int32")
}

func c05aType(b *mb, dim dsl.Dimensionality, cases []dsl.Type) dsl.Type {
	if dim == nil && len(cases) == 1 {
		return cases[0]
	}
	return b.gt(dim, cases...)
}

// c05aModel: protocol P { s: <context of the changed type>, and only in the current model t: int32?, u: stream of int32 }.
func c05aModel(file string, old bool, k, ctx int, fieldAdded, fieldRemoved bool) *dsl.Namespace {
	b := &mb{file: file}
	var defs dsl.TypeDefinitions
	cases := c05aCases(b, k, old)
	var t dsl.Type
	switch ctx {
	case 0:
		t = c05aType(b, nil, cases)
	case 1:
		t = c05aType(b, &dsl.Vector{NodeMeta: b.meta()}, cases)
	case 2:
		t = c05aType(b, &dsl.Stream{NodeMeta: b.meta()}, cases)
	case 5:
		defs = append(defs, b.alias(NS, "Ali", nil, c05aType(b, nil, cases)))
		t = b.st("Ali")
	default:
		fields := []*dsl.Field{b.field("f", c05aType(b, nil, cases))}
		if old && fieldRemoved {
			fields = append(fields, b.field("h", b.st("string")))
		}
		if !old && fieldAdded {
			fields = append(fields, b.field("g", b.st("int32")), b.field("o", b.opt(b.st("string"))))
		}
		defs = append(defs, b.record(NS, "Rec", nil, fields...))
		t = b.st("Rec")
		if ctx == 4 {
			t = b.strm(b.st("Rec"))
		}
	}
	steps := []*dsl.ProtocolStep{b.step("s", t)}
	if !old {
		// a step can be added if its type has an empty state (docs: optional, vector, map, stream)
		steps = append(steps, b.step("t", b.opt(b.st("int32"))), b.step("u", b.strm(b.st("int32"))))
	}
	return &dsl.Namespace{Name: NS, IsTopLevel: true, TypeDefinitions: defs,
		Protocols: []*dsl.ProtocolDefinition{b.protocol(NS, "P", steps...)}}
}

// C05DefiniteAssignment(nkinds, nctx, full): the first nkinds change kinds (+ "unchanged"), the first nctx contexts; full = 0: the
// record of the record contexts gains and loses its other fields together, 1: independently.
func C05DefiniteAssignment(nkinds, nctx, full int) {
	k := verifChoose("change", nkinds+1)
	if k == nkinds {
		k = len(c05aChangeNames) - 1
	}
	ctx := verifChoose("context", nctx)
	fieldAdded, fieldRemoved := false, false
	if ctx == 3 || ctx == 4 {
		fieldAdded = verifChoose("other-fields-added", 2) == 1
		fieldRemoved = fieldAdded
		if full == 1 {
			fieldRemoved = verifChoose("another-field-removed", 2) == 1
		}
	}
	verifOut("change", c05aChangeNames[k])
	verifOut("context", c05aContextNames[ctx])
	verifOut("another-field-added", fieldAdded)
	verifOut("another-field-removed", fieldRemoved)
	cur, err := dsl.Validate([]*dsl.Namespace{c05aModel("model.yml", false, k, ctx, fieldAdded, fieldRemoved)})
	verifAssert("models-validate", err == nil)
	if err != nil {
		verifOut("err", errText(err))
		return
	}
	old, err := dsl.Validate([]*dsl.Namespace{c05aModel("v0/model.yml", true, k, ctx, fieldAdded, fieldRemoved)})
	verifAssert("models-validate", err == nil)
	if err != nil {
		verifOut("err", errText(err))
		return
	}
	var everr error
	msg, panicked := verifPanics(func() { _, _, everr = dsl.ValidateEvolution(cur, []*dsl.Environment{old}, []string{"v0"}) })
	verifOut("panic", msg)
	verifAssert("documented-compatible-changes-accepted", !panicked && everr == nil)
	if panicked || everr != nil {
		verifOut("err", errText(everr))
		return
	}
	var w *c05bWorld
	msg, panicked = verifPanics(func() { w = c05bReadWorld(cur) })
	verifOut("panic", msg)
	verifAssert("emitters-total", !panicked)
	if panicked {
		return
	}
	verifOut("unknown-form", w.bad)
	verifAssert("only-known-statement-forms", w.bad == "")
	if w.bad != "" {
		return
	}
	// the functions to run: every emitted serializer / compatibility serializer, every writer / reader method for the previous
	// version (and for Current in the unchanged model).  One of them per path (a symbolic choice), so that the symbolic
	// conditions of different functions do not multiply.
	p := cur.Namespaces[0].Protocols[0]
	type c05aJob struct {
		f       *cfunc
		version string // "" = a serializer
		stream  bool
	}
	var jobs []c05aJob
	for _, f := range w.funcs {
		switch {
		case f.class == "" && (strings.HasPrefix(f.name, "Read") || strings.HasPrefix(f.name, "Write")):
			jobs = append(jobs, c05aJob{f: f})
		case f.class == "PWriter" || f.class == "PReader":
			if !strings.HasSuffix(f.name, "Impl") || f.name == "CloseImpl" {
				continue
			}
			var step *dsl.ProtocolStep
			for _, st := range p.Sequence {
				pascal := strings.ToUpper(st.Name[:1]) + st.Name[1:]
				if f.name == "Write"+pascal+"Impl" || f.name == "Read"+pascal+"Impl" || f.name == "End"+pascal+"Impl" {
					step = st
				}
			}
			verifAssert("only-known-statement-forms", step != nil)
			if step == nil {
				verifOut("unknown-form", "method "+f.name)
				continue
			}
			jobs = append(jobs, c05aJob{f, "v0", isStreamType(step.Type)})
			if k == len(c05aChangeNames)-1 {
				jobs = append(jobs, c05aJob{f, "Current", isStreamType(step.Type)})
			}
		}
	}
	j := jobs[verifChoose("function", len(jobs))]
	verifOut("function", j.f.class+"::"+j.f.name+"("+j.f.params+") "+j.version)
	if j.version == "" {
		c05aSerializer(w, j.f)
	} else {
		c05aMethod(w, j.f, j.f.class == "PWriter", j.stream, j.version)
	}
	verifReach("c05a-end")
}
