package zzverif

// C02 (C++ emitter level): the NDJSON to_json / from_json bodies emitted by
// cpp/ndjson.writeFlagsConverters / writeEnumConverters (+ the symbol table of writeEnumValuesMap),
// read back into statements (zz_cppstmt.go) and evaluated on a symbolic underlying value v, must
// denote the documented mapping (docs/reference/ndjson.md):
//
//   enum    the symbol string when v is a defined value, otherwise the integer v
//   flags   an array of symbols of flags that are set in v whose union is v, or -- when v is outside
//           the defined values -- the underlying integer v itself
//   both    from_json(to_json(v)) == v without an error
//
// Interpretation of what the bodies call (tooling/internal/cpp/include/yardl.h.tmpl BaseFlags,
// nlohmann::json): x.HasFlags(f) = (x & f) == f; x.UnsetFlags(f): x &= ~f; x.Value() = x;
// x == 0; value |= f; j = <array | string literal | integer expression>; j.is_number()/is_string();
// j.get<underlying_type>() the integer held; std::vector<std::string> arr = j the array held;
// TABLE.find(s) the entry of the emitted symbol table.  An enumerator `ns::T::kX` denotes the
// integer value the definition gives the symbol x (the types emitter names enumerators k<PascalCase>).

import (
	"fmt"
	"math/big"
	"strings"

	cppndjson "github.com/microsoft/yardl/tooling/internal/cpp/ndjson"
	"github.com/microsoft/yardl/tooling/pkg/dsl"
)

type jval struct {
	kind string // "", "array", "int", "string"
	n    uint64
	arr  []string
	s    string
}

type jsonRun struct {
	mask     uint64
	vals     map[string]uint64 // enumerator as emitted (ns::T::x) -> value bits
	table    map[string]string // symbol -> enumerator, as read from the emitted table
	tabName  string
	ints     map[string]uint64 // value, remaining
	strs     map[string]string // item, symbol
	res      string            // enumerator found by the last successful find
	arr      []string
	j        jval
	threw    bool
	returned bool
	unknown  string
}

const flowContinue = 100

func (r *jsonRun) enumerator(e string) (uint64, bool) {
	v, ok := r.vals[e]
	if !ok {
		r.unknown = "enumerator: " + e
	}
	return v, ok
}

func cgBetween(s, pre, post string) (string, bool) {
	if strings.HasPrefix(s, pre) && strings.HasSuffix(s, post) && len(s) >= len(pre)+len(post) {
		return s[len(pre) : len(s)-len(post)], true
	}
	return "", false
}

func (r *jsonRun) cond(c string) (bool, bool) {
	if c == "j.is_number()" {
		return r.j.kind == "int", true
	}
	if c == "j.is_string()" {
		return r.j.kind == "string", true
	}
	if c == "j.is_array()" {
		return r.j.kind == "array", true
	}
	if x, ok := cgBetween(c, "", " == 0"); ok {
		if v, ok := r.ints[x]; ok {
			return v == 0, true
		}
	}
	if x, ok := cgBetween(c, "", " != 0"); ok {
		if v, ok := r.ints[x]; ok {
			return v != 0, true
		}
	}
	if k := strings.Index(c, ".HasFlags("); k > 0 && strings.HasSuffix(c, ")") {
		if v, ok := r.ints[c[:k]]; ok {
			if f, ok := r.enumerator(c[k+len(".HasFlags(") : len(c)-1]); ok {
				return v&f == f, true
			}
		}
	}
	// if (auto res = TABLE.find(key); res != TABLE.end())
	if rest, ok := cgBetween(c, "auto res = "+r.tabName+".find(", "); res != "+r.tabName+".end()"); ok {
		if key, ok := r.strs[rest]; ok {
			e, found := r.table[key]
			if found {
				r.res = e
			}
			return found, true
		}
	}
	return false, false
}

func (r *jsonRun) exec(ss []*cstmt) int {
	for _, s := range ss {
		if r.unknown != "" {
			return flowThrow
		}
		f := flowNext
		switch s.kind {
		case "if":
			v, known := r.cond(s.text)
			if !known {
				if r.unknown == "" {
					r.unknown = "condition: " + s.text
				}
				return flowThrow
			}
			if v {
				f = r.exec(s.body)
			} else {
				f = r.exec(s.els)
			}
		case "for":
			if s.text != "auto const& item : arr" {
				r.unknown = "loop: " + s.text
				return flowThrow
			}
			for _, it := range r.arr {
				r.strs["item"] = it
				f = r.exec(s.body)
				if f == flowContinue {
					f = flowNext
				}
				if f == flowBreak {
					f = flowNext
					break
				}
				if f != flowNext {
					break
				}
			}
		case "switch":
			v, ok := r.ints[s.text]
			if !ok {
				r.unknown = "switch on: " + s.text
				return flowThrow
			}
			start := -1
			for i, c := range s.cases {
				if c.label == "" {
					continue
				}
				e, ok := r.enumerator(c.label)
				if !ok {
					return flowThrow
				}
				if start < 0 && v == e {
					start = i
				}
			}
			if start < 0 {
				for i, c := range s.cases {
					if c.label == "" {
						start = i
					}
				}
			}
			for i := start; i >= 0 && i < len(s.cases); i++ {
				f = r.exec(s.cases[i].body)
				if f == flowBreak {
					f = flowNext
					break
				}
				if f != flowNext {
					break
				}
			}
		default:
			f = r.simple(s.text)
		}
		if f != flowNext {
			return f
		}
	}
	return flowNext
}

func (r *jsonRun) simple(t string) int {
	switch {
	case t == "return":
		r.returned = true
		return flowReturn
	case t == "break":
		return flowBreak
	case t == "continue":
		return flowContinue
	case strings.HasPrefix(t, "throw "):
		r.threw = true
		return flowThrow
	case strings.HasPrefix(t, "using underlying_type = "):
		return flowNext
	case t == "auto arr = ordered_json::array()":
		r.arr = []string{}
		return flowNext
	case t == "std::vector<std::string> arr = j":
		if r.j.kind != "array" {
			r.threw = true // nlohmann::json raises a type error
			return flowThrow
		}
		r.arr = append([]string{}, r.j.arr...)
		return flowNext
	case t == "j = arr":
		r.j = jval{kind: "array", arr: append([]string{}, r.arr...)}
		return flowNext
	case t == "auto symbol = j.get<std::string>()":
		if r.j.kind != "string" {
			r.threw = true
			return flowThrow
		}
		r.strs["symbol"] = r.j.s
		return flowNext
	case t == "value = {}":
		r.ints["value"] = 0
		return flowNext
	case t == "value |= res->second" && r.res != "":
		f, _ := r.enumerator(r.res)
		r.ints["value"] |= f
		return flowNext
	case t == "value = res->second" && r.res != "":
		f, _ := r.enumerator(r.res)
		r.ints["value"] = f
		return flowNext
	}
	if s, ok := cgBetween(t, "arr.push_back(\"", "\")"); ok {
		r.arr = append(r.arr, s)
		return flowNext
	}
	if s, ok := cgBetween(t, "j = \"", "\""); ok {
		r.j = jval{kind: "string", s: s}
		return flowNext
	}
	if x, ok := cgBetween(t, "j = ", ".Value()"); ok {
		if v, ok := r.ints[x]; ok {
			r.j = jval{kind: "int", n: v}
			return flowNext
		}
	}
	if x, ok := cgBetween(t, "j = static_cast<underlying_type>(", ")"); ok {
		if v, ok := r.ints[x]; ok {
			r.j = jval{kind: "int", n: v}
			return flowNext
		}
	}
	if x, ok := cgBetween(t, "auto remaining = ", ""); ok {
		if v, ok := r.ints[x]; ok {
			r.ints["remaining"] = v
			return flowNext
		}
	}
	if k := strings.Index(t, ".UnsetFlags("); k > 0 && strings.HasSuffix(t, ")") {
		if v, ok := r.ints[t[:k]]; ok {
			if f, ok := r.enumerator(t[k+len(".UnsetFlags(") : len(t)-1]); ok {
				r.ints[t[:k]] = v &^ f & r.mask
				return flowNext
			}
		}
	}
	if t == "value = j.get<underlying_type>()" || (strings.HasPrefix(t, "value = static_cast<") && strings.HasSuffix(t, ">(j.get<underlying_type>())")) {
		if r.j.kind != "int" {
			r.threw = true
			return flowThrow
		}
		r.ints["value"] = r.j.n & r.mask
		return flowNext
	}
	if r.unknown == "" {
		r.unknown = "statement: " + t
	}
	return flowThrow
}

// readSymbolTable: `std::unordered_map<std::string, T> const NAME = {` / `{"sym", enumerator},` / `};`
func readSymbolTable(text string) (name string, table map[string]string, order []string) {
	table = map[string]string{}
	for _, l := range strings.Split(text, "\n") {
		l = strings.TrimSpace(l)
		if strings.HasPrefix(l, "std::unordered_map<std::string, ") && strings.HasSuffix(l, " = {") {
			h := l[:len(l)-len(" = {")]
			name = h[strings.LastIndex(h, " ")+1:]
		}
		if body, ok := cgBetween(l, "{\"", "},"); ok {
			if k := strings.Index(body, "\", "); k >= 0 {
				table[body[:k]] = body[k+3:]
				order = append(order, body[:k])
			}
		}
	}
	return
}

var c02Bases = []string{"", "uint8", "uint64", "int64"}

func baseMask(base string) uint64 {
	switch base {
	case "uint8":
		return 0xff
	case "":
		return 0xffffffff
	}
	return ^uint64(0)
}

type enumModel struct {
	def   *dsl.EnumDefinition
	syms  []string
	bits  []uint64 // value bit patterns, masked to the base width
	mask  uint64
	fs    []*cfunc
	r     func() *jsonRun
	cname string
}

// buildEnum: validate a namespace holding the definition (yardl must accept it), emit and read back its converters.
func buildEnum(isFlags bool, base string, values []int64) *enumModel {
	b := &mb{file: "model.yml"}
	var bt dsl.Type
	if base != "" {
		bt = b.st(base)
	}
	syms := []string{"a", "b", "c", "d"}[:len(values)]
	e := b.enum(NS, "T", bt, syms...)
	e.IsFlags = isFlags
	for i, v := range values {
		e.Values[i].IntegerValue = *big.NewInt(v)
	}
	ns := &dsl.Namespace{Name: NS, IsTopLevel: true, TypeDefinitions: dsl.TypeDefinitions{e},
		Protocols: []*dsl.ProtocolDefinition{b.protocol(NS, "P", b.step("s", b.st("T")))}}
	env, err := dsl.Validate([]*dsl.Namespace{ns})
	if err != nil {
		return nil
	}
	def := env.Namespaces[0].TypeDefinitions[0].(*dsl.EnumDefinition)
	text := cppndjson.VerifWriteEnumConverters(def)
	m := &enumModel{def: def, syms: syms, mask: baseMask(base), fs: parseCppFuncs(text), cname: "ns::T"}
	for _, v := range values {
		m.bits = append(m.bits, uint64(v)&m.mask)
	}
	tabName, table, _ := readSymbolTable(text)
	m.r = func() *jsonRun {
		r := &jsonRun{mask: m.mask, vals: map[string]uint64{}, table: table, tabName: tabName, ints: map[string]uint64{}, strs: map[string]string{}}
		for i, s := range syms {
			r.vals[m.cname+"::k"+strings.ToUpper(s[:1])+s[1:]] = m.bits[i] // generated C++ enumerators are k<PascalCase symbol>
		}
		return r
	}
	return m
}

func (m *enumModel) fn(name string) *cfunc {
	for _, f := range m.fs {
		if f.name == name {
			return f
		}
	}
	return nil
}

func (m *enumModel) symIndex(s string) int {
	for i, x := range m.syms {
		if x == s {
			return i
		}
	}
	return -1
}

// toFrom runs the emitted to_json on v, then the emitted from_json on the result.
func (m *enumModel) toFrom(v uint64) (j jval, back uint64, ok bool) {
	tj, fj := m.fn("to_json"), m.fn("from_json")
	verifAssert("converters-emitted", tj != nil && fj != nil && tj.bad == "" && fj.bad == "")
	if tj == nil || fj == nil || tj.bad != "" || fj.bad != "" {
		return
	}
	r := m.r()
	r.ints["value"] = v
	r.exec(tj.body)
	verifOut("unknown-form", r.unknown)
	verifAssert("only-known-statement-forms", r.unknown == "")
	if r.unknown != "" {
		return
	}
	verifAssert("to-json-produces-a-value-without-error", !r.threw && r.j.kind != "")
	if r.threw || r.j.kind == "" {
		return
	}
	j = r.j
	r2 := m.r()
	r2.j = j
	r2.exec(fj.body)
	verifOut("unknown-form", r2.unknown)
	verifAssert("only-known-statement-forms", r2.unknown == "")
	if r2.unknown != "" {
		return
	}
	verifAssert("from-json-accepts-what-to-json-wrote", !r2.threw)
	if r2.threw {
		return
	}
	back, hasValue := r2.ints["value"]
	verifAssert("round-trip", hasValue && back == v)
	return j, back, true
}

var c02FlagVocab = []int64{1, 2, 0, 3, 6, 128, 4, 5}

func chooseDistinct(label string, n int, vocab []int64) []int64 {
	var out []int64
	used := make([]bool, len(vocab))
	for i := 0; i < n; i++ {
		k := verifChoose(fmt.Sprintf("%s%d", label, i), len(vocab)-i)
		for j := range vocab {
			if used[j] {
				continue
			}
			if k == 0 {
				used[j] = true
				out = append(out, vocab[j])
				break
			}
			k--
		}
	}
	return out
}

// C02CppFlags(nFlags, vocab, bases): a flags definition with nFlags symbols whose values are distinct
// members (symbolic choice, in any order: zero-valued and overlapping flags included) of the first
// `vocab` entries of c02FlagVocab, over one of the first `bases` base types; v is any value of the base type.
func C02CppFlags(nFlags, vocab, bases int) {
	base := c02Bases[verifChoose("base", bases)]
	values := chooseDistinct("flag", nFlags, c02FlagVocab[:vocab])
	verifOut("flags", fmt.Sprint(values))
	m := buildEnum(true, base, values)
	if m == nil {
		verifReach("c02-cpp-flags-rejected-definition")
		return
	}
	v := verifUint64("value") & m.mask
	j, _, ok := m.toFrom(v)
	if !ok {
		return
	}
	disjoint := true
	for i, f := range m.bits {
		if f == 0 {
			continue
		}
		for k := 0; k < i; k++ {
			if m.bits[k]&f != 0 {
				disjoint = false
			}
		}
	}
	switch j.kind {
	case "int":
		verifAssert("integer-form-is-the-underlying-value", j.n == v)
		if disjoint {
			// flags without shared bits: every combination of defined flags (v is the union of the
			// defined flags it contains) has the array form
			var contained uint64
			for _, f := range m.bits {
				if v&f == f {
					contained |= f
				}
			}
			verifAssert("combination-of-defined-flags-is-an-array", contained != v)
		}
	case "array":
		var union uint64
		distinct := true
		for i, s := range j.arr {
			k := m.symIndex(s)
			verifAssert("array-lists-defined-symbols", k >= 0)
			if k < 0 {
				return
			}
			verifAssert("array-lists-flags-that-are-set", v&m.bits[k] == m.bits[k])
			union |= m.bits[k]
			for q := 0; q < i; q++ {
				if j.arr[q] == s {
					distinct = false
				}
			}
		}
		verifAssert("array-lists-each-symbol-once", distinct)
		verifAssert("array-covers-the-whole-value", union == v) // in particular: a value with an undefined bit is never an array
	default:
		verifAssert("flags-json-is-array-or-integer", false)
	}
	// from_json of a bare integer is that integer (what another writer's integer form means)
	k := verifUint64("integer-read") & m.mask
	r := m.r()
	r.j = jval{kind: "int", n: k}
	r.exec(m.fn("from_json").body)
	verifAssert("from-json-integer-is-the-value", r.unknown == "" && !r.threw && r.ints["value"] == k)
	verifReach("c02-cpp-flags-end")
}

var c02EnumVocab = []int64{0, 1, 5, -1, 127, 2}

// C02CppEnum(nValues, vocab, bases): same for a plain enum.
func C02CppEnum(nValues, vocab, bases int) {
	base := c02Bases[verifChoose("base", bases)]
	values := chooseDistinct("val", nValues, c02EnumVocab[:vocab])
	verifOut("values", fmt.Sprint(values))
	m := buildEnum(false, base, values)
	if m == nil {
		verifReach("c02-cpp-enum-rejected-definition") // e.g. -1 with an unsigned base
		return
	}
	v := verifUint64("value") & m.mask
	j, _, ok := m.toFrom(v)
	if !ok {
		return
	}
	defined := -1
	for i, b := range m.bits {
		if v == b {
			defined = i
		}
	}
	if defined >= 0 {
		verifAssert("defined-value-is-its-symbol", j.kind == "string" && j.s == m.syms[defined])
	} else {
		verifAssert("undefined-value-is-the-integer", j.kind == "int" && j.n == v)
	}
	// from_json of each symbol string / of a bare integer
	for i, s := range m.syms {
		r := m.r()
		r.j = jval{kind: "string", s: s}
		r.exec(m.fn("from_json").body)
		verifAssert("from-json-symbol-is-its-value", r.unknown == "" && !r.threw && r.ints["value"] == m.bits[i])
	}
	k := verifUint64("integer-read") & m.mask
	r := m.r()
	r.j = jval{kind: "int", n: k}
	r.exec(m.fn("from_json").body)
	verifAssert("from-json-integer-is-the-value", r.unknown == "" && !r.threw && r.ints["value"] == k)
	verifReach("c02-cpp-enum-end")
}
