package zzverif

import (
	"strings"

	cppndjson "github.com/microsoft/yardl/tooling/internal/cpp/ndjson"
	pyndjson "github.com/microsoft/yardl/tooling/internal/python/ndjson"
	"github.com/microsoft/yardl/tooling/pkg/dsl"
)

// JSON kinds a value of type t can be written as, per docs/reference/ndjson.md
// (bit set: 1 null, 2 bool, 4 number, 8 string, 16 array, 32 object).
const (
	kNull = 1 << iota
	kBool
	kNum
	kStr
	kArr
	kObj
)

func specKinds(t dsl.Type) int {
	switch t := t.(type) {
	case nil:
		return kNull
	case *dsl.SimpleType:
		switch d := t.ResolvedDefinition.(type) {
		case dsl.PrimitiveDefinition:
			switch string(d) {
			case "bool":
				return kBool
			case "string", "date", "time", "datetime":
				return kStr
			case "complexfloat32", "complexfloat64":
				return kArr
			default:
				return kNum
			}
		case *dsl.EnumDefinition:
			if d.IsFlags {
				return kArr | kNum // array of symbols, or the integer when bits outside the defined values are set
			}
			return kStr | kNum // symbol, or the integer when outside the defined values
		case *dsl.RecordDefinition:
			return kObj
		case *dsl.NamedType:
			return specKinds(d.Type)
		}
	case *dsl.GeneralizedType:
		switch d := t.Dimensionality.(type) {
		case nil, *dsl.Stream:
			if len(t.Cases) == 1 {
				return specKinds(t.Cases[0].Type)
			}
			// a union as a case (through an alias): "Unions are serialized as a JSON object with a single field ... simplified
			// when the JSON types of the cases are distinct" - written untagged it looks like any of its cases, written tagged
			// it is an object (the null case: null)
			k, disjoint := 0, true
			for _, c := range t.Cases {
				ck := specKinds(c.Type)
				if ck&k != 0 {
					disjoint = false
				}
				k |= ck
			}
			if disjoint {
				return k
			}
			if k&kNull != 0 {
				return kObj | kNull
			}
			return kObj
		case *dsl.Vector:
			return kArr
		case *dsl.Array:
			if d.IsFixed() {
				return kArr
			}
			return kObj
		case *dsl.Map:
			// "Maps where the key is a string are written as a JSON object. Other maps are written as an
			// array of arrays" (ndjson.md): only the yardl string primitive (possibly behind aliases) -
			// date/time/datetime keys are JSON strings too, but such maps are arrays of pairs
			// (the Python runtime's MapConverter is checked against this by pysym h_json_kinds).
			key := d.KeyType
			for {
				st, ok := key.(*dsl.SimpleType)
				if !ok {
					break
				}
				if nt, ok := st.ResolvedDefinition.(*dsl.NamedType); ok {
					key = nt.Type
					continue
				}
				if p, ok := st.ResolvedDefinition.(dsl.PrimitiveDefinition); ok && string(p) == "string" {
					return kObj
				}
				break
			}
			return kArr
		}
	}
	return 63
}

func kindNames(k int) string {
	names := []string{"null", "bool", "number", "string", "array", "object"}
	var out []string
	for i, n := range names {
		if k&(1<<i) != 0 {
			out = append(out, n)
		}
	}
	return strings.Join(out, "+")
}

// one union case: scalar leaf (all primitives / enum / flags / record / alias) or a container over a small leaf
func (g *gen) anyUnionCase(small bool) dsl.Type {
	if small {
		switch verifChoose(g.label("casekind"), 5) {
		case 0:
			return primType(verifOneOf(g.label("prim"), "int32", "string", "float32", "bool"))
		case 1:
			r := &dsl.RecordDefinition{DefinitionMeta: g.meta(g.label("R")), Fields: dsl.Fields{&dsl.Field{Name: "f0", Type: primType("int32")}}}
			return ref(r)
		case 2:
			return &dsl.GeneralizedType{Cases: dsl.TypeCases{&dsl.TypeCase{Type: g.smallPrim()}}, Dimensionality: &dsl.Vector{}}
		case 3:
			key := primType(verifOneOf(g.label("key"), "string", "int32", "date"))
			return &dsl.GeneralizedType{Cases: dsl.TypeCases{&dsl.TypeCase{Type: primType("int32")}}, Dimensionality: &dsl.Map{KeyType: key}}
		default:
			e := &dsl.EnumDefinition{DefinitionMeta: g.meta(g.label("E"))}
			return ref(e)
		}
	}
	switch verifChoose(g.label("casekind"), 11) {
	case 9:
		// an alias of a union (a union is a valid case only through an alias): ambiguous inside (written tagged) or not
		second := "float32"
		if verifChoose(g.label("inner-union-disjoint"), 2) == 1 {
			second = "string"
		}
		inner := &dsl.GeneralizedType{Cases: dsl.TypeCases{&dsl.TypeCase{Tag: "int32", Type: primType("int32")}, &dsl.TypeCase{Tag: second, Type: primType(second)}}}
		return ref(&dsl.NamedType{DefinitionMeta: g.meta(g.label("U")), Type: inner})
	case 10:
		// a one-element YAML sequence around a vector (`["int*"]`): a single-case wrapper around the vector
		vec := &dsl.GeneralizedType{Cases: dsl.TypeCases{&dsl.TypeCase{Type: g.smallPrim()}}, Dimensionality: &dsl.Vector{}}
		return &dsl.GeneralizedType{Cases: dsl.TypeCases{&dsl.TypeCase{Type: vec}}}
	case 0:
		return primType(verifOneOf(g.label("prim"), allPrims...))
	case 1:
		e := &dsl.EnumDefinition{DefinitionMeta: g.meta(g.label("E"))}
		return ref(e)
	case 2:
		e := &dsl.EnumDefinition{DefinitionMeta: g.meta(g.label("F")), IsFlags: true}
		return ref(e)
	case 3:
		r := &dsl.RecordDefinition{DefinitionMeta: g.meta(g.label("R")), Fields: dsl.Fields{&dsl.Field{Name: "f0", Type: primType("int32")}}}
		return ref(r)
	case 4:
		a := &dsl.NamedType{DefinitionMeta: g.meta(g.label("A")), Type: primType(verifOneOf(g.label("aprim"), "int32", "string", "date", "bool"))}
		return ref(a)
	case 5:
		return &dsl.GeneralizedType{Cases: dsl.TypeCases{&dsl.TypeCase{Type: g.smallPrim()}}, Dimensionality: &dsl.Vector{}}
	case 6:
		return &dsl.GeneralizedType{Cases: dsl.TypeCases{&dsl.TypeCase{Type: g.smallPrim()}}, Dimensionality: g.anyArray()}
	case 7:
		// map keys: every primitive (validateMaps admits any primitive scalar), directly or behind an alias
		// (aliases of the two primitives whose JSON kind is string but whose maps differ; the value type is irrelevant)
		var key dsl.Type
		if verifChoose(g.label("keyalias"), 2) == 1 {
			key = ref(&dsl.NamedType{DefinitionMeta: g.meta(g.label("K")), Type: primType(verifOneOf(g.label("akey"), "string", "date"))})
		} else {
			key = primType(verifOneOf(g.label("key"), allPrims...))
		}
		return &dsl.GeneralizedType{Cases: dsl.TypeCases{&dsl.TypeCase{Type: primType("int32")}}, Dimensionality: &dsl.Map{KeyType: key}}
	default:
		n := verifUint64(g.label("len"))
		return &dsl.GeneralizedType{Cases: dsl.TypeCases{&dsl.TypeCase{Type: g.smallPrim()}}, Dimensionality: &dsl.Vector{Length: &n}}
	}
}

// C02Union: the tag-or-not decision of both NDJSON generators on a symbolic union.
func C02Union(ncases int, withNull int, small int) {
	g := newGen()
	u := &dsl.GeneralizedType{}
	if withNull == 1 {
		u.Cases = append(u.Cases, &dsl.TypeCase{})
	}
	tags := []string{"c0", "c1", "c2", "c3"}
	for i := 0; i < ncases; i++ {
		u.Cases = append(u.Cases, &dsl.TypeCase{Tag: tags[i], Type: g.anyUnionCase(small == 1)})
	}
	// specification: untagged representation allowed iff the cases' JSON kinds are pairwise disjoint
	disjoint := true
	seen := 0
	overlap := ""
	for _, c := range u.Cases {
		k := specKinds(c.Type)
		if k&seen != 0 {
			disjoint = false
			overlap = kindNames(k & seen)
		}
		seen |= k
	}
	verifOut("overlap", overlap)
	var py, cpp string
	msg, panicked := verifPanics(func() {
		py = pyndjson.VerifTypeConverter(u, NS)
		cpp = cppndjson.VerifWriteUnionConverters(u)
	})
	verifOut("panic", msg)
	verifAssert("generators-do-not-panic", !panicked)
	if panicked {
		return
	}
	pySimplified := strings.HasSuffix(py, ", True)")
	pyTagged := strings.HasSuffix(py, ", False)")
	verifAssert("python-decision-present", pySimplified != pyTagged)
	cppSimplified := strings.Contains(cpp, "std::visit([&j](auto const& v) {j = v;}, value);")
	verifOut("py-simplified", pySimplified)
	verifOut("cpp-simplified", cppSimplified)
	verifAssert("cpp-python-agree", cppSimplified == pySimplified)
	if pySimplified {
		verifAssert("python-untagged-only-if-unambiguous", disjoint)
	} else {
		verifAssert("python-tagged-only-if-ambiguous", !disjoint)
	}
	if cppSimplified {
		verifAssert("cpp-untagged-only-if-unambiguous", disjoint)
	} else {
		verifAssert("cpp-tagged-only-if-ambiguous", !disjoint)
	}
	if withNull == 1 && !cppSimplified {
		// portability (C03): the Python writer renders the null case of a tagged nullable union as a bare null;
		// the emitted C++ reader must take a null document as the null case before it looks for a tag
		from := strings.Index(cpp, "static void from_json(")
		it := strings.Index(cpp, "auto it = j.begin();")
		guard := -1
		if from >= 0 && it > from {
			guard = strings.Index(cpp[from:it], "if (j.is_null()) {")
		}
		ok := guard >= 0
		if ok {
			body := cpp[from+guard : it]
			ok = strings.Contains(body, "value = std::monostate{};") && strings.Contains(body, "return;")
		}
		verifAssert("cpp-tagged-nullable-union-reads-bare-null", ok)
	}
	verifReach("c02-union-end")
}
