package zzverif

// C06 (several predecessors): verdicts are independent between predecessors.  The latest model is compared
// with k previous versions in one ValidateEvolution call; every predecessor differs from the latest model by a
// symbolic kind of change per definition (identical / compatible / partially compatible / breaking; the same
// definition names in every version).  For every assignment of kinds - hence for both orders of listing two
// given predecessors - the diagnostics labelled with predecessor j are exactly the diagnostics of validating
// the latest model against predecessor j ALONE (fresh models, one-element version list), and the call fails iff
// some predecessor alone fails.  ValidateEvolution stops at the first failing predecessor, so predecessors listed
// after it are not required to be diagnosed; the error returned is that predecessor's own.
// The verdict of each "alone" run is also held against the documented class (docs/cpp/evolution.md), which keeps
// the relational obligation from being satisfied vacuously.

import (
	"fmt"
	"strings"

	"github.com/microsoft/yardl/tooling/pkg/dsl"
)

const (
	c06pNone       = iota
	c06pPartial    // latest widened an integer field / alias (int32 -> int64)
	c06pBreaking   // latest changed a field from datetime to string
	c06pCompatible // latest added an optional field
	c06pPartial2   // latest added a required field
	c06pBreaking2  // latest changed a vector to a scalar
	nC06pKinds
)

var c06pKindNames = []string{"none", "partial:number-to-number", "breaking:field-type", "compatible:optional-field-added", "partial:required-field-added", "breaking:vector-to-scalar"}

func c06pClass(kind int) string {
	switch kind {
	case c06pNone, c06pCompatible:
		return "silent"
	case c06pPartial, c06pPartial2:
		return "warning"
	}
	return "error"
}

var c06pRecords = []string{"Sample", "Other"}
var c06pPrefixes = []string{"s", "o"}

// c06pModel: kinds == nil is the latest model; otherwise the predecessor from which the latest model evolved by kinds[d] in definition d.
func c06pModel(b *mb, nDefs int, kinds []int) *dsl.Namespace {
	ns := "Ns"
	kind := func(d int) int {
		if kinds == nil {
			return c06pNone
		}
		return kinds[d]
	}
	var tds dsl.TypeDefinitions
	var steps []*dsl.ProtocolStep
	for d := 0; d < nDefs && d < 2; d++ {
		p := c06pPrefixes[d]
		idT := "int64"
		if kind(d) == c06pPartial {
			idT = "int32"
		}
		var labelT dsl.Type = b.st("string")
		switch kind(d) {
		case c06pBreaking:
			labelT = b.st("datetime")
		case c06pBreaking2:
			labelT = b.vec(b.st("string"))
		}
		fs := []*dsl.Field{b.field(p+"Id", b.st(idT)), b.field(p+"Label", labelT)}
		if kind(d) != c06pCompatible {
			fs = append(fs, b.field(p+"Note", b.opt(b.st("string"))))
		}
		if kind(d) != c06pPartial2 {
			fs = append(fs, b.field(p+"W", b.st("float32")))
		}
		tds = append(tds, b.record(ns, c06pRecords[d], nil, fs...))
	}
	if nDefs >= 1 {
		steps = append(steps, b.step("samples", b.strm(b.st("Sample"))))
	}
	if nDefs >= 2 {
		steps = append(steps, b.step("other", b.st("Other")))
	}
	if nDefs >= 3 {
		// an alias: the kinds that have no counterpart for an alias fall back to none / partial / breaking
		var t dsl.Type = b.st("int64")
		switch c06pClass(kind(2)) {
		case "warning":
			t = b.st("int32")
		case "error":
			t = b.vec(b.st("string"))
		}
		tds = append(tds, b.alias(ns, "Val", nil, t))
		steps = append(steps, b.step("val", b.st("Val")))
	}
	steps = append(steps, b.step("tail", b.strm(b.st("int32"))))
	return &dsl.Namespace{Name: ns, IsTopLevel: true, TypeDefinitions: tds, Protocols: []*dsl.ProtocolDefinition{b.protocol(ns, "P", steps...)}}
}

var c06pLabels = []string{"v0", "v1", "v2"}

func c06pAttributed(warnings []string, label string) string {
	var out []string
	for _, w := range warnings {
		if strings.Contains(w, "["+label+"] ") {
			out = append(out, w)
		}
	}
	return strings.Join(out, "\n")
}

// c06pRun: fresh models (ValidateEvolution renames the predecessors' definitions and annotates the latest model), one call.
func c06pRun(nDefs int, kinds [][]int, which []int) (warnings []string, errT string, ok bool) {
	latest, err := dsl.Validate([]*dsl.Namespace{c06pModel(&mb{file: "model.yml"}, nDefs, nil)})
	if err != nil {
		return nil, err.Error(), false
	}
	var preds []*dsl.Environment
	var labels []string
	for _, j := range which {
		p, err := dsl.Validate([]*dsl.Namespace{c06pModel(&mb{file: c06pLabels[j] + "/model.yml"}, nDefs, kinds[j])})
		if err != nil {
			return nil, err.Error(), false
		}
		preds = append(preds, p)
		labels = append(labels, c06pLabels[j])
	}
	var evoErr error
	msg, panicked := verifPanics(func() { _, warnings, evoErr = dsl.ValidateEvolution(latest, preds, labels) })
	if panicked {
		return nil, "panic: " + msg, false
	}
	return warnings, errText(evoErr), true
}

// C06Predecessors(k, nDefs, nKinds): k predecessors, nDefs definitions (record used as stream item, record used as a plain
// step, alias), every (predecessor, definition) with one of the first nKinds kinds of change.
func C06Predecessors(k, nDefs, nKinds int) {
	kinds := make([][]int, k)
	var all []int
	var desc []string
	for j := range kinds {
		kinds[j] = make([]int, nDefs)
		var names []string
		for d := range kinds[j] {
			kinds[j][d] = verifChoose(fmt.Sprintf("kind-%s-def%d", c06pLabels[j], d), nKinds)
			names = append(names, c06pKindNames[kinds[j][d]])
		}
		all = append(all, j)
		desc = append(desc, c06pLabels[j]+"="+strings.Join(names, "+"))
	}
	verifOut("edit", "predecessors")
	verifOut("kinds", strings.Join(desc, ","))

	// every predecessor alone
	aloneWarn := make([]string, k)
	aloneErr := make([]string, k)
	first := k
	for j := 0; j < k; j++ {
		w, e, ok := c06pRun(nDefs, kinds, []int{j})
		verifAssert("verdict-without-panic", ok)
		if !ok {
			verifOut("failure", e)
			return
		}
		aloneWarn[j], aloneErr[j] = c06pAttributed(w, c06pLabels[j]), e
		verifAssert("alone-every-warning-is-labelled", len(w) == 0 || strings.Count(aloneWarn[j], "\n")+1 == len(w))
		class := "silent"
		for _, kd := range kinds[j] {
			switch c06pClass(kd) {
			case "error":
				class = "error"
			case "warning":
				if class == "silent" {
					class = "warning"
				}
			}
		}
		switch class {
		case "error":
			verifAssert("breaking-change-rejected", e != "")
		case "warning":
			verifAssert("partial-change-accepted", e == "")
			verifAssert("partial-change-warned", len(w) > 0)
		default:
			verifAssert("compatible-change-accepted", e == "")
			verifAssert("compatible-change-silent", len(w) == 0)
		}
		if e != "" && first == k {
			first = j
		}
	}
	verifOut("first-failing", first)

	// all of them in one call
	w, e, ok := c06pRun(nDefs, kinds, all)
	verifAssert("verdict-without-panic", ok)
	if !ok {
		verifOut("failure", e)
		return
	}
	verifOut("err", e)
	verifOut("warnings", strings.Join(w, " | "))
	verifAssert("fails-iff-some-predecessor-alone-fails", (e != "") == (first < k))
	if first < k {
		verifAssert("error-is-the-first-failing-predecessors-own", e == aloneErr[first])
	}
	labelled := 0
	for j := 0; j < k; j++ {
		got := c06pAttributed(w, c06pLabels[j])
		if got != "" {
			labelled += strings.Count(got, "\n") + 1
		}
		if j <= first {
			if got != aloneWarn[j] {
				verifOut("differs-for", c06pLabels[j])
				verifOut("alone", aloneWarn[j])
			}
			verifAssert("warnings-of-predecessor-equal-those-of-validating-it-alone", got == aloneWarn[j])
		} else {
			// not reached by ValidateEvolution (it stops at the first failing predecessor): nothing, or its own warnings
			verifAssert("warnings-after-first-failure-are-absent-or-its-own", got == "" || got == aloneWarn[j])
		}
	}
	verifAssert("every-warning-is-labelled-with-its-predecessor", labelled == len(w))
	verifReach("c06-predecessors-end")
}
