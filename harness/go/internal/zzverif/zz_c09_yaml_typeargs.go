package zzverif

// C09 (YAML level): a rule about unions holds for a union written as a TYPE ARGUMENT.
//
// The model is a yaml.Node document that goes through yardl's own UnmarshalYAML (real source positions: a union case and
// its type share one position when they are written in place) and the real dsl.Validate:
//     G<T>: !record {fields: {v: T}}
//     R:    !record {fields: {g: !generic {name: G, args: [U]}}}          (instantiated form)
//     R:    !record {fields: {g: U}}                                      (the union written in place)
// U ranges over well-formed and ill-formed unions (duplicate cases, null not first, only null, duplicate through size/uint64).
// Metamorphic oracle: the verdict of the real validator on U written in place.  The generic form may also be placed in an
// alias or a protocol step.

import (
	"gopkg.in/yaml.v3"
)

var c09yUnions = [][]string{{"int", "float"}, {"int", "int"}, {"int", "null"}, {"null"}, {"uint64", "size"}, {"null", "int", "string"}, {"string", "int", "string"}}

func (g *yg) c09yUnion(k int) *yaml.Node {
	var items []*yaml.Node
	for _, c := range c09yUnions[k] {
		if c == "null" {
			items = append(items, g.sc("!!null", "null"))
		} else {
			items = append(items, g.str(c))
		}
	}
	return g.sq("!!seq", items...)
}

func (g *yg) c09yDoc(k int, instantiated bool, where int) *yaml.Node {
	var t *yaml.Node
	if instantiated {
		t = g.mp("!generic", g.str("name"), g.str("G"), g.str("args"), g.sq("!!seq", g.c09yUnion(k)))
	} else {
		t = g.c09yUnion(k)
	}
	kv := []*yaml.Node{g.str("G<T>"), g.mp("!record", g.str("fields"), g.mp("!!map", g.str("v"), g.str("T")))}
	switch where {
	case 0:
		kv = append(kv, g.str("R"), g.mp("!record", g.str("fields"), g.mp("!!map", g.str("g"), t, g.str("n"), g.str("int"))))
	case 1:
		kv = append(kv, g.str("A"), t)
	default:
		kv = append(kv, g.str("P"), g.mp("!protocol", g.str("sequence"), g.mp("!!map", g.str("s"), t)))
	}
	return g.mp("!!map", kv...)
}

// C09YamlTypeArgs()
func C09YamlTypeArgs() {
	k := verifChoose("union", len(c09yUnions))
	where := verifChoose("where", 3)
	verifOut("union", k)
	g1 := &yg{}
	_, perr1, verr1 := yamlPipeline(g1.c09yDoc(k, false, where))
	g2 := &yg{}
	_, perr2, verr2 := yamlPipeline(g2.c09yDoc(k, true, where))
	inPlaceRejected := perr1 != nil || verr1 != nil
	asArgumentRejected := perr2 != nil || verr2 != nil
	verifOut("in-place-rejected", inPlaceRejected)
	verifOut("as-type-argument-rejected", asArgumentRejected)
	verifAssert("union-written-as-a-type-argument-has-the-verdict-of-the-union-written-in-place", inPlaceRejected == asArgumentRejected)
	verifReach("c09y-end")
}
