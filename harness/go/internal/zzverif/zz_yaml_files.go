package zzverif

// File layout (C13 "distribution over files", C11 / C09 "every model file of the package is validated"):
// the real dsl.ParseYamlInDir - directory walk, file-name filter, ordering, multi-document loop, error sink -
// runs on a virtual package directory whose model files hold yaml.Node documents (verifYamlDoc).  Which file
// (flat, other extension, sub-directory, nested sub-directory) holds which definition, whether definitions
// sharing a file share a document, and which unrelated files lie next to them are decisions of the path.

import (
	"sort"
	"strings"

	"github.com/microsoft/yardl/tooling/pkg/dsl"
	"gopkg.in/yaml.v3"
)

var yLayoutFiles = []string{"a.yml", "b.yaml", "sub/c.yml", "sub/deep/d.yml"}

type yDef struct {
	name string
	node []*yaml.Node // key, value
}

func (g *yg) layoutDefs(withBad bool) []yDef {
	defs := []yDef{
		{"Foo", g.fooDef()},
		{"Bar", []*yaml.Node{g.str("Bar"), g.mp("!record", g.str("fields"), g.mp("!!map", g.str("f"), g.str("Foo"), g.str("v"), g.str("Foo*")))}},
		{"Al", []*yaml.Node{g.str("Al"), g.str("Bar?")}},
		{"P", []*yaml.Node{g.str("P"), g.mp("!protocol", g.str("sequence"), g.mp("!!map", g.str("a"), g.str("Al"), g.str("s"), g.mp("!stream", g.str("items"), g.str("Foo"))))}},
		// a generic definition: its type parameters are nodes of the model as well
		{"Gen", []*yaml.Node{g.str("Gen<T1, T2>"), g.mp("!record", g.str("fields"), g.mp("!!map", g.str("one"), g.str("T1"), g.str("two"), g.str("T2*")))}},
	}
	if withBad {
		defs = append(defs, yDef{"Bad", []*yaml.Node{g.str("Bad"), g.mp("!record", g.str("fields"), g.mp("!!map", g.str("q"), g.str("Nope")))}})
	}
	return defs
}

// putLayout writes the definitions into dir according to assign (definition index -> file index).
func (g *yg) putLayout(dir string, defs []yDef, assign []int, split bool) {
	for fi, f := range yLayoutFiles {
		var kv []*yaml.Node
		for di, d := range defs {
			if assign[di] != fi {
				continue
			}
			if split {
				verifYamlDoc(verifPathJoin(dir, f), g.mp("!!map", d.node...))
			} else {
				kv = append(kv, d.node...)
			}
		}
		if len(kv) > 0 {
			verifYamlDoc(verifPathJoin(dir, f), g.mp("!!map", kv...))
		}
	}
}

func verifPathJoin(dir, f string) string { return dir + "/" + f }

func layoutNames(ns *dsl.Namespace) string {
	var names []string
	for _, d := range ns.TypeDefinitions {
		names = append(names, d.GetDefinitionMeta().Name)
	}
	for _, p := range ns.Protocols {
		names = append(names, p.Name)
	}
	sort.Strings(names)
	return strings.Join(names, ",")
}

func layoutSchema(ns *dsl.Namespace) (string, error) {
	ns.IsTopLevel = true
	env, err := dsl.Validate([]*dsl.Namespace{ns})
	if err != nil {
		return "", err
	}
	return dsl.GetProtocolSchemaString(env.Namespaces[0].Protocols[0], env.SymbolTable), nil
}

// C13Layouts(bad): bad = 0: every layout of the same valid definitions gives the same model;
// bad = 1: one more definition that violates a language rule is placed in a symbolic file: it is reported, naming that file.
// movable: how many definitions (counted from the last) may live in any file; the others stay in a.yml.
func C13Layouts(bad int, movable int) {
	g := &yg{}
	defs := g.layoutDefs(bad == 1)
	assign := make([]int, len(defs))
	for i := range defs {
		if i >= len(defs)-movable {
			assign[i] = verifChoose("file-of-"+defs[i].name, len(yLayoutFiles))
		}
	}
	split := verifChoose("one-document-per-definition", 2) == 1
	dir := "/pk/model"
	g.putLayout(dir, defs, assign, split)
	// files that are not model files
	verifFsPut(dir+"/_package.yml", "namespace: Ns\n")
	if verifChoose("notes", 2) == 1 {
		verifFsPut(dir+"/notes.txt", "not a model file\n")
	}
	switch verifChoose("hidden-file", 4) {
	case 1:
		verifFsPut(dir+"/.gitignore", "out/\n")
	case 2:
		verifFsPut(dir+"/sub/.gitignore", "out/\n")
	case 3:
		verifFsPut(dir+"/sub/deep/.DS_Store", "x")
	}
	var ns *dsl.Namespace
	var err error
	msg, panicked := verifPanics(func() { ns, err = dsl.ParseYamlInDir(verifPath(dir), "Ns") })
	verifOut("panic", msg)
	verifAssert("parse-does-not-panic", !panicked)
	if panicked {
		return
	}
	if bad == 1 {
		rejected := err != nil
		var verr error
		if err == nil {
			_, verr = layoutSchema(ns)
			rejected = verr != nil
		}
		verifAssert("violation-in-any-model-file-is-rejected", rejected)
		if verr != nil {
			badFile := yLayoutFiles[assign[len(assign)-1]]
			verifAssert("error-names-the-offending-file", strings.Contains(verr.Error(), badFile+":"))
		}
		verifReach("c13-layout-bad-end")
		return
	}
	if err != nil {
		verifOut("error", err.Error())
	}
	verifAssert("every-layout-parses", err == nil)
	if err != nil {
		return
	}
	verifAssert("no-definition-lost-or-duplicated", layoutNames(ns) == "Al,Bar,Foo,Gen,P")
	// every node of the parsed model knows the file it was read from (diagnostics are located through it): the definition,
	// everything underneath it, and its type parameters
	fileOf := map[string]string{}
	for i, d := range defs {
		fileOf[d.name] = yLayoutFiles[assign[i]]
	}
	unlocated := 0
	checkDef := func(node dsl.Node, meta *dsl.DefinitionMeta) {
		want := fileOf[meta.Name]
		if want == "" || !strings.HasSuffix(meta.File, want) {
			unlocated++
		}
		for _, tp := range meta.TypeParameters {
			if tp.File != meta.File {
				unlocated++
			}
		}
		dsl.Visit(node, func(self dsl.Visitor, n dsl.Node) {
			if n.GetNodeMeta().File != meta.File {
				unlocated++
			}
			self.VisitChildren(n)
		})
	}
	for _, td := range ns.TypeDefinitions {
		checkDef(td, td.GetDefinitionMeta())
	}
	for _, pd := range ns.Protocols {
		checkDef(pd, pd.DefinitionMeta)
	}
	verifOut("nodes-without-their-file", unlocated)
	verifAssert("every-node-carries-the-file-it-was-read-from", unlocated == 0)
	schema, verr := layoutSchema(ns)
	verifAssert("every-layout-validates", verr == nil)
	// reference layout: everything in one file
	g2 := &yg{}
	ref := g2.layoutDefs(false)
	g2.putLayout("/pk/ref", ref, make([]int, len(ref)), false)
	rns, rerr := dsl.ParseYamlInDir(verifPath("/pk/ref"), "Ns")
	verifAssert("reference-layout-parses", rerr == nil)
	if rerr == nil && verr == nil {
		rschema, _ := layoutSchema(rns)
		verifOut("schema", schema)
		verifAssert("same-schema-as-single-file", schema == rschema)
	}
	verifReach("c13-layout-end")
}
