package zzverif

import (
	cppbinary "github.com/microsoft/yardl/tooling/internal/cpp/binary"
	cppcommon "github.com/microsoft/yardl/tooling/internal/cpp/common"
	mbinary "github.com/microsoft/yardl/tooling/internal/matlab/binary"
	pybinary "github.com/microsoft/yardl/tooling/internal/python/binary"
	"github.com/microsoft/yardl/tooling/pkg/dsl"
)

func cppTypeRw(t dsl.Type, write bool) string { return cppbinary.VerifTypeRwFunction(t, write) }
func cppTypeSyntax(t dsl.Type) string           { return cppcommon.TypeSyntax(t) }

func (g *gen) cppPlanOf(t dsl.Type, write bool) string {
	verb := "Read"
	if write {
		verb = "Write"
	}
	f, ok1 := parseExpr(cppTypeRw(t, write))
	ty, ok2 := parseExpr(cppTypeSyntax(t))
	if !ok1 || !ok2 {
		return "?cppparse"
	}
	return g.cppPlan(f, ty, verb)
}

func (g *gen) pyPlanOf(t dsl.Type) string {
	n, ok := parseExpr(pybinary.VerifTypeSerializer(t, NS))
	if !ok {
		return "?pyparse"
	}
	return g.pyPlan(n)
}

func (g *gen) matlabPlanOf(t dsl.Type) string {
	n, ok := parseExpr(mbinary.VerifTypeSerializer(t, NS))
	if !ok {
		return "?mparse"
	}
	return g.matlabPlan(n)
}

// C14Type: one symbolic type through every binary backend; each emitted serializer expression must
// denote exactly the plan the schema prescribes.
func C14Type(depth int, fullPrims int) {
	g := newGen()
	g.fullPrims = fullPrims
	g.fullEnums = fullPrims
	t := g.anyType(depth)
	want := Plan(t)
	verifOut("plan", want)
	cw := g.cppPlanOf(t, true)
	verifOut("cpp-write", cw)
	verifAssert("cpp-write-plan", cw == want)
	cr := g.cppPlanOf(t, false)
	verifAssert("cpp-read-plan", cr == want)
	py := g.pyPlanOf(t)
	verifOut("py", py)
	verifAssert("python-plan", py == want)
	m := g.matlabPlanOf(t)
	verifOut("matlab", m)
	verifAssert("matlab-plan", m == want)
	verifReach("c14-type-end")
}

func (g *gen) pyExpr(t dsl.Type) string { return pybinary.VerifTypeSerializer(t, NS) }
