package zzverif

// C13: "pure syntax alternatives yield byte-identical generated code".
//
// An optional element type can be written in the shorthand string (`T?*`, `T?[x, y]`, `K->V?`), which the YAML layer
// turns into a NESTED tree (container whose single case is the optional), or in expanded syntax (`!vector {items:
// [null, T]}`), which it turns into a FLAT tree (container carrying the cases [null, T] itself).  Both are the same
// model (c13_yaml_spellings: same verdict, same schema).  Generators that classify a type by looking at one of the
// two tree shapes only produce different code for the two spellings.  Here the same package is written both ways,
// goes through the real YAML layer and dsl.Validate, and the COMPLETE real Python generator (types.py, binary.py,
// ndjson.py, protocols.py, __init__.py) runs on both: both spellings are accepted or both rejected, and every
// generated file is byte-identical.  The spelled type is used as a record field, a protocol step and a stream item.
//
// Spelling pairs (T over int / string / the record Foo; K over string / int):
//   T? = [null, T];  T?* = !vector {items: [null, T]};  T?*3 = !vector {items: [null, T], length: 3};
//   K->T? = !map {keys: K, values: [null, T]};  T?[] / T?[x, y] / T?[2, 3] = !array {items: [null, T] (, dimensions)};
//   T* = !vector {items: T};  !vector {items: T?} = !vector {items: [null, T]} (both expanded, nested vs flat);
//   Box<T?> = !generic {name: Box, args: [[null, T]]};  T?*? = [null, !vector {items: [null, T]}].

import (
	"os"
	"strings"

	cppbinary "github.com/microsoft/yardl/tooling/internal/cpp/binary"
	cppndjson "github.com/microsoft/yardl/tooling/internal/cpp/ndjson"
	cppprotocols "github.com/microsoft/yardl/tooling/internal/cpp/protocols"
	cpptypes "github.com/microsoft/yardl/tooling/internal/cpp/types"
	matlab "github.com/microsoft/yardl/tooling/internal/matlab"
	python "github.com/microsoft/yardl/tooling/internal/python"
	"github.com/microsoft/yardl/tooling/pkg/dsl"
	"github.com/microsoft/yardl/tooling/pkg/packaging"
	"gopkg.in/yaml.v3"
)

var c13pPairNames = []string{"T?", "T?*", "T?*3", "K->T?", "T?[]", "T?[x,y]", "T?[2,3]", "T*", "items: T?", "Box<T?>", "T?*?"}

func c13pSpell(g *yg) (string, func() *yaml.Node, func() *yaml.Node) {
	t := verifOneOf("element", "int", "string", "Foo")
	opt := func() *yaml.Node { return g.sq("!!seq", g.sc("!!null", "null"), g.str(t)) }
	pair := verifChoose("pair", len(c13pPairNames))
	verifOut("pair", c13pPairNames[pair])
	short := func(s string) func() *yaml.Node { return func() *yaml.Node { return g.str(s) } }
	switch pair {
	case 0:
		return t + "?", short(t + "?"), opt
	case 1:
		return t + "?*", short(t + "?*"), func() *yaml.Node { return g.mp("!vector", g.str("items"), opt()) }
	case 2:
		return t + "?*3", short(t + "?*3"), func() *yaml.Node { return g.mp("!vector", g.str("items"), opt(), g.str("length"), g.sc("!!int", "3")) }
	case 3:
		k := verifOneOf("key", "string", "int")
		return k + "->" + t + "?", short(k + "->" + t + "?"), func() *yaml.Node { return g.mp("!map", g.str("keys"), g.str(k), g.str("values"), opt()) }
	case 4:
		return t + "?[]", short(t + "?[]"), func() *yaml.Node { return g.mp("!array", g.str("items"), opt()) }
	case 5:
		return t + "?[x, y]", short(t + "?[x, y]"), func() *yaml.Node {
			return g.mp("!array", g.str("items"), opt(), g.str("dimensions"), g.sq("!!seq", g.str("x"), g.str("y")))
		}
	case 6:
		return t + "?[2, 3]", short(t + "?[2, 3]"), func() *yaml.Node {
			return g.mp("!array", g.str("items"), opt(), g.str("dimensions"), g.sq("!!seq", g.sc("!!int", "2"), g.sc("!!int", "3")))
		}
	case 7:
		return t + "*", short(t + "*"), func() *yaml.Node { return g.mp("!vector", g.str("items"), g.str(t)) }
	case 8:
		return "!vector {items: " + t + "?}", func() *yaml.Node { return g.mp("!vector", g.str("items"), g.str(t+"?")) },
			func() *yaml.Node { return g.mp("!vector", g.str("items"), opt()) }
	case 9:
		return "Box<" + t + "?>", short("Box<" + t + "?>"), func() *yaml.Node {
			return g.mp("!generic", g.str("name"), g.str("Box"), g.str("args"), g.sq("!!seq", opt()))
		}
	default:
		return t + "?*?", short(t + "?*?"), func() *yaml.Node {
			return g.sq("!!seq", g.sc("!!null", "null"), g.mp("!vector", g.str("items"), opt()))
		}
	}
}

func c13pFiles(dir string) map[string]string {
	files := map[string]string{}
	for _, f := range verifFsList() {
		if strings.HasPrefix(f, dir+"/") {
			text, _ := verifFsGet(f)
			files[f[len(dir):]] = text
		}
	}
	return files
}

// c13pOtherBackends: the C++ writers (types, protocols, binary, NDJSON) and the complete MATLAB generator.
func c13pOtherBackends(env *dsl.Environment, dir string) error {
	opts := packaging.CppCodegenOptions{SourcesOutputDir: verifPath(dir + "/cpp"), GenerateNDJson: true}
	if err := os.MkdirAll(opts.SourcesOutputDir, 0775); err != nil { // as cpp.Generate does before calling the writers
		return err
	}
	if err := cpptypes.WriteTypes(env, opts); err != nil {
		return err
	}
	if err := cppprotocols.WriteProtocols(env, opts); err != nil {
		return err
	}
	if err := cppbinary.WriteBinary(env, opts); err != nil {
		return err
	}
	if err := cppndjson.WriteNdJson(env, opts); err != nil {
		return err
	}
	return matlab.Generate(env, packaging.MatlabCodegenOptions{OutputDir: verifPath(dir + "/m")})
}

// C13YamlPython(): see the head comment.
func C13YamlPython() {
	verifUseRepl("CopyEmbeddedStaticFiles")
	g := &yg{}
	name, first, second := c13pSpell(g)
	build := func(spell func() *yaml.Node) *yaml.Node {
		kv := g.fooDef()
		kv = append(kv, g.str("Box<T>"), g.mp("!record", g.str("fields"), g.mp("!!map", g.str("v"), g.str("T"))))
		kv = append(kv, g.str("R"), g.mp("!record", g.str("fields"), g.mp("!!map", g.str("id"), g.str("int"), g.str("a"), spell(), g.str("last"), g.str("string"))))
		kv = append(kv, g.str("P"), g.mp("!protocol", g.str("sequence"), g.mp("!!map", g.str("s"), spell(), g.str("t"), g.mp("!stream", g.str("items"), spell()), g.str("r"), g.str("R"))))
		return g.mp("!!map", kv...)
	}
	nsA, perrA, verrA := yamlPipeline(build(first))
	nsB, perrB, verrB := yamlPipeline(build(second))
	okA := nsA != nil && perrA == nil && verrA == nil
	okB := nsB != nil && perrB == nil && verrB == nil
	verifOut("spelling", name)
	verifOut("accepted-first", okA)
	verifOut("accepted-second", okB)
	verifAssert("both-spellings-accepted-or-both-rejected", okA == okB)
	if !okA || !okB {
		verifReach("c13p-rejected")
		return
	}
	envA, _ := dsl.Validate([]*dsl.Namespace{nsA})
	envB, _ := dsl.Validate([]*dsl.Namespace{nsB})
	errA := python.VerifGenerate(envA, packaging.PythonCodegenOptions{OutputDir: verifPath("/out/a"), GenerateNDJson: true})
	errB := python.VerifGenerate(envB, packaging.PythonCodegenOptions{OutputDir: verifPath("/out/b"), GenerateNDJson: true})
	verifAssert("python-generation-succeeds-for-both-spellings", errA == nil && errB == nil)
	if errA != nil || errB != nil {
		return
	}
	fa, fb := c13pFiles("/out/a"), c13pFiles("/out/b")
	verifAssert("python-same-set-of-files", len(fa) == len(fb) && len(fa) > 0)
	for _, f := range []string{"types", "binary", "ndjson", "protocols", "__init__"} {
		ta, oka := fa["/ns/"+f+".py"]
		tb, okb := fb["/ns/"+f+".py"]
		verifAssert("python-"+f+"-written", oka && okb)
		verifAssert("python-"+f+"-identical-for-both-spellings", ta == tb)
	}
	same := true
	for k, v := range fa {
		if w, ok := fb[k]; !ok || w != v {
			same = false
			verifOut("differing-file", k)
		}
	}
	verifAssert("python-package-identical-for-both-spellings", same)

	// the other backends on the same two models
	errA = c13pOtherBackends(envA, "/oth/a")
	errB = c13pOtherBackends(envB, "/oth/b")
	verifAssert("cpp-and-matlab-generation-succeeds-for-both-spellings", errA == nil && errB == nil)
	if errA != nil || errB != nil {
		return
	}
	oa, ob := c13pFiles("/oth/a"), c13pFiles("/oth/b")
	verifAssert("cpp-and-matlab-same-set-of-files", len(oa) == len(ob) && len(oa) > 0)
	sameCpp, sameMatlab := true, true
	for k, v := range oa {
		if w, ok := ob[k]; !ok || w != v {
			verifOut("differing-file", k)
			if strings.HasPrefix(k, "/cpp/") {
				sameCpp = false
			} else {
				sameMatlab = false
			}
		}
	}
	verifAssert("cpp-sources-identical-for-both-spellings", sameCpp)
	verifAssert("matlab-package-identical-for-both-spellings", sameMatlab)
	verifReach("c13p-compared")
}
