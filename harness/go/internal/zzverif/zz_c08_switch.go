package zzverif

// C08 / C19: `!switch` expressions in computed fields.  A computed field whose expression is a switch over an optional,
// a union (with or without null) or a single-type field - 1-3 cases, patterns {type, declaration, discard, null}, case
// expressions that are a field, use the declared variable, or are a NESTED switch whose own case expressions use the
// outer variable - is built as the unresolved AST the YAML layer produces, goes through the real dsl.Validate (which
// rewrites switch cases), and the resolved expression is handed to the real C++ / Python / MATLAB emitters.  The emitted
// TEXT is read back with the target language's structure (C++: immediately-invoked lambdas, std::visit, if / if
// constexpr, reference declarations, return; Python / MATLAB: assignments, if blocks, return) and evaluated for every
// combination of active alternatives of the switch targets:
//
//   (a) every name used is declared in an enclosing scope: a lambda parameter, a local declaration / assignment, or a
//       member of the record (C++: the struct read back from types.h);  with what&8 also: visible through the lambda's
//       capture list (a capture-less lambda sees neither members nor enclosing locals)
//   (b) the value returned is the value the SOURCE switch denotes for that combination (the first matching case's OWN
//       expression, variables standing for the matched value), as computed from the harness's description of the switch,
//       not from yardl's resolved tree.
//
// Meaning given to the emitted forms: `[cap](auto&& p) -> T {...}(e)` applies the body to e; `std::visit(lambda, e)`
// applies it to the active alternative of the variant e; `p.has_value()`; `std::is_same_v<std::decay_t<decltype(p)>, T>`
// is true iff the active alternative has C++ type T (documented mapping docs/cpp/language.md: null = std::monostate);
// `T const& x = p.value()` / `= p` binds x to the contained value.  Python: `x is None`, `isinstance(x, U.Tag)` (the union
// case class is the PascalCased tag), `x.value`; MATLAB: `x == yardl.None`, `isa(x, "U") && x.index == k` (k-th non-null case).

import (
	"fmt"
	"strings"

	cpptypes "github.com/microsoft/yardl/tooling/internal/cpp/types"
	mtypes "github.com/microsoft/yardl/tooling/internal/matlab/types"
	pytypes "github.com/microsoft/yardl/tooling/internal/python/types"
	"github.com/microsoft/yardl/tooling/pkg/dsl"
)

// ---- description of the source switch (the oracle works on this) -------------------------------------------------

type c08wTarget struct {
	name string
	kind string   // "optional", "union", "single"
	alts []string // yardl type names of the alternatives, "" = null
}

type c08wCase struct {
	pat    int // 0 type / null pattern, 1 declaration, 2 discard
	alt    int // alternative named by a type / declaration pattern
	varName string
	// expression: nested switch, or leaf / var / var + leaf / outer / inner + outer
	nested *c08wSwitch
	uses   []string // variables added up (in order), then leaf if leaf != ""
	leaf   string
}

type c08wSwitch struct {
	target *c08wTarget
	cases  []*c08wCase
}

var c08wTargets = []*c08wTarget{
	{"opt", "optional", []string{"", "int"}},
	{"uni", "union", []string{"int", "string"}},
	{"single", "single", []string{"int"}},
	{"nuni", "union", []string{"", "int", "string"}},
	{"inner", "optional", []string{"", "int"}},
	{"iuni", "union", []string{"int", "string"}},
}

var c08wLeaves = []string{"fa", "fb", "fc", "fd", "fe", "ff"}

func (t *c08wTarget) yardlType(b *mb) dsl.Type {
	if t.kind == "single" {
		return b.st(t.alts[0])
	}
	var cases []dsl.Type
	for _, a := range t.alts {
		if a == "" {
			cases = append(cases, nil)
		} else {
			cases = append(cases, b.st(a))
		}
	}
	return b.gt(nil, cases...)
}

func c08wSum(b *mb, names []string) dsl.Expression {
	var e dsl.Expression
	for _, n := range names {
		m := &dsl.MemberAccessExpression{NodeMeta: b.meta(), Member: n}
		if e == nil {
			e = m
		} else {
			e = &dsl.BinaryExpression{NodeMeta: b.meta(), Left: e, Operator: dsl.BinaryOpAdd, Right: m}
		}
	}
	return e
}

func (s *c08wSwitch) ast(b *mb) dsl.Expression {
	sw := &dsl.SwitchExpression{NodeMeta: b.meta(), Target: &dsl.MemberAccessExpression{NodeMeta: b.meta(), Member: s.target.name}}
	for _, c := range s.cases {
		sc := &dsl.SwitchCase{NodeMeta: b.meta()}
		var ty dsl.Type
		if c.pat != 2 && s.target.alts[c.alt] != "" {
			ty = b.st(s.target.alts[c.alt])
		}
		switch c.pat {
		case 0:
			sc.Pattern = &dsl.TypePattern{NodeMeta: b.meta(), Type: ty}
		case 1:
			sc.Pattern = &dsl.DeclarationPattern{TypePattern: dsl.TypePattern{NodeMeta: b.meta(), Type: ty}, Identifier: c.varName}
		default:
			sc.Pattern = &dsl.DiscardPattern{NodeMeta: b.meta()}
		}
		if c.nested != nil {
			sc.Expression = c.nested.ast(b)
		} else {
			names := append([]string{}, c.uses...)
			if c.leaf != "" {
				names = append(names, c.leaf)
			}
			sc.Expression = c08wSum(b, names)
		}
		sw.Cases = append(sw.Cases, sc)
	}
	return sw
}

// denote: the value of the switch when every target's active alternative is alts[target]; variables stand for
// val(<target>); fieldName maps a model field to the target language's spelling.
func (s *c08wSwitch) denote(alts map[string]int, env map[string]string, fieldName func(string) string) string {
	a := alts[s.target.name]
	for _, c := range s.cases {
		if c.pat != 2 && c.alt != a {
			continue
		}
		inner := env
		if c.pat == 1 {
			inner = map[string]string{}
			for k, v := range env {
				inner[k] = v
			}
			inner[c.varName] = "val(" + s.target.name + ")"
		}
		if c.nested != nil {
			return c.nested.denote(alts, inner, fieldName)
		}
		out := ""
		add := func(x string) {
			if out == "" {
				out = x
			} else {
				out = "add(" + out + "," + x + ")"
			}
		}
		for _, u := range c.uses {
			add(inner[u])
		}
		if c.leaf != "" {
			add("field:" + fieldName(c.leaf))
		}
		return out
	}
	return "nomatch"
}

func (s *c08wSwitch) targets(out []*c08wTarget) []*c08wTarget {
	seen := false
	for _, t := range out {
		if t == s.target {
			seen = true
		}
	}
	if !seen {
		out = append(out, s.target)
	}
	for _, c := range s.cases {
		if c.nested != nil {
			out = c.nested.targets(out)
		}
	}
	return out
}

// ---- symbolic generation --------------------------------------------------------------------------------------------

type c08wGen struct {
	n      int
	leaves int
}

func (g *c08wGen) label(s string) string {
	g.n++
	return fmt.Sprintf("%s%d", s, g.n)
}

func (g *c08wGen) leaf() string {
	l := c08wLeaves[g.leaves%len(c08wLeaves)]
	g.leaves++
	return l
}

// patterns: n cases, each a symbolic choice among {type a, declaration a (non-null a), discard}
func (g *c08wGen) patterns(t *c08wTarget, n int, varName string) []*c08wCase {
	var out []*c08wCase
	for i := 0; i < n; i++ {
		k := verifChoose(g.label("pattern"), 2*len(t.alts)+1)
		c := &c08wCase{}
		switch {
		case k == 2*len(t.alts):
			c.pat = 2
		case k%2 == 0:
			c.pat, c.alt = 0, k/2
		default:
			c.pat, c.alt = 1, k/2
			if t.alts[c.alt] == "" {
				verifAssume(false) // a declaration needs a type
			}
			c.varName = varName
		}
		out = append(out, c)
	}
	return out
}

// c08wWellFormed: the documented shape of a switch - every case is reachable (names an alternative no earlier case
// took, a discard has something left to take), the cases together cover every alternative, a single-type target has
// exactly one case.  The generated space is restricted to these (everything else is rejected by dsl.Validate, which
// the C09 / C10 parts examine); dsl.Validate must then accept the model.
func c08wWellFormed(t *c08wTarget, cases []*c08wCase) bool {
	left := make([]bool, len(t.alts))
	n := len(t.alts)
	for i := range left {
		left[i] = true
	}
	for _, c := range cases {
		if n == 0 {
			return false
		}
		if c.pat == 2 {
			n = 0
			continue
		}
		if !left[c.alt] {
			return false
		}
		left[c.alt] = false
		n--
	}
	return n == 0 && (t.kind != "single" || len(cases) == 1)
}

func (g *c08wGen) build(maxCases, nTargets, nested int) *c08wSwitch {
	t := c08wTargets[verifChoose("target", nTargets)]
	max := maxCases
	if t.kind != "union" && max > 2 {
		max = 2
	}
	n := 1 + verifChoose("cases", max)
	s := &c08wSwitch{target: t, cases: g.patterns(t, n, "v")}
	verifAssume(c08wWellFormed(t, s.cases))
	special := verifChoose("special-case", n)
	for i, c := range s.cases {
		c.leaf = g.leaf()
		if i != special {
			continue
		}
		intVar := c.pat == 1 && t.alts[c.alt] == "int"
		// form 0: a field (a declared variable stays unused: Validate turns the declaration into a type pattern);
		// 1: variable + field; 2: a nested switch whose case expressions use the outer variable
		form := 0
		if intVar {
			form = verifChoose("form", 2+nested)
			if form > 2 {
				form = 2
			}
		}
		switch {
		case form == 1:
			c.uses = []string{c.varName}
		case form >= 2:
			it := c08wTargets[4+verifChoose("inner-target", nested)]
			in := &c08wSwitch{target: it, cases: g.patterns(it, 2, "w")}
			verifAssume(c08wWellFormed(it, in.cases))
			where := verifChoose("outer-variable-used-in", 3) // inner case 0 / inner case 1 / both
			for j, ic := range in.cases {
				ic.leaf = g.leaf()
				innerInt := ic.pat == 1 && it.alts[ic.alt] == "int"
				if innerInt && verifChoose(g.label("inner-variable-used"), 2) == 1 {
					ic.uses = append(ic.uses, ic.varName)
				}
				if intVar && (where == 2 || where == j) {
					ic.uses = append(ic.uses, c.varName)
				}
			}
			c.nested, c.leaf = in, ""
		}
	}
	return s
}

// ---- C++ read-back ---------------------------------------------------------------------------------------------------

type c08wVal struct {
	expr   *c08xNode
	lam    *c08wLambda
	visit  bool
	target *c08xNode
}

type c08wLambda struct {
	capture string
	param   string
	auto    bool
	body    []*c08wStmt
}

type c08wStmt struct {
	kind string // "if", "return", "decl"
	cond string
	body []*c08wStmt
	name string
	typ  string
	init *c08xNode
	val  *c08wVal
}

type c08wCppParser struct {
	toks    []string
	pos     int
	bad     string
	effects []string
}

func (p *c08wCppParser) peek() string {
	if p.pos < len(p.toks) {
		return p.toks[p.pos]
	}
	return ""
}

func (p *c08wCppParser) next() string {
	t := p.peek()
	p.pos++
	return t
}

func (p *c08wCppParser) fail(msg string) {
	if p.bad == "" {
		p.bad = msg
	}
}

func (p *c08wCppParser) expect(t string) {
	if got := p.next(); got != t {
		p.fail("expected `" + t + "`, found `" + got + "`")
	}
}

func (p *c08wCppParser) exprNode() *c08xNode {
	r := &c08xReader{lg: c08xCpp, toks: p.toks, pos: p.pos}
	n := r.expr(0)
	p.pos = r.pos
	if r.bad != "" {
		p.fail(r.bad)
	}
	p.effects = append(p.effects, r.effects...)
	return n
}

func (p *c08wCppParser) lookingAt(ts ...string) bool {
	for i, t := range ts {
		if p.pos+i >= len(p.toks) || p.toks[p.pos+i] != t {
			return false
		}
	}
	return true
}

func (p *c08wCppParser) value() *c08wVal {
	if p.lookingAt("std", "::", "visit", "(") {
		p.pos += 4
		lam := p.lambda()
		p.expect(",")
		t := p.exprNode()
		p.expect(")")
		return &c08wVal{lam: lam, visit: true, target: t}
	}
	if p.peek() == "[" {
		lam := p.lambda()
		p.expect("(")
		t := p.exprNode()
		p.expect(")")
		return &c08wVal{lam: lam, target: t}
	}
	return &c08wVal{expr: p.exprNode()}
}

// balanced: the tokens up to the `close` matching an already consumed opener
func (p *c08wCppParser) balanced(open, close string) []string {
	depth := 1
	var out []string
	for p.bad == "" {
		t := p.next()
		if t == "" {
			p.fail("unterminated " + open)
			break
		}
		if t == open {
			depth++
		}
		if t == close {
			depth--
			if depth == 0 {
				break
			}
		}
		out = append(out, t)
	}
	return out
}

func (p *c08wCppParser) lambda() *c08wLambda {
	l := &c08wLambda{}
	p.expect("[")
	l.capture = strings.Join(p.balanced("[", "]"), "")
	p.expect("(")
	params := p.balanced("(", ")")
	if len(params) == 0 || !isIdent(params[len(params)-1]) {
		p.fail("lambda without a named parameter")
		return l
	}
	for _, t := range params {
		if t == "," {
			p.fail("lambda with several parameters")
		}
		if t == "auto" {
			l.auto = true
		}
	}
	l.param = params[len(params)-1]
	p.expect("->")
	for p.bad == "" && p.peek() != "{" {
		if p.next() == "" {
			p.fail("lambda without a body")
		}
	}
	p.expect("{")
	l.body = p.stmts()
	p.expect("}")
	return l
}

func (p *c08wCppParser) stmts() []*c08wStmt {
	var out []*c08wStmt
	for p.bad == "" && p.peek() != "}" && p.peek() != "" {
		switch p.peek() {
		case "if":
			p.next()
			if p.peek() == "constexpr" {
				p.next()
			}
			p.expect("(")
			s := &c08wStmt{kind: "if", cond: strings.Join(p.balanced("(", ")"), " ")}
			p.expect("{")
			s.body = p.stmts()
			p.expect("}")
			if p.peek() == "else" {
				p.fail("else branch")
			}
			out = append(out, s)
		case "return":
			p.next()
			s := &c08wStmt{kind: "return", val: p.value()}
			p.expect(";")
			out = append(out, s)
		default:
			// declaration `T const& name = init;`
			var head []string
			for p.bad == "" && p.peek() != "=" {
				t := p.next()
				if t == "" || t == ";" || t == "{" || t == "}" {
					p.fail("unrecognised statement at `" + t + "`")
				}
				head = append(head, t)
			}
			if p.bad != "" {
				break
			}
			if len(head) < 2 || !isIdent(head[len(head)-1]) {
				p.fail("unrecognised declaration")
				break
			}
			p.expect("=")
			s := &c08wStmt{kind: "decl", name: head[len(head)-1], typ: strings.ReplaceAll(strings.Join(head[:len(head)-1], " "), " :: ", "::"), init: p.exprNode()}
			p.expect(";")
			out = append(out, s)
		}
	}
	return out
}

type c08wScope struct {
	vars    map[string]string
	parent  *c08wScope
	lambda  bool
	capture string
}

type c08wEval struct {
	targets    map[string]*c08wTarget // by the target language's member name
	members    map[string]bool
	alts       map[string]int
	undeclared []string
	uncaptured []string
	bad        string
}

func (e *c08wEval) fail(msg string) string {
	if e.bad == "" {
		e.bad = msg
	}
	return "?"
}

var c08wCppAlt = map[string]string{"": "std::monostate", "int": "int32_t", "string": "std::string"}

// resolve: an unqualified name used at scope s
func (e *c08wEval) resolve(x string, s *c08wScope) string {
	crossed := false
	for sc := s; sc != nil; sc = sc.parent {
		if v, ok := sc.vars[x]; ok {
			if crossed {
				e.uncaptured = append(e.uncaptured, x)
			}
			return v
		}
		if sc.lambda && sc.capture == "" {
			crossed = true
		}
	}
	if e.members[x] {
		if crossed {
			e.uncaptured = append(e.uncaptured, "this->"+x)
		}
		return "field:" + x
	}
	e.undeclared = append(e.undeclared, x)
	return "undeclared:" + x
}

func (e *c08wEval) expr(n *c08xNode, s *c08wScope) string {
	if strings.HasPrefix(n.head, "field:") && len(n.kids) == 0 {
		return e.resolve(n.head[len("field:"):], s)
	}
	if len(n.kids) == 0 {
		return n.head
	}
	out := n.head + "("
	for i, k := range n.kids {
		if i > 0 {
			out += ","
		}
		out += e.expr(k, s)
	}
	return out + ")"
}

func (e *c08wEval) value(v *c08wVal, s *c08wScope) string {
	if v.lam == nil {
		return e.expr(v.expr, s)
	}
	tt := e.expr(v.target, s)
	t := e.targets[strings.TrimPrefix(tt, "field:")]
	if !strings.HasPrefix(tt, "field:") || t == nil {
		return e.fail("lambda applied to " + tt)
	}
	inner := &c08wScope{vars: map[string]string{}, parent: s, lambda: true, capture: v.lam.capture}
	switch {
	case v.visit && v.lam.auto && t.kind == "union":
		inner.vars[v.lam.param] = "arg:" + t.name
	case !v.visit && v.lam.auto && t.kind == "optional":
		inner.vars[v.lam.param] = "arg:" + t.name
	case !v.visit && !v.lam.auto && t.kind == "single":
		inner.vars[v.lam.param] = "val(" + t.name + ")"
	default:
		return e.fail("lambda form does not fit a target of kind " + t.kind)
	}
	r, returned := e.exec(v.lam.body, inner)
	if !returned {
		return "noreturn" // flowing off the end of a value-returning lambda
	}
	return r
}

func (e *c08wEval) argTarget(x string, s *c08wScope) *c08wTarget {
	if !isIdent(x) {
		return nil
	}
	d := e.resolve(x, s)
	if !strings.HasPrefix(d, "arg:") {
		return nil
	}
	for _, t := range e.targets {
		if t.name == d[len("arg:"):] {
			return t
		}
	}
	return nil
}

func (e *c08wEval) cond(c string, s *c08wScope) bool {
	if x, ok := cgBetween(c, "", " . has_value ( )"); ok {
		neg := strings.HasPrefix(x, "! ")
		x = strings.TrimPrefix(x, "! ")
		if t := e.argTarget(x, s); t != nil && t.kind == "optional" {
			return (t.alts[e.alts[t.name]] != "") != neg
		}
	}
	if rest, ok := cgBetween(c, "std :: is_same_v < std :: decay_t < decltype ( ", " >"); ok {
		if k := strings.Index(rest, " ) > , "); k > 0 {
			if t := e.argTarget(rest[:k], s); t != nil && t.kind == "union" {
				ty := strings.ReplaceAll(rest[k+len(" ) > , "):], " ", "")
				return c08wCppAlt[t.alts[e.alts[t.name]]] == ty
			}
		}
	}
	e.fail("condition: " + c)
	return false
}

func (e *c08wEval) exec(ss []*c08wStmt, s *c08wScope) (string, bool) {
	for _, st := range ss {
		if e.bad != "" {
			return "?", true
		}
		switch st.kind {
		case "if":
			if e.cond(st.cond, s) {
				if r, ret := e.exec(st.body, &c08wScope{vars: map[string]string{}, parent: s}); ret {
					return r, true
				}
			}
		case "return":
			return e.value(st.val, s), true
		case "decl":
			init := st.init.String()
			var t *c08wTarget
			viaValue := false
			if x, ok := cgBetween(init, "call(member:value(field:", "))"); ok {
				t, viaValue = e.argTarget(x, s), true
			} else if x, ok := cgBetween(init, "field:", ""); ok {
				t = e.argTarget(x, s)
			}
			if t == nil || (viaValue != (t.kind == "optional")) {
				e.fail("declaration initialised with " + init)
				break
			}
			alt := t.alts[e.alts[t.name]]
			if alt == "" {
				e.fail("contained value of a null alternative bound to " + st.name)
				break
			}
			if st.typ != c08wCppAlt[alt]+" const &" {
				e.fail("declaration of type `" + st.typ + "` bound to an alternative of type " + c08wCppAlt[alt])
				break
			}
			s.vars[st.name] = "val(" + t.name + ")"
		}
	}
	return "", false
}

// ---- Python / MATLAB read-back -----------------------------------------------------------------------------------------

type c08wSStmt struct {
	kind string // "if", "assign", "return", "raise"
	cond string
	name string
	expr string
	body []*c08wSStmt
}

func c08wIndent(l string) int {
	n := 0
	for n < len(l) && l[n] == ' ' {
		n++
	}
	return n
}

// c08wScriptStmts: lines[*pos..] at indentation `ind`
func c08wScriptStmts(lang string, lines []string, pos *int, ind int, bad *string) []*c08wSStmt {
	var out []*c08wSStmt
	for *pos < len(lines) && *bad == "" {
		l := lines[*pos]
		if c08wIndent(l) < ind {
			return out
		}
		if c08wIndent(l) > ind {
			*bad = "unexpected indentation: " + l
			return out
		}
		t := strings.TrimSpace(l)
		if lang == "matlab" && t == "end" {
			return out
		}
		*pos++
		isIf := strings.HasPrefix(t, "if ") && (lang == "matlab" || strings.HasSuffix(t, ":"))
		switch {
		case isIf:
			s := &c08wSStmt{kind: "if", cond: strings.TrimSuffix(t[3:], ":")}
			s.body = c08wScriptStmts(lang, lines, pos, ind+2, bad)
			if lang == "matlab" {
				if *pos >= len(lines) || strings.TrimSpace(lines[*pos]) != "end" || c08wIndent(lines[*pos]) != ind {
					*bad = "if without end"
					return out
				}
				*pos++
			}
			out = append(out, s)
		case lang == "python" && strings.HasPrefix(t, "return "):
			out = append(out, &c08wSStmt{kind: "return", expr: t[len("return "):]})
		case lang == "matlab" && t == "return":
			out = append(out, &c08wSStmt{kind: "return"})
		case (lang == "python" && strings.HasPrefix(t, "raise ")) || (lang == "matlab" && strings.HasPrefix(t, "throw(")):
			out = append(out, &c08wSStmt{kind: "raise"})
		default:
			k := strings.Index(t, " = ")
			if k <= 0 || !isIdent(t[:k]) {
				*bad = "unrecognised statement: " + t
				return out
			}
			rhs := t[k+3:]
			if lang == "matlab" {
				if !strings.HasSuffix(rhs, ";") {
					*bad = "assignment without `;`: " + t
					return out
				}
				rhs = rhs[:len(rhs)-1]
			}
			out = append(out, &c08wSStmt{kind: "assign", name: t[:k], expr: rhs})
		}
	}
	return out
}

type c08wScriptEval struct {
	lang       string
	lg         *c08xLang
	targets    map[string]*c08wTarget // by the language's field name
	alts       map[string]int
	env        map[string]string
	undeclared []string
	bad        string
}

func (e *c08wScriptEval) fail(msg string) string {
	if e.bad == "" {
		e.bad = msg
	}
	return "?"
}

// object: what a switch target field holds under the chosen alternative
func (e *c08wScriptEval) object(t *c08wTarget) string {
	alt := t.alts[e.alts[t.name]]
	switch {
	case alt == "":
		return "none"
	case t.kind == "union":
		return "uobj(" + t.name + ")"
	}
	return "val(" + t.name + ")"
}

func (e *c08wScriptEval) node(n *c08xNode) string {
	switch {
	case strings.HasPrefix(n.head, "field:") && len(n.kids) == 0:
		if t := e.targets[n.head[len("field:"):]]; t != nil {
			return e.object(t)
		}
		return n.head
	case strings.HasPrefix(n.head, "id:") && len(n.kids) == 0:
		if v, ok := e.env[n.head[3:]]; ok {
			return v
		}
		e.undeclared = append(e.undeclared, n.head[3:])
		return "undeclared:" + n.head[3:]
	case n.head == "member:value" && len(n.kids) == 1:
		o := e.node(n.kids[0])
		if x, ok := cgBetween(o, "uobj(", ")"); ok {
			return "val(" + x + ")"
		}
		return e.fail(".value of " + o)
	}
	if len(n.kids) == 0 {
		return n.head
	}
	out := n.head + "("
	for i, k := range n.kids {
		if i > 0 {
			out += ","
		}
		out += e.node(k)
	}
	return out + ")"
}

func (e *c08wScriptEval) expr(text string) string {
	toks, lexBad := e.lg.lex(text)
	if lexBad != "" {
		return e.fail(lexBad)
	}
	r := &c08xReader{lg: e.lg, toks: toks}
	n := r.expr(0)
	if r.bad == "" && r.pos != len(toks) {
		r.fail("trailing tokens from `" + r.peek() + "`")
	}
	if r.bad != "" {
		return e.fail(r.bad + " in " + text)
	}
	return e.node(n)
}

func c08wPascal(s string) string {
	if s == "" {
		return s
	}
	return strings.ToUpper(s[:1]) + s[1:]
}

var c08wTags = map[string]string{"int": "int32", "string": "string"} // docs/reference: the default tag of a case is its type name, int = int32

func (e *c08wScriptEval) variable(x string) (string, bool) {
	if !isIdent(x) {
		return "", false
	}
	v, ok := e.env[x]
	if !ok {
		e.undeclared = append(e.undeclared, x)
	}
	return v, ok
}

func (e *c08wScriptEval) targetOf(obj string) *c08wTarget {
	x, ok := cgBetween(obj, "uobj(", ")")
	if !ok {
		return nil
	}
	for _, t := range e.targets {
		if t.name == x {
			return t
		}
	}
	return nil
}

func (e *c08wScriptEval) cond(c string) bool {
	if e.lang == "python" {
		if x, ok := cgBetween(c, "", " is not None"); ok {
			if v, ok := e.variable(x); ok {
				return v != "none"
			}
		}
		if x, ok := cgBetween(c, "", " is None"); ok {
			if v, ok := e.variable(x); ok {
				return v == "none"
			}
		}
		if in, ok := cgBetween(c, "isinstance(", ")"); ok {
			if k := strings.Index(in, ", "); k > 0 {
				if v, ok := e.variable(in[:k]); ok {
					cls := in[k+2:]
					t := e.targetOf(v)
					if t == nil {
						return false // None / a plain value is not an instance of a union case class
					}
					return cls[strings.LastIndex(cls, ".")+1:] == c08wPascal(c08wTags[t.alts[e.alts[t.name]]])
				}
			}
		}
	} else {
		if x, ok := cgBetween(c, "", " ~= yardl.None"); ok {
			if v, ok := e.variable(x); ok {
				return v != "none"
			}
		}
		if x, ok := cgBetween(c, "", " == yardl.None"); ok {
			if v, ok := e.variable(x); ok {
				return v == "none"
			}
		}
		if in, ok := cgBetween(c, "isa(", ""); ok {
			// isa(x, "cls") && x.index == k
			k1 := strings.Index(in, ", \"")
			k2 := strings.Index(in, "\") && ")
			if k1 > 0 && k2 > k1 {
				x := in[:k1]
				if idx, ok := cgBetween(in[k2+len("\") && "):], x+".index == ", ""); ok {
					if v, ok := e.variable(x); ok {
						t := e.targetOf(v)
						if t == nil {
							return false
						}
						pos := 0 // 1-based position among the non-null cases
						for i := 0; i <= e.alts[t.name]; i++ {
							if t.alts[i] != "" {
								pos++
							}
						}
						return idx == fmt.Sprint(pos)
					}
				}
			}
		}
	}
	e.fail("condition: " + c)
	return false
}

func (e *c08wScriptEval) exec(ss []*c08wSStmt) (string, bool) {
	for _, s := range ss {
		if e.bad != "" {
			return "?", true
		}
		switch s.kind {
		case "if":
			if e.cond(s.cond) {
				if r, ret := e.exec(s.body); ret {
					return r, true
				}
			}
		case "assign":
			e.env[s.name] = e.expr(s.expr)
		case "return":
			if e.lang == "python" {
				return e.expr(s.expr), true
			}
			r, ok := e.env["res"]
			if !ok {
				return e.fail("return before res is assigned"), true
			}
			return r, true
		case "raise":
			return "raise", true
		}
	}
	return "", false
}

// ---- the part -------------------------------------------------------------------------------------------------------

func c08wAltCombos(ts []*c08wTarget) []map[string]int {
	out := []map[string]int{{}}
	for _, t := range ts {
		var next []map[string]int
		for _, m := range out {
			for a := range t.alts {
				c := map[string]int{}
				for k, v := range m {
					c[k] = v
				}
				c[t.name] = a
				next = append(next, c)
			}
		}
		out = next
	}
	return out
}

func c08wAltsText(alts map[string]int) string {
	out := ""
	for _, t := range c08wTargets {
		if a, ok := alts[t.name]; ok {
			out += fmt.Sprintf("%s=%d ", t.name, a)
		}
	}
	return out
}

// C08Switch(maxCases, nTargets, nested, what): nested = number of inner target kinds (0: no nested switch, 1: an optional,
// 2: also a union); what & 1 C++, & 2 Python, & 4 MATLAB, & 8 C++ lambda captures.
func C08Switch(maxCases, nTargets, nested, what int) {
	g := &c08wGen{}
	sw := g.build(maxCases, nTargets, nested)
	b := &mb{file: "model.yml"}
	var fields []*dsl.Field
	for _, t := range c08wTargets {
		fields = append(fields, b.field(t.name, t.yardlType(b)))
	}
	for _, l := range c08wLeaves {
		fields = append(fields, b.field(l, b.st("int")))
	}
	rec := b.record("Ns", "Rec", nil, fields...)
	rec.ComputedFields = dsl.ComputedFields{&dsl.ComputedField{NodeMeta: b.meta(), Name: "c", Expression: sw.ast(b)}}
	ns := &dsl.Namespace{Name: "Ns", IsTopLevel: true, TypeDefinitions: dsl.TypeDefinitions{rec}}
	env, err := dsl.Validate([]*dsl.Namespace{ns})
	if err != nil {
		verifOut("validation-error", err.Error())
	}
	verifAssert("well-formed-switch-validates", err == nil)
	if err != nil {
		return
	}
	resolved := env.Namespaces[0].TypeDefinitions[0].(*dsl.RecordDefinition)
	expr := resolved.ComputedFields[0].Expression
	combos := c08wAltCombos(sw.targets(nil))

	if what&1 != 0 {
		_, _, members, found := c14tReadStruct(cpptypes.VerifWriteNamespaceMembers(env.Namespaces[0]), "Rec")
		verifAssert("struct-emitted-with-one-member-per-field", found && len(members) == len(resolved.Fields))
		if !found || len(members) != len(resolved.Fields) {
			return
		}
		memberOf := map[string]string{}
		memberSet := map[string]bool{}
		targets := map[string]*c08wTarget{}
		for i, f := range resolved.Fields {
			memberOf[f.Name] = members[i]
			memberSet[members[i]] = true
		}
		for _, t := range c08wTargets {
			targets[memberOf[t.name]] = t
		}
		text := cpptypes.VerifWriteComputedFieldExpression(expr)
		verifOut("cpp", text)
		toks, lexBad := c08xCpp.lex(text)
		p := &c08wCppParser{toks: toks, bad: lexBad}
		v := p.value()
		if p.bad == "" && p.pos != len(toks) {
			p.fail("trailing tokens from `" + p.peek() + "`")
		}
		verifOut("cpp-read", p.bad)
		verifAssert("cpp-text-is-one-complete-expression", p.bad == "" && len(p.effects) == 0)
		if p.bad == "" {
			for _, alts := range combos {
				want := sw.denote(alts, map[string]string{}, func(n string) string { return memberOf[n] })
				if strings.Contains(want, "nomatch") {
					continue
				}
				e := &c08wEval{targets: targets, members: memberSet, alts: alts}
				got := e.value(v, &c08wScope{vars: map[string]string{}})
				verifOut("cpp-eval", fmt.Sprint(c08wAltsText(alts), " ", got, " want ", want, " ", e.bad, " undeclared ", e.undeclared))
				verifAssert("cpp-only-known-forms", e.bad == "")
				verifAssert("cpp-every-identifier-is-declared-in-scope", len(e.undeclared) == 0)
				if what&8 != 0 {
					verifAssert("cpp-every-identifier-is-captured-by-the-enclosing-lambdas", len(e.uncaptured) == 0)
				}
				if e.bad == "" && len(e.undeclared) == 0 {
					verifAssert("cpp-switch-denotes-the-source-switch", got == want)
				}
			}
		}
		verifReach("c08w-cpp-end")
	}
	for _, lang := range []string{"python", "matlab"} {
		if (lang == "python" && what&2 == 0) || (lang == "matlab" && what&4 == 0) {
			continue
		}
		var text string
		lg := c08xPython
		if lang == "python" {
			text = pytypes.VerifWriteComputedFieldExpression(expr, "Ns")
		} else {
			text = mtypes.VerifWriteComputedFieldExpression(expr, "Ns")
			lg = c08xMatlab
		}
		verifOut(lang, text)
		var lines []string
		for _, l := range strings.Split(text, "\n") {
			if strings.TrimSpace(l) != "" {
				lines = append(lines, l)
			}
		}
		pos, bad := 0, ""
		stmts := c08wScriptStmts(lang, lines, &pos, 0, &bad)
		if bad == "" && pos != len(lines) {
			bad = "trailing line: " + lines[pos]
		}
		verifOut(lang+"-read", bad)
		verifAssert(lang+"-body-is-a-statement-list-of-known-forms", bad == "")
		if bad != "" {
			continue
		}
		targets := map[string]*c08wTarget{}
		for _, t := range c08wTargets {
			targets[t.name] = t // the field names of this model are spelled alike in every language
		}
		for _, alts := range combos {
			want := sw.denote(alts, map[string]string{}, func(n string) string { return n })
			if strings.Contains(want, "nomatch") {
				continue
			}
			e := &c08wScriptEval{lang: lang, lg: lg, targets: targets, alts: alts, env: map[string]string{}}
			got, returned := e.exec(stmts)
			verifOut(lang+"-eval", fmt.Sprint(c08wAltsText(alts), " ", got, " want ", want, " ", e.bad, " undeclared ", e.undeclared))
			verifAssert(lang+"-only-known-forms", e.bad == "")
			verifAssert(lang+"-every-identifier-is-assigned-before-use", len(e.undeclared) == 0)
			if e.bad == "" && len(e.undeclared) == 0 {
				verifAssert(lang+"-switch-denotes-the-source-switch", returned && got == want)
			}
		}
		verifReach("c08w-" + lang + "-end")
	}
}
