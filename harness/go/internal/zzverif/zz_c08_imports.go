package zzverif

// C08 ("generated Python modules compile and import"), import-closure side.
//
// C08PythonImports: the complete real Python generator on a model of up to three namespaces
// (Top -> Mid -> Base, optionally Top -> Base as well, in either list order; Mid records have Base record,
// enum, generic-instance and union fields) for every generateNDJson / has-protocols / import-shape
// combination.  The emitted Python is read back and given meaning:
//   - every relative import statement of every generated module (from . import x, from .. import y,
//     from .x import ..., from ..x import ...) resolves to a module or package written in the same run
//     (or to a runtime module the generator copies next to the top-level package);
//   - every use `x.Name` of another namespace's identifier x in a module is covered by an import of x in
//     that module (directly, or through a star-import of a sibling module that imports it);
//   - inside every types.py, the dtype registrations `dtype_map.setdefault(K, E)` run top to bottom and an
//     eagerly evaluated E may only mention keys registered by an earlier statement (get_dtype raises
//     otherwise, _dtypes.py:get_dtype_impl): registrations are dependencies-first across namespaces.
//
// C08ChildReferences: the real Namespace.GetAllChildReferences on every reference DAG over n namespaces
// (symbolic edge set, every list order, one optional repeated reference): each transitively referenced
// namespace exactly once, nothing else, and every namespace after all namespaces it references - the order
// every consumer (python __init__/types import lists, dtype registration) emits per-namespace code in.

import (
	"fmt"
	"strings"

	python "github.com/microsoft/yardl/tooling/internal/python"
	"github.com/microsoft/yardl/tooling/pkg/dsl"
	"github.com/microsoft/yardl/tooling/pkg/packaging"
)

const c08Out = "/out/py"

func c08Dir(f string) string {
	if i := strings.LastIndex(f, "/"); i >= 0 {
		return f[:i]
	}
	return ""
}

// c08Import: one relative import statement read back from a generated module.
type c08Import struct {
	target string // virtual path of the imported module without extension
	name   string // local name bound when the statement is `from <pkg> import name`; "" otherwise
	star   bool   // from .mod import *
}

// c08ParseImports reads the relative import statements of one module.
func c08ParseImports(file, text string) []c08Import {
	var out []c08Import
	dir := c08Dir(file)
	for _, line := range strings.Split(text, "\n") {
		line = strings.TrimSpace(line)
		if !strings.HasPrefix(line, "from .") {
			continue
		}
		rest := strings.TrimPrefix(line, "from ")
		i := strings.Index(rest, " import ")
		if i < 0 {
			continue
		}
		mod, names := rest[:i], strings.TrimSpace(rest[i+len(" import "):])
		base := dir
		mod = mod[1:]
		for strings.HasPrefix(mod, ".") {
			base = c08Dir(base)
			mod = mod[1:]
		}
		if mod != "" {
			out = append(out, c08Import{target: base + "/" + strings.ReplaceAll(mod, ".", "/"), star: names == "*"})
			continue
		}
		for _, nm := range strings.Split(names, ",") {
			nm = strings.TrimSpace(nm)
			if nm == "" || nm == "(" {
				continue
			}
			local := nm
			if j := strings.Index(nm, " as "); j >= 0 {
				local = strings.TrimSpace(nm[j+4:])
				nm = strings.TrimSpace(nm[:j])
			}
			out = append(out, c08Import{target: base + "/" + nm, name: local})
		}
	}
	return out
}

// c08UsesQualified: does text use `id.` as the head of a dotted name?
func c08UsesQualified(text, id string) bool {
	pat := id + "."
	off := 0
	for {
		i := strings.Index(text[off:], pat)
		if i < 0 {
			return false
		}
		at := off + i
		head := true
		if at > 0 {
			c := text[at-1]
			if c == '.' || c == '_' || (c >= 'a' && c <= 'z') || (c >= 'A' && c <= 'Z') || (c >= '0' && c <= '9') {
				head = false
			}
		}
		if head {
			// not an import statement itself
			ls := strings.LastIndex(text[:at], "\n") + 1
			if !strings.HasPrefix(strings.TrimSpace(text[ls:at]), "from ") {
				return true
			}
		}
		off = at + len(pat)
	}
}

// c08CheckRegistrationOrder gives the dtype registrations of one types.py their meaning.
func c08CheckRegistrationOrder(file, text string) int {
	type reg struct {
		key  string
		uses []string
	}
	var regs []reg
	keys := map[string]bool{}
	for _, line := range strings.Split(text, "\n") {
		line = strings.TrimSpace(line)
		if !strings.HasPrefix(line, "dtype_map.setdefault(") {
			continue
		}
		toks := verifTokens(line)
		// dtype_map.setdefault ( KEY , EXPR... )
		if len(toks) < 5 || toks[1] != "(" || toks[3] != "," {
			verifAssert("registration-statement-understood", false)
			continue
		}
		r := reg{key: toks[2]}
		if toks[4] != "lambda" { // a lambda body runs only when a generic type is instantiated later
			for _, t := range toks[5:] {
				if strings.HasPrefix(t, "'") || strings.HasPrefix(t, "\"") {
					continue
				}
				r.uses = append(r.uses, t)
			}
			r.uses = append(r.uses, toks[4])
		}
		keys[r.key] = true
		regs = append(regs, r)
	}
	done := map[string]bool{}
	for _, r := range regs {
		for _, u := range r.uses {
			if keys[u] && u != r.key {
				if !done[u] {
					verifOut("used-before-registered", file+": "+r.key+" uses "+u)
				}
				verifAssert("dtype-registered-before-use", done[u])
			}
		}
		done[r.key] = true
	}
	return len(regs)
}

func C08PythonImports() {
	verifUseRepl("CopyEmbeddedStaticFiles")
	shape := verifChoose("imports", 4) // 0: none; 1: Top->Mid->Base; 2: Top->[Mid,Base], Mid->Base; 3: Top->[Base,Mid], Mid->Base
	hasProtocols := verifChoose("main-has-protocols", 2) == 1
	ndjson := verifBool("generate-ndjson")

	bBase := &mb{file: "base/base.yml"}
	base := &dsl.Namespace{Name: "Base"}
	base.TypeDefinitions = dsl.TypeDefinitions{
		bBase.enum("Base", "Kind", nil, "a", "b"),
		bBase.record("Base", "Point", nil, bBase.field("x", bBase.st("float")), bBase.field("y", bBase.st("float"))),
		bBase.record("Base", "Pair", []string{"A", "B"}, bBase.field("first", bBase.st("A")), bBase.field("second", bBase.st("B"))),
	}
	bMid := &mb{file: "mid/mid.yml"}
	mid := &dsl.Namespace{Name: "Mid", References: []*dsl.Namespace{base}}
	mid.TypeDefinitions = dsl.TypeDefinitions{
		bMid.record("Mid", "Segment", nil,
			bMid.field("start", bMid.st("Base.Point")), bMid.field("end", bMid.st("Base.Point")), bMid.field("kind", bMid.st("Base.Kind"))),
		bMid.alias("Mid", "PointAndCount", nil, bMid.st("Base.Pair", bMid.st("Base.Point"), bMid.st("int"))),
		bMid.alias("Mid", "PointOrInt", nil, bMid.gt(nil, bMid.st("Base.Point"), bMid.st("int"))),
		bMid.record("Mid", "Path", nil, bMid.field("segments", bMid.vec(bMid.st("Segment"))), bMid.field("tag", bMid.st("PointOrInt")),
			bMid.field("extent", bMid.st("PointAndCount"))),
	}
	bTop := &mb{file: "top/top.yml"}
	top := &dsl.Namespace{Name: "Top", IsTopLevel: true}
	all := []*dsl.Namespace{top}
	fields := []*dsl.Field{bTop.field("id", bTop.st("int"))}
	steps := []*dsl.ProtocolStep{bTop.step("count", bTop.st("int"))}
	if shape >= 1 {
		fields = append(fields, bTop.field("seg", bTop.st("Mid.Segment")), bTop.field("path", bTop.opt(bTop.st("Mid.Path"))))
		steps = append(steps, bTop.step("segments", bTop.strm(bTop.st("Mid.Segment"))))
		all = []*dsl.Namespace{base, mid, top}
		top.References = []*dsl.Namespace{mid}
	}
	if shape >= 2 {
		fields = append(fields, bTop.field("origin", bTop.st("Base.Point")))
		steps = append(steps, bTop.step("origin", bTop.st("Base.Point")))
		top.References = []*dsl.Namespace{mid, base}
		if shape == 3 {
			top.References = []*dsl.Namespace{base, mid}
		}
	}
	top.TypeDefinitions = dsl.TypeDefinitions{bTop.record("Top", "Item", nil, fields...)}
	steps = append(steps, bTop.step("items", bTop.strm(bTop.st("Item"))))
	if hasProtocols {
		top.Protocols = []*dsl.ProtocolDefinition{bTop.protocol("Top", "Flow", steps...)}
	}

	env, err := dsl.Validate(all)
	verifAssert("model-validates", err == nil)
	if err != nil {
		verifOut("err", err.Error())
		return
	}
	opts := packaging.PythonCodegenOptions{OutputDir: verifPath(c08Out), GenerateNDJson: ndjson}
	var gerr error
	msg, panicked := verifPanics(func() { gerr = python.VerifGenerate(env, opts) })
	verifOut("panic", msg)
	verifAssert("generation-does-not-panic", !panicked)
	verifAssert("generation-succeeds", gerr == nil)
	if panicked || gerr != nil {
		return
	}

	topDir := c08Out + "/top"
	has := map[string]bool{}
	var modules []string
	for _, f := range verifFsList() {
		if strings.HasPrefix(f, c08Out+"/") && strings.HasSuffix(f, ".py") {
			has[f] = true
			bn := f[strings.LastIndex(f, "/")+1:]
			if !strings.HasPrefix(bn, "_") || bn == "__init__.py" {
				if bn != "yardl_types.py" {
					modules = append(modules, f) // written by the generators themselves (not the copied runtime)
				}
			}
		}
	}
	// runtime modules copied next to the top-level package (CopyEmbeddedStaticFiles; a stub under gosym)
	runtime := map[string]bool{topDir + "/yardl_types": true, topDir + "/_dtypes": true, topDir + "/_binary": true}
	if ndjson {
		runtime[topDir+"/_ndjson"] = true
	}
	if verifNative() {
		for m := range runtime {
			verifAssert("runtime-module-copied", has[m+".py"])
		}
	}
	resolves := func(target string) bool {
		return has[target+".py"] || has[target+"/__init__.py"] || runtime[target]
	}

	nsIds := []string{"base", "mid", "top"}
	imports := map[string][]c08Import{}
	texts := map[string]string{}
	nimports := 0
	for _, f := range modules {
		text, _ := verifFsGet(f)
		texts[f] = text
		imports[f] = c08ParseImports(f, text)
		for _, imp := range imports[f] {
			nimports++
			ok := resolves(imp.target)
			if !ok {
				verifOut("unresolved-import", f+" -> "+imp.target)
			}
			verifAssert("relative-import-resolves", ok)
		}
	}
	verifOut("modules", len(modules))
	verifOut("imports", nimports)

	// names of other namespaces a module may use: bound by its own imports or by a star-imported sibling
	var visible func(f string, depth int) map[string]bool
	visible = func(f string, depth int) map[string]bool {
		v := map[string]bool{}
		for _, imp := range imports[f] {
			if imp.name != "" {
				v[imp.name] = true
			}
			if imp.star && depth < 3 && has[imp.target+".py"] {
				for k := range visible(imp.target+".py", depth+1) {
					v[k] = true
				}
			}
		}
		return v
	}
	for _, f := range modules {
		v := visible(f, 0)
		for _, id := range nsIds {
			if c08UsesQualified(texts[f], id) {
				if !v[id] {
					verifOut("namespace-used-without-import", f+": "+id)
				}
				verifAssert("used-namespace-is-imported", v[id])
			}
		}
	}

	nregs := 0
	for _, f := range modules {
		if strings.HasSuffix(f, "/types.py") {
			nregs += c08CheckRegistrationOrder(f, texts[f])
		}
	}
	verifOut("registrations", nregs)

	want := 1
	if shape >= 1 {
		want = 3
	}
	ninit := 0
	for _, f := range modules {
		if strings.HasSuffix(f, "/__init__.py") {
			ninit++
			d := c08Dir(f)
			verifAssert("package-has-types-and-binary", has[d+"/types.py"] && has[d+"/binary.py"])
			verifAssert("ndjson-written-iff-enabled", has[d+"/ndjson.py"] == ndjson)
		}
	}
	verifAssert("one-package-per-namespace", ninit == want)
	verifReach("c08-python-imports-end")
}

// C08ChildReferences: see the file comment.
func C08ChildReferences(n int) {
	nss := make([]*dsl.Namespace, n)
	refs := make([][]int, n)
	for i := n - 1; i >= 0; i-- {
		nss[i] = &dsl.Namespace{Name: fmt.Sprintf("N%c", 'a'+i)}
		var sel []int
		for j := i + 1; j < n; j++ {
			if verifChoose(fmt.Sprintf("ref%d_%d", i, j), 2) == 1 {
				sel = append(sel, j)
			}
		}
		if len(sel) > 1 {
			f := 1
			for m := 2; m <= len(sel); m++ {
				f *= m
			}
			k := verifChoose(fmt.Sprintf("order%d", i), f)
			rest := append([]int{}, sel...)
			sel = nil
			for m := len(rest); m > 0; m-- {
				g := 1
				for q := 2; q < m; q++ {
					g *= q
				}
				idx := k / g
				k %= g
				sel = append(sel, rest[idx])
				rest = append(rest[:idx], rest[idx+1:]...)
			}
		}
		refs[i] = sel
	}
	// optionally one namespace lists one of its references twice (a package may list an import twice)
	if verifChoose("repeat", 2) == 1 {
		a := verifChoose("repeat-in", n)
		if len(refs[a]) > 0 {
			refs[a] = append(refs[a], refs[a][verifChoose("repeat-which", len(refs[a]))])
		}
	}
	for i := 0; i < n; i++ {
		for _, j := range refs[i] {
			nss[i].References = append(nss[i].References, nss[j])
		}
	}
	closure := make([][]bool, n)
	for i := range closure {
		closure[i] = make([]bool, n)
	}
	var mark func(root, i int)
	mark = func(root, i int) {
		for _, j := range refs[i] {
			if !closure[root][j] {
				closure[root][j] = true
				mark(root, j)
			}
		}
	}
	for i := 0; i < n; i++ {
		mark(i, i)
	}
	for i := 0; i < n; i++ {
		var children []*dsl.Namespace
		_, panicked := verifPanics(func() { children = nss[i].GetAllChildReferences() })
		verifAssert("child-references-do-not-panic", !panicked)
		pos := make([]int, n)
		want := 0
		for j := 0; j < n; j++ {
			pos[j] = -1
			cnt := 0
			for k, c := range children {
				if c == nss[j] {
					cnt++
					pos[j] = k
				}
			}
			if closure[i][j] {
				want++
				verifAssert("child-references-each-once", cnt == 1)
			} else {
				verifAssert("child-references-only-referenced", cnt == 0)
			}
		}
		verifAssert("child-references-each-once", len(children) == want)
		for j := 0; j < n; j++ {
			if !closure[i][j] {
				continue
			}
			for _, k := range refs[j] {
				verifAssert("child-references-dependencies-first", pos[k] >= 0 && pos[k] < pos[j])
			}
		}
	}
	verifReach("c08-child-references-end")
}
