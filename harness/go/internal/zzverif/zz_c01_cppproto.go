package zzverif

// C01 / C17 / C05 (C++ emitter level): the binary protocol writer / reader method bodies emitted by
// cpp/binary.writeProtocolMethods (writeProtocolStep, writeStepRw, writeEndStream,
// writeChangeSwitchCase), read back into statements (zz_cppstmt.go) and evaluated on a batch of
// symbolic length / a reader in a symbolic block state, must denote the documented wire effect
// (docs/reference/binary.md, "Streams"; docs/cpp/evolution.md for version_ != Current):
//
//   value step    exactly one value laid out as Plan(step type in the targeted version)
//   stream step   every Write call emits zero or more blocks, each a NON-ZERO length followed by
//                 exactly that many items of Plan(item type); the items are the items passed, once each
//                 (so how items are batched never shows in what a reader receives: C17);
//                 End emits the single zero length that ends the stream, and only End does
//   readers       a single read consumes a block length only when the current block is exhausted and
//                 reports false exactly when that length is zero; a batch read reports "more may
//                 follow" exactly when the zero length has not been consumed
//   a step that does not exist in the targeted version: nothing is written or read for it (C05)

import (
	"fmt"

	cppbinary "github.com/microsoft/yardl/tooling/internal/cpp/binary"
	"github.com/microsoft/yardl/tooling/pkg/dsl"
)

type stepSpec struct {
	exists bool   // the step exists in the version being written / read
	stream bool   // (of the current model: decides which methods exist)
	plan   string // plan of the value (plain step) or of one item (stream step) in that version
}

// elemOf: the item type of a stream step, the type itself otherwise.
func elemOf(t dsl.Type) dsl.Type {
	if g, ok := t.(*dsl.GeneralizedType); ok {
		if _, isStream := g.Dimensionality.(*dsl.Stream); isStream {
			return &dsl.GeneralizedType{Cases: g.Cases}
		}
	}
	return t
}

func isStreamType(t dsl.Type) bool {
	if g, ok := t.(*dsl.GeneralizedType); ok {
		_, isStream := g.Dimensionality.(*dsl.Stream)
		return isStream
	}
	return false
}

type protoSyms struct {
	n         int    // length of the batch handed to the batch Write overload
	rem, next uint64 // current_block_remaining_ before the read; the next block length on the wire
}

func flowsFrom(r *protoRun, dst, src string) bool {
	return dst == src || r.root(dst) == src
}

func runMethod(g *gen, f *cfunc, write, stream bool, version string, y *protoSyms) *protoRun {
	r := newProtoRun(g, write, stream, version, f.params)
	if write {
		r.lens["values"] = y.n
	} else {
		r.rem, r.nextCount = y.rem, y.next
	}
	flow := r.exec(f.body)
	verifOut("unknown-form", r.unknown+f.bad)
	verifAssert("only-known-statement-forms", r.unknown == "" && f.bad == "")
	verifAssert("version-switch-labels-distinct", !r.dupLabel)
	verifAssert("method-does-not-throw-unconditionally", flow != flowThrow)
	return r
}

// checkStepWriter: Write (single), Write (batch), End of one step for one version_.
func checkStepWriter(g *gen, fs []*cfunc, cls, pascal, version string, sp stepSpec, y *protoSyms) {
	w := findFunc(fs, cls+"Writer", "Write"+pascal+"Impl", false)
	verifAssert("method-emitted", w != nil)
	if w == nil {
		return
	}
	r := runMethod(g, w, true, sp.stream, version, y)
	if r.unknown != "" {
		return
	}
	switch {
	case !sp.exists:
		verifAssert("absent-step-writes-nothing", len(r.toks) == 0)
	case sp.stream:
		ok := len(r.toks) == 2 && r.toks[0].kind == "count" && r.toks[1].kind == "items" && r.toks[1].plan == sp.plan && flowsFrom(r, r.toks[1].v, "value")
		verifAssert("single-write-is-one-block", ok)
		if ok {
			verifAssert("block-length-nonzero", r.toks[0].n != 0)
			verifAssert("block-holds-exactly-its-length", r.toks[0].n == r.toks[1].n && r.toks[1].n == 1)
		}
	default:
		verifAssert("value-step-writes-one-value", len(r.toks) == 1 && r.toks[0].kind == "value" && r.toks[0].plan == sp.plan && flowsFrom(r, r.toks[0].v, "value"))
	}
	if !sp.stream {
		return
	}
	wb := findFunc(fs, cls+"Writer", "Write"+pascal+"Impl", true)
	we := findFunc(fs, cls+"Writer", "End"+pascal+"Impl", false)
	verifAssert("method-emitted", wb != nil && we != nil)
	if wb == nil || we == nil {
		return
	}
	r = runMethod(g, wb, true, true, version, y)
	if r.unknown != "" {
		return
	}
	if !sp.exists {
		verifAssert("absent-step-writes-nothing", len(r.toks) == 0)
	} else {
		shape := len(r.toks)%2 == 0
		total := 0
		for i := 0; i+1 < len(r.toks); i += 2 {
			c, it := r.toks[i], r.toks[i+1]
			good := c.kind == "count" && it.kind == "items" && it.plan == sp.plan && flowsFrom(r, it.v, "values")
			shape = shape && good
			if good {
				verifAssert("block-length-nonzero", c.n != 0) // a zero length would end the stream
				verifAssert("block-holds-exactly-its-length", it.n == c.n)
				total += it.n
			}
		}
		verifAssert("batch-is-a-sequence-of-blocks", shape)
		verifAssert("batch-writes-every-item-once", total == y.n)
	}
	r = runMethod(g, we, true, true, version, y)
	if r.unknown != "" {
		return
	}
	if !sp.exists {
		verifAssert("absent-step-writes-nothing", len(r.toks) == 0)
	} else {
		ok := len(r.toks) == 1 && r.toks[0].kind == "count"
		verifAssert("end-writes-one-length", ok)
		if ok {
			verifAssert("end-writes-zero-length", r.toks[0].n == 0)
		}
	}
}

// checkStepReader: Read (single), Read (batch) of one step for one version_.
func checkStepReader(g *gen, fs []*cfunc, cls, pascal, version string, sp stepSpec, y *protoSyms) {
	rd := findFunc(fs, cls+"Reader", "Read"+pascal+"Impl", false)
	verifAssert("method-emitted", rd != nil)
	if rd == nil {
		return
	}
	if !sp.exists {
		// between steps no block is open: every earlier stream was read to its zero length
		y = &protoSyms{rem: 0, next: y.next}
	}
	r := runMethod(g, rd, false, sp.stream, version, y)
	if r.unknown != "" {
		return
	}
	switch {
	case !sp.stream && !sp.exists:
		verifAssert("absent-step-reads-nothing", len(r.toks) == 0)
		verifAssert("absent-step-yields-default", r.fresh[r.root("value")] && r.root("value") != "value")
	case !sp.stream:
		verifAssert("value-step-reads-one-value", len(r.toks) == 1 && r.toks[0].kind == "value" && r.toks[0].plan == sp.plan && flowsFrom(r, "value", r.toks[0].v))
	case !sp.exists:
		verifAssert("absent-step-reads-nothing", len(r.toks) == 0 && r.countsRead == 0)
		verifAssert("absent-stream-reports-end", r.returned && !r.retVal)
	default:
		expect := y.rem != 0 || y.next != 0
		verifAssert("single-read-reports-item-iff-read", r.returned && r.retVal == expect)
		verifAssert("length-consumed-only-when-block-exhausted", (r.countsRead == 1) == (y.rem == 0) && r.countsRead <= 1)
		if expect {
			verifAssert("single-read-delivers-one-item", len(r.toks) == 1 && r.toks[0].kind == "items" && r.toks[0].plan == sp.plan && flowsFrom(r, "value", r.toks[0].v))
			if y.rem != 0 {
				verifAssert("block-remaining-decremented", r.rem == y.rem-1)
			} else {
				verifAssert("block-remaining-decremented", r.rem == y.next-1)
			}
		} else {
			verifAssert("end-of-stream-reads-no-item", len(r.toks) == 0 && r.rem == 0)
		}
	}
	if !sp.stream {
		return
	}
	rb := findFunc(fs, cls+"Reader", "Read"+pascal+"Impl", true)
	verifAssert("method-emitted", rb != nil)
	if rb == nil {
		return
	}
	r = runMethod(g, rb, false, true, version, y)
	if r.unknown != "" {
		return
	}
	if !sp.exists {
		verifAssert("absent-step-reads-nothing", len(r.toks) == 0 && r.countsRead == 0)
		verifAssert("absent-stream-reports-end", r.returned && !r.retVal && r.fresh["values"])
		return
	}
	ok := len(r.toks) == 1 && r.toks[0].kind == "items" && r.toks[0].plan == sp.plan && r.batchRead
	verifAssert("batch-read-is-one-kernel-call", ok)
	if ok {
		v := r.toks[0].v
		verifAssert("batch-read-delivers-the-items-read", flowsFrom(r, "values", v) && r.lens["values"] == r.lens[v] && r.lens[v] == r.toks[0].n)
		ended := r.rem == 0 // interpretation: zero iff the stream's terminating length was consumed
		verifAssert("batch-read-reports-more-iff-not-ended", r.returned && r.retVal == !ended)
	}
}

var c01ElemNames = []string{"int", "string", "Rec", "int*", "int?", "uint64", "float", "[int,string]"}

func c01Elem(b *mb, k int) dsl.Type {
	switch k {
	case 0:
		return b.st("int")
	case 1:
		return b.st("string")
	case 2:
		return b.st("Rec")
	case 3:
		return b.vec(b.st("int"))
	case 4:
		return b.opt(b.st("int"))
	case 5:
		return b.st("uint64")
	case 6:
		return b.st("float")
	}
	return b.gt(nil, b.st("int"), b.st("string"))
}

func registerDefs(g *gen, env *dsl.Environment) {
	for _, ns := range env.Namespaces {
		for _, td := range ns.TypeDefinitions {
			g.defs[td.GetDefinitionMeta().GetQualifiedName()] = td
		}
	}
}

// C01CppProto(nSteps, vocab, side): a protocol of nSteps steps, each a plain value or a stream
// (symbolic) of one of `vocab` element types (symbolic); side 0 = writer methods, 1 = reader methods.
func C01CppProto(nSteps, vocab, side int) {
	b := &mb{file: "model.yml"}
	var steps []*dsl.ProtocolStep
	for i := 0; i < nSteps; i++ {
		k := verifChoose(fmt.Sprintf("elem%d", i), vocab)
		t := c01Elem(b, k)
		if verifChoose(fmt.Sprintf("stream%d", i), 2) == 1 {
			t = b.strm(t)
		}
		steps = append(steps, b.step(fmt.Sprintf("s%d", i), t))
	}
	ns := &dsl.Namespace{Name: NS, IsTopLevel: true,
		TypeDefinitions: dsl.TypeDefinitions{b.record(NS, "Rec", nil, b.field("a", b.st("int")), b.field("b", b.st("string")))},
		Protocols:       []*dsl.ProtocolDefinition{b.protocol(NS, "P", steps...)}}
	env, err := dsl.Validate([]*dsl.Namespace{ns})
	verifAssert("protocol-validates", err == nil)
	if err != nil {
		verifOut("err", err.Error())
		return
	}
	p := env.Namespaces[0].Protocols[0]
	fs := parseCppFuncs(cppbinary.VerifWriteProtocolMethods(p))
	g := newGen()
	registerDefs(g, env)
	y := &protoSyms{}
	if side == 0 {
		y.n = verifInt("batch-length")
		verifAssume(y.n >= 0)
		verifAssume(y.n <= 1<<30)
	} else {
		y.rem, y.next = verifUint64("block-remaining"), verifUint64("next-block-length")
	}
	for i, st := range p.Sequence {
		sp := stepSpec{exists: true, stream: isStreamType(st.Type), plan: Plan(elemOf(st.Type))}
		if side == 0 {
			checkStepWriter(g, fs, "P", fmt.Sprintf("S%d", i), "Current", sp, y)
		} else {
			checkStepReader(g, fs, "P", fmt.Sprintf("S%d", i), "Current", sp, y)
		}
	}
	verifReach("c01-cpp-proto-end")
}
