package zzverif

// C10 (totality): validation passes keep running after an earlier pass has recorded an error, so a later
// pass may meet a definition that violates a rule.  Here every definition-level rule violation of
// zz_c09.go (duplicate / badly cased / reserved names, ill-formed enums and flags, generic enums and
// protocols, unused type parameters, reference cycles through records and through aliases, ...) is
// combined with a USE of the offending definition at every kind of type position, including the two that
// resolve through aliases eagerly (map key, enum base): dsl.Validate must terminate without a panic or
// stack exhaustion and reject the model.

import (
	"strings"

	"github.com/microsoft/yardl/tooling/pkg/dsl"
)

// defUse: a reference to a definition introduced by violateDef(rule), or nil if the rule does not introduce a
// named type definition that can be referred to.
func defUse(b *mb, rule int) dsl.Type {
	switch rule {
	case 0:
		return b.st("Point")
	case 2, 3, 19:
		return b.st("Holder")
	case 6, 7, 8, 9, 10, 11:
		return b.st("Fruit")
	case 13:
		return b.st("Holder", b.st("int"), b.st("string"))
	case 14, 15:
		return b.st([]string{"Aa", "Bb"}[verifChoose("cycle-member", 2)])
	case 16:
		return b.st("Selfish")
	case 18:
		return b.st("Holder", b.st("int"))
	case 20:
		return b.st("Opts")
	case 21:
		return b.st("Xa")
	}
	return nil
}

var usePositionNames = append(append([]string{}, positionNames...), "map-key", "enum-base", "flags-base", "generic-argument-of-imported", "computed-field-conversion")

func placeUse(b *mb, n *dsl.Namespace, pos int, t dsl.Type) {
	ns := n.Name
	switch pos {
	case nPositions:
		n.TypeDefinitions = append(n.TypeDefinitions, b.record(ns, "UseKey", nil, b.field("m", b.mapOf(t, b.st("int")))))
	case nPositions + 1:
		n.TypeDefinitions = append(n.TypeDefinitions, b.enum(ns, "UseBase", t, "one", "two"))
	case nPositions + 2:
		e := b.enum(ns, "UseFlags", t, "one", "two")
		e.IsFlags = true
		n.TypeDefinitions = append(n.TypeDefinitions, e)
	case nPositions + 3:
		n.TypeDefinitions = append(n.TypeDefinitions, b.alias(ns, "UseArg", nil, b.st("Pair", t, t)))
	case nPositions + 4:
		r := b.record(ns, "UseConv", nil, b.field("x", b.st("int")))
		r.ComputedFields = dsl.ComputedFields{&dsl.ComputedField{NodeMeta: b.meta(), Name: "conv",
			Expression: &dsl.TypeConversionExpression{NodeMeta: b.meta(), Expression: &dsl.MemberAccessExpression{NodeMeta: b.meta(), Member: "x"}, Type: t}}}
		n.TypeDefinitions = append(n.TypeDefinitions, r)
	default:
		place(b, n, pos, t)
	}
}

// C10DefUse(): rule x use position x {main, imported namespace}.
func C10DefUse() {
	rule := verifChoose("rule", len(defRuleNames))
	pos := verifChoose("use-position", len(usePositionNames))
	inImport := verifChoose("in-imported-namespace", 2) == 1
	verifOut("rule", defRuleNames[rule])
	verifOut("use-position", usePositionNames[pos])
	bDep := &mb{file: "dep/dep.yml"}
	bMain := &mb{file: "main/model.yml"}
	dep := baseModel(bDep, "Dep")
	dep.IsTopLevel = false
	main := baseModel(bMain, "Main")
	main.References = []*dsl.Namespace{dep}
	target, tb, file := main, bMain, "main/model.yml"
	if inImport {
		target, tb, file = dep, bDep, "dep/dep.yml"
	}
	violateDef(tb, target, rule)
	use := defUse(tb, rule)
	if use == nil {
		verifReach("c10-defuse-no-named-definition")
		return
	}
	placeUse(tb, target, pos, use)
	var err error
	msg := ""
	panicked := false
	done := verifBounded(func() {
		msg, panicked = verifPanics(func() { _, err = dsl.Validate([]*dsl.Namespace{dep, main}) })
	}, 200, 3000000)
	verifAssert("validate-terminates", done)
	if !done {
		return
	}
	verifOut("panic", firstLineOf(msg))
	verifAssert("validate-does-not-panic", !panicked)
	if !panicked {
		verifAssert("violation-rejected", err != nil)
		verifAssert("error-names-offending-file", err == nil || strings.Contains(errText(err), file+":"))
	}
	verifReach("c10-defuse-end")
}

func firstLineOf(s string) string {
	if i := strings.Index(s, "\n"); i >= 0 {
		return s[:i]
	}
	return s
}
