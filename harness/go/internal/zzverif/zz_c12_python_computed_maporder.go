package zzverif

// C12 (quick-tier companion of c12_map_order for the Python backend): "repeated runs give byte-identical results ...
// each execution randomises Go map iteration order".
//
// The complete real Python generator runs on ONE model that is rich in the constructs for which the Python emitters
// keep per-definition or per-expression maps: a record whose computed fields call dimensionIndex(array, name) with a
// name known only at run time on one, two and three DIFFERENT arrays with named dimensions (one lookup helper per
// distinct array), size(array, name), switch expressions over a union and an optional with declared variables,
// unions of two arities, an enum, a flags type, a generic record and aliases.  The generator runs once with every
// map range in insertion order and once with the iteration order of ONE map range of >= 2 entries of dsl.Validate or
// of the generator (the unchanged generator ranges over no map of >= 2 entries on this model) - which one is
// symbolic, every range executed is covered (obligation every-map-range-covered) - a decision (all permutations up
// to 3 entries): every generated file must be byte-identical.  Natively a particular order cannot be selected; a
// dependence found by gosym is confirmed by repeating the native run until Go's own randomised order shows it.

import (
	"github.com/microsoft/yardl/tooling/pkg/dsl"
	"github.com/microsoft/yardl/tooling/pkg/packaging"

	python "github.com/microsoft/yardl/tooling/internal/python"
)

func c12pDims(b *mb, names ...string) *dsl.Array {
	dims := dsl.ArrayDimensions{}
	for i := range names {
		n := names[i]
		dims = append(dims, &dsl.ArrayDimension{NodeMeta: b.meta(), Name: &n})
	}
	return &dsl.Array{NodeMeta: b.meta(), Dimensions: &dims}
}

func c12pModel() *dsl.Namespace {
	b := &mb{file: "model.yml"}
	name := func(n string) dsl.Expression { return &dsl.MemberAccessExpression{NodeMeta: b.meta(), Member: n} }
	call := func(fn string, args ...dsl.Expression) dsl.Expression {
		return &dsl.FunctionCallExpression{NodeMeta: b.meta(), FunctionName: fn, Arguments: args}
	}
	add := func(l, r dsl.Expression) dsl.Expression {
		return &dsl.BinaryExpression{NodeMeta: b.meta(), Left: l, Operator: dsl.BinaryOpAdd, Right: r}
	}
	lit := func(v int64) dsl.Expression { return (&eg{b: b}).intLit(v) }
	computed := func(n string, e dsl.Expression) *dsl.ComputedField {
		return &dsl.ComputedField{NodeMeta: b.meta(), Name: n, Expression: e}
	}
	acq := b.record(NS, "Acquisition", nil,
		b.field("axis", b.st("string")),
		b.field("other", b.st("string")),
		b.field("volume", b.gt(c12pDims(b, "z", "y", "x"), b.st("float"))),
		b.field("sinogram", b.gt(c12pDims(b, "angle", "detector"), b.st("float"))),
		b.field("kspace", b.gt(c12pDims(b, "coil", "kz", "ky", "kx"), b.st("complexfloat"))),
		b.field("choice", b.gt(nil, b.st("int"), b.st("string"), b.st("float"))),
		b.field("maybe", b.opt(b.st("int"))),
		b.field("pair", b.gt(nil, b.st("Mode"), b.st("Rights"))),
		b.field("boxed", b.st("Box", b.st("int"))))
	acq.ComputedFields = dsl.ComputedFields{
		computed("volumeAxis", call("dimensionIndex", name("volume"), name("axis"))),
		computed("axisSum", add(add(call("dimensionIndex", name("volume"), name("axis")), call("dimensionIndex", name("sinogram"), name("axis"))),
			call("dimensionIndex", name("kspace"), name("other")))),
		computed("twoArrays", add(call("dimensionIndex", name("kspace"), name("axis")), call("dimensionIndex", name("sinogram"), name("other")))),
		computed("volumeAxisTwice", add(call("dimensionIndex", name("volume"), name("axis")), call("dimensionIndex", name("volume"), name("other")))),
		computed("extent", add(call("size", name("volume"), name("axis")), call("size", name("sinogram"), name("other")))),
		computed("choiceAsInt", &dsl.SwitchExpression{NodeMeta: b.meta(), Target: name("choice"), Cases: []*dsl.SwitchCase{
			{NodeMeta: b.meta(), Pattern: &dsl.DeclarationPattern{TypePattern: dsl.TypePattern{NodeMeta: b.meta(), Type: b.st("int")}, Identifier: "iv"}, Expression: name("iv")},
			{NodeMeta: b.meta(), Pattern: &dsl.TypePattern{NodeMeta: b.meta(), Type: b.st("string")}, Expression: lit(1)},
			{NodeMeta: b.meta(), Pattern: &dsl.DiscardPattern{NodeMeta: b.meta()}, Expression: lit(2)}}}),
		computed("maybeOrZero", &dsl.SwitchExpression{NodeMeta: b.meta(), Target: name("maybe"), Cases: []*dsl.SwitchCase{
			{NodeMeta: b.meta(), Pattern: &dsl.DeclarationPattern{TypePattern: dsl.TypePattern{NodeMeta: b.meta(), Type: b.st("int")}, Identifier: "mv"}, Expression: name("mv")},
			{NodeMeta: b.meta(), Pattern: &dsl.DiscardPattern{NodeMeta: b.meta()}, Expression: lit(0)}}}),
	}
	rights := b.enum(NS, "Rights", b.st("uint8"), "read", "write", "exec")
	rights.IsFlags = true
	for i, v := range rights.Values {
		v.IntegerValue.SetInt64(int64(1) << uint(i))
	}
	n := &dsl.Namespace{Name: NS, IsTopLevel: true}
	n.TypeDefinitions = dsl.TypeDefinitions{
		b.enum(NS, "Mode", nil, "fast", "slow"),
		rights,
		b.record(NS, "Box", []string{"T"}, b.field("item", b.st("T")), b.field("items", b.vec(b.st("T")))),
		b.alias(NS, "Volume", nil, b.gt(c12pDims(b, "z", "y", "x"), b.st("float"))),
		b.alias(NS, "Either", []string{"A", "B"}, b.gt(nil, b.st("A"), b.st("B"))),
		acq,
	}
	n.Protocols = []*dsl.ProtocolDefinition{b.protocol(NS, "Scan",
		b.step("header", b.st("Box", b.st("string"))),
		b.step("acquisitions", b.strm(b.st("Acquisition"))),
		b.step("either", b.st("Either", b.st("int"), b.st("Volume"))),
		b.step("tail", b.gt(nil, nil, b.st("Mode"), b.st("Acquisition"))))}
	return n
}

func c12pRun(dir string, which int, permute bool) (files map[string]string, permuted, seen int, ok bool) {
	if permute {
		verifSetMapOrder(-2 - which)
	}
	env, err := dsl.Validate([]*dsl.Namespace{c12pModel()})
	if err != nil {
		verifSetMapOrder(0)
		verifOut("validation-error", err.Error())
		return nil, 0, 0, false
	}
	err = python.VerifGenerate(env, packaging.PythonCodegenOptions{OutputDir: verifPath(dir), GenerateNDJson: true})
	if permute {
		permuted = verifMapRangesPermuted()
		seen = verifMapRangesSeen()
	}
	verifSetMapOrder(0)
	if err != nil {
		return nil, 0, 0, false
	}
	return c13pFiles(dir), permuted, seen, true
}

// C12PythonComputedMapOrder(maxRanges): one map range of the Python generator (symbolic index below maxRanges,
// checked to cover every range executed) iterates in a different order.
func C12PythonComputedMapOrder(maxRanges int) {
	verifUseRepl("CopyEmbeddedStaticFiles")
	ref, _, _, ok := c12pRun("/ref", 0, false)
	verifAssert("reference-run-succeeds", ok && len(ref) > 0)
	if !ok {
		return
	}
	which := verifChoose("permuted-map-range", maxRanges)
	alt, permuted, seen, ok2 := c12pRun("/alt", which, true)
	verifAssert("run-succeeds-in-every-map-order", ok2)
	if !ok2 {
		return
	}
	verifOut("map-ranges", seen)
	verifAssert("every-map-range-covered", seen <= maxRanges)
	if permuted == 0 {
		verifReach("c12p-map-order-identity")
		return
	}
	same := sameFiles(ref, alt)
	sameInt := 0
	if same {
		sameInt = 1
	}
	symbolicSame := verifRecord("same-output-under-chosen-order", sameInt) == 1
	if verifNative() {
		same = true
		for i := 0; i < 48 && same && !symbolicSame; i++ {
			again, _, _, ok3 := c12pRun("/alt", 0, false)
			same = ok3 && sameFiles(ref, again)
		}
	}
	verifAssert("output-independent-of-map-iteration-order", same)
	verifReach("c12p-map-order-end")
}
