package zzverif

// C10 (totality): an alias reference cycle is a rule violation that is reported by a LATE pass (topological sort),
// while passes that need the underlying type of an alias (map keys, enum / flags base types, type equality, type
// arguments, conversions) run earlier or regardless.  Every function that resolves aliases must therefore terminate
// on a cycle however the links of the cycle are SPELLED: `A: B` (plain reference), `A: [B]` (one-element sequence: a
// generalized type with a single case), `!union {b: B}` (single explicitly tagged case), `A: B?`, `A: B*`,
// `A: string->B`.  Cycles of length 1-3 with an independent symbolic spelling per link (length 3: one spelling for
// all links) are combined with a USE of a symbolic member of the cycle as map key, enum base, flags base, type
// argument, conversion target, record field, union case next to another member (type equality), and vector item.
// Obligations: dsl.Validate terminates (verifBounded: call depth and instruction bound; natively a child process
// with stack and time limits), does not panic, rejects the model and names the file.

import (
	"fmt"
	"strings"

	"github.com/microsoft/yardl/tooling/pkg/dsl"
)

var c10cSpellingNames = []string{"plain", "one-element-list", "single-case-union", "optional", "vector", "map-value"}
var c10cUseNames = []string{"map-key", "enum-base", "flags-base", "generic-argument", "computed-field-conversion", "record-field", "union-with-other-member", "vector-item"}
var c10cNames = []string{"Ya", "Yb", "Yc"}

func c10cLink(b *mb, spelling int, target string) dsl.Type {
	t := b.st(target)
	switch spelling {
	case 1:
		return b.gt(nil, t)
	case 2:
		g := b.gt(nil, t)
		g.Cases[0].Tag = "only"
		g.Cases[0].ExplicitTag = true
		return g
	case 3:
		return b.opt(t)
	case 4:
		return b.vec(t)
	case 5:
		return b.mapOf(b.st("string"), t)
	}
	return t
}

func c10cUse(b *mb, n *dsl.Namespace, use int, member, other string) {
	ns := n.Name
	t := b.st(member)
	switch use {
	case 0:
		n.TypeDefinitions = append(n.TypeDefinitions, b.record(ns, "UseKey", nil, b.field("m", b.mapOf(t, b.st("int")))))
	case 1:
		n.TypeDefinitions = append(n.TypeDefinitions, b.enum(ns, "UseBase", t, "one", "two"))
	case 2:
		e := b.enum(ns, "UseFlags", t, "one", "two")
		e.IsFlags = true
		n.TypeDefinitions = append(n.TypeDefinitions, e)
	case 3:
		n.TypeDefinitions = append(n.TypeDefinitions, b.alias(ns, "UseArg", nil, b.st("Pair", t, b.st(member))))
	case 4:
		r := b.record(ns, "UseConv", nil, b.field("x", b.st("int")))
		r.ComputedFields = dsl.ComputedFields{&dsl.ComputedField{NodeMeta: b.meta(), Name: "conv",
			Expression: &dsl.TypeConversionExpression{NodeMeta: b.meta(), Expression: &dsl.MemberAccessExpression{NodeMeta: b.meta(), Member: "x"}, Type: t}}}
		n.TypeDefinitions = append(n.TypeDefinitions, r)
	case 5:
		n.TypeDefinitions = append(n.TypeDefinitions, b.record(ns, "UseField", nil, b.field("f", t)))
	case 6:
		n.TypeDefinitions = append(n.TypeDefinitions, b.record(ns, "UseUnion", nil, b.field("u", b.gt(nil, t, b.st(other)))))
	default:
		n.TypeDefinitions = append(n.TypeDefinitions, b.record(ns, "UseItem", nil, b.field("v", b.vec(t))))
	}
}

// C10AliasCycleSpellings(full): full = 0: length-2 cycles whose second link is plain / one-element list / single-case
// union / the same as the first, cycle in the main namespace; 1: every pair of spellings x {main, imported namespace}.
func C10AliasCycleSpellings(full int) {
	length := 1 + verifChoose("cycle-length", 3)
	spell := make([]int, length)
	spell[0] = verifChoose("spelling0", len(c10cSpellingNames))
	for k := 1; k < length; k++ {
		spell[k] = spell[0]
	}
	if length == 2 {
		if full > 0 {
			spell[1] = verifChoose("spelling1", len(c10cSpellingNames))
		} else if k := verifChoose("spelling1", 4); k < 3 {
			spell[1] = k
		}
	}
	use := verifChoose("use", len(c10cUseNames))
	member := verifChoose("used-member", length)
	inImport := full > 0 && verifChoose("in-imported-namespace", 2) == 1
	desc := ""
	for k := 0; k < length; k++ {
		desc += fmt.Sprintf("%s -%s-> ", c10cNames[k], c10cSpellingNames[spell[k]])
	}
	verifOut("cycle", desc+c10cNames[0])
	verifOut("use", c10cUseNames[use]+" of "+c10cNames[member])

	bDep := &mb{file: "dep/dep.yml"}
	bMain := &mb{file: "main/model.yml"}
	dep := baseModel(bDep, "Dep")
	dep.IsTopLevel = false
	main := baseModel(bMain, "Main")
	main.References = []*dsl.Namespace{dep}
	target, tb, file := main, bMain, "main/model.yml"
	if inImport {
		target, tb, file = dep, bDep, "dep/dep.yml"
	}
	for k := 0; k < length; k++ {
		target.TypeDefinitions = append(target.TypeDefinitions, tb.alias(target.Name, c10cNames[k], nil, c10cLink(tb, spell[k], c10cNames[(k+1)%length])))
	}
	c10cUse(tb, target, use, c10cNames[member], c10cNames[(member+1)%length])

	var err error
	msg := ""
	panicked := false
	done := verifBounded(func() {
		msg, panicked = verifPanics(func() { _, err = dsl.Validate([]*dsl.Namespace{dep, main}) })
	}, 200, 3000000)
	verifAssert("validate-terminates", done)
	if !done {
		return
	}
	verifOut("panic", firstLineOf(msg))
	verifAssert("validate-does-not-panic", !panicked)
	if !panicked {
		verifAssert("violation-rejected", err != nil)
		verifAssert("error-names-offending-file", err == nil || strings.Contains(errText(err), file+":"))
	}
	verifReach("c10c-end")
}
