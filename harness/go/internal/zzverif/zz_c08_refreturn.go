package zzverif

// C08 / C19: a C++ computed-field accessor that is DECLARED to return a reference must return an object that lives as
// long as the record it is called on.
//
// docs/cpp/language.md: "Computed fields become parameterless methods on the generated C++ struct".  The generator
// declares some of them `T const& Name() const` (with a `T& Name()` overload) and others `T Name() const`.  Either is
// fine for the property as long as the accessor is well-defined C++: `return e;` in a function returning `T const&`
// binds the reference to e - if e is a prvalue (the result of a by-value call, of an arithmetic expression, of a
// conversion, of a lambda call) or a part of a temporary, the temporary dies at the end of the return statement and
// every caller reads a dangling reference (g++: -Wreturn-local-addr, a crash at run time), while the Python / MATLAB
// accessor of the same computed field returns the value (C19).
//
// The model family: records Leaf, Inner, Outer with fields of a symbolic primitive type P, vectors, a fixed vector, a
// map, arrays (fixed, non-fixed, dynamic), record-typed fields (also through an alias) and helper computed fields of
// every flavour - a plain field (`pair: w`), arithmetic (`dbl: v * 2`), a record / vector that is a COPY (a
// single-case `!switch`, which yields a value), a record / vector that is a field, a field of a nested record, a
// computed field of a nested record.  The computed field under test, `Outer.c`, is a symbolic REFERENCE PATH: it starts
// at any field or computed field of Outer and continues, type-directed, with up to `depth` steps `.member` (any field or
// computed field of the record the path has reached) or `[index]` (vector element, map lookup, array element), and is
// optionally wrapped (`path + 1`, `-path`, `path as float64`, a `!switch` case, `size(path)`) or is a bare literal.  The real dsl.Validate
// must accept the model (the paths are well typed by construction); the real C++ types generator
// (cpp/types.writeNamespaceMembers) emits the structs.
//
// The emitted TEXT is then read back: every struct with its data members (type, name), its const accessors (declared
// return type, body) and their non-const overloads, the `using` aliases.  For every accessor declared to return a
// reference, the returned expression (read by the C++ expression reader of zz_c08_cppexpr.go / zz_c08_switch.go) is
// given its C++ value category and lifetime:
//
//	m                      a data member of *this                              -> object of *this, declared type of m
//	e.m                    data member m of the struct e has                   -> lives as long as what e denotes
//	Name()                 accessor of this struct: declared `T const&`        -> object of *this (inductively: that
//	                       accessor is subject to the same obligation); declared `T` -> a temporary
//	e.Name()               accessor of e's struct: `T const&` -> lives as long as e; `T` -> a temporary
//	e.at(i) / e[i]         std::vector / std::array / std::unordered_map (documented mapping): reference into e
//	yardl::at(e, i...)     `T const& at(Array const&, idx...)` (yardl/detail/ndarray/impl.h): reference into e
//	a + b, -a, std::pow, static_cast<T>(a), literals, e.size(), yardl::size/shape/dimension, a lambda call or
//	std::visit returning by value                                              -> a temporary
//
// Obligations (per accessor declared with a reference return type, for every model of the family):
//   - the returned expression is one of the forms above (never skipped when it is not);
//   - it denotes an object that lives as long as *this (not a temporary, not a part of one);
//   - that object has the declared type (a reference to another type would bind to a converted temporary);
//   - a non-const overload `T& Name()` only exists next to a reference-returning const accessor of the same type and
//     delegates to it (`const_cast<T&>(std::as_const(*this).Name())`).
// Accessors declared to return by value carry no obligation here (c08_cpp_expressions / c08_switch_expressions read them).

import (
	"fmt"
	"strings"

	cpptypes "github.com/microsoft/yardl/tooling/internal/cpp/types"
	"github.com/microsoft/yardl/tooling/pkg/dsl"
)

// ---- the emitted structs, read back ---------------------------------------------------------------------------------

type c08rrAccessor struct {
	name     string
	ret      string // declared return type without the reference marker
	ref      bool   // declared `T const&` (or `T&`)
	body     string
	twin     bool // a non-const overload `Name()` exists
	twinRet  string
	twinRef  bool
	twinBody string
}

type c08rrStruct struct {
	name        string
	members     []string
	memberTypes map[string]string
	accessors   []*c08rrAccessor // const accessors in declaration order
	byName      map[string]*c08rrAccessor
	bad         string
}

type c08rrUnit struct {
	structs map[string]*c08rrStruct
	order   []string
	aliases map[string]string
}

func c08rrSplitRet(head string) (ret string, ref bool, name string, ok bool) {
	k := strings.LastIndex(head, " ")
	if k <= 0 || !isIdent(head[k+1:]) {
		return "", false, "", false
	}
	ret, name = strings.TrimSpace(head[:k]), head[k+1:]
	switch {
	case strings.HasSuffix(ret, " const&"):
		return strings.TrimSuffix(ret, " const&"), true, name, true
	case strings.HasSuffix(ret, "&"):
		return strings.TrimSpace(strings.TrimSuffix(ret, "&")), true, name, true
	}
	return ret, false, name, true
}

// c08rrReadUnit: the types.h text of one namespace -> structs (members, accessors) and aliases.  Struct-level lines are the
// two-space-indented ones; a method body runs to the closing brace at the same indentation.
func c08rrReadUnit(text string) *c08rrUnit {
	u := &c08rrUnit{structs: map[string]*c08rrStruct{}, aliases: map[string]string{}}
	lines := strings.Split(text, "\n")
	for i := 0; i < len(lines); i++ {
		l := lines[i]
		if x, ok := cgBetween(l, "using ", ";"); ok {
			if k := strings.Index(x, " = "); k > 0 && isIdent(x[:k]) {
				u.aliases[x[:k]] = x[k+3:]
			}
			continue
		}
		name, ok := cgBetween(l, "struct ", " {")
		if !ok || !isIdent(name) {
			continue
		}
		s := &c08rrStruct{name: name, memberTypes: map[string]string{}, byName: map[string]*c08rrAccessor{}}
		u.structs[name] = s
		u.order = append(u.order, name)
		body := func() string { // the lines up to the `  }` closing a method; leaves i on that line
			var out []string
			for i++; i < len(lines) && lines[i] != "  }"; i++ {
				if lines[i] == "};" {
					s.bad = "method without a closing brace"
					i--
					break
				}
				out = append(out, strings.TrimSpace(lines[i]))
			}
			return strings.Join(out, "\n")
		}
		for i++; i < len(lines) && lines[i] != "};"; i++ {
			m := lines[i]
			if strings.TrimSpace(m) == "" {
				continue
			}
			if !strings.HasPrefix(m, "  ") || strings.HasPrefix(m, "   ") {
				s.bad = "unexpected line in struct: " + m
				continue
			}
			t := m[2:]
			switch {
			case strings.HasPrefix(t, "//"):
			case strings.HasSuffix(t, "{};"):
				d := strings.TrimSuffix(t, "{};")
				k := strings.LastIndex(d, " ")
				if k <= 0 || !isIdent(d[k+1:]) {
					s.bad = "unrecognised data member: " + t
					continue
				}
				s.members = append(s.members, d[k+1:])
				s.memberTypes[d[k+1:]] = d[:k]
			case strings.HasPrefix(t, "bool operator"):
				body()
			case strings.HasSuffix(t, "() const {"):
				ret, ref, n, ok := c08rrSplitRet(strings.TrimSuffix(t, "() const {"))
				b := body()
				if !ok || s.byName[n] != nil {
					s.bad = "unrecognised const method: " + t
					continue
				}
				a := &c08rrAccessor{name: n, ret: ret, ref: ref, body: b}
				s.accessors = append(s.accessors, a)
				s.byName[n] = a
			case strings.HasSuffix(t, "() {"):
				ret, ref, n, ok := c08rrSplitRet(strings.TrimSuffix(t, "() {"))
				b := body()
				a := s.byName[n]
				if !ok || a == nil || a.twin {
					s.bad = "non-const method without a const accessor before it: " + t
					continue
				}
				a.twin, a.twinRet, a.twinRef, a.twinBody = true, ret, ref, b
			default:
				s.bad = "unrecognised struct-level line: " + t
			}
		}
	}
	return u
}

func c08rrNoSpace(s string) string { return strings.ReplaceAll(s, " ", "") }

// c08rrTemplate: `head<a, b<c>, d>` -> head, [a, b<c>, d]; ok = false when t is not of that form.
func c08rrTemplate(t string) (head string, args []string, ok bool) {
	k := strings.Index(t, "<")
	if k <= 0 || !strings.HasSuffix(t, ">") {
		return t, nil, false
	}
	depth, start := 0, k+1
	for i := k; i < len(t); i++ {
		switch t[i] {
		case '<':
			depth++
		case '>':
			depth--
			if depth == 0 {
				if i != len(t)-1 {
					return t, nil, false
				}
				args = append(args, t[start:i])
			}
		case ',':
			if depth == 1 {
				args = append(args, t[start:i])
				start = i + 1
			}
		}
	}
	return t[:k], args, depth == 0
}

// canon: a type text without spaces, aliases of this namespace replaced by what they name, structs of this namespace by
// their bare name.
func (u *c08rrUnit) canon(t string) string {
	t = c08rrNoSpace(t)
	if head, args, ok := c08rrTemplate(t); ok {
		for i := range args {
			args[i] = u.canon(args[i])
		}
		return head + "<" + strings.Join(args, ",") + ">"
	}
	bare := t
	if k := strings.LastIndex(t, "::"); k >= 0 {
		bare = t[k+2:]
	}
	if a, ok := u.aliases[bare]; ok && !strings.HasPrefix(t, "std::") && !strings.HasPrefix(t, "yardl::") {
		return u.canon(a)
	}
	if _, ok := u.structs[bare]; ok && !strings.HasPrefix(t, "std::") && !strings.HasPrefix(t, "yardl::") {
		return bare
	}
	return t
}

func (u *c08rrUnit) structOf(t string) *c08rrStruct { return u.structs[u.canon(t)] }

// elem: what `.at(i)` / `[i]` / yardl::at yield a reference to, by the documented type mapping (docs/cpp/language.md)
func (u *c08rrUnit) elem(t string) string {
	head, args, ok := c08rrTemplate(u.canon(t))
	if !ok || len(args) == 0 {
		return ""
	}
	switch head {
	case "std::vector", "std::array", "yardl::NDArray", "yardl::FixedNDArray", "yardl::DynamicNDArray":
		return args[0]
	case "std::unordered_map":
		if len(args) == 2 {
			return args[1]
		}
	}
	return ""
}

// ---- value category and lifetime of a returned expression --------------------------------------------------------------

type c08rrVal struct {
	kind string // "object": lives as long as *this; "temporary"; "unknown": a form this reader gives no meaning to
	ty   string
	why  string
}

func c08rrUnknown(why string) c08rrVal { return c08rrVal{kind: "unknown", why: why} }
func c08rrTemp(ty, why string) c08rrVal { return c08rrVal{kind: "temporary", ty: ty, why: why} }

var c08rrValueOps = map[string]bool{"add": true, "sub": true, "mul": true, "div": true, "neg": true, "pos": true, "pow": true}

func (u *c08rrUnit) denote(n *c08xNode, cur *c08rrStruct) c08rrVal {
	h := n.head
	switch {
	case strings.HasPrefix(h, "field:") && len(n.kids) == 0:
		if t, ok := cur.memberTypes[h[6:]]; ok {
			return c08rrVal{kind: "object", ty: t}
		}
		return c08rrUnknown("`" + h[6:] + "` is not a data member of " + cur.name)
	case strings.HasPrefix(h, "member:") && len(n.kids) == 1:
		o := u.denote(n.kids[0], cur)
		if o.kind == "unknown" {
			return o
		}
		s := u.structOf(o.ty)
		if s == nil {
			return c08rrUnknown("member of a value of type " + o.ty)
		}
		t, ok := s.memberTypes[h[7:]]
		if !ok {
			return c08rrUnknown("`" + h[7:] + "` is not a data member of " + s.name)
		}
		return c08rrVal{kind: o.kind, ty: t, why: o.why} // a member of a temporary dies with it
	case h == "index" && len(n.kids) == 2:
		o := u.denote(n.kids[0], cur)
		if o.kind == "unknown" {
			return o
		}
		if e := u.elem(o.ty); e != "" {
			return c08rrVal{kind: o.kind, ty: e, why: o.why}
		}
		return c08rrUnknown("subscript of a value of type " + o.ty)
	case h == "call" && len(n.kids) >= 1:
		f := n.kids[0]
		switch {
		case strings.HasPrefix(f.head, "id:") && len(f.kids) == 0:
			name := f.head[3:]
			if a := cur.byName[name]; a != nil && len(n.kids) == 1 { // this->Name()
				if a.ref {
					return c08rrVal{kind: "object", ty: a.ret}
				}
				return c08rrTemp(a.ret, name+"() returns by value")
			}
			if name == "yardl::at" && len(n.kids) >= 3 {
				o := u.denote(n.kids[1], cur)
				if o.kind == "unknown" {
					return o
				}
				if e := u.elem(o.ty); e != "" && strings.HasPrefix(u.canon(o.ty), "yardl::") {
					return c08rrVal{kind: o.kind, ty: e, why: o.why}
				}
				return c08rrUnknown("yardl::at of a value of type " + o.ty)
			}
			if name == "yardl::size" || name == "yardl::shape" || name == "yardl::dimension" {
				return c08rrTemp("size_t", name+" returns by value")
			}
			return c08rrUnknown("call of " + name)
		case strings.HasPrefix(f.head, "member:") && len(f.kids) == 1:
			name := f.head[7:]
			o := u.denote(f.kids[0], cur)
			if o.kind == "unknown" {
				return o
			}
			if s := u.structOf(o.ty); s != nil {
				a := s.byName[name]
				if a == nil || len(n.kids) != 1 {
					return c08rrUnknown("`" + name + "` is not an accessor of " + s.name)
				}
				if a.ref {
					return c08rrVal{kind: o.kind, ty: a.ret, why: o.why} // a reference into what the call is applied to
				}
				return c08rrTemp(a.ret, s.name+"::"+name+"() returns by value")
			}
			if name == "at" && len(n.kids) == 2 {
				if e := u.elem(o.ty); e != "" && strings.HasPrefix(u.canon(o.ty), "std::") {
					return c08rrVal{kind: o.kind, ty: e, why: o.why}
				}
			}
			if name == "size" && len(n.kids) == 1 {
				return c08rrTemp("size_t", "size() returns by value")
			}
			return c08rrUnknown("`." + name + "(...)` on a value of type " + o.ty)
		}
		return c08rrUnknown("call of " + f.String())
	case c08rrValueOps[h]:
		return c08rrTemp("", "the result of an arithmetic operator is a temporary")
	case strings.HasPrefix(h, "conv<") && len(n.kids) == 1:
		return c08rrTemp(strings.TrimSuffix(h[5:], ">"), "the result of a conversion is a temporary")
	case (strings.HasPrefix(h, "int:") || strings.HasPrefix(h, "float:") || strings.HasPrefix(h, "string:")) && len(n.kids) == 0:
		return c08rrTemp("", "a literal is a temporary")
	}
	return c08rrUnknown("expression form " + n.String())
}

// c08rrReturned: the body of an accessor must be one `return <value>;`
func c08rrReturned(body string) (v *c08wVal, toks []string, bad string) {
	toks, bad = c08xCpp.lex(body)
	if bad != "" {
		return nil, toks, bad
	}
	p := &c08wCppParser{toks: toks}
	p.expect("return")
	v = p.value()
	p.expect(";")
	if p.bad == "" && p.pos != len(toks) {
		p.fail("statements after the return: `" + p.peek() + "`")
	}
	if p.bad == "" && len(p.effects) > 0 {
		p.fail("side effect " + p.effects[0])
	}
	return v, toks, p.bad
}

// c08rrLambdaReturnsReference: `-> T&` / `-> T const&` in front of a lambda body
func c08rrLambdaReturnsReference(toks []string) bool {
	for i, t := range toks {
		if t != "->" {
			continue
		}
		for _, x := range toks[i+1:] {
			if x == "{" {
				break
			}
			if x == "&" || x == "&&" || x == "decltype" || x == "auto" {
				return true
			}
		}
	}
	return false
}

// c08rrCheckUnit: the obligations for every accessor of every struct
func c08rrCheckUnit(u *c08rrUnit) (checked int) {
	for _, sn := range u.order {
		s := u.structs[sn]
		verifAssert("struct-read-back", s.bad == "")
		if s.bad != "" {
			verifOut("struct-read", s.name+": "+s.bad)
			continue
		}
		for _, a := range s.accessors {
			if a.twin {
				v, _, bad := c08rrReturned(a.twinBody)
				want := "const_cast<" + c08rrNoSpace(a.ret) + "&>(call(member:" + a.name + "(call(id:std::as_const,deref(field:this)))))"
				ok := bad == "" && v != nil && v.lam == nil && v.expr.String() == want && a.ref && a.twinRef && c08rrNoSpace(a.twinRet) == c08rrNoSpace(a.ret)
				if !ok {
					verifOut("mutable-overload", fmt.Sprint(s.name, "::", a.name, " returns ", a.twinRet, "& body ", a.twinBody, " next to `", a.ret, "` ref=", a.ref, " ", bad))
				}
				verifAssert("mutable-overload-delegates-to-a-reference-returning-const-accessor", ok)
			}
			if !a.ref {
				continue
			}
			checked++
			v, toks, bad := c08rrReturned(a.body)
			var d c08rrVal
			switch {
			case bad != "":
				d = c08rrUnknown(bad)
			case v.lam != nil && c08rrLambdaReturnsReference(toks):
				d = c08rrUnknown("a lambda declared to return a reference")
			case v.lam != nil:
				d = c08rrTemp("", "the result of a lambda call returning by value is a temporary")
			default:
				d = u.denote(v.expr, s)
			}
			if d.kind != "object" || u.canon(d.ty) != u.canon(a.ret) {
				verifOut("accessor", fmt.Sprint(s.name, "::", a.name, " declared `", a.ret, " const&` returns `", strings.ReplaceAll(a.body, "\n", " "), "`: ", d.kind, " of type `", d.ty, "` ", d.why))
			}
			verifAssert("reference-return-is-a-known-expression-form", d.kind != "unknown")
			if d.kind == "unknown" {
				continue
			}
			verifAssert("reference-return-denotes-an-object-that-lives-as-long-as-this", d.kind == "object")
			if d.kind == "object" {
				verifAssert("reference-return-binds-an-object-of-the-declared-type", u.canon(d.ty) == u.canon(a.ret))
			}
		}
	}
	return checked
}

// ---- the model family ---------------------------------------------------------------------------------------------------

type c08rrTy struct {
	kind string // "prim", "rec", "vec", "map", "arr"
	rec  string
	elem *c08rrTy
	dims int // arr: number of subscript arguments
}

type c08rrMember struct {
	name string
	ty   *c08rrTy
}

type c08rrGen struct {
	b *mb
	n int
}

func (g *c08rrGen) label(s string) string {
	g.n++
	return fmt.Sprintf("%s%d", s, g.n)
}

func (g *c08rrGen) m(target dsl.Expression, name string) dsl.Expression {
	return &dsl.MemberAccessExpression{NodeMeta: g.b.meta(), Target: target, Member: name}
}

func (g *c08rrGen) lit(v int64) dsl.Expression {
	return (&eg{b: g.b}).intLit(v)
}

// copyOf: a single-case switch - `!switch over: {_: e}` has the value of e and is a value, not a reference
func (g *c08rrGen) copyOf(over string, e dsl.Expression) dsl.Expression {
	return &dsl.SwitchExpression{NodeMeta: g.b.meta(), Target: g.m(nil, over),
		Cases: []*dsl.SwitchCase{{NodeMeta: g.b.meta(), Pattern: &dsl.DiscardPattern{NodeMeta: g.b.meta()}, Expression: e}}}
}

func (g *c08rrGen) subscript(target dsl.Expression, ty *c08rrTy) dsl.Expression {
	s := &dsl.SubscriptExpression{NodeMeta: g.b.meta(), Target: target}
	switch ty.kind {
	case "map":
		s.Arguments = append(s.Arguments, &dsl.SubscriptArgument{NodeMeta: g.b.meta(), Value: &dsl.StringLiteralExpression{NodeMeta: g.b.meta(), Value: "k"}})
	case "arr":
		for i := 0; i < ty.dims; i++ {
			s.Arguments = append(s.Arguments, &dsl.SubscriptArgument{NodeMeta: g.b.meta(), Value: g.lit(0)})
		}
	default:
		s.Arguments = append(s.Arguments, &dsl.SubscriptArgument{NodeMeta: g.b.meta(), Value: g.lit(0)})
	}
	return s
}

var (
	c08rrPrim   = &c08rrTy{kind: "prim"}
	c08rrLeafT  = &c08rrTy{kind: "rec", rec: "Leaf"}
	c08rrInnerT = &c08rrTy{kind: "rec", rec: "Inner"}
	c08rrVecP   = &c08rrTy{kind: "vec", elem: c08rrPrim}
	c08rrVecL   = &c08rrTy{kind: "vec", elem: c08rrLeafT}
	c08rrMapP   = &c08rrTy{kind: "map", elem: c08rrPrim}
	c08rrArrP   = &c08rrTy{kind: "arr", elem: c08rrPrim, dims: 2}
	c08rrDynP   = &c08rrTy{kind: "arr", elem: c08rrPrim, dims: 1}
)

// what a reference path can step through: every field and every helper computed field of the three records
var c08rrMembers = map[string][]c08rrMember{
	"Leaf": {{"x", c08rrPrim}, {"y", c08rrPrim}, {"lx", c08rrPrim}, {"lsum", c08rrPrim}},
	"Inner": {{"v", c08rrPrim}, {"w", c08rrPrim}, {"leaf", c08rrLeafT}, {"vs", c08rrVecP},
		{"dbl", c08rrPrim}, {"pair", c08rrPrim}, {"leafRef", c08rrLeafT}, {"leafCopy", c08rrLeafT}, {"vsCopy", c08rrVecP}, {"deep", c08rrPrim}},
	"Outer": {{"inner", c08rrInnerT}, {"own", c08rrPrim}, {"items", c08rrVecP}, {"fixedItems", c08rrVecP}, {"table", c08rrMapP}, {"grid", c08rrArrP},
		{"fixedGrid", c08rrArrP}, {"dyn", c08rrDynP}, {"leaves", c08rrVecL}, {"aliased", c08rrLeafT},
		{"twice", c08rrPrim}, {"same", c08rrPrim}, {"innerRef", c08rrInnerT}, {"innerCopy", c08rrInnerT}, {"itemsCopy", c08rrVecP}, {"leavesRef", c08rrVecL},
		{"tableCopy", c08rrMapP}, {"gridCopy", c08rrArrP}},
}

func (g *c08rrGen) cf(name string, e dsl.Expression) *dsl.ComputedField {
	return &dsl.ComputedField{NodeMeta: g.b.meta(), Name: name, Expression: e}
}

func (g *c08rrGen) bin(l dsl.Expression, op dsl.BinaryOperator, r dsl.Expression) dsl.Expression {
	return &dsl.BinaryExpression{NodeMeta: g.b.meta(), Left: l, Operator: op, Right: r}
}

func (g *c08rrGen) arr(p string, lens ...uint64) dsl.Type {
	b := g.b
	dims := dsl.ArrayDimensions{}
	for _, l := range lens {
		d := &dsl.ArrayDimension{NodeMeta: b.meta()}
		if l > 0 {
			n := l
			d.Length = &n
		}
		dims = append(dims, d)
	}
	return b.gt(&dsl.Array{NodeMeta: b.meta(), Dimensions: &dims}, b.st(p))
}

// path: a type-directed reference path starting at a member of Outer, at most `steps` further steps
func (g *c08rrGen) path(steps int) (dsl.Expression, *c08rrTy, string) {
	ms := c08rrMembers["Outer"]
	k := verifChoose("start", len(ms))
	e, ty, text := g.m(nil, ms[k].name), ms[k].ty, ms[k].name
	for i := 0; i < steps; i++ {
		switch ty.kind {
		case "rec":
			next := c08rrMembers[ty.rec]
			c := verifChoose(g.label("member"), 1+len(next))
			if c == 0 {
				return e, ty, text
			}
			e, ty, text = g.m(e, next[c-1].name), next[c-1].ty, text+"."+next[c-1].name
		case "vec", "map", "arr":
			if verifChoose(g.label("subscript"), 2) == 0 {
				return e, ty, text
			}
			e, text = g.subscript(e, ty), text+"[..]"
			ty = ty.elem
		default:
			return e, ty, text
		}
	}
	return e, ty, text
}

var c08rrPrims = []string{"int32", "float64", "uint8", "uint64", "float32", "int16"}

// C08CppReferenceReturns(depth, nPrims): reference paths of at most depth steps after the starting member; P over the
// first nPrims entries of c08rrPrims.
func C08CppReferenceReturns(depth, nPrims int) {
	p := verifOneOf("prim", c08rrPrims[:nPrims]...)
	b := &mb{file: "model.yml"}
	g := &c08rrGen{b: b}

	wrap := verifChoose("wrap", 8)
	steps := depth
	if wrap != 0 {
		steps = 1
	}
	var e dsl.Expression
	var ty *c08rrTy
	var text string
	if wrap < 6 {
		e, ty, text = g.path(steps)
	}
	switch wrap {
	case 6:
		e, text = g.lit(7), "7"
	case 7:
		e, text = &dsl.StringLiteralExpression{NodeMeta: b.meta(), Value: "abc"}, "\"abc\""
	case 1:
		verifAssume(ty.kind == "prim")
		e, text = g.bin(e, dsl.BinaryOpAdd, g.lit(1)), text+" + 1"
	case 2:
		verifAssume(ty.kind == "prim")
		e, text = &dsl.UnaryExpression{NodeMeta: b.meta(), Operator: dsl.UnaryOpNegate, Expression: e}, "-"+text
	case 3:
		verifAssume(ty.kind == "prim")
		e, text = &dsl.TypeConversionExpression{NodeMeta: b.meta(), Type: b.st("float64"), Expression: e}, text+" as float64"
	case 4:
		verifAssume(ty.kind == "prim")
		e = &dsl.SwitchExpression{NodeMeta: b.meta(), Target: g.m(nil, "opt"), Cases: []*dsl.SwitchCase{
			{NodeMeta: b.meta(), Pattern: &dsl.DeclarationPattern{TypePattern: dsl.TypePattern{NodeMeta: b.meta(), Type: b.st(p)}, Identifier: "z"}, Expression: g.m(nil, "z")},
			{NodeMeta: b.meta(), Pattern: &dsl.DiscardPattern{NodeMeta: b.meta()}, Expression: e}}}
		text = "!switch opt {P z: z, _: " + text + "}"
	case 5:
		verifAssume(ty.kind == "vec" || ty.kind == "arr")
		e, text = &dsl.FunctionCallExpression{NodeMeta: b.meta(), FunctionName: dsl.FunctionSize, Arguments: []dsl.Expression{e}}, "size("+text+")"
	}
	verifOut("prim", p)
	verifOut("c", text)

	leaf := b.record("Ns", "Leaf", nil, b.field("x", b.st(p)), b.field("y", b.st(p)))
	leaf.ComputedFields = dsl.ComputedFields{
		g.cf("lx", g.m(nil, "x")),
		g.cf("lsum", g.bin(g.m(nil, "x"), dsl.BinaryOpAdd, g.m(nil, "y"))),
	}
	inner := b.record("Ns", "Inner", nil, b.field("v", b.st(p)), b.field("w", b.st(p)), b.field("leaf", b.st("Leaf")), b.field("vs", b.vec(b.st(p))))
	inner.ComputedFields = dsl.ComputedFields{
		g.cf("dbl", g.bin(g.m(nil, "v"), dsl.BinaryOpMul, g.lit(2))),
		g.cf("pair", g.m(nil, "w")),
		g.cf("leafRef", g.m(nil, "leaf")),
		g.cf("leafCopy", g.copyOf("leaf", g.m(nil, "leaf"))),
		g.cf("vsCopy", g.copyOf("leaf", g.m(nil, "vs"))),
		g.cf("deep", g.m(g.m(nil, "leaf"), "lx")),
	}
	outer := b.record("Ns", "Outer", nil,
		b.field("inner", b.st("Inner")), b.field("own", b.st(p)), b.field("items", b.vec(b.st(p))), b.field("fixedItems", b.fvec(b.st(p), 3)),
		b.field("table", b.mapOf(b.st("string"), b.st(p))), b.field("grid", g.arr(p, 0, 0)), b.field("fixedGrid", g.arr(p, 2, 3)),
		b.field("dyn", b.gt(&dsl.Array{NodeMeta: b.meta()}, b.st(p))), b.field("leaves", b.vec(b.st("Leaf"))), b.field("aliased", b.st("LeafAlias")),
		b.field("opt", b.opt(b.st(p))))
	outer.ComputedFields = dsl.ComputedFields{
		g.cf("c", e),
		g.cf("twice", g.bin(g.m(nil, "own"), dsl.BinaryOpAdd, g.lit(1))),
		g.cf("same", g.m(nil, "own")),
		g.cf("innerRef", g.m(nil, "inner")),
		g.cf("innerCopy", g.copyOf("inner", g.m(nil, "inner"))),
		g.cf("itemsCopy", g.copyOf("inner", g.m(nil, "items"))),
		g.cf("leavesRef", g.m(nil, "leaves")),
		g.cf("tableCopy", g.copyOf("inner", g.m(nil, "table"))),
		g.cf("gridCopy", g.copyOf("inner", g.m(nil, "grid"))),
	}
	alias := b.alias("Ns", "LeafAlias", nil, b.st("Leaf"))
	ns := &dsl.Namespace{Name: "Ns", IsTopLevel: true, TypeDefinitions: dsl.TypeDefinitions{leaf, alias, inner, outer}}
	env, err := dsl.Validate([]*dsl.Namespace{ns})
	if err != nil {
		verifOut("validation-error", err.Error())
	}
	verifAssert("well-typed-reference-path-is-accepted", err == nil)
	if err != nil {
		return
	}

	cpp := cpptypes.VerifWriteNamespaceMembers(env.Namespaces[0])
	u := c08rrReadUnit(cpp)
	for _, td := range env.Namespaces[0].TypeDefinitions {
		rec, ok := td.(*dsl.RecordDefinition)
		if !ok {
			continue
		}
		s := u.structs[rec.Name] // the names of this model need no escaping: docs/cpp/language.md, a record becomes a struct of the same name
		found := s != nil && s.bad == "" && len(s.members) == len(rec.Fields) && len(s.accessors) == len(rec.ComputedFields)
		verifAssert("struct-has-one-member-per-field-and-one-const-accessor-per-computed-field", found)
		if !found {
			verifOut("cpp", cpp)
			return
		}
		if rec.Name == "Outer" {
			a := s.accessors[0]
			verifOut("cpp-c", fmt.Sprint(a.ret, " ref=", a.ref, " ", strings.ReplaceAll(a.body, "\n", " ")))
		}
	}
	verifOut("reference-returning-accessors-examined", fmt.Sprint(c08rrCheckUnit(u)))
	verifReach("c08rr-end")
}
