package zzverif

import (
	"sync"
	"time"
)

// SchedSelfTest exercises the gosym goroutine scheduler on textbook cases (engine validation, not a
// yardl property): mode 0 = lost update (must be found with one preemption), 1 = the same under a
// mutex (must hold), 2 = channel hand-off, 3 = debounce timer (Reset coalesces, the callback runs),
// 4 = select loop with a closed channel.
func SchedSelfTest(mode int) {
	verifSchedBound(2)
	switch mode {
	case 0, 1:
		var mu sync.Mutex
		counter := 0
		done := make(chan bool)
		inc := func() {
			if mode == 1 {
				mu.Lock()
			}
			v := counter
			verifYield("between-read-and-write")
			counter = v + 1
			if mode == 1 {
				mu.Unlock()
			}
			done <- true
		}
		go inc()
		go inc()
		<-done
		<-done
		verifOut("counter", counter)
		verifAssert("no-lost-update", counter == 2)
	case 2:
		ch := make(chan int)
		res := make(chan int, 1)
		go func() {
			s := 0
			for v := range ch {
				s += v
			}
			res <- s
		}()
		for i := 1; i <= 3; i++ {
			ch <- i
		}
		close(ch)
		verifAssert("sum", <-res == 6)
	case 3:
		fired := 0
		t := time.AfterFunc(1<<62, func() { fired++ })
		t.Stop()
		verifQuiesce()
		verifAssert("stopped-timer-never-fires", fired == 0)
		t.Reset(5 * time.Millisecond)
		t.Reset(5 * time.Millisecond)
		verifQuiesce()
		verifOut("fired", fired)
		verifAssert("coalesced-or-twice", fired >= 1 && fired <= 2)
	case 4:
		ev := make(chan int)
		errs := make(chan error)
		out := make(chan int)
		go func() {
			n := 0
			for {
				select {
				case _, ok := <-errs:
					if !ok {
						out <- n
						return
					}
				case v, ok := <-ev:
					if !ok {
						out <- -1
						return
					}
					n += v
				}
			}
		}()
		ev <- 2
		ev <- 3
		close(errs)
		got := <-out
		verifOut("got", got)
		verifAssert("select-loop", got == 5)
	}
	verifReach("sched-selftest-end")
}
