package zzverif

// C08 / C19: the computed-field expression emitters.  For every expression tree over unary minus, + - * / **, type
// conversion (`as`) and leaves (fields, negative integer literal, floating-point literal) up to a nesting depth, the
// record is validated by the real dsl.Validate, the resolved expression is handed to the real emitter
// (cpp/types.writeComputedFieldExpression; likewise the MATLAB and Python emitters), and the emitted TEXT is read back
// by an expression reader of the target language written from the language's grammar (tokens by maximal munch, the
// language's precedence / associativity table; in C++ `--` / `++` are the decrement / increment operators and not two
// negations).  Obligations: the text is one complete, side-effect-free expression of the language (C08), and the tree
// it denotes is the tree of the resolved source expression, modulo the documented mapping of ** (std::pow / ** / ^)
// and of conversions (static_cast<T> / T(...)) (C19).

import (
	"fmt"
	"math/big"
	"strings"

	cppcommon "github.com/microsoft/yardl/tooling/internal/cpp/common"
	cpptypes "github.com/microsoft/yardl/tooling/internal/cpp/types"
	mcommon "github.com/microsoft/yardl/tooling/internal/matlab/common"
	mtypes "github.com/microsoft/yardl/tooling/internal/matlab/types"
	pycommon "github.com/microsoft/yardl/tooling/internal/python/common"
	pytypes "github.com/microsoft/yardl/tooling/internal/python/types"
	"github.com/microsoft/yardl/tooling/pkg/dsl"
)

// ---- target-language expression readers ---------------------------------------------------------

type c08xLang struct {
	name      string
	multi     []string          // multi-character operators, longest first
	binary    map[string]int    // binary operator -> precedence (higher binds tighter)
	right     map[string]bool   // right-associative binary operators
	canon     map[string]string // binary operator -> canonical operation
	unaryPrec int               // operand of a prefix operator: operators binding tighter than this stay inside it
	prefix    map[string]string // prefix operator -> canonical operation
	postfix   map[string]string // postfix operators
	selfName  string            // the receiver object fields are accessed through ("" = implicit this)
}

var c08xCpp = &c08xLang{
	name:  "cpp",
	multi: []string{"<<=", ">>=", "->*", "::", "++", "--", "->", "<<", ">>", "<=", ">=", "==", "!=", "&&", "||", "+=", "-=", "*=", "/=", "%=", "&=", "|=", "^=", ".*"},
	binary: map[string]int{"*": 10, "/": 10, "%": 10, "+": 9, "-": 9, "<<": 8, ">>": 8, "<": 7, "<=": 7, ">": 7, ">=": 7, "==": 6, "!=": 6,
		"&": 5, "^": 4, "|": 3, "&&": 2, "||": 1},
	right:     map[string]bool{},
	canon:     map[string]string{"+": "add", "-": "sub", "*": "mul", "/": "div"},
	unaryPrec: 11,
	prefix:    map[string]string{"-": "neg", "+": "pos", "!": "not", "~": "compl", "--": "predecrement", "++": "preincrement", "*": "deref", "&": "addressof"},
	postfix:   map[string]string{"--": "postdecrement", "++": "postincrement"},
}

var c08xPython = &c08xLang{
	name:  "python",
	multi: []string{"**=", "//=", "**", "//", "<<", ">>", "<=", ">=", "==", "!=", "+=", "-=", "*=", "/=", ":=", "->"},
	binary: map[string]int{"**": 12, "*": 10, "/": 10, "//": 10, "%": 10, "@": 10, "+": 9, "-": 9, "<<": 8, ">>": 8, "&": 7, "^": 6, "|": 5,
		"<": 4, "<=": 4, ">": 4, ">=": 4, "==": 4, "!=": 4},
	right:     map[string]bool{"**": true},
	canon:     map[string]string{"+": "add", "-": "sub", "*": "mul", "/": "div", "//": "div", "**": "pow"},
	unaryPrec: 11, // -x ** y is -(x ** y); x ** -y is x ** (-y)
	prefix:    map[string]string{"-": "neg", "+": "pos", "~": "compl"},
	postfix:   map[string]string{},
	selfName:  "self",
}

var c08xMatlab = &c08xLang{
	name:  "matlab",
	multi: []string{".*", "./", ".^", ".\\", "<=", ">=", "==", "~=", "&&", "||"},
	binary: map[string]int{"^": 12, ".^": 12, "*": 10, "/": 10, ".*": 10, "./": 10, "\\": 10, ".\\": 10, "+": 9, "-": 9, ":": 8,
		"<": 7, "<=": 7, ">": 7, ">=": 7, "==": 7, "~=": 7, "&": 6, "|": 5, "&&": 4, "||": 3},
	right:     map[string]bool{}, // ^ is left-associative in MATLAB
	canon:     map[string]string{"+": "add", "-": "sub", ".*": "mul", "*": "mul", "./": "div", "/": "div", "^": "pow", ".^": "pow"},
	unaryPrec: 11, // -x ^ y is -(x ^ y); x ^ -y is x ^ (-y)
	prefix:    map[string]string{"-": "neg", "+": "pos", "~": "not"},
	postfix:   map[string]string{"'": "ctranspose"},
	selfName:  "self",
}

func c08xIdentStart(c byte) bool { return c == '_' || (c >= 'a' && c <= 'z') || (c >= 'A' && c <= 'Z') }
func c08xDigit(c byte) bool      { return c >= '0' && c <= '9' }

// c08xLex: identifiers, numbers (digits, one fraction, exponent, alphanumeric suffix), string literals, operators by maximal munch.
func (lg *c08xLang) lex(s string) ([]string, string) {
	var out []string
	for i := 0; i < len(s); {
		c := s[i]
		switch {
		case c == ' ' || c == '\t' || c == '\n' || c == '\r':
			i++
		case c08xIdentStart(c):
			j := i + 1
			for j < len(s) && (c08xIdentStart(s[j]) || c08xDigit(s[j])) {
				j++
			}
			out = append(out, s[i:j])
			i = j
		case c08xDigit(c) || (c == '.' && i+1 < len(s) && c08xDigit(s[i+1])):
			j := i
			for j < len(s) && c08xDigit(s[j]) {
				j++
			}
			if j < len(s) && s[j] == '.' && !(lg.name == "matlab" && j+1 < len(s) && strings.Contains("*/^\\", s[j+1:j+2])) {
				j++
				for j < len(s) && c08xDigit(s[j]) {
					j++
				}
			}
			if j < len(s) && (s[j] == 'e' || s[j] == 'E') {
				k := j + 1
				if k < len(s) && (s[k] == '+' || s[k] == '-') {
					k++
				}
				if k < len(s) && c08xDigit(s[k]) {
					for k < len(s) && c08xDigit(s[k]) {
						k++
					}
					j = k
				}
			}
			for j < len(s) && (c08xIdentStart(s[j]) || c08xDigit(s[j])) {
				j++
			}
			out = append(out, s[i:j])
			i = j
		case c == '"':
			j := i + 1
			for j < len(s) && s[j] != '"' {
				if s[j] == '\\' {
					j++
				}
				j++
			}
			if j >= len(s) {
				return nil, "unterminated string literal"
			}
			out = append(out, s[i:j+1])
			i = j + 1
		default:
			matched := false
			for _, m := range lg.multi {
				if strings.HasPrefix(s[i:], m) {
					out = append(out, m)
					i += len(m)
					matched = true
					break
				}
			}
			if matched {
				continue
			}
			if !strings.Contains("()<>,+-*/%!&|=;.?:[]{}~^@'\\", string(c)) {
				return nil, "unexpected character " + string(c)
			}
			out = append(out, string(c))
			i++
		}
	}
	return out, ""
}

type c08xNode struct {
	head string
	kids []*c08xNode
}

func (n *c08xNode) String() string {
	if len(n.kids) == 0 {
		return n.head
	}
	s := n.head + "("
	for i, k := range n.kids {
		if i > 0 {
			s += ","
		}
		s += k.String()
	}
	return s + ")"
}

func c08xN(head string, kids ...*c08xNode) *c08xNode { return &c08xNode{head: head, kids: kids} }

type c08xReader struct {
	lg      *c08xLang
	toks    []string
	pos     int
	bad     string
	effects []string // operators with a side effect met while reading
}

func (p *c08xReader) peek() string {
	if p.pos < len(p.toks) {
		return p.toks[p.pos]
	}
	return ""
}

func (p *c08xReader) next() string {
	t := p.peek()
	p.pos++
	return t
}

func (p *c08xReader) fail(msg string) *c08xNode {
	if p.bad == "" {
		p.bad = msg
	}
	return c08xN("?")
}

func (p *c08xReader) expect(t string) {
	if got := p.next(); got != t {
		p.fail("expected `" + t + "`, found `" + got + "`")
	}
}

// expr: precedence climbing over the language's binary operator table.
func (p *c08xReader) expr(minPrec int) *c08xNode {
	lhs := p.unary()
	for p.bad == "" {
		op := p.peek()
		prec, ok := p.lg.binary[op]
		if !ok || prec < minPrec {
			break
		}
		p.next()
		sub := prec + 1
		if p.lg.right[op] {
			sub = prec
		}
		rhs := p.expr(sub)
		name, known := p.lg.canon[op]
		if !known {
			name = "op`" + op + "`"
		}
		lhs = c08xN(name, lhs, rhs)
	}
	return lhs
}

func (p *c08xReader) unary() *c08xNode {
	t := p.peek()
	if name, ok := p.lg.prefix[t]; ok {
		p.next()
		if strings.HasSuffix(name, "crement") {
			p.effects = append(p.effects, name)
		}
		return c08xN(name, p.expr(p.lg.unaryPrec))
	}
	return p.postfix()
}

// c08xCanonNumber: integer / floating literal: the value text without the type suffix.
func c08xCanonNumber(t string) string {
	end := len(t)
	isFloat := strings.Contains(t, ".") || strings.Contains(t, "e") || strings.Contains(t, "E")
	for end > 0 && !c08xDigit(t[end-1]) && t[end-1] != '.' {
		end--
	}
	if isFloat {
		return "float:" + t[:end]
	}
	return "int:" + t[:end]
}

func (p *c08xReader) args(close string) []*c08xNode {
	var out []*c08xNode
	if p.peek() == close {
		p.next()
		return out
	}
	for p.bad == "" {
		out = append(out, p.expr(0))
		if p.peek() == "," {
			p.next()
			continue
		}
		p.expect(close)
		break
	}
	return out
}

func (p *c08xReader) primary() *c08xNode {
	t := p.next()
	switch {
	case t == "":
		return p.fail("unexpected end of expression")
	case t == "(":
		e := p.expr(0)
		p.expect(")")
		return e
	case c08xDigit(t[0]) || t[0] == '.':
		return c08xN(c08xCanonNumber(t))
	case t[0] == '"':
		return c08xN("string:" + t)
	case p.lg.name == "cpp" && (t == "static_cast" || t == "reinterpret_cast" || t == "const_cast" || t == "dynamic_cast"):
		p.expect("<")
		depth := 1
		ty := ""
		for p.bad == "" {
			x := p.next()
			if x == "" || x == ">>" {
				return p.fail("unterminated template argument list")
			}
			if x == "<" {
				depth++
			}
			if x == ">" {
				depth--
				if depth == 0 {
					break
				}
			}
			ty += x
		}
		p.expect("(")
		e := p.expr(0)
		p.expect(")")
		if t != "static_cast" {
			return c08xN(t+"<"+ty+">", e)
		}
		return c08xN("conv<"+ty+">", e)
	case c08xIdentStart(t[0]):
		name := t
		for p.lg.name == "cpp" && p.peek() == "::" {
			p.next()
			n := p.next()
			if n == "" || !c08xIdentStart(n[0]) {
				return p.fail("identifier expected after ::")
			}
			name += "::" + n
		}
		if p.lg.name == "cpp" && name == t && p.peek() != "(" {
			return c08xN("field:" + name) // an unqualified name inside a member function: a member of *this
		}
		return c08xN("id:" + name)
	}
	return p.fail("unexpected token `" + t + "`")
}

func (p *c08xReader) postfix() *c08xNode {
	e := p.primary()
	for p.bad == "" {
		t := p.peek()
		switch {
		case t == ".":
			p.next()
			m := p.next()
			if m == "" || !c08xIdentStart(m[0]) {
				return p.fail("member name expected after `.`")
			}
			if p.lg.selfName != "" && e.head == "id:"+p.lg.selfName {
				e = c08xN("field:" + m)
			} else {
				e = c08xN("member:"+m, e)
			}
		case t == "(":
			p.next()
			e = p.call(e, p.args(")"))
		case t == "[" && p.lg.name != "matlab":
			p.next()
			e = c08xN("index", append([]*c08xNode{e}, p.args("]")...)...)
		default:
			if name, ok := p.lg.postfix[t]; ok {
				p.next()
				if strings.HasSuffix(name, "crement") {
					p.effects = append(p.effects, name)
				}
				e = c08xN(name, e)
				continue
			}
			return e
		}
	}
	return e
}

var c08xPyConv = map[string]bool{"int": true, "float": true, "complex": true, "bool": true, "str": true}
var c08xMatlabConv = map[string]bool{"int8": true, "uint8": true, "int16": true, "uint16": true, "int32": true, "uint32": true,
	"int64": true, "uint64": true, "single": true, "double": true, "logical": true}

// call: the documented spellings. C++ std::pow(a, b) is a ** b; Python / MATLAB T(e) with T a built-in conversion
// function is a conversion to T.
func (p *c08xReader) call(f *c08xNode, args []*c08xNode) *c08xNode {
	switch p.lg.name {
	case "cpp":
		if f.head == "id:std::pow" && len(args) == 2 {
			return c08xN("pow", args...)
		}
	case "python":
		if strings.HasPrefix(f.head, "id:") && c08xPyConv[f.head[3:]] && len(args) == 1 {
			return c08xN("conv<"+f.head[3:]+">", args[0])
		}
	case "matlab":
		if strings.HasPrefix(f.head, "id:") && c08xMatlabConv[f.head[3:]] && len(args) == 1 {
			return c08xN("conv<"+f.head[3:]+">", args[0])
		}
	}
	return c08xN("call", append([]*c08xNode{f}, args...)...)
}

// c08xRead: text -> canonical tree; fields become field:<name>, the documented spellings of ** and of conversions are
// pow(l,r) / conv<T>(e).
func c08xRead(lg *c08xLang, text string) (tree string, bad string, effects []string) {
	toks, lexBad := lg.lex(text)
	if lexBad != "" {
		return "?", lexBad, nil
	}
	for _, t := range toks {
		if t != "==" && t != "<=" && t != ">=" && t != "!=" && t != "~=" && strings.HasSuffix(t, "=") {
			effects = append(effects, "assignment "+t)
		}
	}
	p := &c08xReader{lg: lg, toks: toks}
	n := p.expr(0)
	if p.bad == "" && p.pos != len(toks) {
		p.fail("trailing tokens from `" + p.peek() + "`")
	}
	return n.String(), p.bad, append(effects, p.effects...)
}

// ---- source trees ------------------------------------------------------------------------------

type c08xGen struct {
	b      *mb
	n      int
	fields int // field leaves used so far (each leaf is a different field, so operands cannot be confused)
	convs  int
	lits   bool // leaves may also be literals (negative integer, floating point)
}

var c08xFieldNames = []string{"va", "countValue", "vb", "nb", "scaleFactor", "nc", "vd", "nd"} // no digits: the engine does not model regexp2 callbacks
var c08xFieldTypes = []string{"double", "int", "double", "int", "double", "int", "double", "int"}
var c08xConvTargets = []string{"int", "float", "double", "long"}

func (g *c08xGen) label(s string) string {
	g.n++
	return fmt.Sprintf("%s%d", s, g.n)
}

func (g *c08xGen) leaf(literalOK bool) dsl.Expression {
	k := 0
	if g.lits {
		k = verifChoose(g.label("leaf"), 5)
		if !literalOK && (k == 1 || k == 2) {
			verifAssume(false) // -literal does not exist as a tree
		}
	}
	switch k {
	case 3: // a field of a nested record
		return &dsl.MemberAccessExpression{NodeMeta: g.b.meta(), Target: &dsl.MemberAccessExpression{NodeMeta: g.b.meta(), Member: "sub"}, Member: "innerValue"}
	case 4: // another computed field
		return &dsl.MemberAccessExpression{NodeMeta: g.b.meta(), Member: "helperField"}
	case 1:
		e := &dsl.IntegerLiteralExpression{NodeMeta: g.b.meta()}
		e.Value = *big.NewInt(-3) // the parser folds `-3` into a negative literal
		return e
	case 2:
		return &dsl.FloatingPointLiteralExpression{NodeMeta: g.b.meta(), Value: "1.5"}
	}
	name := c08xFieldNames[g.fields%len(c08xFieldNames)]
	g.fields++
	return &dsl.MemberAccessExpression{NodeMeta: g.b.meta(), Member: name}
}

// expr: leaf | -e | e as T | e op e, nesting depth <= d.  The operand of a unary minus is never a literal: the
// expression parser folds `-literal` into the literal.  From depth 3 on (depth 2 in the literal family) only
// one operand of a binary operator is deep (the other is two levels shallower), which keeps the number of trees in the ten thousands.
func (g *c08xGen) expr(d int, literalOK bool) dsl.Expression {
	if d <= 0 {
		return g.leaf(literalOK)
	}
	switch verifChoose(g.label("form"), 4) {
	case 1:
		return &dsl.UnaryExpression{NodeMeta: g.b.meta(), Operator: dsl.UnaryOpNegate, Expression: g.expr(d-1, false)}
	case 2:
		t := c08xConvTargets[g.convs%len(c08xConvTargets)]
		g.convs++
		return &dsl.TypeConversionExpression{NodeMeta: g.b.meta(), Type: g.b.st(t), Expression: g.expr(d-1, true)}
	case 3:
		op := dsl.BinaryOperator(verifChoose(g.label("op"), 5))
		dl, dr := d-1, d-1
		if d >= 3 || (g.lits && d >= 2) {
			if verifChoose(g.label("deep-side"), 2) == 0 {
				dr = d - 2
			} else {
				dl = d - 2
			}
		}
		l := g.expr(dl, true)
		r := g.expr(dr, true)
		return &dsl.BinaryExpression{NodeMeta: g.b.meta(), Left: l, Operator: op, Right: r}
	}
	return g.leaf(literalOK)
}

// documented primitive mappings (docs/cpp/language.md, docs/python/language.md, docs/matlab/language.md)
var c08xCppPrim = map[string]string{"int8": "int8_t", "uint8": "uint8_t", "int16": "int16_t", "uint16": "uint16_t", "int32": "int32_t", "uint32": "uint32_t",
	"int64": "int64_t", "uint64": "uint64_t", "size": "size_t", "float32": "float", "float64": "double",
	"complexfloat32": "std::complex<float>", "complexfloat64": "std::complex<double>"}
var c08xPyPrim = map[string]string{"int8": "int", "uint8": "int", "int16": "int", "uint16": "int", "int32": "int", "uint32": "int", "int64": "int", "uint64": "int", "size": "int",
	"float32": "float", "float64": "float", "complexfloat32": "complex", "complexfloat64": "complex"}
var c08xMatlabPrim = map[string]string{"int8": "int8", "uint8": "uint8", "int16": "int16", "uint16": "uint16", "int32": "int32", "uint32": "uint32",
	"int64": "int64", "uint64": "uint64", "size": "uint64", "float32": "single", "float64": "double"}

var c08xOpNames = []string{"add", "sub", "mul", "div", "pow"}

// c08xSourceTree: the canonical tree of a resolved expression; fieldName maps a yardl field to the target's identifier,
// prim maps a yardl primitive to the target's type name.
func c08xSourceTree(e dsl.Expression, fieldName func(string) string, prim map[string]string) string {
	switch t := e.(type) {
	case *dsl.UnaryExpression:
		return "neg(" + c08xSourceTree(t.Expression, fieldName, prim) + ")"
	case *dsl.BinaryExpression:
		if int(t.Operator) < 0 || int(t.Operator) >= len(c08xOpNames) {
			return "?op"
		}
		return c08xOpNames[t.Operator] + "(" + c08xSourceTree(t.Left, fieldName, prim) + "," + c08xSourceTree(t.Right, fieldName, prim) + ")"
	case *dsl.TypeConversionExpression:
		p, ok := dsl.GetPrimitiveType(t.Type)
		if !ok {
			return "?convtype"
		}
		name, ok := prim[string(p)]
		if !ok {
			return "?convprim:" + string(p)
		}
		return "conv<" + name + ">(" + c08xSourceTree(t.Expression, fieldName, prim) + ")"
	case *dsl.IntegerLiteralExpression:
		if t.Value.Sign() < 0 {
			abs := new(big.Int).Neg(&t.Value)
			return "neg(int:" + abs.String() + ")"
		}
		return "int:" + t.Value.String()
	case *dsl.FloatingPointLiteralExpression:
		if strings.HasPrefix(t.Value, "-") {
			return "neg(float:" + t.Value[1:] + ")"
		}
		return "float:" + t.Value
	case *dsl.MemberAccessExpression:
		if t.Target != nil {
			// a field of a nested record value (only fields are generated below a target)
			return "member:" + fieldName("."+t.Member) + "(" + c08xSourceTree(t.Target, fieldName, prim) + ")"
		}
		if t.Kind == dsl.MemberAccessComputedField {
			return "call(" + fieldName("()"+t.Member) + ")"
		}
		return "field:" + fieldName(t.Member)
	}
	return fmt.Sprintf("?%T", e)
}

// c08xModel: record Rec with the leaf fields and one computed field `c` = the generated tree; returns the resolved record.
// Two families: (0) every tree of depth <= depth over field leaves; (1) every tree of depth <= litDepth whose leaves
// are fields, a negative integer literal or a floating-point literal (what a leaf is only matters to the operator
// directly above it, so this family is explored to a smaller depth).
func c08xModel(depth, litDepth int) (*dsl.Environment, *dsl.RecordDefinition, bool) {
	b := &mb{file: "model.yml"}
	g := &c08xGen{b: b}
	var fields []*dsl.Field
	for i, n := range c08xFieldNames {
		fields = append(fields, b.field(n, b.st(c08xFieldTypes[i])))
	}
	fields = append(fields, b.field("sub", b.st("Sub")))
	rec := b.record("Ns", "Rec", nil, fields...)
	sub := b.record("Ns", "Sub", nil, b.field("innerValue", b.st("double")))
	helper := &dsl.ComputedField{NodeMeta: b.meta(), Name: "helperField", Expression: &dsl.MemberAccessExpression{NodeMeta: b.meta(), Member: "nb"}}
	var e dsl.Expression
	if verifChoose("family", 2) == 0 {
		e = g.expr(depth, false)
	} else {
		g.lits = true
		e = g.expr(litDepth, false)
	}
	rec.ComputedFields = dsl.ComputedFields{&dsl.ComputedField{NodeMeta: b.meta(), Name: "c", Expression: e}, helper}
	ns := &dsl.Namespace{Name: "Ns", IsTopLevel: true, TypeDefinitions: dsl.TypeDefinitions{sub, rec}}
	env, err := dsl.Validate([]*dsl.Namespace{ns})
	if err != nil {
		verifOut("validation-error", err.Error())
		return nil, nil, false
	}
	for _, td := range env.Namespaces[0].TypeDefinitions {
		if r, ok := td.(*dsl.RecordDefinition); ok && r.Name == "Rec" {
			return env, r, true
		}
	}
	return nil, nil, false
}

// C08ComputedExpr: all three emitters on the same tree.
func C08ComputedExpr(depth, litDepth int) {
	env, rec, ok := c08xModel(depth, litDepth)
	if !ok {
		verifReach("c08x-rejected")
		return
	}
	c08xCheckCpp(env, rec)
	c08xCheckScripts(rec)
}

// C08CppExpr: the C++ emitter alone.
func C08CppExpr(depth, litDepth int) {
	env, rec, ok := c08xModel(depth, litDepth)
	if !ok {
		verifReach("c08x-rejected")
		return
	}
	c08xCheckCpp(env, rec)
}

func c08xCheckCpp(env *dsl.Environment, rec *dsl.RecordDefinition) {
	expr := rec.ComputedFields[0].Expression
	// the C++ member each yardl field is declared as, read back from the struct in types.h
	_, _, members, found := c14tReadStruct(cpptypes.VerifWriteNamespaceMembers(env.Namespaces[0]), "Rec")
	verifAssert("struct-emitted-with-one-member-per-field", found && len(members) == len(rec.Fields))
	if !found || len(members) != len(rec.Fields) {
		return
	}
	_, _, subMembers, subFound := c14tReadStruct(cpptypes.VerifWriteNamespaceMembers(env.Namespaces[0]), "Sub")
	fieldName := func(n string) string {
		if strings.HasPrefix(n, ".") { // member of the nested record
			if subFound && len(subMembers) == 1 {
				return subMembers[0]
			}
			return "?" + n
		}
		if strings.HasPrefix(n, "()") { // a computed field is a member function (docs/cpp/language.md: PascalCased)
			return "id:" + cppcommon.ComputedFieldIdentifierName(n[2:])
		}
		for i, f := range rec.Fields {
			if f.Name == n {
				return members[i]
			}
		}
		return "?" + n
	}
	want := c08xSourceTree(expr, fieldName, c08xCppPrim)
	text := cpptypes.VerifWriteComputedFieldExpression(expr)
	got, bad, effects := c08xRead(c08xCpp, text)
	verifOut("source", want)
	verifOut("cpp", text)
	verifOut("cpp-tree", got)
	verifOut("cpp-read", bad)
	verifAssert("cpp-text-is-one-complete-expression", bad == "")
	verifAssert("cpp-expression-has-no-side-effect", len(effects) == 0) // the accessor is a const member function
	verifAssert("cpp-expression-denotes-the-source-tree", got == want)
	verifReach("c08x-cpp-end")
}

func c08xStripStatement(text, prefix, suffix string) (string, bool) {
	text = strings.TrimSpace(text)
	if !strings.HasPrefix(text, prefix) || !strings.HasSuffix(text, suffix) {
		return "", false
	}
	return strings.TrimSpace(text[len(prefix) : len(text)-len(suffix)]), true
}

// C19ScriptExpr: the Python and MATLAB emitters alone.
func C19ScriptExpr(depth, litDepth int) {
	_, rec, ok := c08xModel(depth, litDepth)
	if !ok {
		verifReach("c08x-rejected")
		return
	}
	c08xCheckScripts(rec)
}

func c08xCheckScripts(rec *dsl.RecordDefinition) {
	expr := rec.ComputedFields[0].Expression

	pyText := pytypes.VerifWriteComputedFieldExpression(expr, "Ns")
	verifOut("python", pyText)
	pyExpr, pyForm := c08xStripStatement(pyText, "return ", "")
	verifAssert("python-body-is-one-return-statement", pyForm && !strings.Contains(pyExpr, "\n"))
	if pyForm {
		want := c08xSourceTree(expr, func(n string) string {
			if strings.HasPrefix(n, "()") {
				return "field:" + pycommon.ComputedFieldIdentifierName(n[2:])
			}
			return pycommon.FieldIdentifierName(strings.TrimPrefix(n, "."))
		}, c08xPyPrim)
		got, bad, effects := c08xRead(c08xPython, pyExpr)
		verifOut("source-python", want)
		verifOut("python-tree", got)
		verifOut("python-read", bad)
		verifAssert("python-text-is-one-complete-expression", bad == "" && len(effects) == 0)
		verifAssert("python-expression-denotes-the-source-tree", got == want)
	}

	mText := mtypes.VerifWriteComputedFieldExpression(expr, "Ns")
	verifOut("matlab", mText)
	mExpr, mForm := c08xStripStatement(mText, "res = ", ";\nreturn")
	verifAssert("matlab-body-is-one-assignment-to-res", mForm && !strings.Contains(mExpr, "\n"))
	if mForm {
		want := c08xSourceTree(expr, func(n string) string {
			if strings.HasPrefix(n, "()") {
				return "field:" + mcommon.ComputedFieldIdentifierName(n[2:])
			}
			return mcommon.FieldIdentifierName(strings.TrimPrefix(n, "."))
		}, c08xMatlabPrim)
		got, bad, effects := c08xRead(c08xMatlab, mExpr)
		verifOut("source-matlab", want)
		verifOut("matlab-tree", got)
		verifOut("matlab-read", bad)
		verifAssert("matlab-text-is-one-complete-expression", bad == "" && len(effects) == 0)
		verifAssert("matlab-expression-denotes-the-source-tree", got == want)
	}
	verifReach("c08x-script-end")
}
