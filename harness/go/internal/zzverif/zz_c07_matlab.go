package zzverif

// C07 (MATLAB): the real MATLAB protocol emitter (matlab/protocols.WriteProtocols) runs on every stream / non-stream
// step pattern; the emitted <P>WriterBase.m / <P>ReaderBase.m are read back as MATLAB classes (sections, functions,
// if / elseif / else / while / end, assignments, method calls, throw) and *interpreted*: an object is a set of
// properties, a call of a concrete method interprets its emitted body, a call of an abstract method (write_<step>_,
// read_<step>_, has_<step>_, end_stream_, close_) is a recorded hook.  Nothing is matched against a copy of the
// emitter's template: the meaning of a method is what its statements do to `state_` and which hooks they call.
//
// Decided: a one-step inductive simulation against the declaration-order automaton.
//   abstraction   alpha(0) = state_ after the constructor; alpha(i+1) = state_ after the call completing step i from
//                 alpha(i) (write_<s> of a value step, end_<s> of a stream step; reader: read_<s>, has_<s> answering
//                 false).  The numbers are read from the text, they are not assumed: distinct automaton states must
//                 have distinct numbers, each exactly representable in a MATLAB double.
//   step          for a SYMBOLIC state_ (assumed to be one of the alpha values - the reachable states) and an
//                 arbitrary public method of the class: accepted iff the automaton allows the call in that state;
//                 accepted => exactly the hooks it must call, the passed / returned value handed through, state_ moves
//                 to alpha(successor); refused => raises, no hook, state_ unchanged, and the message names (as
//                 "expected") the step the automaton expects.
//   close         raises iff not every step was completed.  MATLAB rule taken (docs/matlab/language.md "Protocols":
//                 a stream is ended by end_<step>() - "Call stream end method to signal that it is complete"; readers
//                 loop on has_<step>(); "It is an error ... to close a reader or writer without having written or read
//                 all steps"): close() does NOT end a trailing open stream, there is no implicit end by the next step.
//                 The emitted close() calls the close_ hook before it checks (so does the Python backend): only
//                 "no step hook, no end_stream_" is asserted for a refused close.
//   copy_to       (reader) from a fresh reader and a fresh writer: every step read in declaration order and written to
//                 the writer's public method of the same step, streams item by item and ended, both end in their final
//                 state; from any other reader state: raises before any hook.

import (
	"fmt"
	"strconv"
	"strings"

	mcommon "github.com/microsoft/yardl/tooling/internal/matlab/common"
	mprotocols "github.com/microsoft/yardl/tooling/internal/matlab/protocols"
	"github.com/microsoft/yardl/tooling/pkg/dsl"
)

// ---- reading a classdef file ---------------------------------------------------------------------------------------

// a line of the file: trimmed text and its first word (up to the first blank or parenthesis), computed once
type c07mLine struct {
	text  string
	word  string
	opens bool // opens a block that a later `end` line closes
	skip  int  // for an opening line: distance to its `end` line (0: none)
}

type c07mMethod struct {
	name    string
	ret     string   // output variable, "" if none
	params  []string // as written (the object handle first, except constructors and static methods)
	section string   // "public", "static", "private"
	body    []c07mLine
}

type c07mClass struct {
	name     string
	isHandle bool
	props    map[string]bool
	methods  map[string]*c07mMethod
	order    []string       // concrete methods in text order
	abstract map[string]int // hook name -> number of parameters (handle included)
	bad      string
}

func c07mIdentChar(c byte) bool {
	return c == '_' || (c >= 'a' && c <= 'z') || (c >= 'A' && c <= 'Z') || (c >= '0' && c <= '9')
}

func c07mIsIdent(s string) bool {
	if s == "" || (s[0] >= '0' && s[0] <= '9') {
		return false
	}
	return strings.Trim(s, "abcdefghijklmnopqrstuvwxyzABCDEFGHIJKLMNOPQRSTUVWXYZ0123456789_") == ""
}

func c07mFirstWord(l string) string {
	f := strings.Fields(l)
	if len(f) == 0 {
		return ""
	}
	w := f[0]
	if k := strings.Index(w, "("); k >= 0 {
		w = w[:k]
	}
	return w
}

// c07mOpens: does the line open a block that a later `end` line closes
func c07mOpens(word string) bool {
	switch word {
	case "classdef", "properties", "methods", "function", "if", "while", "for", "parfor", "switch", "try", "arguments", "events", "enumeration":
		return true
	}
	return false
}

// c07mBlockEnd: index of the `end` closing the block opened by lines[i]; len(lines) if there is none
func c07mBlockEnd(lines []c07mLine, i int) int {
	if !lines[i].opens || lines[i].skip == 0 || i+lines[i].skip >= len(lines) {
		return len(lines)
	}
	return i + lines[i].skip
}

// c07mLines: the lines of a file without blank and comment lines, blocks matched once
func c07mLines(text string) []c07mLine {
	var lines []c07mLine
	var open []int
	for _, l := range strings.Split(text, "\n") {
		t := strings.TrimSpace(l)
		if t == "" || t[0] == '%' {
			continue
		}
		w := c07mFirstWord(t)
		ln := c07mLine{text: t, word: w, opens: c07mOpens(w)}
		if ln.opens {
			open = append(open, len(lines))
		} else if t == "end" && len(open) > 0 {
			o := open[len(open)-1]
			open = open[:len(open)-1]
			lines[o].skip = len(lines) - o
		}
		lines = append(lines, ln)
	}
	return lines
}

func c07mSplitParams(s string) ([]string, bool) {
	s = strings.TrimSpace(s)
	if s == "" {
		return nil, true
	}
	var out []string
	for _, p := range strings.Split(s, ",") {
		p = strings.TrimSpace(p)
		if !c07mIsIdent(p) {
			return nil, false
		}
		out = append(out, p)
	}
	return out, true
}

// c07mSignature: `name(params)` or `ret = name(params)`
func c07mSignature(sig string) (ret, name string, params []string, ok bool) {
	if k := strings.Index(sig, " = "); k >= 0 && k < strings.Index(sig, "(") {
		ret, sig = sig[:k], sig[k+3:]
		if !c07mIsIdent(ret) {
			return "", "", nil, false
		}
	}
	o := strings.Index(sig, "(")
	if o <= 0 || !strings.HasSuffix(sig, ")") {
		return "", "", nil, false
	}
	name = sig[:o]
	params, ok = c07mSplitParams(sig[o+1 : len(sig)-1])
	return ret, name, params, ok && c07mIsIdent(name)
}

func (c *c07mClass) fail(msg string) {
	if c.bad == "" {
		c.bad = msg
	}
}

func (c *c07mClass) readFunctions(lines []c07mLine, section string) {
	for i := 0; i < len(lines) && c.bad == ""; {
		l := lines[i].text
		if !strings.HasPrefix(l, "function ") {
			c.fail("in a methods section: " + l)
			return
		}
		end := c07mBlockEnd(lines, i)
		if end >= len(lines) {
			c.fail("function without end: " + l)
			return
		}
		ret, name, params, ok := c07mSignature(strings.TrimSpace(l[len("function "):]))
		if !ok {
			c.fail("function signature: " + l)
			return
		}
		if c.methods[name] != nil || c.abstract[name] != 0 {
			c.fail("method defined twice: " + name)
			return
		}
		c.methods[name] = &c07mMethod{name: name, ret: ret, params: params, section: section, body: lines[i+1 : end]}
		c.order = append(c.order, name)
		i = end + 1
	}
}

func c07mReadClass(text string) *c07mClass {
	c := &c07mClass{props: map[string]bool{}, methods: map[string]*c07mMethod{}, abstract: map[string]int{}}
	lines := c07mLines(text)
	if len(lines) < 2 || lines[0].word != "classdef" || c07mBlockEnd(lines, 0) != len(lines)-1 {
		c.fail("not one classdef block")
		return c
	}
	h := strings.TrimPrefix(strings.TrimPrefix(lines[0].text, "classdef "), "(Abstract) ")
	if k := strings.Index(h, " < "); k >= 0 {
		c.isHandle = h[k+3:] == "handle"
		h = h[:k]
	}
	c.name = h
	if !c07mIsIdent(c.name) {
		c.fail("classdef header: " + lines[0].text)
		return c
	}
	for i := 1; i < len(lines)-1 && c.bad == ""; {
		l := lines[i].text
		end := c07mBlockEnd(lines, i)
		if !lines[i].opens || end >= len(lines)-1 {
			c.fail("class section: " + l)
			return c
		}
		inner := lines[i+1 : end]
		switch l {
		case "properties (Access=protected)":
			for _, p := range inner {
				if !c07mIsIdent(p.text) {
					c.fail("property declaration: " + p.text)
				}
				c.props[p.text] = true
			}
		case "methods":
			c.readFunctions(inner, "public")
		case "methods (Static)":
			c.readFunctions(inner, "static")
		case "methods (Access=private)":
			c.readFunctions(inner, "private")
		case "methods (Abstract, Access=protected)":
			for _, d := range inner {
				_, name, params, ok := c07mSignature(d.text)
				if !ok || len(params) == 0 || c.methods[name] != nil || c.abstract[name] != 0 {
					c.fail("abstract method declaration: " + d.text)
					break
				}
				c.abstract[name] = len(params)
			}
		default:
			c.fail("class section: " + l)
		}
		i = end + 1
	}
	return c
}

// ---- expressions ---------------------------------------------------------------------------------------------------

type c07mTok struct {
	k byte // 'n' integer, 'i' identifier, 's' string, 'p' punctuation
	s string
}

func c07mTokens(s string) ([]c07mTok, bool) {
	var out []c07mTok
	for i := 0; i < len(s); {
		c := s[i]
		switch {
		case c == ' ':
			i++
		case c >= '0' && c <= '9':
			j := i
			for j < len(s) && s[j] >= '0' && s[j] <= '9' {
				j++
			}
			if j < len(s) && (c07mIdentChar(s[j]) || s[j] == '.') {
				return nil, false // 1e3, 0x10, 1.5: not integer literals
			}
			out = append(out, c07mTok{'n', s[i:j]})
			i = j
		case c07mIdentChar(c):
			j := i
			for j < len(s) && c07mIdentChar(s[j]) {
				j++
			}
			out = append(out, c07mTok{'i', s[i:j]})
			i = j
		case c == '"' || c == '\'':
			// a quote directly after an identifier / closing bracket would be a transpose: not a form read here
			if c == '\'' && len(out) > 0 && (out[len(out)-1].k == 'i' || out[len(out)-1].k == 'n' || out[len(out)-1].s == ")" || out[len(out)-1].s == "}") {
				return nil, false
			}
			j := i + 1
			var b []byte
			for {
				if j >= len(s) {
					return nil, false
				}
				if s[j] == c {
					if j+1 < len(s) && s[j+1] == c { // doubled quote
						b = append(b, c)
						j += 2
						continue
					}
					break
				}
				b = append(b, s[j])
				j++
			}
			out = append(out, c07mTok{'s', string(b)})
			i = j + 1
		default:
			if i+1 < len(s) {
				two := s[i : i+2]
				if two == "==" || two == "~=" || two == "&&" || two == "||" {
					out = append(out, c07mTok{'p', two})
					i += 2
					continue
				}
			}
			if !strings.Contains("~(){},.=;", string(c)) {
				return nil, false
			}
			out = append(out, c07mTok{'p', string(c)})
			i++
		}
	}
	return out, true
}

type c07mVal struct {
	kind string // "int", "bool", "str", "data" (an opaque value: s names it), "err", "none"
	i    int
	b    bool
	s    string
	args []string // err: the rendered format arguments
}

type c07mObj struct {
	cls    *c07mClass
	tag    string // prefix of recorded hooks
	fields map[string]c07mVal
}

type c07mFrame struct {
	self *c07mObj // the object whose method is running (nil in static methods)
	objs map[string]*c07mObj
	vars map[string]c07mVal
}

type c07mRun struct {
	hooks   []string
	threw   bool
	err     c07mVal
	bad     string
	depth   int
	nData   int
	hasLeft int  // how many more times a has_<step>_ hook may answer true (then it answers false)
	lastHas bool // what the last has_<step>_ hook answered
	hasAns  []bool
	bigLit  bool // an integer literal that a double does not hold exactly was met
	toks    []c07mTok
	pos     int
	f       *c07mFrame
}

func (r *c07mRun) fail(msg string) c07mVal {
	if r.bad == "" {
		r.bad = msg
	}
	return c07mVal{kind: "none"}
}

// stop: nothing more is evaluated once something raised or an unknown form was met
func (r *c07mRun) stop() bool { return r.bad != "" || r.threw }

func (r *c07mRun) peek() string {
	if r.pos < len(r.toks) && r.toks[r.pos].k == 'p' {
		return r.toks[r.pos].s
	}
	return ""
}

func (r *c07mRun) eat(p string) bool {
	if r.peek() == p {
		r.pos++
		return true
	}
	return false
}

func (r *c07mRun) truth(v c07mVal) bool {
	if r.stop() {
		return false
	}
	if v.kind != "bool" {
		r.fail("a " + v.kind + " value used as a condition")
		return false
	}
	return v.b
}

// MATLAB precedence, loosest first: ||, &&, comparison, unary ~
func (r *c07mRun) exprOr() c07mVal {
	v := r.exprAnd()
	for !r.stop() && r.eat("||") {
		if r.truth(v) {
			r.skipOperand()
			continue
		}
		w := r.exprAnd()
		v = c07mVal{kind: "bool", b: r.truth(w)}
	}
	return v
}

func (r *c07mRun) exprAnd() c07mVal {
	v := r.exprCmp()
	for !r.stop() && r.eat("&&") {
		if !r.truth(v) {
			r.skipOperand()
			continue
		}
		w := r.exprCmp()
		v = c07mVal{kind: "bool", b: r.truth(w)}
	}
	return v
}

// skipOperand: the right operand of a short-circuited && / || is not evaluated (no hook, no decision)
func (r *c07mRun) skipOperand() {
	depth := 0
	for r.pos < len(r.toks) {
		p := r.peek()
		if depth == 0 && (p == "&&" || p == "||" || p == ")" || p == "}" || p == "," || p == ";") {
			return
		}
		if p == "(" || p == "{" {
			depth++
		}
		if p == ")" || p == "}" {
			depth--
		}
		r.pos++
	}
}

func (r *c07mRun) exprCmp() c07mVal {
	v := r.exprUnary()
	op := r.peek()
	if r.stop() || (op != "==" && op != "~=") {
		return v
	}
	r.pos++
	w := r.exprUnary()
	if r.stop() {
		return c07mVal{kind: "none"}
	}
	if v.kind != "int" || w.kind != "int" {
		return r.fail("comparison of " + v.kind + " with " + w.kind)
	}
	eq := v.i == w.i // the decision point when state_ is symbolic
	return c07mVal{kind: "bool", b: eq == (op == "==")}
}

func (r *c07mRun) exprUnary() c07mVal {
	if r.eat("~") {
		v := r.exprUnary()
		if r.stop() {
			return c07mVal{kind: "none"}
		}
		return c07mVal{kind: "bool", b: !r.truth(v)}
	}
	return r.exprPrimary()
}

func (r *c07mRun) exprArgs() []c07mVal {
	var args []c07mVal
	if r.eat(")") {
		return args
	}
	for !r.stop() {
		args = append(args, r.exprOr())
		if r.stop() || r.eat(")") {
			return args
		}
		if !r.eat(",") {
			r.fail("argument list")
		}
	}
	return args
}

func (r *c07mRun) exprPrimary() c07mVal {
	if r.stop() {
		return c07mVal{kind: "none"}
	}
	if r.pos >= len(r.toks) {
		return r.fail("expression ends early")
	}
	t := r.toks[r.pos]
	switch {
	case t.k == 'n':
		r.pos++
		n, err := strconv.Atoi(t.s)
		if err != nil {
			return r.fail("integer literal " + t.s)
		}
		if n > 1<<53 {
			r.bigLit = true
		}
		return c07mVal{kind: "int", i: n}
	case t.k == 's':
		r.pos++
		return c07mVal{kind: "str", s: t.s}
	case t.k == 'p' && t.s == "(":
		r.pos++
		v := r.exprOr()
		if r.stop() {
			return c07mVal{kind: "none"}
		}
		if !r.eat(")") {
			return r.fail("missing )")
		}
		return v
	case t.k == 'p' && t.s == "{":
		r.pos++
		v := r.exprOr()
		if r.stop() {
			return c07mVal{kind: "none"}
		}
		if !r.eat("}") {
			return r.fail("cell literal with other than one element")
		}
		if v.kind != "data" {
			return r.fail("cell literal around a " + v.kind)
		}
		return c07mVal{kind: "data", s: "{" + v.s + "}"} // a one-element collection holding v
	case t.k != 'i':
		return r.fail("unexpected token " + t.s)
	}
	// a.b.c [ ( args ) ]
	chain := []string{t.s}
	r.pos++
	for r.peek() == "." && r.pos+1 < len(r.toks) && r.toks[r.pos+1].k == 'i' {
		chain = append(chain, r.toks[r.pos+1].s)
		r.pos += 2
	}
	called := false
	var args []c07mVal
	if r.eat("(") {
		called = true
		args = r.exprArgs()
	}
	if r.bad != "" || r.threw {
		return c07mVal{kind: "none"} // an argument raised: the call does not happen
	}
	path := strings.Join(chain, ".")
	switch {
	case len(chain) == 1 && !called && (chain[0] == "true" || chain[0] == "false"):
		return c07mVal{kind: "bool", b: chain[0] == "true"}
	case len(chain) == 1 && !called:
		if v, ok := r.f.vars[chain[0]]; ok {
			return v
		}
		return r.fail("read of unset variable " + chain[0])
	case path == "throw" && called:
		if len(args) != 1 || args[0].kind != "err" {
			return r.fail("throw of something that is not an exception object")
		}
		r.threw, r.err = true, args[0]
		return c07mVal{kind: "none"}
	case path == "yardl.ProtocolError" && called:
		// yardl.ProtocolError(fmt, a...) = MException("yardl:ProtocolError", fmt, a...): a sprintf-style message
		if len(args) == 0 || args[0].kind != "str" {
			return r.fail("ProtocolError without a message format")
		}
		e := c07mVal{kind: "err", s: args[0].s}
		for _, a := range args[1:] {
			if a.kind != "str" {
				return r.fail("ProtocolError format argument of kind " + a.kind)
			}
			e.args = append(e.args, a.s)
		}
		return e
	case len(chain) == 2 && r.f.objs[chain[0]] != nil:
		o := r.f.objs[chain[0]]
		if !called && o.cls.props[chain[1]] {
			if v, ok := o.fields[chain[1]]; ok {
				return v
			}
			return r.fail("read of unset property " + path)
		}
		if !called {
			return r.fail("method named without a call: " + path)
		}
		return r.invoke(o, chain[1], args)
	case !called:
		if v, ok := r.f.vars[path]; ok { // options.<name> of an arguments block
			return v
		}
	}
	return r.fail("unknown name " + path)
}

// ---- statements ----------------------------------------------------------------------------------------------------

func (r *c07mRun) evalIn(f *c07mFrame, src string, wantEnd string) c07mVal {
	toks, ok := c07mTokens(src)
	if !ok {
		return r.fail("cannot tokenise: " + src)
	}
	return r.evalToks(f, toks, src, wantEnd)
}

func (r *c07mRun) evalToks(f *c07mFrame, toks []c07mTok, src string, wantEnd string) c07mVal {
	st, sp, sf := r.toks, r.pos, r.f
	r.toks, r.pos, r.f = toks, 0, f
	v := r.exprOr()
	if r.bad == "" && !r.threw {
		if wantEnd == ";" && !r.eat(";") {
			r.fail("statement without `;`: " + src)
		}
		if r.pos != len(r.toks) {
			r.fail("trailing text in: " + src)
		}
	}
	r.toks, r.pos, r.f = st, sp, sf
	return v
}

func (r *c07mRun) invoke(o *c07mObj, name string, args []c07mVal) c07mVal {
	caller := r.f.self
	if n := o.cls.abstract[name]; n != 0 {
		if caller != o {
			return r.fail("protected hook " + name + " called from outside its object")
		}
		if len(args) != n-1 {
			return r.fail("hook " + name + " called with a wrong number of arguments")
		}
		rec := o.tag + "." + name + "("
		for i, a := range args {
			if a.kind != "data" {
				return r.fail("hook " + name + " called with a " + a.kind)
			}
			if i > 0 {
				rec += ","
			}
			rec += a.s
		}
		r.hooks = append(r.hooks, rec+")")
		switch {
		case strings.HasPrefix(name, "read_"):
			r.nData++
			return c07mVal{kind: "data", s: fmt.Sprintf("%s:%s#%d", o.tag, name, r.nData)}
		case strings.HasPrefix(name, "has_"):
			more := false
			if r.hasLeft > 0 {
				r.hasLeft--
				more = verifBool("has-more")
			}
			r.lastHas = more
			r.hasAns = append(r.hasAns, more)
			return c07mVal{kind: "bool", b: more}
		}
		return c07mVal{kind: "none"}
	}
	m := o.cls.methods[name]
	if m == nil || m.section == "static" || m.name == o.cls.name {
		return r.fail("call of a method the class does not define: " + name)
	}
	if m.section != "public" && caller != o {
		return r.fail("private method " + name + " called from outside its object")
	}
	if len(m.params) == 0 || len(args) != len(m.params)-1 {
		return r.fail("method " + name + " called with a wrong number of arguments")
	}
	f := &c07mFrame{self: o, objs: map[string]*c07mObj{m.params[0]: o}, vars: map[string]c07mVal{}}
	for i, a := range args {
		f.vars[m.params[i+1]] = a
	}
	return r.call(f, m)
}

func (r *c07mRun) call(f *c07mFrame, m *c07mMethod) c07mVal {
	r.depth++
	if r.depth > 12 {
		return r.fail("call depth")
	}
	r.block(f, m.body)
	r.depth--
	if m.ret == "" || r.threw || r.bad != "" {
		return c07mVal{kind: "none"}
	}
	v, ok := f.vars[m.ret]
	if !ok {
		return r.fail("output " + m.ret + " of " + m.name + " not assigned")
	}
	return v
}

// arms of an if block: lines[i] is `if C`, lines[end] its `end`
func (r *c07mRun) ifBlock(f *c07mFrame, lines []c07mLine, i, end int) {
	type arm struct {
		cond     string
		from, to int
	}
	var arms []arm
	cur := arm{cond: strings.TrimSpace(lines[i].text[2:]), from: i + 1}
	depth := 0
	for k := i + 1; k < end; k++ {
		l := lines[k].text
		if lines[k].opens {
			depth++
			continue
		}
		if l == "end" {
			depth--
			continue
		}
		if depth != 0 {
			continue
		}
		w := lines[k].word
		if w == "elseif" || w == "else" {
			if cur.cond == "" {
				r.fail("an arm after else")
				return
			}
			cur.to = k
			arms = append(arms, cur)
			cur = arm{from: k + 1}
			if w == "elseif" {
				cur.cond = strings.TrimSpace(l[len("elseif"):])
				if cur.cond == "" {
					r.fail("elseif without a condition")
					return
				}
			} else if l != "else" {
				r.fail("else with trailing text: " + l)
				return
			}
		}
	}
	cur.to = end
	arms = append(arms, cur)
	for _, a := range arms {
		if r.threw || r.bad != "" {
			return
		}
		if a.cond == "" || r.truth(r.evalIn(f, a.cond, "")) {
			r.block(f, lines[a.from:a.to])
			return
		}
	}
}

func (r *c07mRun) block(f *c07mFrame, lines []c07mLine) {
	for i := 0; i < len(lines) && !r.threw && r.bad == ""; {
		l := lines[i].text
		switch lines[i].word {
		case "if":
			end := c07mBlockEnd(lines, i)
			if end >= len(lines) || len(l) < 4 || l[2] != ' ' {
				r.fail("if block: " + l)
				return
			}
			r.ifBlock(f, lines, i, end)
			i = end + 1
		case "while":
			end := c07mBlockEnd(lines, i)
			if end >= len(lines) || len(l) < 7 || l[5] != ' ' {
				r.fail("while block: " + l)
				return
			}
			for n := 0; !r.threw && r.bad == "" && r.truth(r.evalIn(f, l[6:], "")); n++ {
				if n > 8 {
					r.fail("loop bound")
				}
				r.block(f, lines[i+1:end])
			}
			i = end + 1
		case "arguments":
			// name-value options with defaults: `options.<name> (1,1) logical = true|false`; the harness passes none
			end := c07mBlockEnd(lines, i)
			if l != "arguments" || end >= len(lines) {
				r.fail("arguments block: " + l)
				return
			}
			for _, dl := range lines[i+1 : end] {
				d := dl.text
				w := strings.Fields(d)
				if len(w) != 5 || w[1] != "(1,1)" || w[2] != "logical" || w[3] != "=" || (w[4] != "true" && w[4] != "false") ||
					!strings.HasPrefix(w[0], "options.") || !c07mIsIdent(w[0][len("options."):]) {
					r.fail("argument declaration: " + d)
					return
				}
				f.vars[w[0]] = c07mVal{kind: "bool", b: w[4] == "true"}
			}
			i = end + 1
		case "end", "else", "elseif", "for", "parfor", "switch", "try", "function", "return", "break", "continue", "case", "otherwise", "catch":
			r.fail("statement: " + l)
			return
		default:
			r.simple(f, l)
			i++
		}
	}
}

// simple: `target = expr;` or `call;`
func (r *c07mRun) simple(f *c07mFrame, l string) {
	toks, ok := c07mTokens(l)
	if !ok {
		r.fail("cannot tokenise: " + l)
		return
	}
	eq := -1
	depth := 0
	for k, t := range toks {
		if t.k == 'p' && (t.s == "(" || t.s == "{") {
			depth++
		}
		if t.k == 'p' && (t.s == ")" || t.s == "}") {
			depth--
		}
		if t.k == 'p' && t.s == "=" && depth == 0 {
			eq = k
			break
		}
	}
	if eq < 0 {
		// an expression statement must be a call: `a.b(...)` / `throw(...)`
		n := len(toks)
		if n < 3 || toks[0].k != 'i' || toks[n-1].k != 'p' || toks[n-1].s != ";" || toks[n-2].k != 'p' || toks[n-2].s != ")" {
			r.fail("statement: " + l)
			return
		}
		r.evalToks(f, toks, l, ";")
		return
	}
	v := r.evalToks(f, toks[eq+1:], l, ";")
	if r.threw || r.bad != "" {
		return
	}
	if v.kind == "none" || v.kind == "err" {
		r.fail("assignment of no value: " + l)
		return
	}
	switch {
	case eq == 1 && toks[0].k == 'i' && f.objs[toks[0].s] == nil:
		f.vars[toks[0].s] = v
	case eq == 3 && toks[0].k == 'i' && toks[1].s == "." && toks[2].k == 'i' && f.objs[toks[0].s] != nil:
		o := f.objs[toks[0].s]
		if !o.cls.props[toks[2].s] {
			r.fail("assignment to an undeclared property: " + l)
			return
		}
		if o != f.self {
			r.fail("assignment to a protected property of another object: " + l)
			return
		}
		o.fields[toks[2].s] = v
	default:
		r.fail("assignment target: " + l)
	}
}

// c07mNew: `obj = Class()` - the emitted constructor runs on a new object
func (r *c07mRun) construct(c *c07mClass, tag string) *c07mObj {
	o := &c07mObj{cls: c, tag: tag, fields: map[string]c07mVal{}}
	m := c.methods[c.name]
	if m == nil || m.section != "public" || m.ret == "" || len(m.params) > 1 {
		r.fail("constructor of " + c.name)
		return o
	}
	f := &c07mFrame{self: o, objs: map[string]*c07mObj{m.ret: o}, vars: map[string]c07mVal{}}
	r.depth++
	r.block(f, m.body)
	r.depth--
	return o
}

// callPublic: obj.name(args) from outside
func (r *c07mRun) callPublic(o *c07mObj, name string, args ...c07mVal) c07mVal {
	outer := &c07mFrame{objs: map[string]*c07mObj{}, vars: map[string]c07mVal{}}
	sf := r.f
	r.f = outer
	v := r.invoke(o, name, args)
	r.f = sf
	return v
}

// message: the MException text - every %s of the format replaced by the next argument
func c07mMessage(e c07mVal) (string, bool) {
	parts := strings.Split(e.s, "%s")
	if e.kind != "err" || len(parts) != len(e.args)+1 || strings.Contains(strings.Join(parts, ""), "%") {
		return "", false
	}
	out := parts[0]
	for i, a := range e.args {
		out += a + parts[i+1]
	}
	return out, true
}

// ---- the protocol, its API and its automaton -----------------------------------------------------------------------

type c07mSetup struct {
	n      int
	names  []string // step names (lower-case letters only: every spelling of the name in generated code is the name)
	flags  []bool   // stream?
	wcls   *c07mClass
	rcls   *c07mClass
	wtext  string
	rtext  string
	valid  bool
	wrote  bool
	public map[string]bool
}

func c07mStepName(i int) string {
	s := string(rune('a' + i%26))
	for i /= 26; i > 0; i /= 26 {
		s = string(rune('a'+i%26)) + s
	}
	return "q" + s
}

// c07mPrepare: mode 0: 1..maxN steps, every pattern; mode 1/2/3: exactly maxN steps, all values / all streams / every third a stream
func c07mPrepare(maxN, mode int) *c07mSetup {
	s := &c07mSetup{n: maxN}
	if mode == 0 {
		s.n = 1 + verifChoose("steps", maxN)
	}
	b := &mb{file: "model.yml"}
	var steps []*dsl.ProtocolStep
	for i := 0; i < s.n; i++ {
		stream := false
		switch mode {
		case 0:
			stream = verifChoose(fmt.Sprintf("stream%d", i), 2) == 1
		case 2:
			stream = true
		case 3:
			stream = i%3 == 1
		}
		s.flags = append(s.flags, stream)
		s.names = append(s.names, c07mStepName(i))
		var t dsl.Type = b.st("int")
		if stream {
			t = b.strm(b.st("int"))
		}
		steps = append(steps, b.step(s.names[i], t))
	}
	ns := &dsl.Namespace{Name: "Ns", IsTopLevel: true, Protocols: []*dsl.ProtocolDefinition{b.protocol("Ns", "P", steps...)}}
	env, err := dsl.Validate([]*dsl.Namespace{ns})
	s.valid = err == nil
	if !s.valid {
		return s
	}
	verifFsPut("/out/m/.keep", "x") // the output directory exists
	fw := &mcommon.MatlabFileWriter{PackageDir: verifPath("/out/m")}
	werr := mprotocols.WriteProtocols(fw, env.Namespaces[0], env.SymbolTable)
	var okw, okr bool
	s.wtext, okw = verifFsGet("/out/m/PWriterBase.m")
	s.rtext, okr = verifFsGet("/out/m/PReaderBase.m")
	s.wrote = werr == nil && okw && okr
	return s
}

// c07mAPI: what the automaton's alphabet is for this protocol, by public method name -> (kind, step)
type c07mCall struct {
	kind string // "write", "end", "read", "has", "close", "copy_to"
	step int
}

func (s *c07mSetup) api(reader bool) map[string]c07mCall {
	m := map[string]c07mCall{"close": {"close", s.n}}
	for i, nm := range s.names {
		if reader {
			m["read_"+nm] = c07mCall{"read", i}
			if s.flags[i] {
				m["has_"+nm] = c07mCall{"has", i}
			}
		} else {
			m["write_"+nm] = c07mCall{"write", i}
			if s.flags[i] {
				m["end_"+nm] = c07mCall{"end", i}
			}
		}
	}
	if reader {
		m["copy_to"] = c07mCall{"copy_to", 0}
	}
	return m
}

// publicMethods: the emitted public methods other than the constructor, in text order
func (c *c07mClass) publicMethods() []string {
	var out []string
	for _, nm := range c.order {
		if c.methods[nm].section == "public" && nm != c.name {
			out = append(out, nm)
		}
	}
	return out
}

// staticsAreStateless: static methods have no object; their bodies must not mention one
func (c *c07mClass) staticsAreStateless() bool {
	for _, nm := range c.order {
		m := c.methods[nm]
		if m.section != "static" {
			continue
		}
		if len(m.params) != 0 {
			return false
		}
		for _, l := range m.body {
			if strings.Contains(l.text, "self") || strings.Contains(l.text, "state_") {
				return false
			}
		}
	}
	return true
}

// stepsNamed: which steps the identifiers of a text name (write_<s>, end_<s>, read_<s>, has_<s>)
func (s *c07mSetup) stepsNamed(text string) map[int]bool {
	out := map[int]bool{}
	for i := 0; i < len(text); {
		if !c07mIdentChar(text[i]) {
			i++
			continue
		}
		j := i
		for j < len(text) && c07mIdentChar(text[j]) {
			j++
		}
		w := text[i:j]
		i = j
		for _, p := range []string{"write_", "end_", "read_", "has_"} {
			if strings.HasPrefix(w, p) {
				for k, nm := range s.names {
					if w[len(p):] == nm {
						out[k] = true
					}
				}
			}
		}
	}
	return out
}

// expectedPart: the part of an error message that says what was expected ("Expected call to '...'" up to " but ...")
func c07mExpectedPart(msg string) (string, bool) {
	e := strings.Index(msg, "xpected")
	if e < 0 {
		return "", false
	}
	rest := msg[e:]
	if b := strings.Index(rest, " but "); b >= 0 {
		rest = rest[:b]
	}
	return rest, true
}

func c07mOnly(m map[int]bool, k int) bool { return len(m) == 1 && m[k] }

// alpha: the numbers the emitted code gives the automaton states 0..n (see the file comment); done = every completing
// call was accepted
func (s *c07mSetup) alpha(c *c07mClass, reader bool) (states []int, ctorOK bool, done bool, bad string, big bool) {
	r := &c07mRun{}
	o := r.construct(c, "x")
	st, ok := o.fields["state_"]
	if r.bad != "" || r.threw || !ok || st.kind != "int" {
		return nil, false, false, r.bad, r.bigLit
	}
	if reader {
		// the completion check is on unless the caller asks otherwise
		if sk, ok := o.fields["skip_completed_check_"]; !ok || sk.kind != "bool" || sk.b {
			return nil, false, false, r.bad, r.bigLit
		}
	}
	states = append(states, st.i)
	for i := 0; i < s.n; i++ {
		switch {
		case reader && s.flags[i]:
			r.hasLeft = 0
			r.callPublic(o, "has_"+s.names[i])
		case reader:
			r.callPublic(o, "read_"+s.names[i])
		case s.flags[i]:
			r.callPublic(o, "end_"+s.names[i])
		default:
			r.callPublic(o, "write_"+s.names[i], c07mVal{kind: "data", s: "v"})
		}
		st = o.fields["state_"]
		if r.bad != "" || r.threw || st.kind != "int" {
			return states, true, false, r.bad, r.bigLit
		}
		states = append(states, st.i)
	}
	return states, true, true, r.bad, r.bigLit
}

// c07mCommon: obligations on the emitted class as a whole; returns the state numbers (nil if the part cannot go on)
func (s *c07mSetup) common(c *c07mClass, reader bool) []int {
	verifOut("class-reader-problem", c.bad)
	verifAssert("only-known-statement-forms", c.bad == "")
	if c.bad != "" {
		return nil
	}
	// a handle class: assignments to self.state_ inside a method are visible to the caller
	verifAssert("state-property-declared-on-a-handle-class", c.isHandle && c.props["state_"])
	verifAssert("static-methods-do-not-touch-the-object", c.staticsAreStateless())
	api := s.api(reader)
	pub := c.publicMethods()
	emitted := map[string]bool{}
	extra := ""
	for _, nm := range pub {
		emitted[nm] = true
		if _, ok := api[nm]; !ok {
			extra = nm
		}
	}
	missing := ""
	for nm := range api {
		if !emitted[nm] {
			missing = nm
		}
	}
	verifAssert("method-emitted", missing == "")
	verifOut("unclassified-public-method", extra)
	verifAssert("public-methods-all-classified", extra == "")
	if missing != "" || extra != "" {
		return nil
	}
	states, ctorOK, done, bad, big := s.alpha(c, reader)
	verifOut("unknown-form", bad)
	verifAssert("only-known-statement-forms", bad == "")
	if bad != "" {
		return nil
	}
	verifAssert("constructor-starts-at-the-first-step", ctorOK)
	if !ctorOK {
		return nil
	}
	verifAssert("declaration-order-run-is-accepted", done)
	if !done {
		return nil
	}
	seen := map[int]bool{}
	distinct := true
	for _, a := range states {
		if seen[a] || a < 0 || a > 1<<53 {
			distinct = false
		}
		seen[a] = true
	}
	verifAssert("distinct-states-have-distinct-exact-numbers", distinct && !big)
	if !distinct {
		return nil
	}
	return states
}

// pick: a symbolic state_ that is one of the reachable numbers; idx = the automaton state it stands for.
// `cands` limits the states looked at (long protocols).
func c07mPick(states []int, cands []int) (pre int, idx int) {
	pre = verifInt("state_")
	idx = -1
	for _, i := range cands {
		if pre == states[i] {
			idx = i
		}
	}
	verifAssume(idx >= 0)
	return pre, idx
}

func c07mCands(n int, long bool) []int {
	var out []int
	for i := 0; i <= n; i++ {
		if !long || i == 0 || i >= n-1 {
			out = append(out, i)
		}
	}
	return out
}

// chooseCall: an arbitrary public method (long protocols: of the first / last two steps, or close)
func (s *c07mSetup) chooseCall(c *c07mClass, reader, long bool) (string, c07mCall) {
	api := s.api(reader)
	var pub []string
	for _, nm := range c.publicMethods() {
		k := api[nm]
		if long && (k.kind == "copy_to" || (k.kind != "close" && k.step > 0 && k.step < s.n-2)) {
			continue
		}
		pub = append(pub, nm)
	}
	nm := pub[verifChoose("api-call", len(pub))]
	return nm, api[nm]
}

func c07mEq(a, b []string) bool {
	if len(a) != len(b) {
		return false
	}
	for i := range a {
		if a[i] != b[i] {
			return false
		}
	}
	return true
}

// refusedNamesExpected: the message of a refused call names, as expected, the step of automaton state idx (and no other)
func (s *c07mSetup) refusedNamesExpected(r *c07mRun, idx int) {
	msg, ok := c07mMessage(r.err)
	verifOut("message", msg)
	verifAssert("error-message-well-formed", ok)
	if !ok || idx >= s.n {
		return // after the last step there is no expected step to name
	}
	part, has := c07mExpectedPart(msg)
	verifAssert("error-names-the-expected-step", has && c07mOnly(s.stepsNamed(part), idx))
}

// C07MatlabWriter(maxN, mode): see the file comment.
func C07MatlabWriter(maxN int, mode int) {
	s := c07mPrepare(maxN, mode)
	verifAssert("protocol-validates", s.valid)
	if !s.valid {
		return
	}
	verifAssert("matlab-protocol-classes-written", s.wrote)
	if !s.wrote {
		return
	}
	long := mode != 0
	s.wcls = c07mReadClass(s.wtext)
	states := s.common(s.wcls, false)
	if states == nil {
		return
	}
	pre, idx := c07mPick(states, c07mCands(s.n, long))
	name, call := s.chooseCall(s.wcls, false, long)
	r := &c07mRun{}
	o := &c07mObj{cls: s.wcls, tag: "w", fields: map[string]c07mVal{"state_": {kind: "int", i: pre}}}
	if call.kind == "write" {
		r.callPublic(o, name, c07mVal{kind: "data", s: "v"})
	} else {
		r.callPublic(o, name)
	}
	verifOut("call", name)
	verifOut("unknown-form", r.bad)
	verifAssert("only-known-statement-forms", r.bad == "")
	if r.bad != "" {
		return
	}
	post := o.fields["state_"]
	if call.kind == "close" {
		verifAssert("close-raises-iff-a-step-is-incomplete", r.threw == (idx != s.n))
		stepHook := false
		for _, h := range r.hooks {
			if h != "w.close_()" {
				stepHook = true
			}
		}
		verifAssert("close-calls-no-step-hook", !stepHook)
		verifAssert("state-unchanged-by-close", post.kind == "int" && post.i == pre)
		if r.threw {
			s.refusedNamesExpected(r, idx)
			verifReach("c07m-writer-close-refused")
		} else {
			verifAssert("close-calls-the-close-hook-once", c07mEq(r.hooks, []string{"w.close_()"}))
			verifReach("c07m-writer-closed")
		}
		return
	}
	accept := idx == call.step
	verifAssert("raises-iff-out-of-order", r.threw == !accept)
	if !accept {
		verifAssert("refused-call-calls-no-hook", len(r.hooks) == 0)
		verifAssert("refused-call-leaves-state-unchanged", post.kind == "int" && post.i == pre)
		if r.threw {
			s.refusedNamesExpected(r, idx)
		}
		verifReach("c07m-writer-refused")
		return
	}
	succ := idx
	want := []string{"w.write_" + s.names[call.step] + "_(v)"}
	if call.kind == "end" {
		want = []string{"w.end_stream_()"}
	}
	if call.kind == "end" || !s.flags[call.step] {
		succ = idx + 1
	}
	verifAssert("accepted-call-calls-exactly-its-hooks", c07mEq(r.hooks, want))
	verifAssert("post-state-is-the-successor", post.kind == "int" && post.i == states[succ])
	verifReach("c07m-writer-accepted")
}

// copyTo: reader.copy_to(writer) with the emitted writer class as the writer
func (s *c07mSetup) copyTo(o *c07mObj, idx int, rstates []int, items int) {
	s.wcls = c07mReadClass(s.wtext)
	wstates, ctorOK, done, bad, _ := s.alpha(s.wcls, false)
	verifAssert("only-known-statement-forms", s.wcls.bad == "" && bad == "")
	if s.wcls.bad != "" || bad != "" || !ctorOK || !done {
		verifAssert("writer-class-usable", false)
		return
	}
	r := &c07mRun{hasLeft: items}
	w := r.construct(s.wcls, "w")
	r.f = &c07mFrame{objs: map[string]*c07mObj{}, vars: map[string]c07mVal{}}
	pre := o.fields["state_"].i
	// the writer object is an argument: a value of kind "data" cannot carry it, so the call is made by hand
	m := s.rcls.methods["copy_to"]
	if m == nil || len(m.params) != 2 || m.ret != "" {
		verifAssert("copy-to-takes-a-writer", false)
		return
	}
	f := &c07mFrame{self: o, objs: map[string]*c07mObj{m.params[0]: o, m.params[1]: w}, vars: map[string]c07mVal{}}
	r.call(f, m)
	verifOut("unknown-form", r.bad)
	verifAssert("only-known-statement-forms", r.bad == "")
	if r.bad != "" {
		return
	}
	rpost, wpost := o.fields["state_"], w.fields["state_"]
	if idx != 0 {
		verifAssert("copy-to-of-a-used-reader-raises-before-any-hook", r.threw && len(r.hooks) == 0 && rpost.i == pre && wpost.i == wstates[0])
		verifReach("c07m-copy-to-refused")
		return
	}
	verifAssert("copy-to-completes", !r.threw)
	if r.threw {
		msg, _ := c07mMessage(r.err)
		verifOut("message", msg)
		return
	}
	// the trace the automaton prescribes, given what the has_ hooks answered: per step in declaration order, a value
	// step is read once and that value written; a stream step is asked, and per item read and written as a one-element
	// collection ({item}: docs/matlab/language.md, stream writes take the items of one batch), then ended
	var want []string
	reads, asked := 0, 0
	for i, nm := range s.names {
		if !s.flags[i] {
			reads++
			want = append(want, "x.read_"+nm+"_()", fmt.Sprintf("w.write_%s_(x:read_%s_#%d)", nm, nm, reads))
			continue
		}
		for {
			want = append(want, "x.has_"+nm+"_()")
			more := asked < len(r.hasAns) && r.hasAns[asked]
			asked++
			if !more {
				break
			}
			reads++
			want = append(want, "x.read_"+nm+"_()", fmt.Sprintf("w.write_%s_({x:read_%s_#%d})", nm, nm, reads))
		}
		want = append(want, "w.end_stream_()")
	}
	ok := c07mEq(r.hooks, want) && asked == len(r.hasAns)
	verifOut("hooks", strings.Join(r.hooks, " "))
	verifAssert("copy-to-reads-and-writes-every-step-in-declaration-order", ok)
	verifAssert("copy-to-leaves-both-in-their-final-state", rpost.kind == "int" && rpost.i == rstates[s.n] && wpost.kind == "int" && wpost.i == wstates[s.n])
	verifReach("c07m-copy-to-completed")
}

// C07MatlabReader(maxN, mode, items): items = how many items a stream may have in copy_to.
func C07MatlabReader(maxN int, mode int, items int) {
	s := c07mPrepare(maxN, mode)
	verifAssert("protocol-validates", s.valid)
	if !s.valid {
		return
	}
	verifAssert("matlab-protocol-classes-written", s.wrote)
	if !s.wrote {
		return
	}
	long := mode != 0
	s.rcls = c07mReadClass(s.rtext)
	states := s.common(s.rcls, true)
	if states == nil {
		return
	}
	pre, idx := c07mPick(states, c07mCands(s.n, long))
	name, call := s.chooseCall(s.rcls, true, long)
	verifOut("call", name)
	// skip_completed_check: a constructor option of the generated reader (default false, checked above); an explicit
	// opt-out of the close check. Every other method must behave the same for both values.
	skip := verifBool("skip_completed_check")
	o := &c07mObj{cls: s.rcls, tag: "x", fields: map[string]c07mVal{"state_": {kind: "int", i: pre}, "skip_completed_check_": {kind: "bool", b: skip}}}
	if call.kind == "copy_to" {
		s.copyTo(o, idx, states, items)
		return
	}
	r := &c07mRun{hasLeft: 1}
	ret := r.callPublic(o, name)
	verifOut("unknown-form", r.bad)
	verifAssert("only-known-statement-forms", r.bad == "")
	if r.bad != "" {
		return
	}
	post := o.fields["state_"]
	if call.kind == "close" {
		if !skip {
			verifAssert("close-raises-iff-a-step-is-incomplete", r.threw == (idx != s.n))
		} else {
			verifAssert("close-of-a-completed-reader-succeeds", r.threw == false || idx != s.n)
		}
		stepHook := false
		for _, h := range r.hooks {
			if h != "x.close_()" {
				stepHook = true
			}
		}
		verifAssert("close-calls-no-step-hook", !stepHook)
		verifAssert("state-unchanged-by-close", post.kind == "int" && post.i == pre)
		if r.threw {
			s.refusedNamesExpected(r, idx)
			verifReach("c07m-reader-close-refused")
		} else {
			verifAssert("close-calls-the-close-hook-once", c07mEq(r.hooks, []string{"x.close_()"}))
			verifReach("c07m-reader-closed")
		}
		return
	}
	accept := idx == call.step
	verifAssert("raises-iff-out-of-order", r.threw == !accept)
	if !accept {
		verifAssert("refused-call-calls-no-hook", len(r.hooks) == 0)
		verifAssert("refused-call-leaves-state-unchanged", post.kind == "int" && post.i == pre)
		if r.threw {
			s.refusedNamesExpected(r, idx)
		}
		verifReach("c07m-reader-refused")
		return
	}
	nm := s.names[call.step]
	switch {
	case call.kind == "has":
		verifAssert("accepted-call-calls-exactly-its-hooks", c07mEq(r.hooks, []string{"x.has_" + nm + "_()"}))
		verifAssert("has-returns-what-the-stream-answered", ret.kind == "bool" && ret.b == r.lastHas)
		if r.lastHas {
			verifAssert("stream-continues", post.kind == "int" && post.i == states[idx])
		} else {
			verifAssert("stream-end-observed", post.kind == "int" && post.i == states[idx+1])
		}
	default:
		verifAssert("accepted-call-calls-exactly-its-hooks", c07mEq(r.hooks, []string{"x.read_" + nm + "_()"}))
		verifAssert("read-returns-the-value-read", ret.kind == "data" && ret.s == "x:read_"+nm+"_#1")
		succ := idx + 1
		if s.flags[call.step] {
			succ = idx // an item of a stream: the stream ends when has_<step> answers false
		}
		verifAssert("post-state-is-the-successor", post.kind == "int" && post.i == states[succ])
	}
	verifReach("c07m-reader-accepted")
}
