package zzverif

import (
	cppbinary "github.com/microsoft/yardl/tooling/internal/cpp/binary"
	"github.com/microsoft/yardl/tooling/pkg/dsl"
)

func prim(name string) dsl.Type {
	return &dsl.SimpleType{Name: name, ResolvedDefinition: dsl.PrimitiveDefinition(name)}
}

func Smoke() {
	n := verifUint64("len")
	name := verifOneOf("prim", "int32", "string", "float32")
	var t dsl.Type = &dsl.GeneralizedType{Cases: dsl.TypeCases{&dsl.TypeCase{Type: prim(name)}}, Dimensionality: &dsl.Vector{Length: &n}}
	if verifChoose("opt", 2) == 1 {
		t = &dsl.GeneralizedType{Cases: dsl.TypeCases{&dsl.TypeCase{}, &dsl.TypeCase{Type: t}}}
	}
	s := cppbinary.VerifTypeRwFunction(t, true)
	verifOut("rw", s)
	toks := verifTokens(s)
	verifOut("ntok", len(toks))
	for _, tk := range toks {
		if v, ok := verifAtoi(tk); ok {
			verifAssert("len-roundtrip", v == n)
		}
	}
	verifReach("end")
}
