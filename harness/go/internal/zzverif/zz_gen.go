package zzverif

// Nondeterministic (symbolic) model fragments shared by the harnesses.

import (
	"fmt"

	"github.com/microsoft/yardl/tooling/pkg/dsl"
)

const NS = "Ns"

var allPrims = []string{"bool", "int8", "uint8", "int16", "uint16", "int32", "uint32", "int64", "uint64", "size",
	"float32", "float64", "complexfloat32", "complexfloat64", "string", "date", "time", "datetime"}

var intPrims = []string{"int8", "uint8", "int16", "uint16", "int32", "uint32", "int64", "uint64", "size"}

type gen struct {
	n       int
	defs    map[string]dsl.TypeDefinition // qualified name -> definition (registry for named references)
	allowTP bool                          // may produce references to the generic type parameter T
	fullPrims int                         // how many leaves may still range over all 18 primitives
	fullEnums int                         // how many enums may still range over all 9 base types
	tparam  *dsl.GenericTypeParameter
	bulk    *c05bWorld // when set (zz_c05_bulk.go): emitted serializer expressions get structural plans and the runtime's bulk (memcpy) meaning
}

func newGen() *gen {
	return &gen{defs: map[string]dsl.TypeDefinition{}, tparam: &dsl.GenericTypeParameter{Name: "T"}}
}

func (g *gen) label(s string) string {
	g.n++
	return fmt.Sprintf("%s%d", s, g.n)
}

func primType(name string) *dsl.SimpleType {
	return &dsl.SimpleType{Name: name, ResolvedDefinition: dsl.PrimitiveDefinition(name)}
}

func (g *gen) anyPrim() *dsl.SimpleType {
	if g.fullPrims > 0 {
		g.fullPrims--
		return primType(verifOneOf(g.label("prim"), allPrims...))
	}
	return primType(verifOneOf(g.label("prim"), "uint8", "int64", "float32"))
}

func (g *gen) meta(name string) *dsl.DefinitionMeta {
	return &dsl.DefinitionMeta{Name: name, Namespace: NS}
}

func ref(td dsl.TypeDefinition) *dsl.SimpleType {
	m := td.GetDefinitionMeta()
	return &dsl.SimpleType{Name: m.GetQualifiedName(), ResolvedDefinition: td}
}

// anyEnum: enum or flags with an optional symbolic integer base type.
func (g *gen) anyEnum() *dsl.SimpleType {
	name := g.label("E")
	e := &dsl.EnumDefinition{DefinitionMeta: g.meta(name)}
	switch verifChoose(g.label("enumkind"), 3) {
	case 0: // default base
	case 1:
		e.BaseType = g.enumBase()
	case 2:
		e.IsFlags = true
		e.BaseType = g.enumBase()
	}
	g.defs[NS+"."+name] = e
	return ref(e)
}

func (g *gen) enumBase() *dsl.SimpleType {
	if g.fullEnums > 0 {
		g.fullEnums--
		return primType(verifOneOf(g.label("ebase"), intPrims...))
	}
	return primType(verifOneOf(g.label("ebase"), "uint8", "int64"))
}

func (g *gen) anyRecord(d int) *dsl.SimpleType {
	name := g.label("R")
	r := &dsl.RecordDefinition{DefinitionMeta: g.meta(name)}
	nf := 1 + verifChoose(g.label("nfields"), 2)
	for i := 0; i < nf; i++ {
		r.Fields = append(r.Fields, &dsl.Field{Name: fmt.Sprintf("f%d", i), Type: g.anyType(d)})
	}
	g.defs[NS+"."+name] = r
	return ref(r)
}

func (g *gen) anyAlias(d int) *dsl.SimpleType {
	name := g.label("A")
	a := &dsl.NamedType{DefinitionMeta: g.meta(name), Type: g.anyType(d)}
	g.defs[NS+"."+name] = a
	return ref(a)
}

// anyGenericRecord: G<T>{ f0: T-ish } instantiated with one type argument.
func (g *gen) anyGenericRecord(d int) *dsl.SimpleType {
	name := g.label("G")
	open := &dsl.RecordDefinition{DefinitionMeta: g.meta(name)}
	open.TypeParameters = []*dsl.GenericTypeParameter{g.tparam}
	open.Fields = dsl.Fields{&dsl.Field{Name: "f0", Type: ref(g.tparam)}}
	arg := g.anyType(d)
	inst := &dsl.RecordDefinition{DefinitionMeta: g.meta(name), Fields: dsl.Fields{&dsl.Field{Name: "f0", Type: arg}}}
	inst.TypeParameters = open.TypeParameters
	inst.TypeArguments = []dsl.Type{arg}
	g.defs[NS+"."+name] = inst
	return &dsl.SimpleType{Name: NS + "." + name, TypeArguments: []dsl.Type{arg}, ResolvedDefinition: inst}
}

func (g *gen) anyCases(d int) dsl.TypeCases {
	switch verifChoose(g.label("cases"), 4) {
	case 0:
		return dsl.TypeCases{&dsl.TypeCase{Type: g.anyScalar(d)}}
	case 1:
		return dsl.TypeCases{&dsl.TypeCase{}, &dsl.TypeCase{Type: g.anyScalar(d)}}
	case 2:
		return dsl.TypeCases{&dsl.TypeCase{Tag: "c0", Type: g.anyScalar(d)}, &dsl.TypeCase{Tag: "c1", Type: g.smallPrim()}}
	default:
		return dsl.TypeCases{&dsl.TypeCase{}, &dsl.TypeCase{Tag: "c0", Type: g.smallPrim()}, &dsl.TypeCase{Tag: "c1", Type: g.anyScalar(d)}}
	}
}

func (g *gen) smallPrim() *dsl.SimpleType {
	return primType(verifOneOf(g.label("sprim"), "int32", "string"))
}

func (g *gen) anyArray() *dsl.Array {
	switch verifChoose(g.label("arr"), 4) {
	case 0:
		return &dsl.Array{} // dynamic
	case 1: // rank only
		rank := 1 + verifChoose(g.label("rank"), 3)
		dims := make(dsl.ArrayDimensions, rank)
		for i := range dims {
			dims[i] = &dsl.ArrayDimension{}
		}
		return &dsl.Array{Dimensions: &dims}
	case 2: // fixed
		rank := 1 + verifChoose(g.label("rank"), 3)
		dims := make(dsl.ArrayDimensions, rank)
		for i := range dims {
			n := verifUint64(g.label("dim"))
			dims[i] = &dsl.ArrayDimension{Length: &n}
		}
		return &dsl.Array{Dimensions: &dims}
	default: // rank 0 (scalar array)
		dims := dsl.ArrayDimensions{}
		return &dsl.Array{Dimensions: &dims}
	}
}

// anyScalar: a type usable as a union case / element (no dimensionality at this level unless nested via alias).
func (g *gen) anyScalar(d int) dsl.Type {
	n := 2
	if d > 0 {
		n = 5
	}
	if g.allowTP {
		n++
	}
	k := verifChoose(g.label("scalar"), n)
	if g.allowTP && k == n-1 {
		return ref(g.tparam)
	}
	switch k {
	case 0:
		return g.anyPrim()
	case 1:
		return g.anyEnum()
	case 2:
		return g.anyRecord(d - 1)
	case 3:
		return g.anyAlias(d - 1)
	default:
		return g.anyGenericRecord(d - 1)
	}
}

// anyType: scalar or generalized type of nesting depth <= d (streams are produced by anyStep only).
func (g *gen) anyType(d int) dsl.Type {
	if d <= 0 {
		return g.anyScalar(0)
	}
	switch verifChoose(g.label("shape"), 6) {
	case 0:
		return g.anyScalar(d)
	case 1:
		return &dsl.GeneralizedType{Cases: g.anyCases(d - 1)}
	case 2:
		return &dsl.GeneralizedType{Cases: g.anyCases(d - 1), Dimensionality: &dsl.Vector{}}
	case 3:
		n := verifUint64(g.label("len"))
		return &dsl.GeneralizedType{Cases: g.anyCases(d - 1), Dimensionality: &dsl.Vector{Length: &n}}
	case 4:
		return &dsl.GeneralizedType{Cases: g.anyCases(d - 1), Dimensionality: g.anyArray()}
	default:
		key := primType(verifOneOf(g.label("key"), "string", "int32", "uint64"))
		return &dsl.GeneralizedType{Cases: g.anyCases(d - 1), Dimensionality: &dsl.Map{KeyType: key}}
	}
}
