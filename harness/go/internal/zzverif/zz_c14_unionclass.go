package zzverif

// C14 (union case numbering): the generated union *classes* of the MATLAB and Python backends must number
// the non-null cases the way the binary runtime turns them into tag bytes, so that the byte written for a
// case equals the case's position in the schema's case list (the plan: "union: 1 tag byte = case index").
//
// Runtime semantics transcribed from the static files (the specification side of this harness):
//   MATLAB  +binary/UnionSerializer.m: offset_ = 1 iff case_serializers{1} is a NoneSerializer;
//           write: tag byte = value.index + offset_ - 1;  read: factory = case_factories{byte + 1}
//   Python  _binary.UnionSerializer:    _offset = 1 iff cases[0] is None;
//           write: tag byte = value.index + _offset;       read: case_type = cases[byte][0]
// The classes are emitted by the real writeUnionClass functions and read back: static factory
// `res = Cls(<k>, value)`, `isTag` methods `res = self.index == <k>`, the `tags_` list (MATLAB); the
// `type("Cls.Tag", (...), {"index": <k>, "tag": "<tag>"})` statements (Python).  A union class is shared
// by name between the nullable and the non-nullable union over the same cases, so the class generated from
// one occurrence must also serve the serializer emitted for the other: both occurrences are symbolic.

import (
	"github.com/microsoft/yardl/tooling/internal/formatting"
	mbinary "github.com/microsoft/yardl/tooling/internal/matlab/binary"
	mcommon "github.com/microsoft/yardl/tooling/internal/matlab/common"
	mtypes "github.com/microsoft/yardl/tooling/internal/matlab/types"
	pybinary "github.com/microsoft/yardl/tooling/internal/python/binary"
	pycommon "github.com/microsoft/yardl/tooling/internal/python/common"
	pytypes "github.com/microsoft/yardl/tooling/internal/python/types"
	"github.com/microsoft/yardl/tooling/pkg/dsl"
)

var c14Tags = []string{"alpha", "beta", "gammaRay"}

// case types: concrete alternatives (the emitted class text is scanned token by token, so symbolic type
// names would turn every token comparison into a string query; the numbering does not depend on them)
func (g *gen) c14UnionCaseType() dsl.Type {
	switch verifChoose(g.label("casekind"), 5) {
	case 0:
		return primType("int32")
	case 1:
		return primType("string")
	case 2:
		r := &dsl.RecordDefinition{DefinitionMeta: g.meta(g.label("R")), Fields: dsl.Fields{&dsl.Field{Name: "f0", Type: primType("int32")}}}
		return ref(r)
	case 3:
		return &dsl.GeneralizedType{Cases: dsl.TypeCases{&dsl.TypeCase{Type: primType("float32")}}, Dimensionality: &dsl.Vector{}}
	default:
		e := &dsl.EnumDefinition{DefinitionMeta: g.meta(g.label("E"))}
		return ref(e)
	}
}

// the same non-null cases, with or without the leading null case (validation: null must come first)
func c14Union(cases dsl.TypeCases, withNull bool) *dsl.GeneralizedType {
	u := &dsl.GeneralizedType{}
	if withNull {
		u.Cases = append(u.Cases, &dsl.TypeCase{})
	}
	u.Cases = append(u.Cases, cases...)
	return u
}

func findToks(toks []string, from int, pat ...string) int {
	for i := from; i+len(pat) <= len(toks); i++ {
		ok := true
		for j, p := range pat {
			if p != "_" && toks[i+j] != p {
				ok = false
				break
			}
		}
		if ok {
			return i
		}
	}
	return -1
}

// C14UnionClass(maxCases): 2..maxCases non-null cases.
func C14UnionClass(maxCases int) {
	g := newGen()
	n := 2 + verifChoose("ncases", maxCases-1)
	var cases dsl.TypeCases
	for i := 0; i < n; i++ {
		cases = append(cases, &dsl.TypeCase{Tag: c14Tags[i], Type: g.c14UnionCaseType()})
	}
	clsNull := verifChoose("class-from-nullable-union", 2) == 1
	serNull := verifChoose("serializer-for-nullable-union", 2) == 1
	uCls := c14Union(cases, clsNull)
	uSer := c14Union(cases, serNull)
	verifOut("class-null", clsNull)
	verifOut("serializer-null", serNull)

	// ---------------- MATLAB
	mName := mcommon.UnionClassName(uCls)
	verifAssert("matlab-union-class-name-independent-of-null", mName == mcommon.UnionClassName(uSer))
	mQual := mcommon.NamespaceIdentifierName(NS) + "." + mName
	mt := verifTokens(mtypes.VerifWriteUnionClass(mName, uCls, NS))
	ser, ok := parseExpr(mbinary.VerifTypeSerializer(uSer, NS))
	okShape := ok && ser.head == "yardl.binary.UnionSerializer" && len(ser.kids) == 3 && ser.kids[1].open == "{" && ser.kids[2].open == "{" &&
		len(ser.kids[1].kids) == len(uSer.Cases) && len(ser.kids[2].kids) == len(uSer.Cases)
	verifAssert("matlab-union-serializer-shape", okShape)
	if okShape {
		offset := uint64(0)
		if ser.kids[1].kids[0].head == "yardl.binary.NoneSerializer" {
			offset = 1
		}
		verifAssert("matlab-union-class-name-used-by-serializer", ser.kids[0].head == "'"+mQual+"'")
		nFactories := 0
		for i := findToks(mt, 0, "function", "res", "=", "_", "(", "value", ")"); i >= 0; i = findToks(mt, i+1, "function", "res", "=", "_", "(", "value", ")") {
			nFactories++
		}
		verifAssert("matlab-union-one-factory-per-non-null-case", nFactories == n)
		ti := findToks(mt, 0, "tags_", "=", "[")
		for p, c := range uSer.Cases {
			if c.Type == nil {
				verifAssert("matlab-union-null-case-has-no-factory", ser.kids[2].kids[p].head == "yardl.None")
				continue
			}
			tag := formatting.ToPascalCase(c.Tag)
			// the factory the reader calls for tag byte p ...
			verifAssert("matlab-union-reader-factory-is-the-case's", ser.kids[2].kids[p].head == "@"+mQual+"."+tag)
			// ... constructs index k
			fi := findToks(mt, 0, "function", "res", "=", tag, "(", "value", ")", "res", "=", mQual, "(", "_", ",", "value", ")", ";")
			verifAssert("matlab-union-factory-present", fi >= 0)
			if fi < 0 {
				continue
			}
			k, isNum := verifAtoi(mt[fi+11])
			verifAssert("matlab-union-factory-index-is-a-number", isNum)
			// write: tag byte = index + offset - 1 must be the schema position
			verifAssert("matlab-union-tag-byte-is-schema-position", k+offset == uint64(p)+1)
			// isTag compares with the same index
			ii := findToks(mt, 0, "function", "res", "=", "is"+tag, "(", "self", ")", "res", "=", "self.index", "=", "=", "_", ";")
			verifAssert("matlab-union-is-method-present", ii >= 0)
			if ii >= 0 {
				ik, isNum2 := verifAtoi(mt[ii+12])
				verifAssert("matlab-union-is-method-agrees-with-factory", isNum2 && ik == k)
			}
			// tags_(index) names the case
			if ti >= 0 && k >= 1 {
				pos := ti + 3 + 2*int(k-1) // items separated by ","
				verifAssert("matlab-union-tag-list-agrees-with-factory", pos < len(mt) && mt[pos] == "\""+tag+"\"")
			} else {
				verifAssert("matlab-union-tag-list-agrees-with-factory", false)
			}
		}
	}

	// ---------------- Python
	pName, pParams := pycommon.UnionClassName(uCls)
	pt := verifTokens(pytypes.VerifWriteUnionClass(pName, pParams, uCls, NS))
	pser, ok2 := parseExpr(pybinary.VerifTypeSerializer(uSer, NS))
	okShape2 := ok2 && pser.head == "_binary.UnionSerializer" && len(pser.kids) == 2 && pser.kids[1].open == "[" && len(pser.kids[1].kids) == len(uSer.Cases)
	verifAssert("python-union-serializer-shape", okShape2)
	if okShape2 {
		offset := uint64(0)
		if pser.kids[1].kids[0].head == "None" && pser.kids[1].kids[0].open == "" {
			offset = 1
		}
		verifAssert("python-union-class-name-used-by-serializer", pser.kids[0].head == pName)
		for p, c := range uSer.Cases {
			if c.Type == nil {
				continue
			}
			tag := formatting.ToPascalCase(c.Tag)
			item := pser.kids[1].kids[p]
			okItem := item.open == "(" && item.head == "" && len(item.kids) == 2 && item.kids[0].head == pName+"."+tag
			verifAssert("python-union-reader-case-class-is-the-case's", okItem)
			ci := findToks(pt, 0, pName+"."+tag, "=", "type", "(", "\""+pName+"."+tag+"\"", ",", "(", "_", ",", ")", ",", "{", "\"index\":", "_", ",", "\"tag\":", "_", "}", ")")
			verifAssert("python-union-case-class-present", ci >= 0)
			if ci < 0 {
				continue
			}
			k, isNum := verifAtoi(pt[ci+13])
			verifAssert("python-union-case-index-is-a-number", isNum)
			// write: tag byte = index + offset must be the schema position
			verifAssert("python-union-tag-byte-is-schema-position", k+offset == uint64(p))
			verifAssert("python-union-case-tag-is-the-schema-tag", pt[ci+16] == "\""+c.Tag+"\"")
		}
	}
	verifReach("c14-union-class-end")
}
