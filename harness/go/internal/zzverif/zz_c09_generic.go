package zzverif

// C09, violations that sit behind a *generic instantiation*: the offending reference is (part of) a
// type argument of a generic defined in an imported namespace, of a local generic, or of a nest of
// both.  The rules are the same rules as in zz_c09.go; what is quantified here is the position.

import (
	"strings"

	"github.com/microsoft/yardl/tooling/pkg/dsl"
)

// libNamespace: a types-only namespace of generic definitions that the other namespaces import.
func libNamespace(b *mb) *dsl.Namespace {
	ns := "Lib"
	n := &dsl.Namespace{Name: ns}
	n.TypeDefinitions = dsl.TypeDefinitions{
		b.record(ns, "Box", []string{"T"}, b.field("item", b.st("T")), b.field("count", b.st("uint"))),
		b.alias(ns, "Seq", []string{"T"}, b.vec(b.st("T"))),
		b.record(ns, "Two", []string{"A", "B"}, b.field("a", b.st("A")), b.field("b", b.opt(b.st("B")))),
		b.alias(ns, "Choice", []string{"T"}, b.gt(nil, b.st("string"), b.st("T"))),
	}
	return n
}

const (
	gImportedRecord = iota
	gImportedAlias
	gImportedSecondParameter
	gImportedUnionAlias
	gLocalRecord
	gLocalAliasOfImported
	gImportedInImported
	gLocalInImported
	gImportedInLocal
	gCompoundArgument
	nCarriers
)

var carrierNames = []string{"Lib.Box<X>", "Lib.Seq<X>", "Lib.Two<int,X>", "Lib.Choice<X>", "Pair<X,int>", "LocalBox<X> (= Lib.Box<T>)",
	"Lib.Box<Lib.Seq<X>>", "Lib.Box<Pair<int,X>>", "Pair<Lib.Box<X>,int>", "Lib.Two<X*, int>"}

// carry wraps x as a type argument of a generic instantiation written in namespace n (which has
// baseModel's local generic Pair<A, B>).  gLocalAliasOfImported adds the local generic alias it needs.
func carry(b *mb, n *dsl.Namespace, carrier int, x dsl.Type) dsl.Type {
	switch carrier {
	case gImportedRecord:
		return b.st("Lib.Box", x)
	case gImportedAlias:
		return b.st("Lib.Seq", x)
	case gImportedSecondParameter:
		return b.st("Lib.Two", b.st("int"), x)
	case gImportedUnionAlias:
		return b.st("Lib.Choice", x)
	case gLocalRecord:
		return b.st("Pair", x, b.st("int"))
	case gLocalAliasOfImported:
		n.TypeDefinitions = append(n.TypeDefinitions, b.alias(n.Name, "LocalBox", []string{"T"}, b.st("Lib.Box", b.st("T"))))
		return b.st("LocalBox", x)
	case gImportedInImported:
		return b.st("Lib.Box", b.st("Lib.Seq", x))
	case gLocalInImported:
		return b.st("Lib.Box", b.st("Pair", b.st("int"), x))
	case gImportedInLocal:
		return b.st("Pair", b.st("Lib.Box", x), b.st("int"))
	default:
		return b.st("Lib.Two", b.vec(x), b.st("int"))
	}
}

// threeNamespaces: Lib <- Dep <- Main (Main also imports Lib directly).
func threeNamespaces() (lib, dep, main *dsl.Namespace, bDep, bMain *mb) {
	bLib := &mb{file: "lib/lib.yml"}
	bDep = &mb{file: "dep/dep.yml"}
	bMain = &mb{file: "main/model.yml"}
	lib = libNamespace(bLib)
	dep = baseModel(bDep, "Dep")
	dep.IsTopLevel = false
	dep.References = []*dsl.Namespace{lib}
	main = baseModel(bMain, "Main")
	main.References = []*dsl.Namespace{dep, lib}
	return
}

var cycleNames = []string{"self-reference", "two-records", "aliases", "record-and-alias", "three-records"}

// C09GenericCycle: a reference cycle that passes through a type argument of a generic instantiation
// is rejected with an error naming the offending file; the same definitions with the back-reference
// replaced by a reference to an ordinary record are accepted.
func C09GenericCycle() {
	carrier := verifChoose("carrier", nCarriers)
	shape := verifChoose("cycle-shape", len(cycleNames))
	inImport := verifChoose("in-imported-namespace", 2) == 1
	cyclic := verifChoose("cyclic", 2) == 1
	verifOut("rule", "cycle-through-generic-argument:"+cycleNames[shape])
	verifOut("carrier", carrierNames[carrier])
	lib, dep, main, bDep, bMain := threeNamespaces()
	n, b, file := main, bMain, "main/model.yml"
	if inImport {
		n, b, file = dep, bDep, "dep/dep.yml"
	}
	ns := n.Name
	// back(name): the reference that closes the cycle (or an innocent one in the control run)
	back := func(name string) dsl.Type {
		if cyclic {
			return b.st(name)
		}
		return b.st("Point")
	}
	add := func(td dsl.TypeDefinition) { n.TypeDefinitions = append(n.TypeDefinitions, td) }
	switch shape {
	case 0:
		add(b.record(ns, "Node", nil, b.field("id", b.st("int")), b.field("children", carry(b, n, carrier, back("Node")))))
	case 1:
		add(b.record(ns, "Aa", nil, b.field("b", carry(b, n, carrier, b.st("Bb")))))
		add(b.record(ns, "Bb", nil, b.field("a", b.opt(back("Aa")))))
	case 2:
		add(b.alias(ns, "Aa", nil, carry(b, n, carrier, b.st("Bb"))))
		add(b.alias(ns, "Bb", nil, b.vec(back("Aa"))))
	case 3:
		add(b.record(ns, "Aa", nil, b.field("b", b.st("Bb"))))
		add(b.alias(ns, "Bb", nil, carry(b, n, carrier, back("Aa"))))
	default:
		add(b.record(ns, "Cc", nil, b.field("a", back("Aa"))))
		add(b.record(ns, "Aa", nil, b.field("b", b.mapOf(b.st("string"), b.st("Bb")))))
		add(b.record(ns, "Bb", nil, b.field("c", carry(b, n, carrier, b.st("Cc")))))
	}
	var err error
	msg, panicked := verifPanics(func() { _, err = dsl.Validate([]*dsl.Namespace{lib, dep, main}) })
	verifOut("panic", msg)
	verifAssert("no-panic", !panicked)
	verifOut("err", errText(err))
	if cyclic {
		verifAssert("violation-rejected", err != nil)
		verifAssert("error-names-offending-file", err == nil || strings.Contains(errText(err), file+":"))
	} else {
		verifAssert("acyclic-generic-use-accepted", err == nil)
	}
	verifReach("c09-generic-cycle-end")
}

// C09GenericTypeRule: the type-level rules of zz_c09.go with the violating type written as (part of)
// a type argument of an imported / local / nested generic instantiation.
func C09GenericTypeRule(full int) {
	rule := verifChoose("rule", nTypeRules)
	carrier := verifChoose("carrier", nCarriers)
	inImport := verifChoose("in-imported-namespace", 2) == 1
	where := 0 // record field; full: alias target, protocol step as well
	if full == 1 {
		where = verifChoose("where", 3)
	} else if rule == rStreamMisplaced {
		where = 2 * verifChoose("where", 2) // a step is the one place where a stream may legally appear: always covered
	}
	verifOut("rule", typeRuleNames[rule])
	verifOut("carrier", carrierNames[carrier])
	lib, dep, main, bDep, bMain := threeNamespaces()
	// the imported namespace keeps a protocol so that rule reference-to-protocol is meaningful there
	n, b, file := main, bMain, "main/model.yml"
	if inImport {
		n, b, file = dep, bDep, "dep/dep.yml"
	}
	if rule == rStreamMisplaced && where == 2 {
		// `step: Lib.Box<!stream {items: int}>`: accepted before fix e37f37f (validateStreams only looked inside a
		// step whose own type is a GeneralizedType); keyed separately in parts/registry.py:c09_key
		verifOut("case", "stream-in-type-argument-of-step")
	}
	t := carry(b, n, carrier, badType(b, rule))
	switch where {
	case 0:
		place(b, n, pRecordField, t)
	case 1:
		place(b, n, pAlias, t)
	default:
		place(b, n, pProtocolStep, t)
	}
	var err error
	msg, panicked := verifPanics(func() { _, err = dsl.Validate([]*dsl.Namespace{lib, dep, main}) })
	verifOut("panic", msg)
	verifAssert("no-panic", !panicked)
	verifOut("err", errText(err))
	verifAssert("violation-rejected", err != nil)
	verifAssert("error-names-offending-file", err == nil || strings.Contains(errText(err), file+":"))
	verifReach("c09-generic-type-rule-end")
}

// C09GenericBase: the three-namespace base with every carrier instantiated on a valid argument validates.
func C09GenericBase() {
	lib, dep, main, bDep, bMain := threeNamespaces()
	for c := 0; c < nCarriers; c++ {
		for _, nb := range []struct {
			n *dsl.Namespace
			b *mb
		}{{dep, bDep}, {main, bMain}} {
			t := carry(nb.b, nb.n, c, nb.b.st("Point")) // may add a definition to nb.n: evaluate before the append below
			nb.n.TypeDefinitions = append(nb.n.TypeDefinitions, nb.b.alias(nb.n.Name, "Uses"+string(rune('A'+c)), nil, t))
		}
	}
	_, err := dsl.Validate([]*dsl.Namespace{lib, dep, main})
	verifOut("err", errText(err))
	verifAssert("base-accepted", err == nil)
}
