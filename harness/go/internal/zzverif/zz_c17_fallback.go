package zzverif

// C17 (C++ emitter level): the generic batch read of the generated abstract readers - the public
// `bool Read<Step>(std::vector<T>& values)` and the fallback `bool Read<Step>Impl(std::vector<T>& values)` that the
// NDJSON and HDF5 readers inherit (cpp/protocols writeDefinitions) - read back and interpreted on an abstract
// std::vector whose prior size p (items left from the previous batch), capacity c and the number k of items the
// single-item `Read<Step>Impl(T&)` still delivers are SYMBOLIC.
//
// Contract (docs/cpp: "the vector is filled up to its capacity"; a batch must not depend on what the destination held):
//   after Read<Step>(values) the vector holds exactly the min(c, k) items read by this call, in stream order - no item
//   of an earlier batch, no value-initialised filler -; the call returns true iff it delivered at least one item; the
//   fallback itself returns true iff it filled the vector to its capacity (k >= c), so that the caller asks again;
//   no element outside [0, size) is accessed, the capacity the caller reserved is never exceeded (no reallocation),
//   and the single-item read is never called again after it reported the end of the stream.
//
// std::vector meaning: resize(n) keeps the first min(size, n) elements and value-initialises the rest; pop_back removes
// the last element (undefined on an empty vector); clear; v[i] requires i < size; capacity only grows, and only when the
// size exceeds it.  `unlikely(state_ != N)` is taken as false: the reader is at this step (order checking is C07's).

import (
	"fmt"
	"strings"

	cppprotocols "github.com/microsoft/yardl/tooling/internal/cpp/protocols"
	"github.com/microsoft/yardl/tooling/pkg/dsl"
)

// c17fParse: statements of a function body: `if (c) {` [`} else {`] `}`, `while (c) {` `}`, simple statements
func c17fParse(lines []string, pos *int, bad *string) []*cstmt {
	var out []*cstmt
	for *pos < len(lines) && *bad == "" {
		l := lines[*pos]
		if strings.HasPrefix(l, "}") {
			return out
		}
		*pos++
		switch {
		case (strings.HasPrefix(l, "if (") || strings.HasPrefix(l, "while(") || strings.HasPrefix(l, "while (")) && strings.HasSuffix(l, ") {"):
			k := strings.Index(l, "(")
			s := &cstmt{kind: strings.TrimSpace(l[:k]), text: l[k+1 : len(l)-3]}
			s.body = c17fParse(lines, pos, bad)
			if *pos < len(lines) && lines[*pos] == "} else {" && s.kind == "if" {
				*pos++
				s.els = c17fParse(lines, pos, bad)
			}
			if *pos >= len(lines) || lines[*pos] != "}" {
				*bad = "block of `" + l + "` not closed"
				return out
			}
			*pos++
			out = append(out, s)
		case strings.HasSuffix(l, ";"):
			out = append(out, &cstmt{kind: "simple", text: l[:len(l)-1]})
		default:
			*bad = "unrecognised line: " + l
		}
	}
	return out
}

// c17fFunction: the body of the function whose head line ends with `suffix`
func c17fFunction(text, suffix string) ([]*cstmt, string) {
	var lines []string
	for _, l := range strings.Split(text, "\n") {
		if t := strings.TrimSpace(l); t != "" && !strings.HasPrefix(t, "//") {
			lines = append(lines, t)
		}
	}
	for i, l := range lines {
		if strings.HasSuffix(l, suffix) {
			pos, bad := i+1, ""
			body := c17fParse(lines, &pos, &bad)
			if bad == "" && (pos >= len(lines) || lines[pos] != "}") {
				bad = "function body not closed"
			}
			return body, bad
		}
	}
	return nil, "function not found: " + suffix
}

type c17fRun struct {
	size, cap uint64
	elems     []string // content of the first `size` elements
	remaining uint64   // items the single-item read still delivers
	delivered uint64
	ints      map[string]uint64
	single    string // name of the single-item read
	fallback  []*cstmt
	ret       bool
	returned  bool
	threw     bool
	ended     bool // the single-item read has reported the end of the stream
	problems  []string
	unknown   string
	steps     int
}

func (r *c17fRun) problem(s string) { r.problems = append(r.problems, s) }

func (r *c17fRun) num(e string) (uint64, bool) {
	e = strings.TrimSpace(e)
	switch {
	case e == "values.size()":
		return r.size, true
	case e == "values.capacity()":
		return r.cap, true
	case strings.HasSuffix(e, " + 1"):
		v, ok := r.num(e[:len(e)-4])
		return v + 1, ok
	case strings.HasSuffix(e, " - 1"):
		v, ok := r.num(e[:len(e)-4])
		if v == 0 {
			r.problem("unsigned underflow in " + e)
		}
		return v - 1, ok
	}
	if v, ok := r.ints[e]; ok {
		return v, true
	}
	if n, ok := verifAtoi(e); ok && e != "" && e[0] >= '0' && e[0] <= '9' {
		return n, true
	}
	return 0, false
}

func (r *c17fRun) resize(n uint64) {
	if n > r.cap {
		r.problem(fmt.Sprintf("resize(%d) beyond the capacity: the vector reallocates", n))
		r.cap = n
	}
	for uint64(len(r.elems)) > n {
		r.elems = r.elems[:len(r.elems)-1]
	}
	for uint64(len(r.elems)) < n {
		r.elems = append(r.elems, "value-initialised")
	}
	r.size = n
}

// readOne: `Read<Step>Impl(values[i])`
func (r *c17fRun) readOne(arg string) (bool, bool) {
	ix, ok := cgBetween(arg, "values[", "]")
	if !ok {
		return false, false
	}
	i, ok := r.num(ix)
	if !ok {
		return false, false
	}
	if i >= r.size {
		r.problem(fmt.Sprintf("values[%d] outside a vector of size %d", i, r.size))
		return false, true
	}
	if r.ended {
		r.problem("single-item read called again after the end of the stream")
	}
	if r.remaining == 0 {
		r.ended = true
		return false, true
	}
	r.remaining--
	r.elems[i] = fmt.Sprintf("item%d", r.delivered)
	r.delivered++
	return true, true
}

func (r *c17fRun) cond(c string) (bool, bool) {
	if c == "true" {
		return true, true
	}
	if x, ok := cgBetween(c, "unlikely(state_ != ", ")"); ok && x != "" {
		return false, true
	}
	neg := strings.HasPrefix(c, "!")
	if call, ok := cgBetween(strings.TrimPrefix(c, "!"), r.single+"(", ")"); ok {
		if call == "values" && r.fallback != nil {
			// the batch overload: the fallback body
			inner := &c17fRun{size: r.size, cap: r.cap, elems: r.elems, remaining: r.remaining, ints: map[string]uint64{}, single: r.single}
			inner.exec(r.fallback)
			r.size, r.cap, r.elems, r.remaining, r.delivered = inner.size, inner.cap, inner.elems, inner.remaining, inner.delivered
			r.problems = append(r.problems, inner.problems...)
			if inner.unknown != "" || !inner.returned {
				r.unknown = "fallback: " + inner.unknown
				return false, false
			}
			return inner.ret != neg, true
		}
		v, ok := r.readOne(call)
		return v != neg, ok
	}
	for _, op := range []string{" == ", " != ", " >= ", " <= ", " > ", " < "} {
		if k := strings.Index(c, op); k > 0 {
			a, ok1 := r.num(c[:k])
			b, ok2 := r.num(c[k+len(op):])
			if !ok1 || !ok2 {
				return false, false
			}
			switch op {
			case " == ":
				return a == b, true
			case " != ":
				return a != b, true
			case " >= ":
				return a >= b, true
			case " <= ":
				return a <= b, true
			case " > ":
				return a > b, true
			}
			return a < b, true
		}
	}
	return false, false
}

func (r *c17fRun) exec(ss []*cstmt) int {
	for _, s := range ss {
		if r.unknown != "" {
			return flowThrow
		}
		r.steps++
		if r.steps > 400 {
			r.unknown = "no termination within 400 statements"
			return flowThrow
		}
		switch s.kind {
		case "if":
			c, ok := r.cond(s.text)
			if !ok {
				if r.unknown == "" {
					r.unknown = "condition: " + s.text
				}
				return flowThrow
			}
			br := s.els
			if c {
				br = s.body
			}
			if f := r.exec(br); f != flowNext {
				return f
			}
		case "while":
			for {
				c, ok := r.cond(s.text)
				if !ok {
					if r.unknown == "" {
						r.unknown = "condition: " + s.text
					}
					return flowThrow
				}
				if !c {
					break
				}
				f := r.exec(s.body)
				if f == flowBreak {
					break
				}
				if f != flowNext && f != flowContinue {
					return f
				}
			}
		default:
			if f := r.simple(s.text); f != flowNext {
				return f
			}
		}
	}
	return flowNext
}

func (r *c17fRun) simple(t string) int {
	switch {
	case t == "break":
		return flowBreak
	case t == "continue":
		return flowContinue
	case strings.HasPrefix(t, "throw "):
		r.threw = true
		return flowThrow
	case t == "return true" || t == "return false":
		r.returned, r.ret = true, t == "return true"
		return flowReturn
	case strings.HasPrefix(t, "return "):
		c, ok := r.cond(t[len("return "):])
		if !ok {
			break
		}
		r.returned, r.ret = true, c
		return flowReturn
	case strings.HasPrefix(t, "state_ = "):
		return flowNext
	case t == "values.clear()":
		r.resize(0)
		return flowNext
	case t == "values.pop_back()":
		if r.size == 0 {
			r.problem("pop_back on an empty vector")
			return flowNext
		}
		r.resize(r.size - 1)
		return flowNext
	case t == "values.emplace_back()" || t == "values.push_back({})" || t == "values.push_back(T{})":
		r.resize(r.size + 1)
		return flowNext
	case strings.HasSuffix(t, "++") && isIdent(t[:len(t)-2]):
		r.ints[t[:len(t)-2]]++
		return flowNext
	}
	if x, ok := cgBetween(t, "values.resize(", ")"); ok {
		if n, ok := r.num(x); ok {
			r.resize(n)
			return flowNext
		}
	}
	if d, ok := cgBetween(t, "size_t ", ""); ok {
		if k := strings.Index(d, " = "); k > 0 && isIdent(d[:k]) {
			if n, ok := r.num(d[k+3:]); ok {
				r.ints[d[:k]] = n
				return flowNext
			}
		}
	}
	if k := strings.Index(t, " = "); k > 0 && isIdent(t[:k]) {
		if _, declared := r.ints[t[:k]]; declared {
			if n, ok := r.num(t[k+3:]); ok {
				r.ints[t[:k]] = n
				return flowNext
			}
		}
	}
	r.unknown = "statement: " + t
	return flowThrow
}

// C17CppFallbackBatch(maxCap, maxItems, nTypes): p <= c in [1, maxCap], k in [0, maxItems] symbolic; the stream's item type one of nTypes.
func C17CppFallbackBatch(maxCap, maxItems, nTypes int) {
	b := &mb{file: "model.yml"}
	var item dsl.Type
	switch verifChoose("item-type", nTypes) {
	case 0:
		item = b.st("int")
	case 1:
		item = b.st("Rec")
	default:
		item = b.vec(b.opt(b.st("string")))
	}
	rec := b.record(NS, "Rec", nil, b.field("a", b.st("int")), b.field("o", b.opt(b.st("string"))))
	var steps []*dsl.ProtocolStep
	pos := verifChoose("step-position", 2)
	if pos == 1 {
		steps = append(steps, b.step("head", b.st("int")))
	}
	steps = append(steps, b.step("items", b.strm(item)), b.step("tail", b.strm(b.st("Rec"))))
	ns := &dsl.Namespace{Name: NS, IsTopLevel: true, TypeDefinitions: dsl.TypeDefinitions{rec}, Protocols: []*dsl.ProtocolDefinition{b.protocol(NS, "P", steps...)}}
	env, err := dsl.Validate([]*dsl.Namespace{ns})
	verifAssert("model-validates", err == nil)
	if err != nil {
		return
	}
	text := cppprotocols.VerifWriteDefinitions(env.Namespaces[0], env.SymbolTable)
	for _, step := range []string{[]string{"Items", "Tail"}[verifChoose("step", 2)]} {
		wrapper, bad1 := c17fFunction(text, "::Read"+step+"(std::vector<"+c17fItemType(text, step)+">& values) {")
		fallback, bad2 := c17fFunction(text, "::Read"+step+"Impl(std::vector<"+c17fItemType(text, step)+">& values) {")
		verifOut("read", bad1+" "+bad2)
		verifAssert("batch-read-functions-emitted", bad1 == "" && bad2 == "")
		if bad1 != "" || bad2 != "" {
			return
		}
		c := verifUint64("capacity")
		p := verifUint64("previous-size")
		k := verifUint64("items-left-in-stream")
		verifAssume(c >= 1 && c <= uint64(maxCap) && p <= c && k <= uint64(maxItems))
		r := &c17fRun{cap: c, remaining: k, ints: map[string]uint64{}, single: "Read" + step + "Impl", fallback: fallback}
		for j := uint64(0); j < p; j++ { // forks on the symbolic size
			r.elems = append(r.elems, fmt.Sprintf("stale%d", j))
		}
		r.size = p
		r.exec(wrapper)
		verifOut("unknown-form", r.unknown)
		verifAssert("only-known-statement-forms", r.unknown == "")
		if r.unknown != "" {
			return
		}
		verifOut("problems", strings.Join(r.problems, "; "))
		verifAssert("no-undefined-vector-access-no-reallocation-no-read-past-the-end", len(r.problems) == 0)
		verifAssert("batch-read-returns-normally", r.returned && !r.threw)
		if !r.returned {
			return
		}
		n := k
		if c < n {
			n = c
		}
		verifAssert("vector-holds-exactly-the-items-read", r.size == n && uint64(len(r.elems)) == n)
		fresh := true
		for j, e := range r.elems {
			fresh = fresh && e == fmt.Sprintf("item%d", j)
		}
		verifAssert("items-are-the-fresh-ones-in-stream-order", fresh)
		verifAssert("returns-true-iff-an-item-was-delivered", r.ret == (n > 0))
		verifAssert("capacity-unchanged", r.cap == c)
		// the fallback alone: true iff the vector was filled to its capacity (the caller will ask again)
		f := &c17fRun{cap: c, size: p, remaining: k, ints: map[string]uint64{}, single: "Read" + step + "Impl"}
		for j := uint64(0); j < p; j++ {
			f.elems = append(f.elems, fmt.Sprintf("stale%d", j))
		}
		f.exec(fallback)
		verifAssert("fallback-returns-true-iff-filled-to-capacity", f.unknown == "" && f.returned && f.ret == (k >= c))
	}
	verifReach("c17f-end")
}

// c17fItemType: the element type the emitted batch overload of Read<step> is declared with
func c17fItemType(text, step string) string {
	for _, l := range strings.Split(text, "\n") {
		l = strings.TrimSpace(l)
		if x, ok := cgBetween(l, "", ">& values) {"); ok {
			if k := strings.Index(x, "::Read"+step+"(std::vector<"); k > 0 {
				return x[k+len("::Read"+step+"(std::vector<"):]
			}
		}
	}
	return "?"
}
