package zzverif

import (
	"fmt"

	"github.com/microsoft/yardl/tooling/pkg/dsl"
)

// cloneType rebuilds an equal-shaped type out of fresh objects (so pointer identity cannot help).
func cloneType(t dsl.Type) dsl.Type {
	switch t := t.(type) {
	case nil:
		return nil
	case *dsl.SimpleType:
		c := *t
		if nt, ok := t.ResolvedDefinition.(*dsl.NamedType); ok {
			m := *nt.DefinitionMeta
			c.ResolvedDefinition = &dsl.NamedType{DefinitionMeta: &m, Type: cloneType(nt.Type)}
		}
		return &c
	case *dsl.GeneralizedType:
		c := &dsl.GeneralizedType{}
		for _, tc := range t.Cases {
			c.Cases = append(c.Cases, &dsl.TypeCase{Tag: tc.Tag, Type: cloneType(tc.Type)})
		}
		switch d := t.Dimensionality.(type) {
		case *dsl.Vector:
			v := &dsl.Vector{}
			if d.Length != nil {
				n := *d.Length
				v.Length = &n
			}
			c.Dimensionality = v
		case *dsl.Array:
			a := &dsl.Array{}
			if d.Dimensions != nil {
				dims := dsl.ArrayDimensions{}
				for _, dim := range *d.Dimensions {
					nd := &dsl.ArrayDimension{}
					if dim.Length != nil {
						n := *dim.Length
						nd.Length = &n
					}
					dims = append(dims, nd)
				}
				a.Dimensions = &dims
			}
			c.Dimensionality = a
		case *dsl.Map:
			c.Dimensionality = &dsl.Map{KeyType: cloneType(d.KeyType)}
		case *dsl.Stream:
			c.Dimensionality = &dsl.Stream{}
		}
		return c
	}
	return t
}

// structural types only (primitives, aliases of them, containers): the evolution context stays empty.
func (g *gen) anyStructural(d int) dsl.Type {
	if d <= 0 {
		if verifChoose(g.label("leaf"), 3) == 2 {
			name := g.label("A")
			a := &dsl.NamedType{DefinitionMeta: g.meta(name), Type: g.anyPrim()}
			return ref(a)
		}
		return g.anyPrim()
	}
	cases := func() dsl.TypeCases {
		switch verifChoose(g.label("cases"), 4) {
		case 0:
			return dsl.TypeCases{&dsl.TypeCase{Type: g.anyStructural(d - 1)}}
		case 1:
			return dsl.TypeCases{&dsl.TypeCase{}, &dsl.TypeCase{Type: g.anyStructural(d - 1)}}
		case 2:
			return dsl.TypeCases{&dsl.TypeCase{Tag: "c0", Type: g.anyStructural(d - 1)}, &dsl.TypeCase{Tag: "c1", Type: g.smallPrim()}}
		default:
			return dsl.TypeCases{&dsl.TypeCase{}, &dsl.TypeCase{Tag: "c0", Type: g.smallPrim()}, &dsl.TypeCase{Tag: "c1", Type: g.anyStructural(d - 1)}}
		}
	}
	switch verifChoose(g.label("shape"), 7) {
	case 0:
		return g.anyStructural(0)
	case 1:
		return &dsl.GeneralizedType{Cases: cases()}
	case 2:
		return &dsl.GeneralizedType{Cases: cases(), Dimensionality: &dsl.Vector{}}
	case 3:
		n := verifUint64(g.label("len"))
		return &dsl.GeneralizedType{Cases: cases(), Dimensionality: &dsl.Vector{Length: &n}}
	case 4:
		return &dsl.GeneralizedType{Cases: cases(), Dimensionality: g.anyArray()}
	case 5:
		return &dsl.GeneralizedType{Cases: cases(), Dimensionality: &dsl.Stream{}}
	default:
		key := primType(verifOneOf(g.label("key"), "string", "int32", "uint64"))
		return &dsl.GeneralizedType{Cases: cases(), Dimensionality: &dsl.Map{KeyType: key}}
	}
}

func changeKind(ch dsl.TypeChange) string {
	if ch == nil {
		return "none"
	}
	return fmt.Sprintf("%T", ch)
}

// C06Pair: verdicts of the type comparer on two independent symbolic types.
func C06Pair(depth int, fullPrims int) {
	g := newGen()
	g.fullPrims = fullPrims
	oldT := g.anyStructural(depth)
	newT := g.anyStructural(depth)
	var ch, back dsl.TypeChange
	msg, panicked := verifPanics(func() { ch = dsl.VerifCompareTypes(newT, oldT) })
	verifOut("panic", msg)
	verifAssert("total", !panicked)
	verifOut("change", changeKind(ch))
	po, pn := Plan(oldT), Plan(newT)
	if ch == nil {
		// soundness of silence: no reported change => identical wire plan
		verifAssert("silence-implies-same-plan", po == pn)
	}
	_, panicked2 := verifPanics(func() { back = dsl.VerifCompareTypes(oldT, newT) })
	verifAssert("total-reverse", !panicked2)
	verifAssert("silence-symmetric", (ch == nil) == (back == nil))
	verifAssert("error-symmetric", dsl.VerifTypeChangeIsError(ch) == dsl.VerifTypeChangeIsError(back))
	if ch != nil && !dsl.VerifTypeChangeIsError(ch) {
		// accepted but changed => partially compatible: a warning text must exist
		w := ""
		_, p3 := verifPanics(func() { w = dsl.VerifTypeChangeToWarning(ch) })
		verifAssert("warning-total", !p3)
		verifAssert("partial-has-warning", w != "")
	}
	verifReach("c06-pair-end")
}

// C06Reflexive: a type compared with an equal-shaped copy of itself reports no change.
func C06Reflexive(depth int, fullPrims int) {
	g := newGen()
	g.fullPrims = fullPrims
	t := g.anyStructural(depth)
	c := cloneType(t)
	var ch dsl.TypeChange
	_, panicked := verifPanics(func() { ch = dsl.VerifCompareTypes(c, t) })
	verifAssert("total", !panicked)
	verifOut("change", changeKind(ch))
	verifAssert("reflexive", ch == nil)
	verifReach("c06-refl-end")
}
