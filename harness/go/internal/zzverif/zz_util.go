package zzverif

import "strings"

func stringsPkgContains(s, lit string) bool { return strings.Contains(s, lit) }
