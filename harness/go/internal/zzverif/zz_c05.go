package zzverif

import (
	"strings"

	cppbinary "github.com/microsoft/yardl/tooling/internal/cpp/binary"
	"github.com/microsoft/yardl/tooling/pkg/dsl"
)

var intPrimsC05 = []string{"int8", "uint8", "int16", "uint16", "int32", "uint32", "int64", "uint64", "size"}

func isSignedInt(p string) bool { return strings.HasPrefix(p, "int") }

func cppIntType(p string) string {
	if p == "size" {
		return "yardl::Size"
	}
	return p + "_t"
}

// inRangeS / inRangeU: is the (signed / unsigned) 64-bit value inside the range of integer primitive p?
func inRangeS(v int64, p string) bool {
	w := uint(primWidth(p))
	if isSignedInt(p) {
		if w == 64 {
			return true
		}
		return v >= -(int64(1)<<(w-1)) && v <= (int64(1)<<(w-1))-1
	}
	if v < 0 {
		return false
	}
	return w == 64 || v <= (int64(1)<<w)-1
}

func inRangeU(v uint64, p string) bool {
	w := uint(primWidth(p))
	if isSignedInt(p) {
		return v <= (uint64(1)<<(w-1))-1
	}
	return w == 64 || v <= (uint64(1)<<w)-1
}

// aboveMaxS etc.: the predicates the emitted guard text denotes.
func aboveMaxS(v int64, p string) bool {
	w := uint(primWidth(p))
	if isSignedInt(p) {
		return w < 64 && v > (int64(1)<<(w-1))-1
	}
	return w < 64 && v > (int64(1)<<w)-1
}

func aboveMaxU(v uint64, p string) bool {
	w := uint(primWidth(p))
	if isSignedInt(p) {
		return v > (uint64(1)<<(w-1))-1
	}
	return w < 64 && v > (uint64(1)<<w)-1
}

func belowLowestS(v int64, p string) bool {
	w := uint(primWidth(p))
	if isSignedInt(p) {
		return w < 64 && v < -(int64(1)<<(w-1))
	}
	return v < 0
}

// C05IntConversion: the conversion code emitted for an accepted integer->integer type change either
// throws or preserves the value, for every value of the old type.
func C05IntConversion(write int) {
	from := verifOneOf("from", intPrimsC05...)
	to := verifOneOf("to", intPrimsC05...)
	verifAssume(from != to)
	verifOut("from", from)
	verifOut("to", to)
	oldT, newT := primType(from), primType(to)
	var tc dsl.TypeChange = &dsl.TypeChangeNumberToNumber{TypePair: dsl.TypePair{Old: oldT, New: newT}}
	isWrite := write == 1
	if isWrite {
		// writing to the previous version converts new -> old: present the change the other way round
		tc = &dsl.TypeChangeNumberToNumber{TypePair: dsl.TypePair{Old: newT, New: oldT}}
	}
	text := cppbinary.VerifWriteTypeConversion(tc, "src", "dst", isWrite)
	verifOut("code", text)
	limit := "std::numeric_limits<" + cppIntType(to) + ">::"
	hasUpper := strings.Contains(text, "src > "+limit+"max()")
	hasLowest := strings.Contains(text, "src < "+limit+"lowest()")
	hasZero := strings.Contains(text, "src < 0")
	throws := strings.Contains(text, "throw std::runtime_error(")
	verifAssert("guard-mentions-only-the-target-type", strings.Count(text, "std::numeric_limits<") == strings.Count(text, limit))
	verifAssert("guard-throws", throws == (hasUpper || hasLowest || hasZero))
	verifAssert("assigns-static-cast-to-target", strings.Contains(text, "dst = static_cast<"+cppIntType(to)+">(src);"))
	if isSignedInt(from) {
		v := verifInt64("value")
		verifAssume(inRangeS(v, from))
		fires := (hasUpper && aboveMaxS(v, to)) || (hasLowest && belowLowestS(v, to)) || (hasZero && v < 0)
		verifAssert("no-silent-wrap", fires || inRangeS(v, to))
		verifAssert("no-spurious-overflow-error", !fires || !inRangeS(v, to))
	} else {
		v := verifUint64("value")
		verifAssume(inRangeU(v, from))
		fires := hasUpper && aboveMaxU(v, to) // an unsigned source is never below any lower bound
		verifAssert("no-silent-wrap", fires || inRangeU(v, to))
		verifAssert("no-spurious-overflow-error", !fires || !inRangeU(v, to))
	}
	verifReach("c05-int-conversion-end")
}
