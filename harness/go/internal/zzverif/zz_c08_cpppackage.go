package zzverif

// C08 ("if yardl accepts a package, code generation completes for every enabled target and every documented option
// combination ... the generated C++ compiles as C++17"), package level, C++ backend.
//
// C08CppPackage: the complete real cpp.Generate (yardl.h template, static header copy from the real embedded file
// systems, types, protocols, binary, ndjson, hdf5, CMakeLists) on a virtual file system, for a model family chosen by
// harness nondeterminism (one namespace | Top -> Base | Top -> Mid -> Base; with / without protocols; with / without
// generic definitions, enums + flags, unions, computed fields) and SYMBOLIC documented options (generateNDJson,
// generateHDF5, generateCMakeLists: the forks are the generator's own branches).  Every path generates twice from the
// same environment: once with overrideArrayHeader unset, once with it set.  The emitted text is read back:
//   - every #include "..." of every file of the output tree (generated or copied) resolves, relative to the including
//     file's directory, to a file of the same output tree (the user-supplied override header excepted);
//   - format-specific files (a path component ndjson / hdf5, generated or shipped) exist iff the format is enabled; no
//     file includes a file of a disabled format, nor a third-party header of a disabled format's library;
//   - CMakeLists.txt is written iff generateCMakeLists; read as a CMake script (set / list(APPEND) / option / if /
//     find_package / add_library / target_link_libraries / target_compile_features) it builds exactly the generated
//     .cc files, links the HDF5 / JSON library iff the format is enabled, and asks for C++17;
//   - every name `ns::Name` (ns a model namespace) used in a generated file is declared - in the same file above the
//     use or in a file (transitively) included above the use: a namespace's definitions are visible in every generated
//     file that names them, imported namespaces included;
//   - with overrideArrayHeader set, every include that reaches a shipped array header in the default run is an include of
//     the override header, nothing else about the include structure changes, and no generated file includes the default.
//
// Not covered here (stated in the registry entry): the undocumented internal options (mocks, translator, symlinked static
// headers); compiling the output with a C++ compiler (only file-level well-formedness is decided).

import (
	"math/big"
	"path"
	"sort"
	"strings"

	cpp "github.com/microsoft/yardl/tooling/internal/cpp"
	cppinclude "github.com/microsoft/yardl/tooling/internal/cpp/include"
	"github.com/microsoft/yardl/tooling/pkg/dsl"
	"github.com/microsoft/yardl/tooling/pkg/packaging"
)

// ---- model family (shared with the MATLAB part) ---------------------------------------------------------------

const (
	c08cpGenerics = 1 << iota
	c08cpEnums
	c08cpUnions
	c08cpComputed
)

func c08cpMember(b *mb, target dsl.Expression, member string) *dsl.MemberAccessExpression {
	return &dsl.MemberAccessExpression{NodeMeta: b.meta(), Target: target, Member: member}
}

// c08cpNamespace: the definitions of one namespace; dep names the imported namespace it builds on ("" = none).
func c08cpNamespace(b *mb, ns string, dep string, feat int, top bool, hasProtocols bool) *dsl.Namespace {
	n := &dsl.Namespace{Name: ns, IsTopLevel: top}
	defs := dsl.TypeDefinitions{
		b.record(ns, "Point", nil, b.field("x", b.st("float")), b.field("y", b.st("float"))),
	}
	// most definitions carry the same simple name in every namespace (base::Point, top::Point); <Ns>Only exists in one namespace only
	defs = append(defs, b.record(ns, ns+"Only", nil, b.field("id", b.st("int")), b.field("at", b.st("Point"))))
	shape := []*dsl.Field{b.field("origin", b.st("Point")), b.field("outline", b.vec(b.st("Point"))), b.field("named", b.mapOf(b.st("string"), b.st("Point"))),
		b.field("own", b.st(ns+"Only"))}
	steps := []*dsl.ProtocolStep{b.step("count", b.st("int"))}
	if dep != "" {
		shape = append(shape, b.field("inner", b.st(dep+".Shape")), b.field("anchor", b.opt(b.st(dep+".Point"))), b.field("innerOwn", b.st(dep+"."+dep+"Only")))
		steps = append(steps, b.step("anchors", b.strm(b.st(dep+".Point"))), b.step("innerShape", b.st(dep+".Shape")), b.step("innerOwns", b.strm(b.st(dep+"."+dep+"Only"))))
	}
	if feat&c08cpGenerics != 0 {
		defs = append(defs,
			b.record(ns, "Pair", []string{"A", "B"}, b.field("first", b.st("A")), b.field("second", b.st("B"))),
			b.alias(ns, "IntPair", nil, b.st("Pair", b.st("int"), b.st("int"))),
			b.alias(ns, "Image", []string{"T"}, b.gt(&dsl.Array{NodeMeta: b.meta()}, b.st("T"))))
		shape = append(shape, b.field("pair", b.st("IntPair")), b.field("pixels", b.st("Image", b.st("float"))))
		if dep != "" {
			defs = append(defs, b.alias(ns, "MixedPair", nil, b.st(dep+".Pair", b.st(dep+".Point"), b.st("Point"))))
			shape = append(shape, b.field("mixed", b.st("MixedPair")))
			steps = append(steps, b.step("mixedPairs", b.strm(b.st(dep+".Pair", b.st("Point"), b.st("int")))))
		}
	}
	if feat&c08cpEnums != 0 {
		perm := b.enum(ns, "Perm", nil, "r", "w")
		perm.IsFlags = true
		perm.Values[0].IntegerValue = *big.NewInt(1)
		perm.Values[1].IntegerValue = *big.NewInt(2)
		defs = append(defs, b.enum(ns, "Kind", nil, "a", "b"), perm)
		shape = append(shape, b.field("kind", b.st("Kind")), b.field("perm", b.st("Perm")))
		if dep != "" {
			shape = append(shape, b.field("innerKind", b.st(dep+".Kind")))
			steps = append(steps, b.step("perms", b.strm(b.st(dep+".Perm"))))
		}
	}
	if feat&c08cpUnions != 0 {
		defs = append(defs, b.alias(ns, "PointOrInt", nil, b.gt(nil, b.st("Point"), b.st("int"))))
		shape = append(shape, b.field("tag", b.st("PointOrInt")), b.field("either", b.gt(nil, b.st("string"), b.st("Point"))))
		if dep != "" {
			shape = append(shape, b.field("innerTag", b.st(dep+".PointOrInt")), b.field("which", b.gt(nil, b.st(dep+".Point"), b.st("int"))))
			steps = append(steps, b.step("tags", b.strm(b.gt(nil, b.st(dep+".Point"), b.st("float")))))
		}
	}
	if feat&c08cpUnions != 0 && feat&c08cpGenerics != 0 {
		// a closed alias of a generic whose type arguments are two DIFFERENT unions: the unions are nested in a named type
		// without being the named type
		defs = append(defs, b.alias(ns, "ChoicePair", nil, b.st("Pair", b.gt(nil, b.st("int"), b.st("float")), b.gt(nil, b.st("string"), b.st("bool")))))
		shape = append(shape, b.field("choice", b.st("ChoicePair")))
	}
	if feat&c08cpComputed != 0 {
		seg := b.record(ns, "Segment", nil, b.field("start", b.st("Point")), b.field("stop", b.st("Point")))
		seg.ComputedFields = dsl.ComputedFields{
			&dsl.ComputedField{NodeMeta: b.meta(), Name: "dx", Expression: &dsl.BinaryExpression{NodeMeta: b.meta(), Operator: dsl.BinaryOpSub,
				Left: c08cpMember(b, c08cpMember(b, nil, "stop"), "x"), Right: c08cpMember(b, c08cpMember(b, nil, "start"), "x")}},
			&dsl.ComputedField{NodeMeta: b.meta(), Name: "first", Expression: c08cpMember(b, nil, "start")},
		}
		defs = append(defs, seg)
		shape = append(shape, b.field("seg", b.st("Segment")))
	}
	shapeRec := b.record(ns, "Shape", nil, shape...)
	if feat&c08cpComputed != 0 {
		shapeRec.ComputedFields = dsl.ComputedFields{&dsl.ComputedField{NodeMeta: b.meta(), Name: "originX", Expression: c08cpMember(b, c08cpMember(b, nil, "origin"), "x")}}
		if dep != "" {
			shapeRec.ComputedFields = append(shapeRec.ComputedFields,
				&dsl.ComputedField{NodeMeta: b.meta(), Name: "innerOrigin", Expression: c08cpMember(b, c08cpMember(b, nil, "inner"), "origin")})
		}
	}
	defs = append(defs, shapeRec)
	n.TypeDefinitions = defs
	if top && hasProtocols {
		steps = append(steps, b.step("shapes", b.strm(b.st("Shape"))), b.step("last", b.opt(b.st("Point"))))
		n.Protocols = []*dsl.ProtocolDefinition{b.protocol(ns, "Flow", steps...)}
		if dep != "" {
			// a second protocol that only carries imported types
			n.Protocols = append(n.Protocols, b.protocol(ns, "Relay", b.step("shapes", b.strm(b.st(dep+".Shape")))))
		}
	}
	return n
}

// c08cpFamily: harness nondeterminism over the import shape, protocols and definition kinds.
//
//	level 0: no / all definition kinds; level >= 1: all 16 subsets of {generics, enums + flags, unions, computed fields}.
func c08cpFamily(level int) (all []*dsl.Namespace, shape int, hasProtocols bool, feat int) {
	shape = verifChoose("imports", 3) // 0: one namespace; 1: Top -> Base (types only); 2: Top -> Mid -> Base
	hasProtocols = verifChoose("top-has-protocols", 2) == 1
	if level >= 1 {
		feat = verifChoose("features", 16)
	} else {
		feat = []int{0, 15}[verifChoose("features", 2)]
	}
	switch shape {
	case 0:
		all = []*dsl.Namespace{c08cpNamespace(&mb{file: "top/top.yml"}, "Top", "", feat, true, hasProtocols)}
	case 1:
		base := c08cpNamespace(&mb{file: "base/base.yml"}, "Base", "", feat, false, false)
		top := c08cpNamespace(&mb{file: "top/top.yml"}, "Top", "Base", feat, true, hasProtocols)
		top.References = []*dsl.Namespace{base}
		all = []*dsl.Namespace{base, top}
	default:
		base := c08cpNamespace(&mb{file: "base/base.yml"}, "Base", "", feat, false, false)
		mid := c08cpNamespace(&mb{file: "mid/mid.yml"}, "Mid", "Base", feat, false, false)
		mid.References = []*dsl.Namespace{base}
		top := c08cpNamespace(&mb{file: "top/top.yml"}, "Top", "Mid", feat, true, hasProtocols)
		top.References = []*dsl.Namespace{mid}
		all = []*dsl.Namespace{base, mid, top}
	}
	return
}

// ---- reading emitted C++ back -----------------------------------------------------------------------------------

func c08cpIsIdent(c byte) bool {
	return c == '_' || (c >= 'a' && c <= 'z') || (c >= 'A' && c <= 'Z') || (c >= '0' && c <= '9')
}

// c08cpCleaner removes comments and the contents of string literals from C++ text, line by line (lines are kept).
type c08cpCleaner struct {
	inBlock bool
	rawEnd  string // terminator of a raw string literal that spans lines ("" = not inside one)
}

func (cl *c08cpCleaner) line(l string) string {
	out := ""
	for {
		if cl.inBlock {
			k := strings.Index(l, "*/")
			if k < 0 {
				return out
			}
			cl.inBlock = false
			l = l[k+2:]
		}
		if cl.rawEnd != "" {
			k := strings.Index(l, cl.rawEnd)
			if k < 0 {
				return out
			}
			l = l[k+len(cl.rawEnd):]
			cl.rawEnd = ""
		}
		at, which := -1, -1
		if strings.Contains(l, "\"") || strings.Contains(l, "/") {
			at, which = strings.Index(l, "\""), 0
			if k := strings.Index(l, "//"); k >= 0 && (at < 0 || k < at) {
				at, which = k, 1
			}
			if k := strings.Index(l, "/*"); k >= 0 && (at < 0 || k < at) {
				at, which = k, 2
			}
			if at < 0 {
				which = -1
			}
		}
		switch which {
		case -1:
			return out + l
		case 1:
			return out + l[:at]
		case 2:
			out += l[:at] + " "
			l = l[at+2:]
			cl.inBlock = true
		case 0:
			if at > 0 && at+1 < len(l) && l[at-1] == '\'' && l[at+1] == '\'' { // the character literal '"'
				out += l[:at-1] + "0"
				l = l[at+2:]
				continue
			}
			if at > 0 && l[at-1] == 'R' && (at < 2 || !c08cpIsIdent(l[at-2])) { // R"delim( ... )delim"
				open := strings.Index(l[at:], "(")
				if open < 0 {
					return out + l[:at-1] + "\"\""
				}
				out += l[:at-1] + "\"\""
				cl.rawEnd = ")" + l[at+1:at+open] + "\""
				l = l[at+open+1:]
				continue
			}
			out += l[:at] + "\"\""
			rest := l[at+1:]
			for { // closing quote: not preceded by an odd number of backslashes
				k := strings.Index(rest, "\"")
				if k < 0 {
					return out
				}
				nb := 0
				for j := k - 1; j >= 0 && rest[j] == '\\'; j-- {
					nb++
				}
				rest = rest[k+1:]
				if nb%2 == 0 {
					break
				}
			}
			l = rest
		}
	}
}

type c08cpInc struct {
	line   int
	raw    string // the text between the quotes
	target string // path below the output directory, relative to the including file's directory, cleaned
}

type c08cpPos struct {
	file string
	line int
}

type c08cpDecl struct {
	key  string // "ns::path::Name"
	line int
}

// c08cpFile: what one file of the output tree says (paths are relative to the output directory).
type c08cpFile struct {
	rel    string
	text   string
	static bool   // copied from the shipped include tree
	format string // "ndjson" / "hdf5" / "" (from the directory components)
	incs   []c08cpInc
	angle  []string
	// generated C++ files only (scan):
	heads   string         // the model namespaces the scan looked for (joined)
	nsPaths []string       // every namespace path opened ("top", "top::binary")
	topIds  []string       // namespaces opened at file level, in order
	types   []c08cpDecl    // type declarations at namespace scope (struct / class / enum / using)
	others  []c08cpDecl    // function-like declarations at namespace scope
	uses    map[string]int // qualified chain starting with a model namespace -> first line using it
}

func c08cpFormat(rel string) string {
	parts := strings.Split(rel, "/")
	for _, p := range parts[:len(parts)-1] {
		if p == "ndjson" || p == "hdf5" {
			return p
		}
	}
	return ""
}

// c08cpReadFile: the include directives (quoted and angle form) of one file.
func c08cpReadFile(rel, text string, static bool) *c08cpFile {
	f := &c08cpFile{rel: rel, text: text, static: static, format: c08cpFormat(rel)}
	dir := path.Dir(rel)
	// directives: a `#` first on its line (outside block comments) followed by `include`
	off := 0
	for {
		k := strings.Index(text[off:], "include")
		if k < 0 {
			break
		}
		at := off + k
		off = at + len("include")
		ls := strings.LastIndex(text[:at], "\n") + 1
		if strings.TrimSpace(text[ls:at]) != "#" {
			continue
		}
		if strings.LastIndex(text[:ls], "/*") > strings.LastIndex(text[:ls], "*/") {
			continue // inside a block comment
		}
		le := strings.Index(text[off:], "\n")
		d := text[off:]
		if le >= 0 {
			d = text[off : off+le]
		}
		d = strings.TrimSpace(d)
		line := strings.Count(text[:ls], "\n")
		switch {
		case strings.HasPrefix(d, "\""):
			if q := strings.Index(d[1:], "\""); q >= 0 {
				raw := d[1 : 1+q]
				f.incs = append(f.incs, c08cpInc{line: line, raw: raw, target: path.Join(dir, raw)})
			}
		case strings.HasPrefix(d, "<"):
			if q := strings.Index(d, ">"); q >= 0 {
				f.angle = append(f.angle, d[1:q])
			}
		}
	}
	return f
}

// c08cpShipped: the files of the shipped include tree, listed from the real embedded file systems of the tree under test
// (relative to the `yardl` directory of the output), with the format each belongs to.
func c08cpShipped() (files []string, arrayHeaders map[string]bool) {
	arrayHeaders = map[string]bool{}
	var walk func(fsName string, dir string)
	walk = func(fsName string, dir string) {
		var entries []interface {
			Name() string
			IsDir() bool
		}
		switch fsName {
		case "binary":
			es, _ := cppinclude.DetailBinaryHeaders.ReadDir(dir)
			for _, e := range es {
				entries = append(entries, e)
			}
		case "hdf5":
			es, _ := cppinclude.DetailHDF5Headers.ReadDir(dir)
			for _, e := range es {
				entries = append(entries, e)
			}
		case "ndarray":
			es, _ := cppinclude.DetailArrayHeaders.ReadDir(dir)
			for _, e := range es {
				entries = append(entries, e)
			}
		case "ndjson":
			es, _ := cppinclude.DetailNdJsonHeaders.ReadDir(dir)
			for _, e := range es {
				entries = append(entries, e)
			}
		}
		for _, e := range entries {
			p := e.Name()
			if dir != "." {
				p = dir + "/" + e.Name()
			}
			if e.IsDir() {
				walk(fsName, p)
			} else {
				files = append(files, p)
				if fsName == "ndarray" {
					arrayHeaders[p] = true
				}
			}
		}
	}
	for _, n := range []string{"binary", "hdf5", "ndarray", "ndjson"} {
		walk(n, ".")
	}
	sort.Strings(files)
	return
}

// ---- CMake ---------------------------------------------------------------------------------------------------------

type c08cpCMake struct {
	vars       map[string][]string
	targets    map[string][]string // library target -> sources
	links      map[string][]string // target -> libraries
	features   map[string][]string
	packages   []string
	understood bool
}

// c08cpRunCMake gives the script its meaning with every option at its declared default.
func c08cpRunCMake(text string) *c08cpCMake {
	cm := &c08cpCMake{vars: map[string][]string{}, targets: map[string][]string{}, links: map[string][]string{}, features: map[string][]string{}, understood: true}
	var src []string
	for _, l := range strings.Split(text, "\n") {
		if k := strings.Index(l, "#"); k >= 0 {
			l = l[:k]
		}
		src = append(src, l)
	}
	toks := verifTokens(strings.Join(src, "\n"))
	// commands: NAME ( args ) ; arguments: words, quoted strings (split into words, harmless) and ${VAR}
	type cmd struct {
		name string
		args []string
	}
	var cmds []cmd
	for i := 0; i < len(toks); {
		if i+1 >= len(toks) || toks[i+1] != "(" {
			cm.understood = false
			return cm
		}
		c := cmd{name: strings.ToLower(toks[i])}
		i += 2
		for i < len(toks) && toks[i] != ")" {
			if toks[i] == "(" {
				cm.understood = false // nested parentheses (compound conditions) are not modelled
				return cm
			}
			if strings.HasSuffix(toks[i], "$") && i+3 < len(toks) && toks[i+1] == "{" && toks[i+3] == "}" {
				if toks[i] != "$" {
					cm.understood = false // a variable reference glued to other text
					return cm
				}
				c.args = append(c.args, "${"+toks[i+2]+"}")
				i += 4
				continue
			}
			c.args = append(c.args, toks[i])
			i++
		}
		if i >= len(toks) {
			cm.understood = false
			return cm
		}
		i++
		cmds = append(cmds, c)
	}
	expand := func(args []string) []string {
		var out []string
		for _, a := range args {
			if strings.HasPrefix(a, "${") {
				out = append(out, cm.vars[a[2:len(a)-1]]...)
			} else {
				out = append(out, a)
			}
		}
		return out
	}
	truthy := func(v []string) bool {
		if len(v) != 1 {
			return len(v) > 1
		}
		switch strings.ToUpper(v[0]) {
		case "", "0", "OFF", "NO", "FALSE", "N", "IGNORE", "NOTFOUND":
			return false
		}
		return !strings.HasSuffix(strings.ToUpper(v[0]), "-NOTFOUND")
	}
	skipDepth := 0 // > 0: inside a false if-block
	for _, c := range cmds {
		if skipDepth > 0 {
			switch c.name {
			case "if":
				skipDepth++
			case "endif":
				skipDepth--
			case "else", "elseif":
				cm.understood = false
			}
			continue
		}
		switch c.name {
		case "set":
			if len(c.args) >= 1 {
				cm.vars[c.args[0]] = expand(c.args[1:])
			}
		case "option":
			if len(c.args) >= 1 {
				if _, set := cm.vars[c.args[0]]; !set {
					cm.vars[c.args[0]] = []string{c.args[len(c.args)-1]}
				}
			}
		case "list":
			if len(c.args) >= 2 && c.args[0] == "APPEND" {
				cm.vars[c.args[1]] = append(cm.vars[c.args[1]], expand(c.args[2:])...)
			} else {
				cm.understood = false
			}
		case "if":
			if len(c.args) != 1 || strings.HasPrefix(c.args[0], "${") {
				cm.understood = false
				return cm
			}
			if !truthy(cm.vars[c.args[0]]) {
				skipDepth = 1
			}
		case "endif":
		case "else", "elseif", "foreach", "endforeach", "while", "endwhile", "function", "endfunction", "macro", "endmacro", "include", "add_subdirectory":
			cm.understood = false
		case "find_package":
			if len(c.args) >= 1 {
				cm.packages = append(cm.packages, c.args[0])
			}
		case "add_library":
			args := expand(c.args)
			if len(args) >= 1 {
				var srcs []string
				for _, a := range args[1:] {
					switch a {
					case "OBJECT", "STATIC", "SHARED", "MODULE", "INTERFACE", "EXCLUDE_FROM_ALL":
					default:
						srcs = append(srcs, a)
					}
				}
				cm.targets[args[0]] = srcs
			}
		case "target_sources":
			args := expand(c.args)
			if len(args) >= 1 {
				for _, a := range args[1:] {
					if a != "PUBLIC" && a != "PRIVATE" && a != "INTERFACE" {
						cm.targets[args[0]] = append(cm.targets[args[0]], a)
					}
				}
			}
		case "target_link_libraries":
			args := expand(c.args)
			if len(args) >= 1 {
				for _, a := range args[1:] {
					if a != "PUBLIC" && a != "PRIVATE" && a != "INTERFACE" {
						cm.links[args[0]] = append(cm.links[args[0]], a)
					}
				}
			}
		case "target_compile_features":
			args := expand(c.args)
			if len(args) >= 1 {
				cm.features[args[0]] = append(cm.features[args[0]], args[1:]...)
			}
		}
	}
	if skipDepth != 0 {
		cm.understood = false
	}
	return cm
}

// c08cpLibraryFormat: the output format a third-party name (library, package, header) belongs to; "" = needed always.
func c08cpLibraryFormat(name string) string {
	n := strings.ToLower(name)
	switch {
	case strings.Contains(n, "hdf5") || strings.HasPrefix(n, "h5"):
		return "hdf5"
	case strings.Contains(n, "json"):
		return "ndjson"
	}
	return ""
}

// ---- declarations and qualified uses ------------------------------------------------------------------------------

// c08cpSkipPrefix: index of the first token after template<...>, [[attributes]] and declaration specifiers.
func c08cpSkipPrefix(toks []string) int {
	k := 0
	for k < len(toks) {
		switch toks[k] {
		case "template":
			k++
			if k < len(toks) && toks[k] == "<" {
				depth := 0
				for k < len(toks) {
					if toks[k] == "<" {
						depth++
					} else if toks[k] == ">" {
						depth--
						if depth == 0 {
							k++
							break
						}
					}
					k++
				}
			}
		case "[":
			if k+1 < len(toks) && toks[k+1] == "[" { // [[attribute]]
				k += 2
				for k < len(toks) && !(toks[k] == "]" && k+1 < len(toks) && toks[k+1] == "]") {
					k++
				}
				k += 2
			} else {
				return k
			}
		case "inline", "static", "constexpr", "extern", "typedef", "friend", "virtual", "explicit":
			k++
		default:
			return k
		}
	}
	return k
}

// scan reads namespace blocks, declarations at namespace scope and qualified uses of one generated file.
func (f *c08cpFile) scan(heads []string) {
	type open struct {
		path  string
		depth int
	}
	var stack []open
	depth := 0
	cur := ""
	f.heads = strings.Join(heads, " ")
	f.nsPaths, f.topIds, f.types, f.others = nil, nil, nil, nil
	f.uses = map[string]int{}
	seenNs := map[string]bool{}
	cl := &c08cpCleaner{}
	for i, l := range strings.Split(f.text, "\n") {
		t := strings.TrimSpace(cl.line(l))
		if t == "" || strings.HasPrefix(t, "#") {
			continue
		}
		opened := false
		if depth == len(stack) { // namespace scope
			if strings.HasPrefix(t, "namespace ") || strings.HasPrefix(t, "namespace{") || strings.HasPrefix(t, "inline namespace ") {
				rest := strings.TrimSpace(strings.TrimPrefix(strings.TrimPrefix(t, "inline "), "namespace"))
				if k := strings.Index(rest, "{"); k >= 0 {
					name := strings.TrimSpace(rest[:k])
					p := cur
					if name != "" {
						for _, part := range strings.Split(name, "::") {
							if p == "" {
								p = part
							} else {
								p = p + "::" + part
							}
							if !seenNs[p] {
								seenNs[p] = true
								f.nsPaths = append(f.nsPaths, p)
							}
						}
						if len(stack) == 0 {
							f.topIds = append(f.topIds, name)
						}
					}
					stack = append(stack, open{p, depth})
					cur = p
					opened = true
				}
			} else if strings.Contains(t, "(") || strings.HasPrefix(t, "struct ") || strings.HasPrefix(t, "class ") || strings.HasPrefix(t, "enum ") ||
				strings.HasPrefix(t, "using ") || strings.HasPrefix(t, "template") || strings.HasPrefix(t, "[[") || strings.HasPrefix(t, "union ") ||
				strings.HasPrefix(t, "inline ") || strings.HasPrefix(t, "static ") || strings.HasPrefix(t, "constexpr ") || strings.HasPrefix(t, "typedef ") {
				toks := verifTokens(t)
				k := c08cpSkipPrefix(toks)
				if k < len(toks) {
					name := ""
					switch toks[k] {
					case "struct", "class", "union":
						if k+1 < len(toks) {
							name = toks[k+1]
						}
					case "enum":
						k++
						if k < len(toks) && (toks[k] == "class" || toks[k] == "struct") {
							k++
						}
						if k < len(toks) {
							name = toks[k]
						}
					case "using":
						if k+2 < len(toks) && toks[k+1] != "namespace" && toks[k+2] == "=" {
							name = toks[k+1]
						}
					}
					name = strings.TrimSuffix(name, ":")
					if name != "" && c08cpIsIdent(name[0]) && !strings.Contains(name, "::") {
						key := name
						if cur != "" {
							key = cur + "::" + name
						}
						f.types = append(f.types, c08cpDecl{key, i})
					} else if name == "" {
						for j := 1; j < len(toks); j++ {
							if toks[j] == "(" && c08cpIsIdent(toks[j-1][0]) && !strings.Contains(toks[j-1], "::") {
								key := toks[j-1]
								if cur != "" {
									key = cur + "::" + key
								}
								f.others = append(f.others, c08cpDecl{key, i})
								break
							}
						}
					}
				}
			}
		}
		if strings.Contains(t, "::") && !(opened && strings.HasPrefix(t, "namespace ")) {
			named := false
			for _, h := range heads {
				if strings.Contains(t, h+"::") {
					named = true
				}
			}
			if named {
				for _, tok := range verifTokens(t) {
					for _, h := range heads {
						if !strings.HasPrefix(tok, h+"::") {
							continue
						}
						// the chain ends at the first character that is neither part of an identifier nor of `::`
						chain := tok
						for _, stop := range []string{".", "-", "/", "?", "%", "^", "~", "'", "\""} {
							if k := strings.Index(chain, stop); k >= 0 {
								chain = chain[:k]
							}
						}
						chain = strings.TrimSuffix(chain, ":")
						if strings.HasSuffix(chain, ":") || strings.Contains(chain, ":::") {
							continue
						}
						if _, seen := f.uses[chain]; !seen {
							f.uses[chain] = i
						}
					}
				}
			}
		}
		depth += strings.Count(t, "{") - strings.Count(t, "}")
		for len(stack) > 0 && depth <= stack[len(stack)-1].depth {
			stack = stack[:len(stack)-1]
			cur = ""
			if len(stack) > 0 {
				cur = stack[len(stack)-1].path
			}
		}
	}
}

// ---- one generation run and its obligations ----------------------------------------------------------------------

type c08cpRun struct {
	files map[string]*c08cpFile // by path below the output directory
	order []string
}

// c08cpCheckRun generates into /out/<tag> and checks the tree.  prev: an earlier run of the same environment; what a file
// says is a function of its text, so the reading of a file whose text is unchanged is reused.
func c08cpCheckRun(tag string, env *dsl.Environment, opts packaging.CppCodegenOptions, shipped []string, prev *c08cpRun) *c08cpRun {
	vout := "/out/" + tag // virtual name of the output directory (natively below a scratch directory)
	var gerr error
	msg, panicked := verifPanics(func() { gerr = cpp.Generate(env, opts) })
	verifOut("panic", msg)
	verifAssert("generation-does-not-panic", !panicked)
	verifAssert("generation-succeeds", gerr == nil)
	if panicked || gerr != nil {
		if gerr != nil {
			verifOut("error", gerr.Error())
		}
		return nil
	}
	enabled := map[string]bool{"": true, "ndjson": opts.GenerateNDJson, "hdf5": opts.GenerateHDF5}
	isShipped := map[string]bool{}
	for _, s := range shipped {
		isShipped["yardl/"+s] = true
	}
	run := &c08cpRun{files: map[string]*c08cpFile{}}
	for _, p := range verifFsList() {
		if !strings.HasPrefix(p, vout+"/") {
			continue
		}
		rel := strings.TrimPrefix(p, vout+"/")
		text, _ := verifFsGet(p)
		if prev != nil && prev.files[rel] != nil && prev.files[rel].text == text {
			run.files[rel] = prev.files[rel]
		} else if strings.HasSuffix(rel, ".h") || strings.HasSuffix(rel, ".cc") {
			run.files[rel] = c08cpReadFile(rel, text, isShipped[rel])
		} else {
			run.files[rel] = &c08cpFile{rel: rel, text: text, format: c08cpFormat(rel)}
		}
		run.order = append(run.order, rel)
	}
	sort.Strings(run.order)
	has := func(rel string) bool { return run.files[rel] != nil }

	// the shipped include tree: always the binary and array headers, a format's headers iff the format is enabled
	for _, s := range shipped {
		fm := c08cpFormat("yardl/" + s)
		if has("yardl/"+s) != enabled[fm] {
			verifOut("shipped-header", s)
		}
		verifAssert("shipped-headers-copied-iff-format-enabled", has("yardl/"+s) == enabled[fm])
	}
	// format-specific files exist iff the format is enabled
	for _, fm := range []string{"ndjson", "hdf5"} {
		nh, ncc := 0, 0
		for _, rel := range run.order {
			f := run.files[rel]
			if f.format != fm {
				continue
			}
			if !f.static {
				if strings.HasSuffix(rel, ".h") {
					nh++
				} else if strings.HasSuffix(rel, ".cc") {
					ncc++
				}
			}
			if !enabled[fm] {
				verifOut("file-of-disabled-format", rel)
			}
			verifAssert("no-file-of-a-disabled-format", enabled[fm])
		}
		verifAssert("format-files-written-iff-enabled", (nh > 0 && ncc > 0) == enabled[fm])
	}
	verifAssert("core-files-written", has("types.h") && has("types.cc") && has("protocols.h") && has("protocols.cc") &&
		has("binary/protocols.h") && has("binary/protocols.cc") && has("yardl/yardl.h"))

	// includes: quoted ones resolve inside the output tree; nothing of a disabled format is included
	ninc := 0
	for _, rel := range run.order {
		f := run.files[rel]
		for _, inc := range f.incs {
			ninc++
			if opts.OverrideArrayHeader != "" && inc.raw == opts.OverrideArrayHeader {
				continue // supplied by the user (docs/cpp/arrays.md)
			}
			if !has(inc.target) {
				verifOut("unresolved-include", rel+" -> "+inc.raw)
			}
			verifAssert("quoted-include-resolves", has(inc.target))
			tf := c08cpFormat(inc.target)
			if !enabled[tf] {
				verifOut("include-of-disabled-format", rel+" -> "+inc.raw)
			}
			verifAssert("no-include-of-a-disabled-format", enabled[tf])
		}
		for _, a := range f.angle {
			lf := c08cpLibraryFormat(a)
			if !enabled[lf] {
				verifOut("third-party-header-of-disabled-format", rel+" -> <"+a+">")
			}
			verifAssert("no-third-party-header-of-a-disabled-format", enabled[lf])
		}
	}
	verifOut(tag+"-files", len(run.order))
	verifOut(tag+"-includes", ninc)

	// CMakeLists.txt
	cmf := run.files["CMakeLists.txt"]
	verifAssert("cmake-written-iff-enabled", (cmf != nil) == opts.GenerateCMakeLists)
	if cmf != nil {
		cm := c08cpRunCMake(cmf.text)
		verifAssert("cmake-script-understood", cm.understood)
		if cm.understood {
			listed := map[string]int{}
			var names []string
			for _, srcs := range cm.targets {
				for _, s := range srcs {
					s = path.Join(".", s)
					if listed[s] == 0 {
						names = append(names, s)
					}
					listed[s]++
				}
			}
			sort.Strings(names)
			for _, s := range names {
				if !has(s) || listed[s] != 1 {
					verifOut("cmake-source-missing-or-repeated", s)
				}
				verifAssert("cmake-sources-exist", has(s))
				verifAssert("cmake-sources-listed-once", listed[s] == 1)
			}
			for _, rel := range run.order {
				if strings.HasSuffix(rel, ".cc") {
					if listed[rel] == 0 {
						verifOut("cmake-omits-source", rel)
					}
					verifAssert("cmake-lists-every-generated-source", listed[rel] > 0)
				}
			}
			verifAssert("cmake-defines-a-library", len(cm.targets) > 0)
			tnames := make([]string, 0, len(cm.targets))
			for tname := range cm.targets {
				tnames = append(tnames, tname)
			}
			sort.Strings(tnames)
			for _, tname := range tnames {
				linked := map[string]bool{}
				for _, lib := range cm.links[tname] {
					linked[c08cpLibraryFormat(lib)] = true
				}
				for _, fm := range []string{"ndjson", "hdf5"} {
					verifAssert("cmake-links-format-library-iff-enabled", linked[fm] == enabled[fm])
				}
				std := false
				for _, ft := range cm.features[tname] {
					if ft == "cxx_std_17" || ft == "cxx_std_20" || ft == "cxx_std_23" {
						std = true
					}
				}
				if v := cm.vars["CMAKE_CXX_STANDARD"]; len(v) == 1 && (v[0] == "17" || v[0] == "20" || v[0] == "23") {
					std = true
				}
				verifAssert("cmake-requires-cxx17", std)
			}
			found := map[string]bool{}
			for _, p := range cm.packages {
				found[c08cpLibraryFormat(p)] = true
			}
			for _, fm := range []string{"ndjson", "hdf5"} {
				verifAssert("cmake-finds-format-package-iff-enabled", found[fm] == enabled[fm])
			}
		}
	}

	// declarations visible where qualified names are used.  The model's namespaces are the file-level namespace blocks of
	// types.h (one per namespace of the environment).
	th := run.files["types.h"]
	if th == nil {
		return run
	}
	if th.uses == nil {
		th.scan(nil)
	}
	heads := th.topIds
	verifAssert("one-cpp-namespace-per-model-namespace", len(heads) == len(env.Namespaces))
	hk := strings.Join(heads, " ")
	nsPaths := map[string]bool{}
	types := map[string][]c08cpPos{}
	others := map[string][]c08cpPos{}
	for _, rel := range run.order {
		f := run.files[rel]
		if f.static || !(strings.HasSuffix(rel, ".h") || strings.HasSuffix(rel, ".cc")) {
			continue
		}
		if f.uses == nil || f.heads != hk {
			f.scan(heads)
		}
		for _, p := range f.nsPaths {
			nsPaths[p] = true
		}
		for _, d := range f.types {
			types[d.key] = append(types[d.key], c08cpPos{rel, d.line})
		}
		for _, d := range f.others {
			others[d.key] = append(others[d.key], c08cpPos{rel, d.line})
		}
	}
	// transitive include closure (files of the output tree)
	closure := map[string]map[string]bool{}
	var reach func(rel string) map[string]bool
	reach = func(rel string) map[string]bool {
		if c, ok := closure[rel]; ok {
			return c
		}
		c := map[string]bool{rel: true}
		closure[rel] = c
		if f := run.files[rel]; f != nil {
			for _, inc := range f.incs {
				if run.files[inc.target] != nil {
					for q := range reach(inc.target) {
						c[q] = true
					}
				}
			}
		}
		return c
	}
	visible := func(f *c08cpFile, line int, decls []c08cpPos) bool {
		for _, dp := range decls {
			if dp.file == f.rel && dp.line <= line {
				return true
			}
		}
		for _, inc := range f.incs {
			if inc.line >= line || run.files[inc.target] == nil {
				continue
			}
			r := reach(inc.target)
			for _, dp := range decls {
				if r[dp.file] {
					return true
				}
			}
		}
		return false
	}
	nuses := 0
	for _, rel := range run.order {
		f := run.files[rel]
		if f.static || f.uses == nil {
			continue
		}
		var chains []string
		for c := range f.uses {
			chains = append(chains, c)
		}
		sort.Strings(chains)
		for _, chain := range chains {
			parts := strings.Split(chain, "::")
			p := parts[0]
			k := 1
			for k < len(parts) && nsPaths[p+"::"+parts[k]] {
				p = p + "::" + parts[k]
				k++
			}
			if k == len(parts) {
				continue // names a namespace
			}
			key := p + "::" + parts[k]
			decls := types[key]
			if len(decls) == 0 && k == 1 {
				decls = others[key] // directly in a model namespace: anything declared there
				if len(decls) == 0 {
					verifOut("undeclared-name", rel+": "+chain)
					verifAssert("qualified-name-is-declared", false)
					continue
				}
			}
			if len(decls) == 0 {
				continue // a function of a nested namespace (declared by the serializer writers in the same translation unit)
			}
			nuses++
			ok := visible(f, f.uses[chain], decls)
			if !ok {
				verifOut("used-before-declared", rel+": "+chain)
			}
			verifAssert("declaration-visible-where-named", ok)
		}
	}
	verifOut(tag+"-qualified-names", nuses)
	verifAssert("qualified-names-found", nuses > 0)
	return run
}

func C08CppPackage(level int) {
	all, _, _, _ := c08cpFamily(level)
	env, err := dsl.Validate(all)
	verifAssert("model-validates", err == nil)
	if err != nil {
		verifOut("err", err.Error())
		return
	}
	shipped, arrayHeaders := c08cpShipped()
	verifAssert("shipped-include-tree-listed", len(shipped) > 0 && len(arrayHeaders) > 0)
	override := "external/my-array-impl.h" // docs/cpp/arrays.md
	if level >= 1 && verifChoose("override-spelling", 2) == 1 {
		override = "my_arrays.hpp"
	}
	opts := packaging.CppCodegenOptions{SourcesOutputDir: verifPath("/out/a"), PackageInfo: &packaging.PackageInfo{Namespace: "Top"},
		GenerateNDJson: verifBool("generate-ndjson"), GenerateHDF5: verifBool("generate-hdf5"), GenerateCMakeLists: verifBool("generate-cmake")}
	runA := c08cpCheckRun("a", env, opts, shipped, nil)
	if runA == nil {
		return
	}
	optsB := opts
	optsB.SourcesOutputDir = verifPath("/out/b")
	optsB.OverrideArrayHeader = override
	runB := c08cpCheckRun("b", env, optsB, shipped, runA)
	if runB == nil {
		return
	}
	// the override header stands exactly where an include reaches a shipped array header by default
	verifAssert("override-run-writes-the-same-files", strings.Join(runA.order, " ") == strings.Join(runB.order, " "))
	nDefault := 0
	for _, rel := range runA.order {
		fa, fb := runA.files[rel], runB.files[rel]
		if fb == nil || fa.static {
			continue
		}
		same := len(fa.incs) == len(fb.incs)
		for k := 0; same && k < len(fa.incs); k++ {
			ia, ib := fa.incs[k], fb.incs[k]
			if strings.HasPrefix(ia.target, "yardl/") && arrayHeaders[strings.TrimPrefix(ia.target, "yardl/")] {
				nDefault++
				if ib.raw != override {
					verifOut("default-array-header-not-replaced", rel+": "+ib.raw)
				}
				verifAssert("override-header-replaces-default", ib.raw == override)
			} else if ia.raw != ib.raw {
				same = false
			}
		}
		if !same {
			verifOut("include-structure-differs", rel)
		}
		verifAssert("override-changes-no-other-include", same)
		for _, ib := range fb.incs {
			verifAssert("default-array-header-not-included-under-override", !(strings.HasPrefix(ib.target, "yardl/") && arrayHeaders[strings.TrimPrefix(ib.target, "yardl/")]))
		}
	}
	verifAssert("default-array-header-included-somewhere", nDefault > 0)
	verifReach("c08-cpp-package-end")
}
