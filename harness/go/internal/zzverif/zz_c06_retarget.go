package zzverif

// C06: the verdict on a step depends on what its type denotes, not on which named definition carries the structure.
//
// Previous version: record R {a: P, b: string}, alias A = R, protocol step s: A.
// Latest version:   R is kept (unchanged, or changed compatibly by an added optional field - symbolic), a new record R2 holds
//                   the structure with a: Q instead of a: P, and the alias is RETARGETED: A = R2.  R and R2 are declared in a
//                   symbolic order.  P, Q are symbolic primitives.
// Twin pair:        the same change made in place: R {a: P} -> R {a: Q}, step s: R.
// The step's values are R-structures before and R2-structures after, so the change the step undergoes is exactly the twin's.
// Obligation: the real ValidateEvolution gives the retargeted pair the verdict class (error / warning / silent) of the twin pair,
// whatever the declaration order and whatever happened to the record the alias used to name.

import (
	"github.com/microsoft/yardl/tooling/pkg/dsl"
)

func c06tClass(oldNs, newNs *dsl.Namespace) int {
	oldEnv, errOld := dsl.Validate([]*dsl.Namespace{oldNs})
	newEnv, errNew := dsl.Validate([]*dsl.Namespace{newNs})
	if errOld != nil || errNew != nil {
		return -1
	}
	var warnings []string
	var err error
	_, panicked := verifPanics(func() { _, warnings, err = dsl.ValidateEvolution(newEnv, []*dsl.Environment{oldEnv}, []string{"v0"}) })
	switch {
	case panicked:
		return -2
	case err != nil:
		return 2
	case len(warnings) > 0:
		return 1
	}
	return 0
}

func c06tRecord(b *mb, name, p string, extra bool) *dsl.RecordDefinition {
	fs := []*dsl.Field{b.field("a", b.st(p)), b.field("b", b.st("string"))}
	if extra {
		fs = append(fs, b.field("note", b.opt(b.st("string"))))
	}
	return b.record("Ns", name, nil, fs...)
}

func c06tNs(file string, defs dsl.TypeDefinitions, stepType string) *dsl.Namespace {
	b := &mb{file: file}
	return &dsl.Namespace{Name: "Ns", IsTopLevel: true, TypeDefinitions: defs,
		Protocols: []*dsl.ProtocolDefinition{b.protocol("Ns", "P", b.step("n", b.st("int")), b.step("s", b.strm(b.st(stepType))))}}
}

// C06Retarget(nprims)
func C06Retarget(nprims int) {
	p := verifOneOf("from", c06wPrims[:nprims]...)
	q := verifOneOf("to", c06wPrims[:nprims]...)
	r2First := verifChoose("new-record-declared-first", 2) == 1
	oldAlsoChanged := verifChoose("previous-target-gains-an-optional-field", 2) == 1
	verifOut("from", p)
	verifOut("to", q)
	verifOut("retarget-previous-target-also-changed", oldAlsoChanged)
	bo := &mb{file: "v0/model.yml"}
	oldNs := c06tNs("v0/model.yml", dsl.TypeDefinitions{c06tRecord(bo, "R", p, false), bo.alias("Ns", "A", nil, bo.st("R"))}, "A")
	bn := &mb{file: "model.yml"}
	r := c06tRecord(bn, "R", p, oldAlsoChanged)
	r2 := c06tRecord(bn, "R2", q, false)
	a := bn.alias("Ns", "A", nil, bn.st("R2"))
	defs := dsl.TypeDefinitions{r, r2, a}
	if r2First {
		defs = dsl.TypeDefinitions{r2, r, a}
	}
	newNs := c06tNs("model.yml", defs, "A")
	bt0, bt1 := &mb{file: "v0/model.yml"}, &mb{file: "model.yml"}
	twinOld := c06tNs("v0/model.yml", dsl.TypeDefinitions{c06tRecord(bt0, "R", p, false)}, "R")
	twinNew := c06tNs("model.yml", dsl.TypeDefinitions{c06tRecord(bt1, "R", q, false)}, "R")
	want := c06tClass(twinOld, twinNew)
	got := c06tClass(oldNs, newNs)
	verifOut("twin-class", want)
	verifOut("retargeted-class", got)
	verifAssert("models-validate-and-verdict-without-panic", want >= 0 && got >= 0)
	if want < 0 || got < 0 {
		return
	}
	verifAssert("retargeted-alias-has-the-class-of-the-change-made-in-place", got == want)
	verifReach("c06t-end")
}
