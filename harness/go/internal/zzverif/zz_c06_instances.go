package zzverif

// C06 (instantiations): the verdict class of an edit of a record must not depend on HOW the protocol reaches
// the edited record: directly, through one of several instantiations of the same local generic (in an earlier or
// a later step than another instantiation), through a closed alias of an instantiation, a generic alias, a generic
// nested in a generic, as a field of a record that is itself a type argument, inside a stream, or together with
// another instantiation inside one step - nor on how many other steps changed and where they sit.
//
// Model: records Alpha and Beta (distinct field names), generics Box<T>, Outer<T> {inner: Box<T>}, Duo<T, U>
// {x: Box<T>, y: Box<U>}, aliases; protocol P with k steps, each step = (reach shape, target record), optionally
// one more step whose primitive type changes.  Every record reached by some step is edited independently
// (none / compatible / partially compatible / breaking); both versions use the same step types, only the
// record definitions differ.  Oracle (docs/cpp/evolution.md): error iff some reached record has a breaking edit;
// otherwise accepted, with "a warning for each" partially compatible change (the warning names the field), and
// silent iff nothing partially compatible changed.

import (
	"fmt"
	"strings"

	"github.com/microsoft/yardl/tooling/pkg/dsl"
)

const (
	c06iDirect    = iota // step: R
	c06iBox              // step: Box<R>
	c06iBoxAlias         // RBox: Box<R>;                      step: RBox
	c06iNested           // Outer<T>: {inner: Box<T>};         step: Outer<R>
	c06iHeld             // HoldR: {h: R};                     step: Box<HoldR>
	c06iGenAlias         // BoxA<T>: Box<T>;                   step: BoxA<R>
	c06iStreamBox        // step: !stream {items: Box<R>}
	c06iDuo              // Duo<T, U>: {x: Box<T>, y: Box<U>}; step: Duo<Other, R>   (reaches both records)
	c06iOptBox           // step: Box<R>?
	c06iBoxOfBox         // step: Box<Box<R>>
	nC06iShapes
)

var c06iShapeNames = []string{"direct", "box", "alias-of-instantiation", "generic-nested-in-generic", "field-of-record-argument", "generic-alias",
	"stream-of-instantiation", "two-instantiations-in-one-record", "optional-instantiation", "instantiation-of-instantiation"}

const (
	c06iNone = iota
	c06iAddOptional
	c06iNumberToNumber
	c06iFieldIncompatible
	c06iAddRequired
	c06iReorder
	c06iScalarToVector
	c06iRemoveRequired
	c06iMakeOptional
	nC06iEdits
)

var c06iEditNames = []string{"none", "add-optional-field", "number-to-number", "field-type-incompatible", "add-required-field", "reorder-fields",
	"scalar-to-vector", "remove-required-field", "make-field-optional"}

// the order in which the harness arguments nEdits / nOther widen the edit vocabulary
var c06iMainEdits = []int{c06iFieldIncompatible, c06iAddRequired, c06iAddOptional, c06iNumberToNumber, c06iNone, c06iScalarToVector, c06iReorder, c06iRemoveRequired, c06iMakeOptional}
var c06iOtherEdits = []int{c06iAddOptional, c06iNone, c06iNumberToNumber, c06iFieldIncompatible}

func c06iClass(e int) string {
	switch e {
	case c06iNone, c06iAddOptional, c06iReorder:
		return "silent"
	case c06iFieldIncompatible, c06iScalarToVector:
		return "error"
	}
	return "warning"
}

// c06iWarnedName: the field a partially compatible edit's warning must name.
func c06iWarnedName(prefix string, e int) string {
	switch e {
	case c06iNumberToNumber:
		return prefix + "N"
	case c06iAddRequired:
		return prefix + "Extra"
	case c06iRemoveRequired:
		return prefix + "W"
	case c06iMakeOptional:
		return prefix + "S"
	}
	return ""
}

var c06iRecords = []string{"Alpha", "Beta"}
var c06iPrefixes = []string{"a", "b"}

func c06iRecord(b *mb, ns string, r int, e int) *dsl.RecordDefinition {
	p := c06iPrefixes[r]
	nT := "int32"
	if e == c06iNumberToNumber {
		nT = "int64"
	}
	var sT dsl.Type = b.st("string")
	switch e {
	case c06iFieldIncompatible:
		sT = b.st("datetime")
	case c06iScalarToVector:
		sT = b.vec(b.st("string"))
	case c06iMakeOptional:
		sT = b.opt(b.st("string"))
	}
	fs := []*dsl.Field{b.field(p+"N", b.st(nT)), b.field(p+"S", sT)}
	if e != c06iRemoveRequired {
		fs = append(fs, b.field(p+"W", b.st("float32")))
	}
	if e == c06iAddRequired {
		fs = append(fs, b.field(p+"Extra", b.st("int32")))
	}
	if e == c06iAddOptional {
		fs = append(fs, b.field(p+"Note", b.opt(b.st("string"))))
	}
	if e == c06iReorder {
		fs[0], fs[1] = fs[1], fs[0]
	}
	return b.record(ns, c06iRecords[r], nil, fs...)
}

type c06iStep struct{ shape, target int }

func c06iStepType(b *mb, s c06iStep) dsl.Type {
	R := c06iRecords[s.target]
	switch s.shape {
	case c06iDirect:
		return b.st(R)
	case c06iBox:
		return b.st("Box", b.st(R))
	case c06iBoxAlias:
		return b.st(R + "Box")
	case c06iNested:
		return b.st("Outer", b.st(R))
	case c06iHeld:
		return b.st("Box", b.st("Hold"+R))
	case c06iGenAlias:
		return b.st("BoxA", b.st(R))
	case c06iStreamBox:
		return b.strm(b.st("Box", b.st(R)))
	case c06iDuo:
		return b.st("Duo", b.st(c06iRecords[1-s.target]), b.st(R))
	case c06iOptBox:
		return b.opt(b.st("Box", b.st(R)))
	}
	return b.st("Box", b.st("Box", b.st(R)))
}

// c06iModel: one version.  edits[r] applies to record r in the new version only; extra: 0 none, 1 / 2 a leading / trailing
// step of a primitive type that changes int32 -> int64.
func c06iModel(b *mb, steps []c06iStep, edits []int, extra int, isNew bool) *dsl.Namespace {
	ns := "Ns"
	var tds dsl.TypeDefinitions
	for r := range c06iRecords {
		e := c06iNone
		if isNew {
			e = edits[r]
		}
		tds = append(tds, c06iRecord(b, ns, r, e))
	}
	// only the definitions the steps need (plus Box): unused definitions are compared pairwise as well and cost time
	used := map[int]bool{}
	usedFor := map[string]bool{}
	for _, s := range steps {
		used[s.shape] = true
		usedFor[fmt.Sprintf("%d/%d", s.shape, s.target)] = true
	}
	tds = append(tds, b.record(ns, "Box", []string{"T"}, b.field("v", b.st("T")), b.field("tag", b.st("int32"))))
	if used[c06iNested] {
		tds = append(tds, b.record(ns, "Outer", []string{"T"}, b.field("inner", b.st("Box", b.st("T"))), b.field("k", b.st("int32"))))
	}
	if used[c06iDuo] {
		tds = append(tds, b.record(ns, "Duo", []string{"T", "U"}, b.field("x", b.st("Box", b.st("T"))), b.field("y", b.st("Box", b.st("U")))))
	}
	if used[c06iGenAlias] {
		tds = append(tds, b.alias(ns, "BoxA", []string{"T"}, b.st("Box", b.st("T"))))
	}
	for r, R := range c06iRecords {
		if usedFor[fmt.Sprintf("%d/%d", c06iBoxAlias, r)] {
			tds = append(tds, b.alias(ns, R+"Box", nil, b.st("Box", b.st(R))))
		}
		if usedFor[fmt.Sprintf("%d/%d", c06iHeld, r)] {
			tds = append(tds, b.record(ns, "Hold"+R, nil, b.field("h", b.st(R)), b.field("q", b.st("int32"))))
		}
	}
	xT := "int32"
	if isNew {
		xT = "int64"
	}
	var seq []*dsl.ProtocolStep
	if extra == 1 {
		seq = append(seq, b.step("x", b.st(xT)))
	}
	for i, s := range steps {
		seq = append(seq, b.step(fmt.Sprintf("s%d", i), c06iStepType(b, s)))
	}
	if extra == 2 {
		seq = append(seq, b.step("x", b.st(xT)))
	}
	return &dsl.Namespace{Name: ns, IsTopLevel: true, TypeDefinitions: tds, Protocols: []*dsl.ProtocolDefinition{b.protocol(ns, "P", seq...)}}
}

func c06iNamed(list []string, name string) bool {
	for _, w := range list {
		if strings.Contains(w, "'"+name+"'") {
			return true
		}
	}
	return false
}

// C06Instances(k, nShapes, nEdits, nOther, mode).  k steps; shapes out of the first nShapes; the record the LAST step targets
// is edited with one of the first nEdits kinds, the other record (if reached) with one of the first nOther kinds.
// mode 0: step i < k-1 targets Alpha, the last step targets Beta, and the position of that last step among the
// others is symbolic; mode 1: every step's target is symbolic (the same instantiation may occur twice); mode bit 2
// adds the extra changed primitive step (none / leading / trailing, symbolic).
func C06Instances(k, nShapes, nEdits, nOther, mode int) {
	steps := make([]c06iStep, k)
	for i := range steps {
		steps[i].shape = verifChoose(fmt.Sprintf("shape-%d", i), nShapes)
		switch {
		case mode&1 == 1:
			steps[i].target = verifChoose(fmt.Sprintf("target-%d", i), 2)
		case i == k-1:
			steps[i].target = 1
		}
	}
	main := steps[k-1].target
	if mode&1 == 0 && k > 1 {
		// where the step reaching Beta sits among the steps reaching Alpha
		pos := verifChoose("position-of-edited-step", k)
		moved := make([]c06iStep, 0, k)
		moved = append(moved, steps[:pos]...)
		moved = append(moved, steps[k-1])
		moved = append(moved, steps[pos:k-1]...)
		steps = moved
	}
	extra := 0
	if mode&2 != 0 {
		extra = verifChoose("extra-changed-step", 3)
	}
	reached := []bool{false, false}
	var shapeNames []string
	for _, s := range steps {
		reached[s.target] = true
		if s.shape == c06iDuo {
			reached[1-s.target] = true
		}
		shapeNames = append(shapeNames, c06iShapeNames[s.shape]+"<"+c06iRecords[s.target]+">")
	}
	edits := []int{c06iNone, c06iNone}
	edits[main] = c06iMainEdits[verifChoose("edit", nEdits)]
	if reached[1-main] {
		edits[1-main] = c06iOtherEdits[verifChoose("other-edit", nOther)]
	}
	verifOut("edit", "instances:"+c06iEditNames[edits[main]]+"+other:"+c06iEditNames[edits[1-main]])
	verifOut("steps", strings.Join(shapeNames, ","))
	verifOut("extra", extra)

	class := "silent"
	var mustName []string
	if extra != 0 {
		class = "warning"
		mustName = append(mustName, "x")
	}
	for r := range c06iRecords {
		switch c06iClass(edits[r]) {
		case "warning":
			if class == "silent" {
				class = "warning"
			}
			mustName = append(mustName, c06iWarnedName(c06iPrefixes[r], edits[r]))
		case "error":
			class = "error"
		}
	}
	verifOut("class", class)

	oldEnv, errOld := dsl.Validate([]*dsl.Namespace{c06iModel(&mb{file: "v0/model.yml"}, steps, edits, extra, false)})
	newEnv, errNew := dsl.Validate([]*dsl.Namespace{c06iModel(&mb{file: "model.yml"}, steps, edits, extra, true)})
	verifAssert("both-versions-valid", errOld == nil && errNew == nil)
	if errOld != nil || errNew != nil {
		verifOut("validate-error", errText(errOld)+errText(errNew))
		return
	}
	var warnings []string
	var err error
	msg, panicked := verifPanics(func() { _, warnings, err = dsl.ValidateEvolution(newEnv, []*dsl.Environment{oldEnv}, []string{"v0"}) })
	verifOut("panic", msg)
	verifAssert("verdict-without-panic", !panicked)
	if panicked {
		return
	}
	verifOut("err", errText(err))
	verifOut("warnings", strings.Join(warnings, " | "))
	switch class {
	case "error":
		verifAssert("breaking-change-rejected", err != nil)
	case "warning":
		verifAssert("partial-change-accepted", err == nil)
		verifAssert("partial-change-warned", len(warnings) > 0)
		all := true
		for _, name := range mustName {
			if !c06iNamed(warnings, name) {
				all = false
				verifOut("missing-warning-for", name)
			}
		}
		verifAssert("every-partial-change-warned", all)
	default:
		verifAssert("compatible-change-accepted", err == nil)
		verifAssert("compatible-change-silent", len(warnings) == 0)
	}
	verifReach("c06-instances-end")
}
