package zzverif

// C08 ("names never collide with reserved words"): every identifier the C++ (and Python) generators derive from a
// model name is usable as an identifier in the target language, and distinct model names give distinct identifiers.
//
// The model name is symbolic over a vocabulary DERIVED from the target language's reserved-word list (transcribed from
// the language definitions, not from yardl's tables): for every reserved word w the spellings a yardl model may use for
// it - camelCase (not_eq -> notEq, char8_t -> char8T), PascalCase (NotEq; type, namespace and version names), the word
// itself (version labels allow underscores), the words glued in lower case (noteq) - alone and followed by each of the
// suffixes the generators use to escape a reserved word (Field, Value, Type, Version).  The real naming functions of
// internal/cpp/common and internal/python/common run on the chosen spelling; in addition the record / enum that carries
// the name is validated by the real dsl.Validate and the emitted types.h text of its namespace is read back
// (struct members via c14tReadStruct, enumerators of the `enum class`), so what is judged is the identifier that is
// actually written into the generated translation unit.
//
//   never-reserved   the identifier is not a keyword / alternative token of C++20 [lex.key], [lex.digraph] (Python 3: keyword.kwlist)
//   injective        (C08IdentifierInjectivity) two distinct spellings of the vocabulary that the same naming function
//                    accepts give distinct identifiers

import (
	"strings"

	cppcommon "github.com/microsoft/yardl/tooling/internal/cpp/common"
	cpptypes "github.com/microsoft/yardl/tooling/internal/cpp/types"
	pycommon "github.com/microsoft/yardl/tooling/internal/python/common"
	"github.com/microsoft/yardl/tooling/pkg/dsl"
)

// ISO C++20 [lex.key] table 5 (keywords) and table 6 (alternative representations)
var c08rCppKeywords = []string{
	"alignas", "alignof", "asm", "auto", "bool", "break", "case", "catch", "char", "char8_t", "char16_t", "char32_t", "class",
	"concept", "const", "consteval", "constexpr", "constinit", "const_cast", "continue", "co_await", "co_return", "co_yield",
	"decltype", "default", "delete", "do", "double", "dynamic_cast", "else", "enum", "explicit", "export", "extern", "false",
	"float", "for", "friend", "goto", "if", "inline", "int", "long", "mutable", "namespace", "new", "noexcept", "nullptr",
	"operator", "private", "protected", "public", "register", "reinterpret_cast", "requires", "return", "short", "signed",
	"sizeof", "static", "static_assert", "static_cast", "struct", "switch", "template", "this", "thread_local", "throw", "true",
	"try", "typedef", "typeid", "typename", "union", "unsigned", "using", "virtual", "void", "volatile", "wchar_t", "while",
	"and", "and_eq", "bitand", "bitor", "compl", "not", "not_eq", "or", "or_eq", "xor", "xor_eq",
}

// Python 3.12 keyword.kwlist
var c08rPyKeywords = []string{
	"False", "None", "True", "and", "as", "assert", "async", "await", "break", "class", "continue", "def", "del", "elif", "else",
	"except", "finally", "for", "from", "global", "if", "import", "in", "is", "lambda", "nonlocal", "not", "or", "pass", "raise",
	"return", "try", "while", "with", "yield",
}

func c08rIn(s string, set []string) bool {
	for _, x := range set {
		if x == s {
			return true
		}
	}
	return false
}

func c08rUpperFirst(s string) string {
	if s == "" || s[0] < 'a' || s[0] > 'z' {
		return s
	}
	return strings.ToUpper(s[:1]) + s[1:]
}

func c08rLowerFirst(s string) string {
	if s == "" || s[0] < 'A' || s[0] > 'Z' {
		return s
	}
	return strings.ToLower(s[:1]) + s[1:]
}

var c08rSuffixes = []string{"", "Field", "Value", "Type", "Version"}

const c08rForms = 4

// c08rSpelling: form 0 camelCase, 1 PascalCase, 2 the reserved word itself, 3 its words glued in lower case
func c08rSpelling(word string, form int) string {
	parts := strings.Split(word, "_")
	switch form {
	case 0, 1:
		s := ""
		for i, p := range parts {
			if i > 0 || form == 1 {
				p = c08rUpperFirst(p)
			} else {
				p = c08rLowerFirst(p)
			}
			s += p
		}
		return s
	case 2:
		return word
	}
	return strings.ToLower(strings.Join(parts, ""))
}

func c08rIsMemberName(s string) bool { // dsl memberNameRegex ^[a-z][a-zA-Z0-9]{0,63}$
	if s == "" || len(s) > 64 || s[0] < 'a' || s[0] > 'z' {
		return false
	}
	for i := 0; i < len(s); i++ {
		c := s[i]
		if !(c >= 'a' && c <= 'z' || c >= 'A' && c <= 'Z' || c >= '0' && c <= '9') {
			return false
		}
	}
	return true
}

func c08rIsTypeName(s string) bool { // typeNameRegex / namespaceNameRegex ^[A-Z][a-zA-Z0-9]*$
	return s != "" && s[0] >= 'A' && s[0] <= 'Z' && c08rIsMemberName(c08rLowerFirst(s[:1])+s[1:])
}

func c08rIsVersionLabel(s string) bool { // packaging versionLabelRegex ^[a-zA-Z][a-zA-Z0-9]*(_[a-zA-Z0-9]+)*$
	if s == "" || !(s[0] >= 'a' && s[0] <= 'z' || s[0] >= 'A' && s[0] <= 'Z') {
		return false
	}
	for i := 0; i < len(s); i++ {
		c := s[i]
		if c == '_' {
			if i+1 == len(s) || s[i+1] == '_' {
				return false
			}
			continue
		}
		if !(c >= 'a' && c <= 'z' || c >= 'A' && c <= 'Z' || c >= '0' && c <= '9') {
			return false
		}
	}
	return true
}

type c08rNaming struct {
	label  string
	accept func(string) bool
	f      func(string) string
}

func c08rStep(name string) *dsl.ProtocolStep { return &dsl.ProtocolStep{Name: name} }

func c08rCppNamings(withNamespace bool) []c08rNaming {
	ns := []c08rNaming{
		{"cpp-field", c08rIsMemberName, cppcommon.FieldIdentifierName},
		{"cpp-computed-field", c08rIsMemberName, cppcommon.ComputedFieldIdentifierName},
		{"cpp-enum-value", c08rIsMemberName, cppcommon.EnumValueIdentifierName},
		{"cpp-type", c08rIsTypeName, cppcommon.TypeIdentifierName},
		{"cpp-version", c08rIsVersionLabel, cppcommon.VersionIdentifierName},
		{"cpp-write-method", c08rIsMemberName, func(s string) string { return cppcommon.ProtocolWriteMethodName(c08rStep(s)) }},
		{"cpp-write-impl-method", c08rIsMemberName, func(s string) string { return cppcommon.ProtocolWriteImplMethodName(c08rStep(s)) }},
		{"cpp-end-method", c08rIsMemberName, func(s string) string { return cppcommon.ProtocolWriteEndMethodName(c08rStep(s)) }},
		{"cpp-read-method", c08rIsMemberName, func(s string) string { return cppcommon.ProtocolReadMethodName(c08rStep(s)) }},
		{"cpp-read-impl-method", c08rIsMemberName, func(s string) string { return cppcommon.ProtocolReadImplMethodName(c08rStep(s)) }},
	}
	if withNamespace {
		ns = append(ns, c08rNaming{"cpp-namespace", c08rIsTypeName, cppcommon.NamespaceIdentifierName})
	}
	return ns
}

func c08rPyNamings(withNamespace bool) []c08rNaming {
	ns := []c08rNaming{
		{"py-field", c08rIsMemberName, pycommon.FieldIdentifierName},
		{"py-computed-field", c08rIsMemberName, pycommon.ComputedFieldIdentifierName},
		{"py-enum-value", c08rIsMemberName, pycommon.EnumValueIdentifierName},
		{"py-type", c08rIsTypeName, pycommon.TypeIdentifierName},
		{"py-write-method", c08rIsMemberName, func(s string) string { return pycommon.ProtocolWriteMethodName(c08rStep(s)) }},
		{"py-write-impl-method", c08rIsMemberName, func(s string) string { return pycommon.ProtocolWriteImplMethodName(c08rStep(s)) }},
		{"py-read-method", c08rIsMemberName, func(s string) string { return pycommon.ProtocolReadMethodName(c08rStep(s)) }},
		{"py-read-impl-method", c08rIsMemberName, func(s string) string { return pycommon.ProtocolReadImplMethodName(c08rStep(s)) }},
	}
	if withNamespace {
		ns = append(ns, c08rNaming{"py-namespace", c08rIsTypeName, pycommon.NamespaceIdentifierName})
	}
	return ns
}

// c08rReadEnumerators: the enumerator names of `enum class <name> ... {` in a types.h text
func c08rReadEnumerators(text, name string) (out []string, found bool) {
	lines := strings.Split(text, "\n")
	for i, l := range lines {
		if !(strings.HasPrefix(l, "enum class "+name+" ") && strings.HasSuffix(l, "{")) {
			continue
		}
		for _, m := range lines[i+1:] {
			if m == "};" {
				return out, true
			}
			m = strings.TrimSpace(m)
			if strings.HasPrefix(m, "//") || m == "" {
				continue
			}
			k := strings.Index(m, " = ")
			if k < 0 {
				return nil, false
			}
			out = append(out, m[:k])
		}
	}
	return nil, false
}

// c08rEmitted: a namespace with a record field, an enum symbol and a protocol step called `name` and a record / enum
// called `typeName` goes through the real dsl.Validate; the types.h text is read back.
func c08rEmitted(name, typeName string, reserved []string) {
	b := &mb{file: "model.yml"}
	recName, enumName := "Rec", "En"
	if typeName != "" {
		recName, enumName = typeName, typeName+"En"
	}
	rec := b.record(NS, recName, nil, b.field(name, b.st("int")), b.field("other", b.opt(b.st("int"))))
	en := b.enum(NS, enumName, nil, name, "other")
	ns := &dsl.Namespace{Name: NS, IsTopLevel: true, TypeDefinitions: dsl.TypeDefinitions{rec, en},
		Protocols: []*dsl.ProtocolDefinition{b.protocol(NS, "P", b.step(name, b.st(recName)), b.step("other", b.st(enumName)))}}
	env, err := dsl.Validate([]*dsl.Namespace{ns})
	if err != nil {
		verifReach("c08r-model-rejected") // a name yardl does not accept: nothing is generated
		return
	}
	text := cpptypes.VerifWriteNamespaceMembers(env.Namespaces[0])
	// the struct / enum are declared under an identifier that is not reserved: find them by scanning the declarations
	var structName, enumDecl string
	for _, l := range strings.Split(text, "\n") {
		if x, ok := cgBetween(l, "struct ", " {"); ok && structName == "" {
			structName = x
		}
		if strings.HasPrefix(l, "enum class ") && strings.HasSuffix(l, "{") && enumDecl == "" {
			enumDecl = strings.TrimSpace(l[len("enum class ") : len(l)-1])
		}
	}
	verifAssert("struct-and-enum-declared", isIdent(structName) && isIdent(enumDecl))
	verifAssert("emitted-type-name-is-not-a-reserved-word", !c08rIn(structName, reserved) && !c08rIn(enumDecl, reserved))
	_, _, members, found := c14tReadStruct(text, structName)
	verifAssert("struct-emitted-with-one-member-per-field", found && len(members) == 2)
	for _, m := range members {
		verifOut("member", m)
		verifAssert("emitted-member-is-an-identifier", isIdent(m))
		verifAssert("emitted-member-is-not-a-reserved-word", !c08rIn(m, reserved))
	}
	if len(members) == 2 {
		verifAssert("emitted-members-are-distinct", members[0] != members[1])
	}
	ens, found := c08rReadEnumerators(text, enumDecl)
	verifAssert("enum-emitted-with-one-enumerator-per-symbol", found && len(ens) == 2)
	for _, e := range ens {
		verifAssert("emitted-enumerator-is-an-identifier", isIdent(e))
		verifAssert("emitted-enumerator-is-not-a-reserved-word", !c08rIn(e, reserved))
	}
	verifReach("c08r-emitted-end")
}

// C08ReservedNames(what, nSuffixes): what & 1 C++, & 2 Python, & 4 include the namespace naming functions.
func C08ReservedNames(what, nSuffixes int) {
	var words []string
	var namings []c08rNaming
	lang := 0
	if what&3 == 3 {
		lang = verifChoose("language", 2)
	} else if what&2 != 0 {
		lang = 1
	}
	if lang == 0 {
		words, namings = c08rCppKeywords, c08rCppNamings(what&4 != 0)
	} else {
		words, namings = c08rPyKeywords, c08rPyNamings(what&4 != 0)
	}
	word := words[verifChoose("word", len(words))]
	form := verifChoose("form", c08rForms)
	suffix := c08rSuffixes[verifChoose("suffix", nSuffixes)]
	name := c08rSpelling(word, form) + suffix
	verifOut("name", name)

	accepted := 0
	for _, nm := range namings {
		if !nm.accept(name) {
			continue
		}
		accepted++
		id := nm.f(name)
		verifOut(nm.label, id)
		last := id[strings.LastIndex(id, ":")+1:] // a namespace identifier may be qualified (a::b)
		verifAssert("identifier-is-well-formed", isIdent(last))
		verifAssert("identifier-is-not-a-reserved-word", !c08rIn(last, words))
	}
	if accepted == 0 {
		verifReach("c08r-spelling-not-a-model-name")
		return
	}
	if lang == 0 && (c08rIsMemberName(name) || c08rIsTypeName(name)) {
		if c08rIsMemberName(name) {
			c08rEmitted(name, "", words)
		} else {
			c08rEmitted("value", name, words)
		}
	}
	verifReach("c08r-end")
}

// C08IdentifierInjectivity(what, nSuffixes): what & 1 C++, & 2 Python.  Two different spellings derived from the same
// reserved word - (form, suffix) pairs, the second one later in the enumeration order - that one naming function both
// accepts as model names must not be given the same identifier (two fields / enum symbols / steps of one definition
// would be declared under one name).
func C08IdentifierInjectivity(what, nSuffixes int) {
	var words []string
	var namings []c08rNaming
	lang := 0
	if what&3 == 3 {
		lang = verifChoose("language", 2)
	} else if what&2 != 0 {
		lang = 1
	}
	if lang == 0 {
		words, namings = c08rCppKeywords, c08rCppNamings(true)
	} else {
		words, namings = c08rPyKeywords, c08rPyNamings(true)
	}
	word := words[verifChoose("word", len(words))]
	n := c08rForms * nSuffixes
	k1 := verifChoose("spelling", n)
	k2 := verifChoose("other-spelling", n)
	if k2 <= k1 {
		verifAssume(false)
	}
	name := c08rSpelling(word, k1/nSuffixes) + c08rSuffixes[k1%nSuffixes]
	name2 := c08rSpelling(word, k2/nSuffixes) + c08rSuffixes[k2%nSuffixes]
	verifOut("names", name+" "+name2)
	if name == name2 {
		verifReach("c08r-same-spelling")
		return
	}
	for _, nm := range namings {
		if nm.accept(name) && nm.accept(name2) {
			verifOut(nm.label, nm.f(name)+" "+nm.f(name2))
			verifAssert("distinct-names-give-distinct-identifiers", nm.f(name) != nm.f(name2))
		}
	}
	verifReach("c08r-injectivity-end")
}
