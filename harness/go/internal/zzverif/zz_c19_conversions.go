package zzverif

// C19: the conversion chains that type inference inserts do not lose values on the way.
//
// "Evaluating a computed field yields the mathematical value of the expression for in-range operands, the
// same in every target language."  Every backend emits one cast per TypeConversionExpression node of the
// resolved expression tree (C++ static_cast<float>, MATLAB single(), Python float()/complex()), and the
// languages disagree on how wide such an intermediate value really is (Python's float is always a double).
// The value is therefore only well-defined if no intermediate node of a chain
//        S  ->  I1  ->  ...  ->  Ik  ->  R
// that dsl.Validate builds (S the static type of the operand, R the type the operand is brought to) can lose
// a value of S that R itself can hold:  Real(S) /\ Real(R)  is a subset of  Real(Ii)  for every i.
//
// Specification (written from the documented primitive types, docs/*/language.md): a lattice over
// (kind, signedness, bits).  Real(X) is the set of real numbers X represents exactly (for a complex type: its
// real component, a float of half the size):
//   integer k bits signed    : integers in [-2^(k-1), 2^(k-1)-1]      needs k-1 significand bits
//   integer k bits unsigned  : integers in [0, 2^k-1]                  needs k significand bits
//   float32 / complexfloat32 : 24-bit significand;  float64 / complexfloat64 : 53-bit significand
// c19Holds(I, X) decides Real(X) subset-of Real(I) on that lattice; the obligation is discharged as
// "c19Holds(Ii, S) or c19Holds(Ii, R)", which for these thirteen types is equivalent to the intersection form.
// In addition a complex operand never passes through a real intermediate (the imaginary part would be lost),
// the chain ends in (the representation of) R, and both operands of an operator are brought to the operator's static type.
//
// The real dsl.Validate (resolveComputedFields, insertConversion, adjustConversion, GetCommonType) runs on
// symbolic S, T over all thirteen numeric primitives and four ways a conversion arises: `a as T`, `a op b`,
// `b op a` (all five operators) and the unification of the case expressions of a switch expression.

import (
	"github.com/microsoft/yardl/tooling/pkg/dsl"
)

type c19Rep struct {
	kind   int // 0 integer, 1 floating point, 2 complex
	signed bool
	bits   int // integer: total bits; float / complex: significand bits of the (real) component
}

func c19RepOf(p string) (c19Rep, bool) {
	switch p {
	case "int8":
		return c19Rep{0, true, 8}, true
	case "int16":
		return c19Rep{0, true, 16}, true
	case "int32":
		return c19Rep{0, true, 32}, true
	case "int64":
		return c19Rep{0, true, 64}, true
	case "uint8":
		return c19Rep{0, false, 8}, true
	case "uint16":
		return c19Rep{0, false, 16}, true
	case "uint32":
		return c19Rep{0, false, 32}, true
	case "uint64", "size":
		return c19Rep{0, false, 64}, true
	case "float32":
		return c19Rep{1, true, 24}, true
	case "float64":
		return c19Rep{1, true, 53}, true
	case "complexfloat32":
		return c19Rep{2, true, 24}, true
	case "complexfloat64":
		return c19Rep{2, true, 53}, true
	}
	return c19Rep{}, false
}

// c19Holds: every real value of x is a value of (the real component of) i.
func c19Holds(i, x c19Rep) bool {
	if i.kind == 0 {
		if x.kind != 0 {
			return false
		}
		switch {
		case i.signed == x.signed:
			return x.bits <= i.bits
		case i.signed && !x.signed:
			return x.bits < i.bits
		default:
			return false
		}
	}
	if x.kind == 0 {
		need := x.bits
		if x.signed {
			need = x.bits - 1
		}
		return need <= i.bits
	}
	return x.bits <= i.bits
}

func c19PrimName(t dsl.Type) string {
	st, ok := t.(*dsl.SimpleType)
	if !ok || st == nil {
		return "?"
	}
	p, ok := st.ResolvedDefinition.(dsl.PrimitiveDefinition)
	if !ok {
		return "?"
	}
	return string(p)
}

// c19Chain reads a resolved operand: the types of the nested TypeConversionExpression nodes from the outermost
// inwards, and the static type of the expression underneath.
func c19Chain(e dsl.Expression) (conv []string, source string, leafIsMember bool) {
	for depth := 0; depth < 8; depth++ {
		tc, ok := e.(*dsl.TypeConversionExpression)
		if !ok {
			break
		}
		conv = append(conv, c19PrimName(tc.Type))
		e = tc.Expression
	}
	_, leafIsMember = e.(*dsl.MemberAccessExpression)
	source = c19PrimName(e.GetResolvedType())
	return
}

// c19CheckOperand: obligations on one operand whose declared type is `declared` and which must arrive at `result`.
func c19CheckOperand(e dsl.Expression, declared string, result string) {
	conv, source, isMember := c19Chain(e)
	verifAssert("operand-is-the-declared-field", isMember && source == declared)
	if !isMember || source != declared {
		return
	}
	s, okS := c19RepOf(source)
	r, okR := c19RepOf(result)
	verifAssert("operand-and-result-are-numeric-primitives", okS && okR)
	if !okS || !okR {
		return
	}
	if len(conv) == 0 {
		// no conversion: the operand already has the representation of the result type (uint64 and size are one)
		verifAssert("operand-is-brought-to-the-result-type", s == r)
		verifReach("c19-conv-no-conversion")
		return
	}
	outer, okO := c19RepOf(conv[0])
	verifAssert("operand-is-brought-to-the-result-type", okO && outer == r)
	for k := 1; k < len(conv); k++ {
		im, ok := c19RepOf(conv[k])
		verifAssert("intermediate-is-a-numeric-primitive", ok)
		if !ok {
			continue
		}
		verifOut("intermediate", conv[k])
		verifAssert("intermediate-holds-every-operand-value-the-result-type-holds", c19Holds(im, s) || c19Holds(im, r))
		if s.kind == 2 {
			verifAssert("complex-operand-stays-complex", im.kind == 2)
		}
		verifReach("c19-conv-intermediate-checked")
	}
	if len(conv) == 1 {
		verifReach("c19-conv-direct")
	}
}

func c19Validate(ps, pt string, mk func(b *mb, g *eg) dsl.Expression) (dsl.Expression, bool) {
	b := &mb{file: "model.yml"}
	g := &eg{b: b}
	rec := b.record("Ns", "Rec", nil, b.field("a", b.st(ps)), b.field("b", b.st(pt)), b.field("o", b.opt(b.st("string"))))
	rec.ComputedFields = dsl.ComputedFields{&dsl.ComputedField{NodeMeta: b.meta(), Name: "c", Expression: mk(b, g)}}
	n := &dsl.Namespace{Name: "Ns", IsTopLevel: true, TypeDefinitions: dsl.TypeDefinitions{rec}}
	env, err := dsl.Validate([]*dsl.Namespace{n})
	if err != nil {
		return nil, false
	}
	out := env.Namespaces[0].TypeDefinitions[0].(*dsl.RecordDefinition)
	return out.ComputedFields[0].Expression, true
}

// C19Conversions(form): 0 `a as T`; 1 `a op b` / `b op a`; 2 switch-case unification.
func C19Conversions(form int) {
	ps := verifOneOf("source", numericPrims...)
	pt := verifOneOf("target", numericPrims...)
	verifOut("source", ps)
	verifOut("target", pt)
	switch form {
	case 0:
		e, ok := c19Validate(ps, pt, func(b *mb, g *eg) dsl.Expression {
			return &dsl.TypeConversionExpression{NodeMeta: b.meta(), Expression: g.member(nil, "a"), Type: b.st(pt)}
		})
		s, _ := c19RepOf(ps)
		t, _ := c19RepOf(pt)
		// a cast from a complex to a real type has no documented meaning (yardl rejects it): nothing to check if rejected
		if s.kind == 2 && t.kind != 2 && !ok {
			verifReach("c19-conv-cast-rejected")
			return
		}
		verifAssert("numeric-cast-accepted", ok)
		if !ok {
			return
		}
		verifOut("type", c19PrimName(e.GetResolvedType()))
		verifAssert("cast-has-the-written-type", c19PrimName(e.GetResolvedType()) == pt)
		if ps == pt {
			// `a as <its own type>`: the node the user wrote may stay; nothing is inserted below it
			if tc, isConv := e.(*dsl.TypeConversionExpression); isConv {
				e = tc.Expression
			}
		}
		c19CheckOperand(e, ps, pt)
	case 1:
		op := dsl.BinaryOperator(verifChoose("op", 5))
		swapped := verifChoose("swapped", 2) == 1
		e, ok := c19Validate(ps, pt, func(b *mb, g *eg) dsl.Expression {
			l, r := g.member(nil, "a"), g.member(nil, "b")
			if swapped {
				l, r = r, l
			}
			return &dsl.BinaryExpression{NodeMeta: b.meta(), Left: l, Operator: op, Right: r}
		})
		if !ok {
			// pairs without a common type (e.g. uint8 with int64, float32 with complexfloat32) are rejected: c19_static_types
			// decides that this does not depend on operand order; there is no chain to look at
			verifReach("c19-conv-rejected")
			return
		}
		be, isBin := e.(*dsl.BinaryExpression)
		verifAssert("binary-expression-kept", isBin)
		if !isBin {
			return
		}
		res := c19PrimName(be.GetResolvedType())
		verifOut("type", res)
		l, r := be.Left, be.Right
		if swapped {
			l, r = r, l
		}
		c19CheckOperand(l, ps, res)
		c19CheckOperand(r, pt, res)
	case 2:
		e, ok := c19Validate(ps, pt, func(b *mb, g *eg) dsl.Expression {
			return &dsl.SwitchExpression{NodeMeta: b.meta(), Target: g.member(nil, "o"), Cases: []*dsl.SwitchCase{
				{NodeMeta: b.meta(), Pattern: &dsl.TypePattern{NodeMeta: b.meta(), Type: b.st("string")}, Expression: g.member(nil, "a")},
				{NodeMeta: b.meta(), Pattern: &dsl.DiscardPattern{NodeMeta: b.meta()}, Expression: g.member(nil, "b")},
			}}
		})
		if !ok {
			verifReach("c19-conv-rejected")
			return
		}
		se, isSw := e.(*dsl.SwitchExpression)
		verifAssert("switch-expression-kept", isSw && len(se.Cases) == 2)
		if !isSw || len(se.Cases) != 2 {
			return
		}
		res := c19PrimName(se.GetResolvedType())
		verifOut("type", res)
		c19CheckOperand(se.Cases[0].Expression, ps, res)
		c19CheckOperand(se.Cases[1].Expression, pt, res)
	}
	verifReach("c19-conv-end")
}
