package zzverif

// C08 / C05 (C++ emitter level): names in the emitted function bodies.
//
// (1) no-shadowing: in every function body emitted into binary/protocols.cc for a namespace with a previous version
//     (serializers, compatibility serializers with their temporaries and conversion loops, reader / writer methods),
//     read back into statements by zz_cppstmt.go, no declaration - a local variable, a for-init variable, a range-for
//     variable, an if-init variable - has the name of a parameter of the function or of a variable declared in an
//     enclosing or the same scope.  (C++ rejects it for parameters and the same scope; in an inner scope it compiles
//     but silently changes what the surrounding statements - emitted for the outer name - refer to.)
// (2) operator== of the generated struct, read back from types.h with C++ name lookup (a parameter hides a member of
//     the same name; `this->m` and `other.m` are member accesses): it is the conjunction of `this.m == other.m` over
//     exactly the data members of the struct.
//
// The record's field names are symbolic over a vocabulary that contains the names the emitters use themselves
// (value, stream, i, item, other); each field's change between the previous and the current version is symbolic
// (unchanged, removed, int -> long, int? -> long?, int* -> long*).

import (
	"fmt"
	"strings"

	cppbinary "github.com/microsoft/yardl/tooling/internal/cpp/binary"
	cpptypes "github.com/microsoft/yardl/tooling/internal/cpp/types"
	"github.com/microsoft/yardl/tooling/pkg/dsl"
)

var c08hNames = []string{"value", "stream", "other", "i", "item", "plain"}

type c08hScope struct {
	names  map[string]bool
	parent *c08hScope
}

func (s *c08hScope) visible(n string) bool {
	for sc := s; sc != nil; sc = sc.parent {
		if sc.names[n] {
			return true
		}
	}
	return false
}

// c08hDeclared: the name a declaration `T name`, `T name = init`, `T const& name : range` introduces ("" = not a declaration)
func c08hDeclared(t string) string {
	head := t
	if k := strings.Index(t, " = "); k > 0 {
		head = t[:k]
	} else if k := strings.Index(t, " : "); k > 0 {
		head = t[:k]
	} else if strings.ContainsAny(t, "=(") {
		return ""
	}
	sp := strings.LastIndex(head, " ")
	if sp <= 0 {
		return ""
	}
	ty, name := head[:sp], head[sp+1:]
	if !isIdent(name) || strings.ContainsAny(ty, "().[") || ty == "return" || ty == "throw" || ty == "using" || strings.HasPrefix(ty, "using ") || strings.HasPrefix(ty, "return ") {
		return ""
	}
	return name
}

type c08hCheck struct {
	hidden []string
	seen   int
}

func (c *c08hCheck) declare(s *c08hScope, name, where string) {
	c.seen++
	if s.visible(name) {
		c.hidden = append(c.hidden, where+": "+name)
	}
	s.names[name] = true
}

func (c *c08hCheck) walk(fn string, ss []*cstmt, s *c08hScope) {
	for _, st := range ss {
		switch st.kind {
		case "simple":
			if n := c08hDeclared(st.text); n != "" {
				c.declare(s, n, fn)
			}
		case "for":
			in := &c08hScope{names: map[string]bool{}, parent: s}
			init := st.text
			if k := strings.Index(init, ";"); k >= 0 {
				init = init[:k]
			}
			if n := c08hDeclared(init); n != "" {
				c.declare(in, n, fn)
			}
			// the body of a for statement is in the scope of its init-statement: a redeclaration there is ill-formed too
			c.walk(fn, st.body, &c08hScope{names: map[string]bool{}, parent: in})
		case "if":
			in := &c08hScope{names: map[string]bool{}, parent: s}
			if k := strings.Index(st.text, "; "); k > 0 {
				if n := c08hDeclared(st.text[:k]); n != "" {
					c.declare(in, n, fn)
				}
			}
			c.walk(fn, st.body, &c08hScope{names: map[string]bool{}, parent: in})
			c.walk(fn, st.els, &c08hScope{names: map[string]bool{}, parent: in})
		case "switch":
			for _, cs := range st.cases {
				c.walk(fn, cs.body, &c08hScope{names: map[string]bool{}, parent: s})
			}
		case "try":
			c.walk(fn, st.body, &c08hScope{names: map[string]bool{}, parent: s})
			c.walk(fn, st.els, &c08hScope{names: map[string]bool{}, parent: s})
		}
	}
}

func c08hParams(params string) []string {
	var out []string
	for _, p := range c05cSplit(params, ',') {
		sp := strings.LastIndex(p, " ")
		if sp > 0 && isIdent(p[sp+1:]) {
			out = append(out, p[sp+1:])
		}
	}
	return out
}

// c08hFieldType: change kinds 0 unchanged, 1 removed (old only), 2 int -> long, 3 int? -> long?, 4 int* -> long*
func c08hFieldType(b *mb, change int, old bool) dsl.Type {
	n := "long"
	if old || change <= 1 {
		n = "int"
	}
	switch change {
	case 3:
		return b.opt(b.st(n))
	case 4:
		return b.vec(b.st(n))
	}
	return b.st(n)
}

func c08hModel(file string, old bool, names []string, changes []int) *dsl.Namespace {
	b := &mb{file: file}
	var fields []*dsl.Field
	for i, n := range names {
		if changes[i] == 1 && !old {
			continue
		}
		fields = append(fields, b.field(n, c08hFieldType(b, changes[i], old)))
	}
	fields = append(fields, b.field("keep", b.st("string")))
	// two more steps whose NAMES are symbolic (c08hStepNames) and whose types changed int -> long since the previous version:
	// the reader / writer methods declare a temporary for the conversion
	num := "long"
	if old {
		num = "int"
	}
	return &dsl.Namespace{Name: NS, IsTopLevel: true, TypeDefinitions: dsl.TypeDefinitions{b.record(NS, "Rec", nil, fields...)},
		Protocols: []*dsl.ProtocolDefinition{b.protocol(NS, "P", b.step("r", b.st("Rec")), b.step("rs", b.strm(b.st("Rec"))),
			b.step(c08hStepNames[0], b.st(num)), b.step(c08hStepNames[1], b.strm(b.st(num))))}}
}

// names of the two converted steps: the names the emitted reader / writer methods use themselves are in the vocabulary
var c08hStepVocabulary = []string{"count", "value", "values", "readBlockSuccessful", "stream", "items"}
var c08hStepNames = [2]string{"count", "items"}

// c08hEquality: the comparisons of `bool operator==(... const T& <param>) const { return a == b && ...; }` of struct name,
// each side resolved: "this.m" / "<param>.m" / "<param>" / "?text"
func c08hEquality(text, name string, members []string) (pairs [][2]string, bad string) {
	lines := strings.Split(text, "\n")
	in := false
	for i := 0; i < len(lines); i++ {
		l := strings.TrimSpace(lines[i])
		if l == "struct "+name+" {" {
			in = true
		}
		if !in || !strings.HasPrefix(l, "bool operator==(") || !strings.HasSuffix(l, ") const {") {
			continue
		}
		ps := c08hParams(l[len("bool operator==(") : len(l)-len(") const {")])
		if len(ps) != 1 {
			return nil, "operator== parameters: " + l
		}
		param := ps[0]
		body := ""
		for i++; i < len(lines) && strings.TrimSpace(lines[i]) != "}"; i++ {
			body += " " + strings.TrimSpace(lines[i])
		}
		body = strings.TrimSpace(body)
		if !strings.HasPrefix(body, "return ") || !strings.HasSuffix(body, ";") {
			return nil, "operator== body: " + body
		}
		resolve := func(x string) string {
			x = strings.TrimSpace(x)
			isMember := func(m string) bool {
				for _, k := range members {
					if k == m {
						return true
					}
				}
				return false
			}
			switch {
			case strings.HasPrefix(x, "this->") && isMember(x[6:]):
				return "this." + x[6:]
			case strings.HasPrefix(x, param+".") && isMember(x[len(param)+1:]):
				return "param." + x[len(param)+1:]
			case x == param: // the parameter hides a member of the same name
				return "param"
			case isMember(x):
				return "this." + x
			}
			return "?" + x
		}
		for _, cmp := range strings.Split(body[len("return "):len(body)-1], " && ") {
			k := strings.Index(cmp, " == ")
			if k < 0 {
				return nil, "operator== operand: " + cmp
			}
			pairs = append(pairs, [2]string{resolve(cmp[:k]), resolve(cmp[k+4:])})
		}
		return pairs, ""
	}
	return nil, "operator== not found"
}

// C08CppNoShadowing(firstName, nNames, nFields, nChanges): nFields fields with distinct symbolic names out of
// c08hNames[firstName : firstName+nNames], each with one of the first nChanges change kinds.
func C08CppNoShadowing(firstName, nNames, nFields, nChanges int) {
	var names []string
	var changes []int
	used := map[string]bool{}
	// either the record's fields vary (default step names) or the names of the two converted steps do (plain fields)
	if verifChoose("vary-step-names", 2) == 1 {
		si, sj := verifChoose("plain-step-name", len(c08hStepVocabulary)), verifChoose("stream-step-name", len(c08hStepVocabulary))
		verifAssume(si != sj)
		c08hStepNames = [2]string{c08hStepVocabulary[si], c08hStepVocabulary[sj]}
		nFields = 1
		nNames, nChanges = 1, 1
		firstName = len(c08hNames) - 1
	} else {
		c08hStepNames = [2]string{"count", "items"}
	}
	for i := 0; i < nFields; i++ {
		n := c08hNames[firstName+verifChoose(fmt.Sprintf("name%d", i), nNames)]
		if used[n] {
			verifAssume(false)
		}
		used[n] = true
		names = append(names, n)
		changes = append(changes, verifChoose(fmt.Sprintf("change%d", i), nChanges))
	}
	verifOut("steps", fmt.Sprint(c08hStepNames))
	verifOut("fields", fmt.Sprint(names, changes))
	cur, err := dsl.Validate([]*dsl.Namespace{c08hModel("model.yml", false, names, changes)})
	verifAssert("models-validate", err == nil)
	if err != nil {
		return
	}
	old, err := dsl.Validate([]*dsl.Namespace{c08hModel("v0/model.yml", true, names, changes)})
	verifAssert("models-validate", err == nil)
	if err != nil {
		return
	}
	var everr error
	_, panicked := verifPanics(func() { _, _, everr = dsl.ValidateEvolution(cur, []*dsl.Environment{old}, []string{"v0"}) })
	verifAssert("documented-compatible-changes-accepted", !panicked && everr == nil)
	if panicked || everr != nil {
		return
	}
	ns := cur.Namespaces[0]

	// (1) function bodies of binary/protocols.cc
	fs := c05bParseFuncs(cppbinary.VerifWriteNamespaceDefinitions(ns))
	verifAssert("function-bodies-emitted", len(fs) > 0)
	chk := &c08hCheck{}
	for _, f := range fs {
		verifAssert("only-known-statement-forms", f.bad == "")
		if f.bad != "" {
			verifOut("unknown-form", f.name+": "+f.bad)
			return
		}
		top := &c08hScope{names: map[string]bool{}}
		for _, p := range c08hParams(f.params) {
			top.names[p] = true
		}
		// the outermost block of a function body may not redeclare a parameter: same scope for this purpose
		chk.walk(f.class+"::"+f.name, f.body, top)
	}
	verifOut("declarations", chk.seen)
	verifOut("hidden", strings.Join(chk.hidden, "; "))
	verifAssert("declaration-does-not-hide-a-name-in-scope", len(chk.hidden) == 0)

	// (2) operator== of the struct
	text := cpptypes.VerifWriteNamespaceMembers(ns)
	_, _, members, found := c14tReadStruct(text, "Rec")
	verifAssert("struct-emitted", found && len(members) == len(ns.TypeDefinitions[0].(*dsl.RecordDefinition).Fields))
	if !found {
		return
	}
	pairs, bad := c08hEquality(text, "Rec", members)
	verifOut("operator==", bad)
	verifAssert("equality-operator-understood", bad == "")
	if bad != "" {
		return
	}
	ok := len(pairs) == len(members)
	for i, p := range pairs {
		if i < len(members) {
			ok = ok && ((p[0] == "this."+members[i] && p[1] == "param."+members[i]) || (p[1] == "this."+members[i] && p[0] == "param."+members[i]))
		}
	}
	verifOut("comparisons", fmt.Sprint(pairs))
	verifAssert("equality-compares-each-member-of-this-with-the-same-member-of-the-other-object", ok)
	verifReach("c08h-end")
}
