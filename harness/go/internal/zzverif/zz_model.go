package zzverif

// Builders for *unresolved* models, i.e. what the YAML layer hands to dsl.Validate.

import (
	"math/big"

	"github.com/microsoft/yardl/tooling/pkg/dsl"
)

type mb struct {
	file string
	line int
}

func (b *mb) meta() dsl.NodeMeta {
	b.line++
	return dsl.NodeMeta{File: b.file, Line: b.line, Column: 1}
}

func (b *mb) dmeta(ns, name string, tparams ...string) *dsl.DefinitionMeta {
	m := &dsl.DefinitionMeta{NodeMeta: b.meta(), Name: name, Namespace: ns}
	for _, tp := range tparams {
		m.TypeParameters = append(m.TypeParameters, &dsl.GenericTypeParameter{NodeMeta: b.meta(), Name: tp})
	}
	return m
}

// st: unresolved simple type reference by name (as written in YAML)
func (b *mb) st(name string, args ...dsl.Type) *dsl.SimpleType {
	return &dsl.SimpleType{NodeMeta: b.meta(), Name: name, TypeArguments: args}
}

func (b *mb) gt(dim dsl.Dimensionality, cases ...dsl.Type) *dsl.GeneralizedType {
	g := &dsl.GeneralizedType{NodeMeta: b.meta(), Dimensionality: dim}
	for _, c := range cases {
		g.Cases = append(g.Cases, &dsl.TypeCase{NodeMeta: b.meta(), Type: c})
	}
	return g
}

func (b *mb) opt(t dsl.Type) *dsl.GeneralizedType  { return b.gt(nil, nil, t) }
func (b *mb) vec(t dsl.Type) *dsl.GeneralizedType  { return b.gt(&dsl.Vector{NodeMeta: b.meta()}, t) }
func (b *mb) strm(t dsl.Type) *dsl.GeneralizedType { return b.gt(&dsl.Stream{NodeMeta: b.meta()}, t) }
func (b *mb) fvec(t dsl.Type, n uint64) *dsl.GeneralizedType {
	return b.gt(&dsl.Vector{NodeMeta: b.meta(), Length: &n}, t)
}
func (b *mb) mapOf(k, v dsl.Type) *dsl.GeneralizedType {
	return b.gt(&dsl.Map{NodeMeta: b.meta(), KeyType: k}, v)
}

func (b *mb) record(ns, name string, tparams []string, fields ...*dsl.Field) *dsl.RecordDefinition {
	return &dsl.RecordDefinition{DefinitionMeta: b.dmeta(ns, name, tparams...), Fields: fields}
}

func (b *mb) field(name string, t dsl.Type) *dsl.Field {
	return &dsl.Field{NodeMeta: b.meta(), Name: name, Type: t}
}

func (b *mb) alias(ns, name string, tparams []string, t dsl.Type) *dsl.NamedType {
	return &dsl.NamedType{DefinitionMeta: b.dmeta(ns, name, tparams...), Type: t}
}

func (b *mb) enum(ns, name string, base dsl.Type, syms ...string) *dsl.EnumDefinition {
	e := &dsl.EnumDefinition{DefinitionMeta: b.dmeta(ns, name), BaseType: base}
	for i, s := range syms {
		ev := &dsl.EnumValue{NodeMeta: b.meta(), Symbol: s}
		ev.IntegerValue = *big.NewInt(int64(i))
		e.Values = append(e.Values, ev)
	}
	return e
}

func (b *mb) protocol(ns, name string, steps ...*dsl.ProtocolStep) *dsl.ProtocolDefinition {
	return &dsl.ProtocolDefinition{DefinitionMeta: b.dmeta(ns, name), Sequence: steps}
}

func (b *mb) step(name string, t dsl.Type) *dsl.ProtocolStep {
	return &dsl.ProtocolStep{NodeMeta: b.meta(), Name: name, Type: t}
}

// baseModel: a small valid namespace exercising every definition kind.
func baseModel(b *mb, ns string) *dsl.Namespace {
	n := &dsl.Namespace{Name: ns, IsTopLevel: true}
	n.TypeDefinitions = dsl.TypeDefinitions{
		b.enum(ns, "Color", nil, "red", "green"),
		b.record(ns, "Point", nil, b.field("x", b.st("int")), b.field("y", b.opt(b.st("float")))),
		b.alias(ns, "Points", nil, b.vec(b.st("Point"))),
		b.record(ns, "Pair", []string{"A", "B"}, b.field("first", b.st("A")), b.field("second", b.st("B"))),
		b.alias(ns, "IntPair", nil, b.st("Pair", b.st("int"), b.st("int"))),
	}
	n.Protocols = []*dsl.ProtocolDefinition{
		b.protocol(ns, "Proto",
			b.step("header", b.st("Point")),
			b.step("colors", b.strm(b.st("Color"))),
			b.step("pairs", b.st("IntPair")),
			b.step("lookup", b.mapOf(b.st("string"), b.st("Points")))),
	}
	return n
}

func ValidateSmoke() {
	b := &mb{file: "model.yml"}
	ns := baseModel(b, "Ns")
	env, err := dsl.Validate([]*dsl.Namespace{ns})
	if err != nil {
		verifOut("err", err.Error())
	}
	verifAssert("base-model-valid", err == nil)
	if err == nil {
		verifOut("ntypes", len(env.Namespaces[0].TypeDefinitions))
		s := dsl.GetProtocolSchemaString(env.Namespaces[0].Protocols[0], env.SymbolTable)
		verifOut("schema", s)
	}
}
