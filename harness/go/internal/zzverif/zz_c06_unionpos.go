package zzverif

// C06 (position independence of optional / union changes): old and new are each `null`? + an ordered selection of
// 1-3 distinct case types from a pool of three, so the matching case sits at a symbolic position (first / middle /
// last) on either side, with and without null, in both directions.  The documented class (docs/cpp/evolution.md:
// "Making a field optional", "Changing an optional field to a union, and vice versa", "Adding or removing types
// to/from a Union", the example "Adding a new type to a Protocol stream" (T -> [.., T, ..]), "Changing between
// primitive types") does not mention positions, so the verdict class must be the same wherever the case sits.
// Pairs the documentation does not classify are checked for totality only.

import (
	"github.com/microsoft/yardl/tooling/pkg/dsl"
)

// ordered selections of 1..3 elements out of {0,1,2}
var upSelections = [][]int{
	{0}, {1}, {2},
	{0, 1}, {0, 2}, {1, 0}, {1, 2}, {2, 0}, {2, 1},
	{0, 1, 2}, {0, 2, 1}, {1, 0, 2}, {1, 2, 0}, {2, 0, 1}, {2, 1, 0},
}

type upShape struct {
	null  bool
	cases []int
}

func (s upShape) scalar() bool   { return !s.null && len(s.cases) == 1 }
func (s upShape) optional() bool { return s.null && len(s.cases) == 1 }
func (s upShape) union() bool    { return len(s.cases) >= 2 }
func (s upShape) has(c int) bool {
	for _, x := range s.cases {
		if x == c {
			return true
		}
	}
	return false
}

func upSameSeq(a, b []int) bool {
	if len(a) != len(b) {
		return false
	}
	for i := range a {
		if a[i] != b[i] {
			return false
		}
	}
	return true
}

// upClass: the documented class of old -> new ("" = not classified by the documentation).
// prim[c] tells whether pool element c is a primitive out of {integer, floating point, string}.
func upClass(o, n upShape, prim []bool) string {
	if o.null == n.null && upSameSeq(o.cases, n.cases) {
		return "silent"
	}
	switch {
	case (o.scalar() && n.scalar()) || (o.optional() && n.optional()):
		if prim[o.cases[0]] && prim[n.cases[0]] {
			return "warning" // changing between primitive types
		}
	case o.scalar() && n.optional():
		if o.cases[0] == n.cases[0] {
			return "warning" // making it optional
		}
	case o.optional() && n.union():
		if n.null && n.has(o.cases[0]) {
			return "warning" // optional to union
		}
	case o.union() && n.optional():
		if o.null && o.has(n.cases[0]) {
			return "warning" // ... and vice versa
		}
	case o.scalar() && n.union():
		if !n.null && n.has(o.cases[0]) {
			return "warning" // the documented example: T -> [.., T, ..]
		}
	case o.union() && n.union():
		if o.null != n.null {
			return ""
		}
		common, onlyOld, onlyNew := 0, 0, 0
		for _, c := range o.cases {
			if n.has(c) {
				common++
			} else {
				onlyOld++
			}
		}
		for _, c := range n.cases {
			if !o.has(c) {
				onlyNew++
			}
		}
		if common > 0 && (onlyOld > 0 || onlyNew > 0) {
			return "warning" // adding or removing types to/from a union
		}
	}
	return ""
}

func upType(b *mb, s upShape, pool []string) dsl.Type {
	var cases []dsl.Type
	if s.null {
		cases = append(cases, nil)
	}
	for _, c := range s.cases {
		cases = append(cases, b.st(pool[c]))
	}
	if len(cases) == 1 {
		return cases[0]
	}
	return b.gt(nil, cases...)
}

func upText(s upShape, pool []string) string {
	t := "["
	if s.null {
		t += "null "
	}
	for _, c := range s.cases {
		t += pool[c] + " "
	}
	return t + "]"
}

var upSiteNames = []string{"step", "record-field", "stream-item", "alias"}

func upModel(b *mb, s upShape, pool []string, site int, isNew bool, recEdited bool) *dsl.Namespace {
	ns := "Ns"
	rf := []*dsl.Field{b.field("a", b.st("int32"))}
	if isNew && recEdited {
		rf = append(rf, b.field("note", b.opt(b.st("string"))))
	}
	tds := dsl.TypeDefinitions{b.record(ns, "Rec", nil, rf...)}
	t := upType(b, s, pool)
	var stepT dsl.Type
	switch site {
	case 0:
		stepT = t
	case 1:
		tds = append(tds, b.record(ns, "Holder", nil, b.field("before", b.st("int32")), b.field("f", t), b.field("after", b.st("string"))))
		stepT = b.st("Holder")
	case 2:
		// as `!stream {items: [a, b, c]}` is parsed: the cases belong to the stream type itself.  (The nested form
		// produced by `items: int?` / `items: !union ...` is rejected by the unchanged tree: reported separately.)
		if g, ok := t.(*dsl.GeneralizedType); ok {
			g.Dimensionality = &dsl.Stream{NodeMeta: b.meta()}
			stepT = g
		} else {
			stepT = b.strm(t)
		}
	default:
		tds = append(tds, b.alias(ns, "U", nil, t))
		stepT = b.strm(b.st("U"))
	}
	steps := []*dsl.ProtocolStep{b.step("first", b.st("int32")), b.step("u", stepT), b.step("last", b.st("string"))}
	return &dsl.Namespace{Name: ns, IsTopLevel: true, TypeDefinitions: tds, Protocols: []*dsl.ProtocolDefinition{b.protocol(ns, "Proto", steps...)}}
}

// C06UnionPos(poolKind, nSites, all): poolKind 0 = {int32, string, float32}, 1 = {int32, string, Rec} where Rec gains an
// optional field in the new version (a compatible definition change that must still let the case match), 2 = symbolic
// choice of both; nSites = number of sites (step, record field, stream item, alias) ranged over; all = 1 also runs
// the pairs the documentation does not classify (totality only).
func C06UnionPos(poolKind int, nSites int, all int) {
	pk := poolKind
	if poolKind == 2 {
		pk = verifChoose("pool", 2)
	}
	pool := []string{"int32", "string", "float32"}
	prim := []bool{true, true, true}
	if pk == 1 {
		pool = []string{"int32", "string", "Rec"}
		prim = []bool{true, true, false}
	}
	o := upShape{null: verifBool("old-null"), cases: upSelections[verifChoose("old-cases", len(upSelections))]}
	n := upShape{null: verifBool("new-null"), cases: upSelections[verifChoose("new-cases", len(upSelections))]}
	class := upClass(o, n, prim)
	if class == "" && all == 0 {
		return
	}
	site := 0
	if nSites > 1 {
		site = verifChoose("site", nSites)
	}
	b0, b1 := &mb{file: "v0/model.yml"}, &mb{file: "model.yml"}
	oldNs, newNs := upModel(b0, o, pool, site, false, pk == 1), upModel(b1, n, pool, site, true, pk == 1)
	verifOut("edit", "unionpos")
	verifOut("old", upText(o, pool))
	verifOut("new", upText(n, pool))
	verifOut("site", upSiteNames[site])
	c06Verdict(oldNs, newNs, class)
	verifReach("c06-unionpos-end")
}
