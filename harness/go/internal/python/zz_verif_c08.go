package python

import (
	"github.com/microsoft/yardl/tooling/pkg/dsl"
	"github.com/microsoft/yardl/tooling/pkg/packaging"
)

// VerifGenerate runs the real Python generator (not the C11 stub).
func VerifGenerate(env *dsl.Environment, options packaging.PythonCodegenOptions) error {
	return Generate(env, options)
}
