package python

import (
	"path"

	"github.com/microsoft/yardl/tooling/internal/iocommon"
	"github.com/microsoft/yardl/tooling/pkg/dsl"
	"github.com/microsoft/yardl/tooling/pkg/packaging"
)

func verifRepl_Generate(env *dsl.Environment, options packaging.PythonCodegenOptions) error {
	return iocommon.WriteFileIfNeeded(path.Join(options.OutputDir, "generated.py"), []byte("x"), 0644)
}
