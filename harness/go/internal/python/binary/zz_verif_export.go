package binary

import (
	"bytes"

	"github.com/microsoft/yardl/tooling/internal/formatting"
	"github.com/microsoft/yardl/tooling/pkg/dsl"
)

func VerifTypeSerializer(t dsl.Type, ctx string) string { return typeSerializer(t, ctx, nil) }

func VerifWriteRecordSerializers(ns *dsl.Namespace) string {
	b := bytes.Buffer{}
	w := formatting.NewIndentedWriter(&b, "    ")
	writeRecordSerializers(w, ns)
	return b.String()
}
