package ndjson

import "github.com/microsoft/yardl/tooling/pkg/dsl"

func VerifTypeConverter(t dsl.Type, ctx string) string { return typeConverter(t, ctx, nil) }
