#!/usr/bin/env python3-vt
# Native replay (no proxies, real unmodified yardl Python runtime from /repo) of a pysym counterexample.
# property C01   obligation prim.read==written
# key py:prim.read:fixed_int32:N16:full:prim.read==written
# value read differs from the value whose reference encoding was supplied
# run:  python3-vt <this file>      exit 1 = failure reproduced, 0 = not reproduced
import sys, json
sys.path.insert(0, '/verif')
from engine.pysym import env
SPEC = json.loads('{"prop": "C01", "key": "py:prim.read:fixed_int32:N16:full:prim.read==written", "obligation": "prim.read==written", "job": {"harness": "harness.py.kernels:h_prim_read", "params": {"kind": "fixed_int32", "N": 16, "mode": "full"}, "limits": {"budget_s": 25}, "hooks": null}, "inputs": {"x": 8814830, "r.p": 13, "r.pre0": 0, "r.pre1": 1, "r.pre2": 17, "r.pre3": 128, "r.pre4": 0, "r.pre5": 0, "r.pre6": 0, "r.pre7": 0, "r.pre8": 0, "r.pre9": 0, "r.pre10": 0, "r.pre11": 0, "r.pre12": 0, "r.pre13": 0, "r.pre14": 0, "r.pre15": 0, "r.t": 2, "r.post0": 0, "r.post1": 0}}')
sys.exit(env.replay_main(SPEC))
