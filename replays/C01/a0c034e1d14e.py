#!/usr/bin/env python3-vt
# Native replay (no proxies, real unmodified yardl Python runtime from /repo) of a pysym counterexample.
# property C01   obligation ser.read==written
# key py:ser.read:stream<optional<int16>>/generator:full:ser.read==written
# value read differs from the value whose reference encoding was supplied
# run:  python3-vt <this file>      exit 1 = failure reproduced, 0 = not reproduced
import sys, json
sys.path.insert(0, '/verif')
from engine.pysym import env
SPEC = json.loads('{"prop": "C01", "key": "py:ser.read:stream<optional<int16>>/generator:full:ser.read==written", "obligation": "ser.read==written", "job": {"harness": "harness.py.kernels:h_ser_read", "params": {"t": ["stream", ["optional", ["int16"]]], "N": 16, "mode": "full", "maxlen": 2, "variant": "generator"}, "limits": {"budget_s": 25}, "hooks": null}, "inputs": {"v.0.v": 2887, "r.p": 0, "r.pre0": 0, "r.pre1": 0, "r.pre2": 0, "r.pre3": 0, "r.pre4": 0, "r.pre5": 0, "r.pre6": 0, "r.pre7": 0, "r.pre8": 0, "r.pre9": 0, "r.pre10": 0, "r.pre11": 0, "r.pre12": 0, "r.pre13": 0, "r.pre14": 0, "r.pre15": 0, "r.t": 0, "r.post0": 0, "r.post1": 0, "v.len": 1, "v.0.has": 1}}')
sys.exit(env.replay_main(SPEC))
