#!/usr/bin/env python3-vt
# Native replay (no proxies, real unmodified yardl Python runtime from /repo) of a pysym counterexample.
# property C01   obligation bytes.read-no-exception[short-reads]
# key py:EOFError@CodedInputStream.read_bytearray:short-read-schedule
# EOFError raised: Unexpected EOF
# run:  python3-vt <this file>      exit 1 = failure reproduced, 0 = not reproduced
import sys, json
sys.path.insert(0, '/verif')
from engine.pysym import env
SPEC = json.loads('{"prop": "C01", "key": "py:EOFError@CodedInputStream.read_bytearray:short-read-schedule", "obligation": "bytes.read-no-exception[short-reads]", "job": {"harness": "harness.py.kernels:h_bytes", "params": {"N": 16, "mode": "short"}, "limits": {"budget_s": 25, "max_paths": 4000}, "hooks": null}, "inputs": {"w.off": 1, "w.junk0": 0, "w.junk1": 0, "w.junk2": 0, "w.junk3": 0, "w.junk4": 0, "w.junk5": 0, "w.junk6": 0, "w.junk7": 0, "w.junk8": 0, "w.junk9": 0, "w.junk10": 0, "w.junk11": 0, "w.junk12": 0, "w.junk13": 0, "w.junk14": 0, "w.junk15": 0, "r.p": 0, "r.pre0": 0, "r.pre1": 0, "r.pre2": 0, "r.pre3": 0, "r.pre4": 0, "r.pre5": 0, "r.pre6": 0, "r.pre7": 0, "r.pre8": 0, "r.pre9": 0, "r.pre10": 0, "r.pre11": 0, "r.pre12": 0, "r.pre13": 0, "r.pre14": 0, "r.pre15": 0, "r.t": 1, "r.post0": 0, "r.post1": 0, "r.src.k0": 2, "len": 4, "reader": 1}}')
sys.exit(env.replay_main(SPEC))
