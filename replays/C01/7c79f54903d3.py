#!/usr/bin/env python3-vt
# Native replay (no proxies, real unmodified yardl Python runtime from /repo) of a pysym counterexample.
# property C01   obligation prim.bytes==reference
# key py:prim.write:svarint:N16:prim.bytes==reference
# bytes written differ from the reference encoding
# run:  python3-vt <this file>      exit 1 = failure reproduced, 0 = not reproduced
import sys, json
sys.path.insert(0, '/verif')
from engine.pysym import env
SPEC = json.loads('{"prop": "C01", "key": "py:prim.write:svarint:N16:prim.bytes==reference", "obligation": "prim.bytes==reference", "job": {"harness": "harness.py.kernels:h_prim_write", "params": {"kind": "svarint", "N": 16}, "limits": {"budget_s": 25}, "hooks": null}, "inputs": {"w.off": 15, "w.junk0": 0, "w.junk1": 0, "w.junk2": 0, "w.junk3": 0, "w.junk4": 0, "w.junk5": 0, "w.junk6": 0, "w.junk7": 0, "w.junk8": 0, "w.junk9": 0, "w.junk10": 0, "w.junk11": 0, "w.junk12": 0, "w.junk13": 0, "w.junk14": 0, "w.junk15": 0, "x": 4294973982}}')
sys.exit(env.replay_main(SPEC))
