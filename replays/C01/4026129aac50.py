#!/usr/bin/env python3-vt
# Native replay (no proxies, real unmodified yardl Python runtime from /repo) of a pysym counterexample.
# property C01   obligation ser.read==written
# key py:ser.read:f64:full:ser.read==written
# value read differs from the value whose reference encoding was supplied
# run:  python3-vt <this file>      exit 1 = failure reproduced, 0 = not reproduced
import sys, json
sys.path.insert(0, '/verif')
from engine.pysym import env
SPEC = json.loads('{"prop": "C01", "key": "py:ser.read:f64:full:ser.read==written", "obligation": "ser.read==written", "job": {"harness": "harness.py.kernels:h_ser_read", "params": {"t": ["f64"], "N": 16, "mode": "full", "maxlen": 2}, "limits": {"budget_s": 25}, "hooks": null}, "inputs": {"v": 146369195536417281, "r.p": 9, "r.pre0": 0, "r.pre1": 1, "r.pre2": 1, "r.pre3": 1, "r.pre4": 1, "r.pre5": 1, "r.pre6": 8, "r.pre7": 1, "r.pre8": 0, "r.pre9": 0, "r.pre10": 0, "r.pre11": 0, "r.pre12": 0, "r.pre13": 0, "r.pre14": 0, "r.pre15": 0, "r.t": 0, "r.post0": 0, "r.post1": 0}}')
sys.exit(env.replay_main(SPEC))
