// compile: clang++-14 -std=c++17 -O1 -DNDEBUG -I /repo/tooling/internal/cpp/include <this file> -o replay && ./replay
// (drop -DNDEBUG to see the debug-build assertion)
// property C01, violation key cc:ReadVarIntegerFastFromArray:oob-gep
// oob-gep in ReadVarIntegerFastFromArray < ReadVarInt64 < h_ReadVarU64 (%16 = getelementptr inbounds i8, i8* %15, i64 1, !dbg !106)
// spec: ret 9223372036856906144
// native observation (release build): ASan build: exit 1 ================================================================= ==19881==ERROR: AddressSanitizer: heap-buffer-overflow on address 0x60200000001c at pc 0x55742
// memory-safety violation: add  -g -fsanitize=address  to the compile command to observe it
#define BAKED_ARGS {"R", "12", "000000000000000000000000c08884a083828180808080800100000000000000", "pre:15", "ReadVarU64", "drain"}
// Native replay driver for coded_stream.h (real, unmodified header; public API only).
//
//   replay_kernels R <N> <hex stream bytes> <cmd>...     reader script
//   replay_kernels W <N> <cmd>...                         writer script
//
// reader cmds: pre:<k> (ReadBytes k, discard)  prefill (VerifyFinished, result ignored)
//              ReadVarU32 ReadVarI32 ReadVarU64 ReadVarI64 ReadFixed1 ReadFixed2 ReadFixed4 ReadFixed8
//              ReadByte ReadBytes:<k> VerifyFinished  drain (ReadBytes(1) until an exception)
// writer cmds: pre:<hex> (WriteBytes)  WriteVarU32:<v> WriteVarI32:<v> WriteVarU64:<v> WriteVarI64:<v>
//              WriteFixed1:<v> .. WriteFixed8:<v> WriteByte:<v> WriteBytes:<hex> Flush
// One output line per cmd ("ret ...", "throw <type>"); the writer prints "out <hex>" at the end.
// If BAKED_ARGS is defined the arguments are compiled in (self-contained replay artefacts).
#include <cstdint>
#include <cstdio>
#include <cstdlib>
#include <cstring>
#include <istream>
#include <ostream>
#include <sstream>
#include <stdexcept>
#include <string>
#include <vector>

#include "detail/binary/coded_stream.h"

using namespace yardl::binary;

static std::string unhex(std::string const& h) {
  std::string out;
  for (size_t i = 0; i + 1 < h.size(); i += 2) out.push_back(static_cast<char>(strtoul(h.substr(i, 2).c_str(), nullptr, 16)));
  return out;
}
static std::string hex(void const* p, size_t n) {
  static char const* d = "0123456789abcdef";
  std::string out;
  for (size_t i = 0; i < n; i++) {
    uint8_t b = static_cast<uint8_t const*>(p)[i];
    out.push_back(d[b >> 4]);
    out.push_back(d[b & 15]);
  }
  return out;
}
static void say(std::string const& s) {
  puts(s.c_str());
  fflush(stdout);
}

static int reader(std::vector<std::string> const& a) {
  size_t N = strtoul(a[0].c_str(), nullptr, 10);
  std::istringstream ss(unhex(a[1]));
  CodedInputStream r(ss, N);
  for (size_t i = 2; i < a.size(); i++) {
    std::string c = a[i], arg;
    size_t colon = c.find(':');
    if (colon != std::string::npos) {
      arg = c.substr(colon + 1);
      c = c.substr(0, colon);
    }
    try {
      if (c == "pre") {
        size_t k = strtoul(arg.c_str(), nullptr, 10);
        std::vector<uint8_t> t(k + 1);
        r.ReadBytes(t.data(), k);
        say("pre ok");
      } else if (c == "prefill") {
        try {
          r.VerifyFinished();
          say("prefill ret");
        } catch (std::exception const&) {
          say("prefill throw");
        }
      } else if (c == "ReadVarU32") {
        uint32_t v = 0xAAAAAAAAu;
        r.ReadVarInt32(v);
        say("ret " + std::to_string(v));
      } else if (c == "ReadVarI32") {
        int32_t v = 0x55555555;
        r.ReadVarInt32(v);
        say("ret " + std::to_string(static_cast<uint32_t>(v)));
      } else if (c == "ReadVarU64") {
        uint64_t v = 0xAAAAAAAAAAAAAAAAull;
        r.ReadVarInt64(v);
        say("ret " + std::to_string(v));
      } else if (c == "ReadVarI64") {
        int64_t v = 0x5555555555555555ll;
        r.ReadVarInt64(v);
        say("ret " + std::to_string(static_cast<uint64_t>(v)));
      } else if (c == "ReadFixed1") {
        uint8_t v = 0xAA;
        r.ReadFixedInteger(v);
        say("ret " + std::to_string(v));
      } else if (c == "ReadFixed2") {
        uint16_t v = 0xAAAA;
        r.ReadFixedInteger(v);
        say("ret " + std::to_string(v));
      } else if (c == "ReadFixed4") {
        uint32_t v = 0xAAAAAAAAu;
        r.ReadFixedInteger(v);
        say("ret " + std::to_string(v));
      } else if (c == "ReadFixed8") {
        uint64_t v = 0xAAAAAAAAAAAAAAAAull;
        r.ReadFixedInteger(v);
        say("ret " + std::to_string(v));
      } else if (c == "ReadByte") {
        uint8_t v = 0xAA;
        r.ReadByte(v);
        say("ret " + std::to_string(v));
      } else if (c == "ReadBytes") {
        size_t k = strtoul(arg.c_str(), nullptr, 10);
        std::vector<uint8_t> t(k + 1);
        r.ReadBytes(t.data(), k);
        say("ret " + hex(t.data(), k));
      } else if (c == "VerifyFinished") {
        r.VerifyFinished();
        say("ret");
      } else if (c == "drain") {
        std::string got;
        try {
          for (int n = 0; n < 512; n++) {  // cap: a corrupted reader (buffer_ptr_ > buffer_end_ptr_) never stops
            uint8_t v;
            r.ReadBytes(&v, 1);  // ReadBytes, not ReadByte: it re-checks the buffer after every refill
            got.push_back(static_cast<char>(v));
          }
        } catch (EndOfStreamException const&) {
        }
        say("drain " + hex(got.data(), got.size()));
      } else {
        say("bad command " + c);
        return 2;
      }
    } catch (EndOfStreamException const&) {
      say("throw yardl::binary::EndOfStreamException");
    } catch (std::runtime_error const& e) {
      say(std::string("throw std::runtime_error ") + e.what());
    }
  }
  return 0;
}

static int writer(std::vector<std::string> const& a) {
  size_t N = strtoul(a[0].c_str(), nullptr, 10);
  std::ostringstream os;
  {
    CodedOutputStream w(os, N);
    for (size_t i = 1; i < a.size(); i++) {
      std::string c = a[i], arg;
      size_t colon = c.find(':');
      if (colon != std::string::npos) {
        arg = c.substr(colon + 1);
        c = c.substr(0, colon);
      }
      unsigned long long v = strtoull(arg.c_str(), nullptr, 10);
      try {
        if (c == "pre" || c == "WriteBytes") {
          std::string b = unhex(arg);
          b.push_back(0);
          w.WriteBytes(b.data(), b.size() - 1);
        } else if (c == "WriteVarU32") {
          w.WriteVarInt32(static_cast<uint32_t>(v));
        } else if (c == "WriteVarI32") {
          w.WriteVarInt32(static_cast<int32_t>(static_cast<uint32_t>(v)));
        } else if (c == "WriteVarU64") {
          w.WriteVarInt64(static_cast<uint64_t>(v));
        } else if (c == "WriteVarI64") {
          w.WriteVarInt64(static_cast<int64_t>(v));
        } else if (c == "WriteFixed1") {
          w.WriteFixedInteger(static_cast<uint8_t>(v));
        } else if (c == "WriteFixed2") {
          w.WriteFixedInteger(static_cast<uint16_t>(v));
        } else if (c == "WriteFixed4") {
          w.WriteFixedInteger(static_cast<uint32_t>(v));
        } else if (c == "WriteFixed8") {
          w.WriteFixedInteger(static_cast<uint64_t>(v));
        } else if (c == "WriteByte") {
          w.WriteByte(static_cast<uint8_t>(v));
        } else if (c == "Flush") {
          w.Flush();
        } else {
          say("bad command " + c);
          return 2;
        }
        say("ret");
      } catch (std::runtime_error const& e) {
        say(std::string("throw std::runtime_error ") + e.what());
      }
    }
    std::string s = os.str();
    say("out " + hex(s.data(), s.size()));
  }
  return 0;
}

int main(int argc, char** argv) {
  std::vector<std::string> a;
#ifdef BAKED_ARGS
  char const* baked[] = BAKED_ARGS;
  for (char const* s : baked) a.push_back(s);
  (void)argc;
  (void)argv;
#else
  for (int i = 1; i < argc; i++) a.push_back(argv[i]);
#endif
  if (a.size() < 2) return 2;
  std::string mode = a[0];
  a.erase(a.begin());
  return mode == "R" ? reader(a) : writer(a);
}
