#!/usr/bin/env python3-vt
# Native replay (no proxies, real unmodified yardl Python runtime from /repo) of a pysym counterexample.
# property C01   obligation ser.write-no-unexpected-exception
# key py:IndexError@CodedOutputStream.write_byte_no_check<-UnionSerializer.write#1
# IndexError raised: bytearray index out of range
# run:  python3-vt <this file>      exit 1 = failure reproduced, 0 = not reproduced
import sys, json
sys.path.insert(0, '/verif')
from engine.pysym import env
SPEC = json.loads('{"prop": "C01", "key": "py:IndexError@CodedOutputStream.write_byte_no_check<-UnionSerializer.write#1", "obligation": "ser.write-no-unexpected-exception", "job": {"harness": "harness.py.kernels:h_ser_write", "params": {"t": ["union", [null, ["uint8"], ["string", ["", "ab"]]]], "N": 16, "maxlen": 3}, "limits": {"budget_s": 240, "max_paths": 40000, "xcheck_every": 40}, "hooks": null}, "inputs": {"w.off": 16, "w.junk0": 0, "w.junk1": 0, "w.junk2": 0, "w.junk3": 0, "w.junk4": 0, "w.junk5": 0, "w.junk6": 0, "w.junk7": 0, "w.junk8": 0, "w.junk9": 0, "w.junk10": 0, "w.junk11": 0, "w.junk12": 0, "w.junk13": 0, "w.junk14": 0, "w.junk15": 0, "v.tag": 0}}')
sys.exit(env.replay_main(SPEC))
