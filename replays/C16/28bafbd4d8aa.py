#!/usr/bin/env python3-vt
# Native replay (no proxies, real unmodified yardl Python runtime from /repo) of a pysym counterexample.
# property C16   obligation trunc.delivered==written
# key py:trunc:f32:delivered-value-differs
# a value delivered before the error differs from the written one
# run:  python3-vt <this file>      exit 1 = failure reproduced, 0 = not reproduced
import sys, json
sys.path.insert(0, '/verif')
from engine.pysym import env
SPEC = json.loads('{"prop": "C16", "key": "py:trunc:f32:delivered-value-differs", "obligation": "trunc.delivered==written", "job": {"harness": "harness.py.kernels:h_trunc", "params": {"ts": [["int16"], ["f32"], ["string", ["", "ab"]]], "N": 16, "mode": "full", "maxlen": 2}, "limits": {"budget_s": 40}, "hooks": null}, "inputs": {"v0": 63, "v1": 37749249, "cut": 5, "r.p": 14, "r.pre0": 0, "r.pre1": 1, "r.pre2": 16, "r.pre3": 1, "r.pre4": 0, "r.pre5": 0, "r.pre6": 0, "r.pre7": 0, "r.pre8": 0, "r.pre9": 0, "r.pre10": 0, "r.pre11": 0, "r.pre12": 0, "r.pre13": 0, "r.pre14": 0, "r.pre15": 0, "v2": 0}}')
sys.exit(env.replay_main(SPEC))
