#!/usr/bin/env python3-vt
# Native replay (no proxies, real unmodified yardl Python runtime from /repo) of a pysym counterexample.
# property C16   obligation trunc.normal-return-only-if-complete
# key py:trunc:f32:normal-return-on-truncated-value
# a read returned normally although the stream was cut inside the value
# run:  python3-vt <this file>      exit 1 = failure reproduced, 0 = not reproduced
import sys, json
sys.path.insert(0, '/verif')
from engine.pysym import env
SPEC = json.loads('{"prop": "C16", "key": "py:trunc:f32:normal-return-on-truncated-value", "obligation": "trunc.normal-return-only-if-complete", "job": {"harness": "harness.py.kernels:h_trunc", "params": {"ts": [["int16"], ["f32"], ["string", ["", "ab"]]], "N": 16, "mode": "full", "maxlen": 2}, "limits": {"budget_s": 40, "max_paths": 4000}, "hooks": null}, "inputs": {"v0": 63, "v1": 4194305, "cut": 4, "r.p": 13, "r.pre0": 0, "r.pre1": 0, "r.pre2": 0, "r.pre3": 0, "r.pre4": 0, "r.pre5": 0, "r.pre6": 0, "r.pre7": 0, "r.pre8": 0, "r.pre9": 0, "r.pre10": 0, "r.pre11": 0, "r.pre12": 0, "r.pre13": 0, "r.pre14": 0, "r.pre15": 0, "v2": 0}}')
sys.exit(env.replay_main(SPEC))
