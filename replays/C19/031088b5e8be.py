#!/usr/bin/env python3-vt
# Native replay (no proxies, real unmodified yardl Python runtime from /repo) of a pysym counterexample.
# property C19   obligation computed.int-expression==mathematical-value
# key py:computed:nest_div_mul:wrong-value
# a / (b * a) evaluates to a different value
# run:  python3-vt <this file>      exit 1 = failure reproduced, 0 = not reproduced
import sys, json
sys.path.insert(0, '/verif')
from engine.pysym import env
SPEC = json.loads('{"prop": "C19", "key": "py:computed:nest_div_mul:wrong-value", "obligation": "computed.int-expression==mathematical-value", "job": {"harness": "harness.py.generated:h_c19_int", "params": {"rec": "RecI32", "field": "nest_div_mul"}, "limits": {"budget_s": 480, "max_paths": 4000}, "hooks": null}, "inputs": {"a": 2, "b": -1010827264}}')
sys.exit(env.replay_main(SPEC))
