#!/usr/bin/env python3-vt
# Native replay (no proxies, real unmodified yardl Python runtime from /repo) of a pysym counterexample.
# property C19   obligation computed.int-expression==mathematical-value
# key py:computed:right-operand-parentheses-dropped
# a - (b - a) is emitted without the parentheses around the right operand and evaluates left-to-right
# run:  python3-vt <this file>      exit 1 = failure reproduced, 0 = not reproduced
import sys, json
sys.path.insert(0, '/verif')
from engine.pysym import env
SPEC = json.loads('{"prop": "C19", "key": "py:computed:right-operand-parentheses-dropped", "obligation": "computed.int-expression==mathematical-value", "job": {"harness": "harness.py.generated:h_c19_int", "params": {"rec": "RecI32", "field": "nest_sub_sub"}, "limits": {"budget_s": 300, "max_paths": 40000, "xcheck_every": 2}, "hooks": null}, "inputs": {"a": 2, "b": 0}}')
sys.exit(env.replay_main(SPEC))
