#!/usr/bin/env python3-vt
# Native replay (no proxies, real unmodified yardl Python runtime from /repo) of a pysym counterexample.
# property C19   obligation computed.int-division==truncated-quotient
# key py:computed:int-division-floors-negative-quotient
# a / b is emitted as Python floor division: a negative inexact quotient is rounded down (C++ truncates toward zero)
# run:  python3-vt <this file>      exit 1 = failure reproduced, 0 = not reproduced
import sys, json
sys.path.insert(0, '/verif')
from engine.pysym import env
SPEC = json.loads('{"prop": "C19", "key": "py:computed:int-division-floors-negative-quotient", "obligation": "computed.int-division==truncated-quotient", "job": {"harness": "harness.py.generated:h_c19_int", "params": {"rec": "RecI32", "field": "quot"}, "limits": {"budget_s": 480, "max_paths": 4000}, "hooks": null}, "inputs": {"a": 500328, "b": -2120}}')
sys.exit(env.replay_main(SPEC))
