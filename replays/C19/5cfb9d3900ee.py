#!/usr/bin/env python3-vt
# Native replay (no proxies, real unmodified yardl Python runtime from /repo) of a pysym counterexample.
# property C19   obligation computed.float-expression==ieee-value
# key py:computed:float-division-floors
# x / y is emitted as Python floor division: 7.0 / 2.0 gives 3.0, IEEE (C++) gives 3.5
# run:  python3-vt <this file>      exit 1 = failure reproduced, 0 = not reproduced
import sys, json
sys.path.insert(0, '/verif')
from engine.pysym import env
SPEC = json.loads('{"prop": "C19", "key": "py:computed:float-division-floors", "obligation": "computed.float-expression==ieee-value", "job": {"harness": "harness.py.generated:h_c19_float", "params": {"rec": "RecI32", "field": "fquot"}, "limits": {"budget_s": 300, "max_paths": 40000, "xcheck_every": 2}, "hooks": null}, "inputs": {"x": 0, "y": 1}}')
sys.exit(env.replay_main(SPEC))
