// compile: clang++-14 -std=c++17 -O1 -DNDEBUG -I /repo/tooling/internal/cpp/include -I /verif/harness/cc/stubinc/_/_ <this file> -o replay && ./replay
// property C17, violation key cc:ReadMap:stale-entries-kept
// ReadMap emplaces into the destination without clearing it: an entry of the prior destination whose key is not in the stream is still present after the read (instantiation ReadMap_u8_u32)
// spec: ret size=2 entries=0=0,5=0
// native observation (release build): ret size=3 entries=0=0,5=0,33=0 / drain 40000c038a40e083d0829884
#define BAKED_ARGS {"R", "12", "020500000040000c038a40e083d0829884", "ReadMap_u8_u32:33=0", "drain"}
// Native replay driver for the serializers.h readers/writers (real header behind harness/cc/stubinc/yardl.h,
// real std::optional / std::vector / std::array / std::unordered_map; public functions only).
//
//   replay_reuse R <N> <hex stream bytes> <cmd>...     reader script
//   replay_reuse W <N> <cmd>...                         writer script ("out <hex>" printed at the end)
// reader cmds: pre:<k>  prefill  drain
//   ReadOptional_u32:<prior has 0|1>:<prior value>      -> "ret has=<0|1> v=<value|->"
//   ReadVector_u8:<prior capacity>:<hex prior>          -> "ret size=<n> items=<hex>"
//   ReadVector_u32:<prior capacity>:<v,v,..>            -> "ret size=<n> items=v,v,.."
//   ReadArray_u8_3:<hex prior>   ReadArray_u32_2:<v,v>  -> "ret items=.."
//   ReadMap_u8_u32:<k=v,k=v>     ReadMap_u32_u32:<k=v,..> (prior entries) -> "ret size=<n> entries=k=v,.." (sorted by key)
//   ReadInteger_<T>:<prior value>  (T = bool i8 u8 i16 u16 i32 u32 i64 u64 size) -> "ret <value as unsigned of T's width>"
//   ReadBlock_u32:<r0>                                  -> "ret <0|1> r=<r'> v=<value>"
// writer cmds: pre:<hex>  WriteInteger_<T>:<v>  WriteOptional_u32:<has>:<v>  WriteVector_u8:<hex>  WriteVector_u32:<v,v>
//              WriteBlock_u32:<v>  Flush
// If BAKED_ARGS is defined the arguments are compiled in (self-contained replay artefacts).
#include <algorithm>
#include <cstdio>
#include <cstdlib>
#include <sstream>

#include "detail/binary/serializers.h"

using namespace yardl::binary;

static std::string unhex(std::string const& h) {
  std::string out;
  for (size_t i = 0; i + 1 < h.size(); i += 2) out.push_back(static_cast<char>(strtoul(h.substr(i, 2).c_str(), nullptr, 16)));
  return out;
}
static std::string hex(void const* p, size_t n) {
  static char const* d = "0123456789abcdef";
  std::string out;
  for (size_t i = 0; i < n; i++) {
    uint8_t b = static_cast<uint8_t const*>(p)[i];
    out.push_back(d[b >> 4]);
    out.push_back(d[b & 15]);
  }
  return out;
}
static void say(std::string const& s) {
  puts(s.c_str());
  fflush(stdout);
}
static std::vector<std::string> split(std::string const& s, char sep) {
  std::vector<std::string> out;
  std::string cur;
  for (char ch : s) {
    if (ch == sep) {
      out.push_back(cur);
      cur.clear();
    } else {
      cur.push_back(ch);
    }
  }
  out.push_back(cur);
  return out;
}
static unsigned long long num(std::string const& s) { return strtoull(s.c_str(), nullptr, 10); }
static std::vector<uint32_t> u32list(std::string const& s) {
  std::vector<uint32_t> v;
  if (!s.empty())
    for (auto const& x : split(s, ',')) v.push_back(static_cast<uint32_t>(num(x)));
  return v;
}
template <typename V>
static std::string join(V const& v) {
  std::string items;
  size_t k = 0;
  for (auto const& x : v) items += (k++ ? "," : "") + std::to_string(x);
  return items;
}

template <typename K>
static void read_map(CodedInputStream& r, std::string const& prior) {
  std::unordered_map<K, uint32_t> m;
  if (!prior.empty())
    for (auto const& kv : split(prior, ',')) {
      auto p = split(kv, '=');
      m[static_cast<K>(num(p[0]))] = static_cast<uint32_t>(num(p[1]));
    }
  ReadMap<K, uint32_t, &ReadInteger, &ReadInteger>(r, m);
  std::vector<std::pair<uint32_t, uint32_t>> es;
  for (auto const& [k, v] : m) es.emplace_back(k, v);
  std::sort(es.begin(), es.end());
  std::string s;
  for (size_t i = 0; i < es.size(); i++) s += (i ? "," : "") + std::to_string(es[i].first) + "=" + std::to_string(es[i].second);
  say("ret size=" + std::to_string(m.size()) + " entries=" + s);
}

template <typename T>
static void read_int(CodedInputStream& r, std::string const& prior) {
  T v = static_cast<T>(num(prior));
  ReadInteger(r, v);
  using U = std::conditional_t<std::is_same_v<T, bool>, uint8_t, std::make_unsigned_t<std::conditional_t<std::is_same_v<T, bool>, uint8_t, T>>>;
  say("ret " + std::to_string(static_cast<unsigned long long>(static_cast<U>(v))));
}

static int reader(std::vector<std::string> const& a) {
  size_t N = strtoul(a[0].c_str(), nullptr, 10);
  std::istringstream ss(unhex(a[1]));
  CodedInputStream r(ss, N);
  for (size_t i = 2; i < a.size(); i++) {
    std::vector<std::string> f = split(a[i], ':');
    while (f.size() < 3) f.push_back("");
    std::string c = f[0];
    try {
      if (c == "pre") {
        size_t k = num(f[1]);
        std::vector<uint8_t> t(k + 1);
        r.ReadBytes(t.data(), k);
        say("pre ok");
      } else if (c == "prefill") {
        try {
          r.VerifyFinished();
          say("prefill ret");
        } catch (std::exception const&) {
          say("prefill throw");
        }
      } else if (c == "ReadOptional_u32") {
        std::optional<uint32_t> o;
        if (num(f[1])) o = static_cast<uint32_t>(num(f[2]));
        ReadOptional<uint32_t, &ReadInteger>(r, o);
        say(std::string("ret has=") + (o.has_value() ? "1" : "0") + " v=" + (o.has_value() ? std::to_string(*o) : std::string("-")));
      } else if (c == "ReadVector_u8") {
        std::string prior = unhex(f[2]);
        std::vector<uint8_t> v;
        v.reserve(num(f[1]));
        for (char ch : prior) v.push_back(static_cast<uint8_t>(ch));
        ReadVector<uint8_t, &ReadInteger>(r, v);
        say("ret size=" + std::to_string(v.size()) + " items=" + hex(v.data(), v.size()));
      } else if (c == "ReadVector_u32") {
        std::vector<uint32_t> v;
        v.reserve(num(f[1]));
        for (uint32_t x : u32list(f[2])) v.push_back(x);
        ReadVector<uint32_t, &ReadInteger>(r, v);
        say("ret size=" + std::to_string(v.size()) + " items=" + join(v));
      } else if (c == "ReadArray_u8_3") {
        std::string prior = unhex(f[1]);
        std::array<uint8_t, 3> arr{};
        for (size_t k = 0; k < 3 && k < prior.size(); k++) arr[k] = static_cast<uint8_t>(prior[k]);
        ReadArray<uint8_t, &ReadInteger, 3>(r, arr);
        say("ret items=" + hex(arr.data(), 3));
      } else if (c == "ReadArray_u32_2") {
        auto p = u32list(f[1]);
        std::array<uint32_t, 2> arr{};
        for (size_t k = 0; k < 2 && k < p.size(); k++) arr[k] = p[k];
        ReadArray<uint32_t, &ReadInteger, 2>(r, arr);
        say("ret items=" + join(arr));
      } else if (c == "ReadMap_u8_u32") {
        read_map<uint8_t>(r, f[1]);
      } else if (c == "ReadMap_u32_u32") {
        read_map<uint32_t>(r, f[1]);
      } else if (c == "ReadInteger_bool") {
        read_int<bool>(r, f[1]);
      } else if (c == "ReadInteger_i8") {
        read_int<int8_t>(r, f[1]);
      } else if (c == "ReadInteger_u8") {
        read_int<uint8_t>(r, f[1]);
      } else if (c == "ReadInteger_i16") {
        read_int<int16_t>(r, f[1]);
      } else if (c == "ReadInteger_u16") {
        read_int<uint16_t>(r, f[1]);
      } else if (c == "ReadInteger_i32") {
        read_int<int32_t>(r, f[1]);
      } else if (c == "ReadInteger_u32") {
        read_int<uint32_t>(r, f[1]);
      } else if (c == "ReadInteger_i64") {
        read_int<int64_t>(r, f[1]);
      } else if (c == "ReadInteger_u64") {
        read_int<uint64_t>(r, f[1]);
      } else if (c == "ReadInteger_size") {
        read_int<size_t>(r, f[1]);
      } else if (c == "ReadBlock_u32") {
        size_t rem = num(f[1]);
        uint32_t v = 0xAAAAAAAAu;
        bool b = ReadBlock<uint32_t, &ReadInteger>(r, rem, v);
        say("ret " + std::to_string(b ? 1 : 0) + " r=" + std::to_string(rem) + " v=" + std::to_string(v));
      } else if (c == "drain") {
        std::string got;
        try {
          for (int n = 0; n < 512; n++) {
            uint8_t v;
            r.ReadBytes(&v, 1);
            got.push_back(static_cast<char>(v));
          }
        } catch (EndOfStreamException const&) {
        }
        say("drain " + hex(got.data(), got.size()));
      } else {
        say("bad command " + c);
        return 2;
      }
    } catch (EndOfStreamException const&) {
      say("throw yardl::binary::EndOfStreamException");
    } catch (std::runtime_error const& e) {
      say(std::string("throw std::runtime_error ") + e.what());
    }
  }
  return 0;
}

template <typename T>
static void write_int(CodedOutputStream& w, std::string const& v) {
  T x = static_cast<T>(num(v));
  WriteInteger(w, x);
}

static int writer(std::vector<std::string> const& a) {
  size_t N = strtoul(a[0].c_str(), nullptr, 10);
  std::ostringstream os;
  {
    CodedOutputStream w(os, N);
    for (size_t i = 1; i < a.size(); i++) {
      std::vector<std::string> f = split(a[i], ':');
      while (f.size() < 3) f.push_back("");
      std::string c = f[0];
      try {
        if (c == "pre") {
          std::string b = unhex(f[1]);
          b.push_back(0);
          w.WriteBytes(b.data(), b.size() - 1);
        } else if (c == "WriteInteger_bool") {
          write_int<bool>(w, f[1]);
        } else if (c == "WriteInteger_i8") {
          write_int<int8_t>(w, f[1]);
        } else if (c == "WriteInteger_u8") {
          write_int<uint8_t>(w, f[1]);
        } else if (c == "WriteInteger_i16") {
          write_int<int16_t>(w, f[1]);
        } else if (c == "WriteInteger_u16") {
          write_int<uint16_t>(w, f[1]);
        } else if (c == "WriteInteger_i32") {
          write_int<int32_t>(w, f[1]);
        } else if (c == "WriteInteger_u32") {
          write_int<uint32_t>(w, f[1]);
        } else if (c == "WriteInteger_i64") {
          write_int<int64_t>(w, f[1]);
        } else if (c == "WriteInteger_u64") {
          write_int<uint64_t>(w, f[1]);
        } else if (c == "WriteInteger_size") {
          write_int<size_t>(w, f[1]);
        } else if (c == "WriteOptional_u32") {
          std::optional<uint32_t> o;
          if (num(f[1])) o = static_cast<uint32_t>(num(f[2]));
          WriteOptional<uint32_t, &WriteInteger>(w, o);
        } else if (c == "WriteVector_u8") {
          std::string b = unhex(f[1]);
          std::vector<uint8_t> v(b.begin(), b.end());
          WriteVector<uint8_t, &WriteInteger>(w, v);
        } else if (c == "WriteVector_u32") {
          std::vector<uint32_t> v = u32list(f[1]);
          WriteVector<uint32_t, &WriteInteger>(w, v);
        } else if (c == "WriteBlock_u32") {
          uint32_t x = static_cast<uint32_t>(num(f[1]));
          WriteBlock<uint32_t, &WriteInteger>(w, x);
        } else if (c == "Flush") {
          w.Flush();
        } else {
          say("bad command " + c);
          return 2;
        }
        say("ret");
      } catch (std::runtime_error const& e) {
        say(std::string("throw std::runtime_error ") + e.what());
      }
    }
    std::string s = os.str();
    say("out " + hex(s.data(), s.size()));
  }
  return 0;
}

int main(int argc, char** argv) {
  std::vector<std::string> a;
#ifdef BAKED_ARGS
  char const* baked[] = BAKED_ARGS;
  for (char const* s : baked) a.push_back(s);
  (void)argc;
  (void)argv;
#else
  for (int i = 1; i < argc; i++) a.push_back(argv[i]);
#endif
  if (a.size() < 2) return 2;
  std::string mode = a[0];
  a.erase(a.begin());
  return mode == "R" ? reader(a) : writer(a);
}
