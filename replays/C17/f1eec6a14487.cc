// compile: clang++-14 -std=c++17 -O1 -DNDEBUG -I /repo/tooling/internal/cpp/include -I /verif/harness/cc/stubinc/_/_ <this file> -o replay && ./replay
// (drop -DNDEBUG to see the debug-build assertion)
// property C17, violation key cc:RBIV_u8:count
// delivered batch size differs from min(capacity, remaining items)
// spec: ret r=0 size=0 cap=4 items=
// native observation (release build): ret r=0 size=3 cap=4 items=000000 / drain
#define BAKED_ARGS {"R", "8", "00", "RBIV_u8:0:4:000000", "drain"}
// Native replay driver for serializers.h / header.h (real headers behind harness/cc/stubinc/yardl.h).
//
//   replay_blocks R <N> <hex stream bytes> <cmd>...
// cmds: pre:<k> (ReadBytes k, discard)   prefill (VerifyFinished, result ignored)
//       ReadBlock_u32:<r0>                     -> "ret <0|1> r=<r'> v=<value>"
//       RBIV_u8:<r0>:<capacity>:<hex prior>    -> "ret r=<r'> size=<n> cap=<c> items=<hex>"
//       RBIV_u32:<r0>:<capacity>:<v,v,..>      -> "ret r=<r'> size=<n> cap=<c> items=v,v,.."
//       ReadHeader                             -> "ret <hex of returned schema>"
//       drain (ReadBytes(1) until an exception, capped)
// If BAKED_ARGS is defined the arguments are compiled in (self-contained replay artefacts).
#include <cstdio>
#include <cstdlib>
#include <sstream>

#include "detail/binary/header.h"

using namespace yardl::binary;

static std::string unhex(std::string const& h) {
  std::string out;
  for (size_t i = 0; i + 1 < h.size(); i += 2) out.push_back(static_cast<char>(strtoul(h.substr(i, 2).c_str(), nullptr, 16)));
  return out;
}
static std::string hex(void const* p, size_t n) {
  static char const* d = "0123456789abcdef";
  std::string out;
  for (size_t i = 0; i < n; i++) {
    uint8_t b = static_cast<uint8_t const*>(p)[i];
    out.push_back(d[b >> 4]);
    out.push_back(d[b & 15]);
  }
  return out;
}
static void say(std::string const& s) {
  puts(s.c_str());
  fflush(stdout);
}
static std::vector<std::string> split(std::string const& s, char sep) {
  std::vector<std::string> out;
  std::string cur;
  for (char ch : s) {
    if (ch == sep) {
      out.push_back(cur);
      cur.clear();
    } else {
      cur.push_back(ch);
    }
  }
  out.push_back(cur);
  return out;
}

static int reader(std::vector<std::string> const& a) {
  size_t N = strtoul(a[0].c_str(), nullptr, 10);
  std::istringstream ss(unhex(a[1]));
  CodedInputStream r(ss, N);
  for (size_t i = 2; i < a.size(); i++) {
    std::vector<std::string> f = split(a[i], ':');
    std::string c = f[0];
    try {
      if (c == "pre") {
        size_t k = strtoul(f[1].c_str(), nullptr, 10);
        std::vector<uint8_t> t(k + 1);
        r.ReadBytes(t.data(), k);
        say("pre ok");
      } else if (c == "prefill") {
        try {
          r.VerifyFinished();
          say("prefill ret");
        } catch (std::exception const&) {
          say("prefill throw");
        }
      } else if (c == "ReadBlock_u32") {
        size_t rem = strtoull(f[1].c_str(), nullptr, 10);
        uint32_t v = 0xAAAAAAAAu;
        bool b = ReadBlock<uint32_t, &ReadInteger>(r, rem, v);
        say("ret " + std::to_string(b ? 1 : 0) + " r=" + std::to_string(rem) + " v=" + std::to_string(v));
      } else if (c == "RBIV_u8") {
        size_t rem = strtoull(f[1].c_str(), nullptr, 10);
        size_t cap = strtoull(f[2].c_str(), nullptr, 10);
        std::string prior = unhex(f.size() > 3 ? f[3] : "");
        std::vector<uint8_t> v;
        v.reserve(cap);
        for (char ch : prior) v.push_back(static_cast<uint8_t>(ch));
        ReadBlocksIntoVector<uint8_t, &ReadInteger>(r, rem, v);
        say("ret r=" + std::to_string(rem) + " size=" + std::to_string(v.size()) + " cap=" + std::to_string(v.capacity()) +
            " items=" + hex(v.data(), v.size()));
      } else if (c == "RBIV_u32") {
        size_t rem = strtoull(f[1].c_str(), nullptr, 10);
        size_t cap = strtoull(f[2].c_str(), nullptr, 10);
        std::vector<uint32_t> v;
        v.reserve(cap);
        if (f.size() > 3 && !f[3].empty())
          for (auto const& s : split(f[3], ',')) v.push_back(static_cast<uint32_t>(strtoul(s.c_str(), nullptr, 10)));
        ReadBlocksIntoVector<uint32_t, &ReadInteger>(r, rem, v);
        std::string items;
        for (size_t k = 0; k < v.size(); k++) items += (k ? "," : "") + std::to_string(v[k]);
        say("ret r=" + std::to_string(rem) + " size=" + std::to_string(v.size()) + " cap=" + std::to_string(v.capacity()) + " items=" + items);
      } else if (c == "ReadHeader") {
        std::string s = ReadHeader(r);
        say("ret " + hex(s.data(), s.size()));
      } else if (c == "drain") {
        std::string got;
        try {
          for (int n = 0; n < 512; n++) {
            uint8_t v;
            r.ReadBytes(&v, 1);
            got.push_back(static_cast<char>(v));
          }
        } catch (EndOfStreamException const&) {
        }
        say("drain " + hex(got.data(), got.size()));
      } else {
        say("bad command " + c);
        return 2;
      }
    } catch (EndOfStreamException const&) {
      say("throw yardl::binary::EndOfStreamException");
    } catch (std::runtime_error const& e) {
      say(std::string("throw std::runtime_error ") + e.what());
    }
  }
  return 0;
}

int main(int argc, char** argv) {
  std::vector<std::string> a;
#ifdef BAKED_ARGS
  char const* baked[] = BAKED_ARGS;
  for (char const* s : baked) a.push_back(s);
  (void)argc;
  (void)argv;
#else
  for (int i = 1; i < argc; i++) a.push_back(argv[i]);
#endif
  if (a.size() < 3) return 2;
  a.erase(a.begin());
  return reader(a);
}
