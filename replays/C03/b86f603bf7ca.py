#!/usr/bin/env python3-vt
# Native replay (no proxies, real unmodified yardl Python runtime from /repo) of a pysym counterexample.
# property C03   obligation store-in-bounds:write_byte_no_check<-StreamSerializer.write#1
# key py:StreamSerializer.write#1:write_byte_no_check:offset-out-of-range
# write_byte_no_check stores at _offset outside 0 <= _offset < len(_buffer)
# run:  python3-vt <this file>      exit 1 = failure reproduced, 0 = not reproduced
import sys, json
sys.path.insert(0, '/verif')
from engine.pysym import env
SPEC = json.loads('{"prop": "C03", "key": "py:StreamSerializer.write#1:write_byte_no_check:offset-out-of-range", "obligation": "store-in-bounds:write_byte_no_check<-StreamSerializer.write#1", "job": {"harness": "harness.py.kernels:h_c03", "params": {"case": "stream/generator", "N": 16, "maxlen": 2}, "limits": {"budget_s": 25, "max_paths": 4000}, "hooks": "harness.py.kernels:install_c03_hooks"}, "inputs": {"w.off": 16, "w.junk0": 0, "w.junk1": 0, "w.junk2": 0, "w.junk3": 0, "w.junk4": 0, "w.junk5": 0, "w.junk6": 0, "w.junk7": 0, "w.junk8": 0, "w.junk9": 0, "w.junk10": 0, "w.junk11": 0, "w.junk12": 0, "w.junk13": 0, "w.junk14": 0, "w.junk15": 0, "v.0": -2147483647, "v.len": 1}}')
sys.exit(env.replay_main(SPEC))
