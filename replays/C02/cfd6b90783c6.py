#!/usr/bin/env python3-vt
# Native replay (no proxies, real unmodified yardl Python runtime from /repo) of a pysym counterexample.
# property C02   obligation conv.out-of-range-is-rejected
# key py:ndjson:enum:out-of-range-value-accepted
# 
# run:  python3-vt <this file>      exit 1 = failure reproduced, 0 = not reproduced
import sys, json
sys.path.insert(0, '/verif')
from engine.pysym import env
SPEC = json.loads('{"prop": "C02", "key": "py:ndjson:enum:out-of-range-value-accepted", "obligation": "conv.out-of-range-is-rejected", "job": {"harness": "harness.py.kernels:h_conv", "params": {"t": ["enum", ["int32"], [0, 1, 5]], "maxlen": 2}, "limits": {"budget_s": 60}, "hooks": null}, "inputs": {"v": 2147483650}}')
sys.exit(env.replay_main(SPEC))
