#!/usr/bin/env python3-vt
# Native replay (no proxies, real unmodified yardl Python runtime from /repo) of a pysym counterexample.
# property C02   obligation conv.range-error-only-if-out-of-range
# key py:ValueError@UInt8Converter.to_json:in-range-value-rejected
# 
# run:  python3-vt <this file>      exit 1 = failure reproduced, 0 = not reproduced
import sys, json
sys.path.insert(0, '/verif')
from engine.pysym import env
SPEC = json.loads('{"prop": "C02", "key": "py:ValueError@UInt8Converter.to_json:in-range-value-rejected", "obligation": "conv.range-error-only-if-out-of-range", "job": {"harness": "harness.py.kernels:h_conv", "params": {"t": ["map", ["int16"], ["optional", ["uint8"]]], "maxlen": 2}, "limits": {"budget_s": 60}, "hooks": null}, "inputs": {"v.k0": -32767, "v.v0.v": -18446744073709551615, "v.len": 1, "v.v0.has": 1}}')
sys.exit(env.replay_main(SPEC))
