#!/usr/bin/env python3-vt
# Native replay (no proxies, real unmodified yardl Python runtime from /repo) of a pysym counterexample.
# property C15   obligation header.refusal-is-RuntimeError
# key py:BufferError@CodedInputStream._fill_buffer
# BufferError raised: Existing exports of data: object cannot be re-sized
# run:  python3-vt <this file>      exit 1 = failure reproduced, 0 = not reproduced
import sys, json
sys.path.insert(0, '/verif')
from engine.pysym import env
SPEC = json.loads('{"prop": "C15", "key": "py:BufferError@CodedInputStream._fill_buffer", "obligation": "header.refusal-is-RuntimeError", "job": {"harness": "harness.py.kernels:h_header_binary", "params": {"mode": "short"}, "limits": {"budget_s": 300, "max_paths": 40000, "max_readinto": 80}, "hooks": null}, "inputs": {"magic0": 121, "magic1": 97, "magic2": 114, "magic3": 100, "magic4": 108, "ver0": 0, "ver1": 0, "ver2": 0, "ver3": 0, "step0": 0, "step1": 0, "step2": 0, "src.k0": 8, "schema": 0, "expected": 0}}')
sys.exit(env.replay_main(SPEC))
