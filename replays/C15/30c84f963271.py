#!/usr/bin/env python3-vt
# Native replay (no proxies, real unmodified yardl Python runtime from /repo) of a pysym counterexample.
# property C15   obligation header.refusal-is-RuntimeError
# key py:EOFError@CodedInputStream._fill_buffer
# EOFError raised: Unexpected EOF
# run:  python3-vt <this file>      exit 1 = failure reproduced, 0 = not reproduced
import sys, json
sys.path.insert(0, '/verif')
from engine.pysym import env
SPEC = json.loads('{"prop": "C15", "key": "py:EOFError@CodedInputStream._fill_buffer", "obligation": "header.refusal-is-RuntimeError", "job": {"harness": "harness.py.kernels:h_header_binary", "params": {"mode": "short"}, "limits": {"budget_s": 300, "max_paths": 40000, "max_readinto": 80}, "hooks": null}, "inputs": {"magic0": 0, "magic1": 0, "magic2": 0, "magic3": 0, "magic4": 0, "ver0": 0, "ver1": 0, "ver2": 0, "ver3": 0, "step0": 0, "step1": 0, "step2": 0, "src.k0": 4, "schema": 0, "expected": 0}}')
sys.exit(env.replay_main(SPEC))
