#!/usr/bin/env python3-vt
# Native replay (no proxies, real unmodified yardl Python runtime from /repo) of a pysym counterexample.
# property C15   obligation header.accept-only-if-valid
# key py:BinaryProtocolReader.__init__:foreign-header-accepted
# constructor returned normally although magic/version/schema do not match
# run:  python3-vt <this file>      exit 1 = failure reproduced, 0 = not reproduced
import sys, json
sys.path.insert(0, '/verif')
from engine.pysym import env
SPEC = json.loads('{"prop": "C15", "key": "py:BinaryProtocolReader.__init__:foreign-header-accepted", "obligation": "header.accept-only-if-valid", "job": {"harness": "harness.py.kernels:h_header_binary", "params": {"mode": "full"}, "limits": {"budget_s": 60, "max_paths": 4000, "max_readinto": 80}, "hooks": null}, "inputs": {"magic0": 121, "magic1": 97, "magic2": 114, "magic3": 100, "magic4": 108, "ver0": 2, "ver1": 1, "ver2": 1, "ver3": 128, "step0": 0, "step1": 0, "step2": 0, "schema": 0, "expected": 0}}')
sys.exit(env.replay_main(SPEC))
