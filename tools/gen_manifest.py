#!/usr/bin/env python3
"""Regenerate /verif/MANIFEST.json from parts/registry.py (PARTS, CLAIMS, NOT_APPLICABLE)."""
import json, os, sys
ROOT = os.path.dirname(os.path.dirname(os.path.abspath(__file__)))
sys.path.insert(0, ROOT)
from parts import registry as R

props = [json.loads(l) for l in open(os.path.join(ROOT, "properties.jsonl"))]
ids = [p["id"] for p in props]
checks, na = [], []
for pid in ids:
    c = R.CLAIMS.get(pid)
    if c and pid in R.PARTS:
        checks.append({
            "property_id": pid,
            "quick_cmd": "bin/check %s --tier quick" % pid,
            "thorough_cmd": "bin/check %s --tier thorough" % pid,
            "evidence_file": "evidence/%s.json" % pid,
            "replay_cmd_template": "bin/check %s --replay {path}" % pid,
            "engine": c.get("engine", "gosym"),
            "level_claimed": {"category": "model_checking", "text": c["text"], "design_ref": c.get("design_ref", "DESIGN.md section 5 " + pid)},
            "level_note": c["note"],
            "technique": c.get("technique", "bounded symbolic execution of the real code (go/ssa, CPython proxies, LLVM IR) with z3 deciding every branch and assertion"),
        })
    else:
        na.append({"property_id": pid, "reason": R.NOT_APPLICABLE.get(pid, "check not built yet (work in progress)")})
m = {
    "version": 1,
    "setup_cmd": "cd engine/gosym && GOFLAGS=-mod=mod GOPROXY=off go build -o gosym .",
    "hooks": {"guard": "verif", "enable": "none needed: harnesses are go/packages + `go test -overlay` files, never written into /repo",
              "baseline_off_cmd": "cd /repo/tooling && GOFLAGS=-mod=mod go test -json -vet=off -count=1 -timeout 25m ./...",
              "source_commits": R.HOOK_COMMITS, "add_only": True},
    "engines": [
        {"name": "gosym", "path": "engine/gosym", "serves_properties": sorted(p for p in R.PARTS if any(s[0] == "gosym_part" or s[0].startswith("go_") for s in R.PARTS[p])),
         "kind_free_text": "fork of x/tools go/ssa/interp with symbolic ints/bools/strings, decision-prefix re-execution, z3 -in; native replay via go test -overlay"},
        {"name": "pysym", "path": "engine/pysym", "serves_properties": sorted(p for p in R.PARTS if any(s[0].startswith("py_") for s in R.PARTS[p])),
         "kind_free_text": "symbolic proxy objects executing the unmodified Python runtime under CPython with z3"},
        {"name": "llsym", "path": "engine/llsym", "serves_properties": sorted(p for p in R.PARTS if any(s[0].startswith("cc_") for s in R.PARTS[p])),
         "kind_free_text": "LLVM IR (clang -emit-llvm of the real headers) symbolic executor in Python with z3"},
    ],
    "checks": checks,
    "notes": R.NOTES,
    "not_applicable": na,
}
json.dump(m, open(os.path.join(ROOT, "MANIFEST.json"), "w"), indent=1)
print("claimed:", [c["property_id"] for c in checks], "not claimed:", [n["property_id"] for n in na])
