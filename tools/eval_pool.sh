#!/bin/bash
# eval_pool.sh <workers per trial> <names...>: evaluate stored seeds not yet evaluated (one result file per seed in /tmp/evalstored; a lock
# directory per seed lets several pools share one list)
W=$1; shift
mkdir -p /tmp/evalstored
for n in "$@"; do
  [ -f /tmp/evalstored/$n.txt ] && continue
  mkdir /tmp/evalstored/$n.lock 2>/dev/null || continue
  VERIF_WORKERS=$W VERIF_NPROC=$W /verif/tools/eval_stored.sh $n quick
done
