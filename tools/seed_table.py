#!/usr/bin/env python3
"""seed_table.py <results dir> <suffixes e.g. CDEF>: markdown table of seeded changes and the part that reports them."""
import sys, os, re, json, glob
rd, suf = sys.argv[1], sys.argv[2]
rows = []
for d in sorted(glob.glob('/verif/seeded/C??_[%s]' % suf)):
    n = os.path.basename(d)
    try:
        m = json.load(open(d + '/meta.json'))
    except Exception:
        m = {}
    summ = ' '.join((m.get('summary') or '').split())
    summ = summ[:230] + ('…' if len(summ) > 230 else '')
    res = ''
    for cand in (os.path.join(rd, n + '.txt'), os.path.join(rd, n.replace('_', '_') + '.txt')):
        if os.path.exists(cand):
            res = open(cand).read().strip()
            break
    mm = re.search(r'violations=(\d+) inconclusive=(\d+) exit=(\d+) \| ?(.*)$', res)
    if not mm:
        caught = 'not evaluated'
    elif mm.group(3) == '1':
        first = mm.group(4)
        part = first.split(':')[0] if first else ''
        caught = '`%s` (%s)' % (part, (first.split(':')[1] if ':' in first else '')[:60])
    elif mm.group(3) == '3':
        caught = 'INCONCLUSIVE (exit 3, %s reasons)' % mm.group(2)
    else:
        caught = '**missed**'
    rows.append('| %s | %s | %s |' % (n, summ.replace('|', '/'), caught))
print('| seed | change | reported by (quick tier) |\n|---|---|---|')
print('\n'.join(rows))
