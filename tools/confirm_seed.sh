#!/bin/bash
# confirm_seed.sh <seed out dir> <id> : re-verify a seeded change in a fresh scratch worktree
# prints one line: CONFIRM <id> demo_clean=<rc> build=<rc> tests=<pass>/<fail> demo_seeded=<rc>
OUT=$1; ID=$2
export GOFLAGS=-mod=mod GOPROXY=off
W=/tmp/confirm/$ID
rm -rf $W; mkdir -p /tmp/confirm
git -C /repo worktree add -q --detach $W HEAD || exit 2
( cd $W && bash $OUT/run_demo.sh $W >/tmp/confirm/$ID.clean.log 2>&1 ); RC_CLEAN=$?
( cd $W && git apply $OUT/patch.diff ) || { echo "CONFIRM $ID patch does not apply"; git -C /repo worktree remove --force $W; exit 2; }
( cd $W/tooling && go build ./... >/tmp/confirm/$ID.build.log 2>&1 ); RC_BUILD=$?
( cd $W/tooling && go test -vet=off -count=1 -json ./... 2>/dev/null | python3 -c "
import sys,json
p=f=0
for l in sys.stdin:
    try: e=json.loads(l)
    except: continue
    if e.get('Test') and e.get('Action')=='pass': p+=1
    if e.get('Test') and e.get('Action')=='fail': f+=1
print('%d/%d'%(p,f))" > /tmp/confirm/$ID.tests )
( cd $W && bash $OUT/run_demo.sh $W >/tmp/confirm/$ID.seeded.log 2>&1 ); RC_SEEDED=$?
echo "CONFIRM $ID demo_clean=$RC_CLEAN build=$RC_BUILD tests=$(cat /tmp/confirm/$ID.tests) demo_seeded=$RC_SEEDED"
git -C /repo worktree remove --force $W
