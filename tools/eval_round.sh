#!/bin/bash
# eval_round.sh <rootdir> [names...]: confirm (fresh worktree: clean demo, apply, build, tests, seeded demo) and try (property's quick check
# against a scratch worktree with the patch) every <rootdir>/C??/out? seed; PAR jobs in parallel; results in <rootdir>/eval/
ROOT=$1; shift
mkdir -p $ROOT/eval
if [ $# -gt 0 ]; then printf "%s\n" "$@"; else for d in $ROOT/C??/out?; do [ -f $d/patch.diff ] && echo "$(basename $(dirname $d))$(basename $d | cut -c4)"; done; fi > $ROOT/eval/list.txt
cat $ROOT/eval/list.txt | xargs -P ${PAR:-3} -I{} bash -c 'x={}; ID=${x:0:3}; V=${x:3:1}; ROOT='$ROOT'
  [ -s $ROOT/eval/$x.confirm ] || /verif/tools/confirm_seed.sh $ROOT/$ID/out$V r_${ID}_$V 2>&1 | grep CONFIRM > $ROOT/eval/$x.confirm
  /verif/tools/try_seed.sh $ROOT/$ID/out$V/patch.diff $ID quick 400 r-$x > $ROOT/eval/$x.try 2>&1
  R=$ROOT/eval/$x.try
  echo "EVAL $x | $(cat $ROOT/eval/$x.confirm | cut -d" " -f3-) | violations=$(grep -c "^VIOLATION" $R) inconclusive=$(grep -c "^INCONCLUSIVE" $R) $(grep "^exit=" $R | tail -1) | $(grep "^VIOLATION" $R | head -1 | sed "s/.*(\(.*\)/\1/" | cut -c1-120)"'
