#!/bin/bash
# eval_seeds2.sh <ID> <A|B> : confirm a batch-2 seed and try it against the property's quick check
ID=$1; V=$2
OUT=/tmp/seed2/$ID/out$V
[ -f $OUT/patch.diff ] || { echo "MISSING $ID$V"; exit 0; }
C=$(/verif/tools/confirm_seed.sh $OUT ${ID}_$V 2>&1 | grep CONFIRM)
R=$(/verif/tools/try_seed.sh $OUT/patch.diff $ID quick 200 2>&1)
NV=$(echo "$R" | grep -c "^VIOLATION")
NI=$(echo "$R" | grep -c "^INCONCLUSIVE")
EX=$(echo "$R" | grep "^exit=" | tail -1)
echo "EVAL $ID$V | $C | violations=$NV inconclusive=$NI $EX | $(echo "$R" | grep '^VIOLATION' | head -1 | cut -c1-200)"
