#!/usr/bin/env python3
"""round_table.py <suffix letters> [results dir]: markdown table (seed | change | reported by) for the stored seeds with these
suffixes, from the tools/eval_stored.sh result files."""
import sys, os, re, json, glob
suf = sys.argv[1]; rd = sys.argv[2] if len(sys.argv) > 2 else '/tmp/evalstored'
print('| seed | change | reported by (quick tier) |\n|---|---|---|')
for d in sorted(glob.glob('/verif/seeded/C??_[%s]' % suf)):
    n = os.path.basename(d)
    m = json.load(open(d + '/meta.json'))
    summ = ' '.join((m.get('summary') or '').split()).replace('|', '/')
    summ = summ[:200] + ('…' if len(summ) > 200 else '')
    res = open(os.path.join(rd, n + '.txt')).read().strip() if os.path.exists(os.path.join(rd, n + '.txt')) else ''
    mm = re.search(r'violations=(\d+) inconclusive=(\d+) exit=(\d+) \| ?(.*)$', res)
    if not mm:
        caught = 'not evaluated'
    elif mm.group(3) == '1':
        k = re.search(r'\(([^ )]*)', mm.group(4))
        caught = '`%s`' % (k.group(1).rstrip(':') if k else '?')
    elif mm.group(3) == '3':
        caught = 'INCONCLUSIVE'
    else:
        caught = '**not reported**'
    print('| %s | %s | %s |' % (n, summ, caught))
