#!/bin/bash
# try_seed.sh <patch> <prop> [tier] [lines] : apply a seeded change to /repo, run the check, undo it.
# The evidence file and replays of the clean tree are saved and restored (a seeded run must not be committed as evidence).
P=$1; ID=$2; TIER=${3:-quick}
B=$(mktemp -d /tmp/try_seed.XXXX)
cp /verif/evidence/$ID.json $B/ 2>/dev/null
cp -r /verif/replays/$ID $B/replays 2>/dev/null
git -C /repo apply $P || exit 2
/verif/bin/check $ID --tier $TIER 2>&1 | grep -v "^WARNING conda" | tail -${4:-6} | cut -c1-600
echo "exit=${PIPESTATUS[0]}"
git -C /repo checkout -- .
git -C /repo status --short | head
cp $B/$ID.json /verif/evidence/ 2>/dev/null
rm -rf /verif/replays/$ID; [ -d $B/replays ] && cp -r $B/replays /verif/replays/$ID
rm -rf $B
