#!/bin/bash
# try_seed.sh <patch> <prop> [tier] [lines] [tag]: apply a seeded change to a scratch worktree of /repo, run the
# property's check against it (VERIF_REPO), remove the worktree.  Evidence and replays of the trial go to a
# scratch directory (VERIF_OUT): nothing under /verif/evidence or /repo is touched.
P=$1; ID=$2; TIER=${3:-quick}; TAG=${5:-$ID}
W=/tmp/tryseed/$TAG
rm -rf $W $W.out; mkdir -p /tmp/tryseed $W.out
git -C /repo worktree prune
git -C /repo worktree add -q --detach $W HEAD || exit 2
git -C $W apply $P || { git -C /repo worktree remove --force $W; exit 2; }
VERIF_REPO=$W VERIF_OUT=$W.out /verif/bin/check $ID --tier $TIER ${VERIF_ONLY:+--only $VERIF_ONLY} 2>&1 | grep -v "^WARNING conda" | tail -${4:-6} | cut -c1-600
echo "exit=${PIPESTATUS[0]}"
git -C /repo worktree remove --force $W
rm -rf $W.out
