#!/bin/bash
# try_seed.sh <patch> <prop> [tier] : apply a seeded change to /repo, run the check, undo it
P=$1; ID=$2; TIER=${3:-quick}
git -C /repo apply $P || exit 2
/verif/bin/check $ID --tier $TIER 2>&1 | grep -v "^WARNING conda" | tail -${4:-6}
echo "exit=${PIPESTATUS[0]}"
git -C /repo checkout -- . 
git -C /repo status --short | head
