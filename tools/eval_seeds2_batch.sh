#!/bin/bash
# eval_seeds2_batch.sh <ID><V>... : confirm seeds (fresh worktrees) and try each against its property's quick check, in parallel
mkdir -p /tmp/eval2
printf "%s\n" "$@" | xargs -P ${PAR:-4} -I{} bash -c 'x={}; ID=${x:0:3}; V=${x:3:1}
  [ -s /tmp/eval2/$x.confirm ] || /verif/tools/confirm_seed.sh /tmp/seed2/$ID/out$V ${ID}_$V 2>&1 | grep CONFIRM > /tmp/eval2/$x.confirm
  /verif/tools/try_seed.sh /tmp/seed2/$ID/out$V/patch.diff $ID quick 400 $x > /tmp/eval2/$x.try 2>&1
  R=/tmp/eval2/$x.try
  echo "EVAL $x | $(cat /tmp/eval2/$x.confirm) | violations=$(grep -c "^VIOLATION" $R) inconclusive=$(grep -c "^INCONCLUSIVE" $R) $(grep "^exit=" $R | tail -1) | $(grep "^VIOLATION" $R | head -1 | cut -c1-160)"'
