#!/bin/bash
# eval_round3.sh [PAR]: try every stored seed of round 3 (seeded/Cxx_[C-F]) and every fixrevert against its property's quick check
# (scratch worktrees; VERIF_REPO / VERIF_OUT); one line per seed in /tmp/evalr3/<name>.txt
mkdir -p /tmp/evalr3
LIST=/tmp/evalr3/list.txt; : > $LIST
for d in /verif/seeded/*/; do
  n=$(basename $d); id=${n:0:3}
  case "$n" in
    C??_[CDEF]|*fixrevert*) [ -f $d/patch.diff ] && echo "$n $id $d/patch.diff" >> $LIST;;
  esac
done
[ -n "$ONLY" ] && grep -E "$ONLY" $LIST > $LIST.f && mv $LIST.f $LIST
cat $LIST | xargs -P ${1:-3} -L1 bash -c 'n=$0; id=$1; p=$2
  if ! git -C /repo apply --check $p 2>/dev/null; then echo "SEED $n | does not apply to HEAD" > /tmp/evalr3/$n.txt; exit 0; fi
  VERIF_WORKERS=${VERIF_WORKERS:-6} VERIF_NPROC=${VERIF_NPROC:-6} /verif/tools/try_seed.sh $p $id quick 400 r3-$n > /tmp/evalr3/$n.try 2>&1
  R=/tmp/evalr3/$n.try
  echo "SEED $n | violations=$(grep -c "^VIOLATION" $R) inconclusive=$(grep -c "^INCONCLUSIVE" $R) $(grep "^exit=" $R | tail -1) | $(grep "^VIOLATION" $R | head -1 | sed "s/.*(\(.*\)/\1/" | cut -c1-140)" > /tmp/evalr3/$n.txt'
cat /tmp/evalr3/*.txt | sort
