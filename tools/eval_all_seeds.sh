#!/bin/bash
# eval_all_seeds.sh: try every stored / pending seed against its property's quick check (scratch worktrees; PAR parallel)
mkdir -p /tmp/evalall
LIST=/tmp/evalall/list.txt; : > $LIST
for d in /verif/seeded/*/; do
  n=$(basename $d); id=${n:0:3}
  [ -f $d/patch.diff ] && echo "$n $id $d/patch.diff" >> $LIST
done
for d in /tmp/seed2/C*/out[AB]; do
  [ -f $d/patch.diff ] || continue
  id=$(basename $(dirname $d)); v=$(basename $d); n=${id}_${v:3:1}
  [ -d /verif/seeded/$n ] || echo "$n $id $d/patch.diff" >> $LIST
done
cat $LIST | xargs -P ${PAR:-3} -L1 bash -c 'n=$0; id=$1; p=$2
  if ! git -C /repo apply --check $p 2>/dev/null; then echo "SEED $n | does not apply to HEAD"; exit 0; fi
  /verif/tools/try_seed.sh $p $id quick 400 all-$n > /tmp/evalall/$n.try 2>&1
  R=/tmp/evalall/$n.try
  echo "SEED $n | violations=$(grep -c "^VIOLATION" $R) inconclusive=$(grep -c "^INCONCLUSIVE" $R) $(grep "^exit=" $R | tail -1) | $(grep "^VIOLATION" $R | head -1 | sed "s/.*(\(.*\)/\1/" | cut -c1-110)"'
