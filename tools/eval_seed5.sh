#!/bin/bash
# eval_seed4.sh <ID> <X>: confirm the pending seed /tmp/seed5/<ID>/out<X> (fresh scratch worktree) and try it against the
# property's quick check (scratch worktree, VERIF_REPO/VERIF_OUT).  One summary line in /tmp/seed5/results/<ID>_<X>.txt
ID=$1; X=$2; D=/tmp/seed5/$ID/out$X
mkdir -p /tmp/seed5/results
R=/tmp/seed5/results/${ID}_$X.txt
[ -f $D/patch.diff ] || { echo "no patch" > $R; exit 0; }
/verif/tools/confirm_seed.sh $D s5-${ID}_$X > $R.confirm 2>&1
VERIF_WORKERS=6 VERIF_NPROC=6 /verif/tools/try_seed.sh $D/patch.diff $ID quick 400 s5-${ID}_$X > $R.try 2>&1
echo "SEED ${ID}_$X | $(grep '^CONFIRM' $R.confirm | tail -1) | violations=$(grep -c '^VIOLATION' $R.try) inconclusive=$(grep -c '^INCONCLUSIVE' $R.try) $(grep '^exit=' $R.try | tail -1) | $(grep '^VIOLATION' $R.try | head -1 | cut -c1-160)" > $R
cat $R
