#!/bin/bash
# eval_stored.sh <seed dir name under /verif/seeded> [tier]: run the seed's property check against the stored patch in a scratch
# worktree (tools/try_seed.sh); one summary line in /tmp/evalstored/<name>.txt.  The property is read from meta.json.
N=$1; TIER=${2:-quick}; D=/verif/seeded/$N
mkdir -p /tmp/evalstored
ID=$(python3 -c "import json;print(json.load(open('$D/meta.json'))['property'])")
P=$D/patch.diff
R=/tmp/evalstored/$N.txt
VERIF_WORKERS=${VERIF_WORKERS:-6} VERIF_NPROC=${VERIF_NPROC:-6} /verif/tools/try_seed.sh $P $ID $TIER 400 st-$N > $R.try 2>&1
echo "SEED $N prop=$ID | violations=$(grep -c '^VIOLATION' $R.try) inconclusive=$(grep -c '^INCONCLUSIVE' $R.try) $(grep '^exit=' $R.try | tail -1) | $(grep '^VIOLATION' $R.try | head -1 | cut -c1-200)" > $R
cat $R
