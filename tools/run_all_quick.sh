#!/bin/bash
# run_all_quick.sh [tier]: every property's check on /repo, sequentially; one summary line each
TIER=${1:-quick}
for i in $(seq -w 1 20); do
  ID=C$i
  S=$(date +%s)
  OUT=$(/verif/bin/check $ID --tier $TIER 2>&1 | grep -v "^WARNING conda")
  RC=$?
  E=$(( $(date +%s) - S ))
  echo "$ID rc=$(echo "$OUT" | grep -c '^VIOLATION') viol / $(echo "$OUT" | grep -c '^INCONCLUSIVE') inconcl / $(echo "$OUT" | grep -c '^KNOWN-FINDING') known | ${E}s | $(echo "$OUT" | tail -1 | cut -c1-160)"
  echo "$OUT" | grep "^VIOLATION\|^INCONCLUSIVE" | cut -c1-300 | head -5
done
