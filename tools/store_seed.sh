#!/bin/bash
# store_seed.sh <src out dir> <name, e.g. C15_G> <round>: confirm a seeded change (tools/confirm_seed.sh) and, if it confirms
# (clean demo passes, patch applies, builds, 435/0 tests, seeded demo fails), store it as /verif/seeded/<name>/
SRC=$1; N=$2; ROUND=${3:-4}
C=$(/verif/tools/confirm_seed.sh $SRC st-$N 2>&1 | grep '^CONFIRM' | tail -1)
echo "$C"
case "$C" in
  *"demo_clean=0 build=0 tests=435/0 demo_seeded=0"*) echo "NOT CONFIRMED (demo passes with the change)"; exit 1;;
  *"demo_clean=0 build=0 tests=435/0 demo_seeded="*) ;;
  *) echo "NOT CONFIRMED"; exit 1;;
esac
D=/verif/seeded/$N
rm -rf $D; mkdir -p $D
rsync -a --max-size=400k --exclude='*.o' --exclude='yardl' --exclude='build/' --exclude='__pycache__/' --exclude='*.bin' $SRC/ $D/
python3 - "$D" "$ROUND" "$C" <<'P'
import json,sys
d,rnd,c=sys.argv[1:4]
m=json.load(open(d+'/meta.json'))
m['round']=int(rnd)
m['confirmed_by_framework_author']={'how':'tools/confirm_seed.sh: fresh scratch worktree of /repo; run_demo.sh on the clean tree -> exit 0; git apply patch.diff; go build ./... ok; go test ./... -> 435 pass / 0 fail; run_demo.sh -> non-zero','result':c}
json.dump(m,open(d+'/meta.json','w'),indent=1)
P
du -sh $D
