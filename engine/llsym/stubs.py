"""Trusted models ("stubs") of the library functions the yardl kernels call.

Each stub is `f(ex, argv, instr) -> return value`.  The list of stubs actually hit on a run is
reported in the evidence (stats.stubs_used) together with the one-line contract given here.
"""
import re
import z3

from .core import Obj, Ptr, NULL, PathEnd, Unsupported, is_c, bv, simp, select_chain, off_add

CONTRACTS = {
    '_ZNSi4readEPcl': "std::istream::read(buf,n): copies the next k=min(n,remaining) bytes of the symbolic input to buf[0..k), "
                      "leaves buf[k..n) untouched, gcount=k, sets eofbit|failbit iff k<n (libstdc++); k=0 if the stream is already failed; "
                      "in short-read mode k is any value <= min(n,remaining)",
    '_ZNKSt9basic_iosIcSt11char_traitsIcEE3eofEv': "basic_ios::eof(): (rdstate & eofbit) != 0",
    '_ZNKSi6gcountEv': "istream::gcount(): count of the last read",
    '_ZNSo5writeEPKcl': "std::ostream::write(buf,n): appends buf[0..n) to the output trace; the stream never goes bad",
    '_ZNSo5flushEv': "std::ostream::flush(): no-op",
    '_ZNKSt9basic_iosIcSt11char_traitsIcEE3badEv': "basic_ios::bad(): false",
    '__cxa_allocate_exception': "returns a fresh object of the requested size",
    '__cxa_throw': "no catch clause up the IR call stack matches the thrown type (same typeinfo, base class, catch-all): ends the path with "
                   "outcome throws(type), cleanups are not run; otherwise two-phase unwinding to the innermost landing pad (cleanup pads are executed, "
                   "`resume` continues unwinding, `landingpad` yields {exception, selector = llvm.eh.typeid.for(clause type)})",
    '__cxa_rethrow': "throws the exception caught last again (same resolution as __cxa_throw)",
    '__cxa_begin_catch': "pushes the exception on the caught stack, returns the exception object",
    '__cxa_end_catch': "pops the caught stack; the exception object dies unless it was rethrown",
    '__cxa_get_exception_ptr': "returns the exception object",
    '__clang_call_terminate': "ends the path with outcome terminate",
    '_ZSt9terminatev': "ends the path with outcome terminate",
    '__cxa_free_exception': "no-op",
    '__assert_fail': "ends the path with outcome assert",
    '_ZNSt13runtime_errorC1EPKc': "std::runtime_error(const char*): records the message",
    '_ZNSt13runtime_errorD1Ev': "no-op",
    '_ZNSt9exceptionD2Ev': "no-op",
    '_ZdlPv': "operator delete: marks the object dead",
    'memcmp': "memcmp on concrete length: sign of first differing byte (result only compared with 0)",
}

EOFBIT, FAILBIT, BADBIT = 2, 4, 1


class IStreamModel:
    """A std::istream as seen through its ABI: [vptr | gcount | basic_ios(state at +32)] and a vtable
    holding the virtual-base offset at index -3.  Underlying data = symbolic bytes `data`, length `total`."""

    def __init__(self, ex, data, total, short_reads=False, name='istream'):
        m = ex.m
        self.ex = ex
        self.data = data            # list of int/BV8, len = static maximum
        self.total = total          # int or BV64: bytes actually present (<= len(data))
        self.pos = 0                # consumed so far (int or BV64)
        self.short = short_reads
        self.reads = []             # (n requested, k delivered)
        self.vb = m.field_offset(('named', 'class.std::basic_istream'), 2)
        ios_size = m.sizeof(('named', 'class.std::basic_ios'))
        self.obj = Obj(name, self.vb + ios_size)
        self.vt = Obj(name + '.vtable', 64)
        for i in range(self.obj.size):
            self.obj.cells[i] = 0
        for i in range(64):
            self.vt.cells[i] = 0
        ex.store_bytes(Ptr(self.vt, 0), [(self.vb >> (8 * i)) & 255 for i in range(8)], check=False)
        ex.store_val(Ptr(self.obj, 0), ('ptr', ('int', 8)), Ptr(self.vt, 24), check=False)
        self.state_off = self.vb + 32   # ios_base::_M_streambuf_state
        self.gcount_off = 8
        ex.world[self.obj.id] = self

    def ptr(self):
        return Ptr(self.obj, 0)

    def state(self):
        return self.ex.load_val(Ptr(self.obj, self.state_off), ('int', 32), check=False)

    def remaining(self):
        if is_c(self.total) and is_c(self.pos):
            return self.total - self.pos
        return simp(bv(self.total, 64) - bv(self.pos, 64))

    def data_at(self, idx):
        if is_c(idx):
            return self.data[idx] if idx < len(self.data) else 0
        return select_chain(idx, self.data, 0) if len(self.data) > 1 else self.data[0]


def _world(ex, p, cls):
    if not isinstance(p, Ptr) or p.obj is None:
        raise Unsupported("stream call on unknown object")
    w = ex.world.get(p.obj.id)
    if not isinstance(w, cls):
        raise Unsupported("stream call on an object that is not a modelled stream")
    return w


def istream_read(ex, argv, ins):
    this, buf, n = argv
    w = _world(ex, this, IStreamModel)
    if not is_c(n):
        # symbolic byte count: one decision per concrete count up to what the destination can hold (the access
        # check below reports a count beyond it)
        cap = 64
        if isinstance(buf, Ptr) and buf.obj is not None and not buf.obj.external and is_c(buf.off):
            cap = min(cap, max(0, buf.obj.size - buf.off) + 1)
        for c in range(cap + 1):
            if ex.decide(bv(n, 64) == z3.BitVecVal(c, 64), 'read-n'):
                n = c
                break
        else:
            raise Unsupported("istream::read with a symbolic n beyond %d" % cap)
    if n:
        ex.check_access(buf, n, True)
    st = w.state()
    avail = w.remaining()
    if is_c(avail) and is_c(st):
        k = min(avail, n) if st == 0 else 0
    else:
        A = bv(avail, 64)
        k = z3.If(z3.ULT(A, z3.BitVecVal(n, 64)), A, z3.BitVecVal(n, 64))
        if not (is_c(st) and st == 0):
            k = z3.If(bv(st, 32) == 0, k, z3.BitVecVal(0, 64))
        k = simp(k)
    if w.short:
        k2 = ex.fresh('shortread', 64)
        ex.assume(z3.ULE(k2, bv(k, 64)))
        k = k2
    # copy
    if is_c(k):
        bs = [w.data_at(off_add(w.pos, j)) for j in range(k)]
        if k:
            ex.store_bytes(buf, bs, check=False)
    else:
        old = ex.load_bytes(buf, n, check=False)
        new = []
        for j in range(n):
            d = w.data_at(off_add(w.pos, j))
            new.append(simp(z3.If(z3.ULT(z3.BitVecVal(j, 64), k), bv(d, 8), bv(old[j], 8))))
        ex.store_bytes(buf, new, check=False)
    w.reads.append((n, k))
    w.pos = off_add(w.pos, k)
    ex.store_val(Ptr(w.obj, w.gcount_off), ('int', 64), k, check=False)
    if is_c(k) and is_c(st):
        ns = st | (EOFBIT | FAILBIT) if k < n else st
    else:
        S = bv(st, 32)
        ns = simp(z3.If(z3.ULT(bv(k, 64), z3.BitVecVal(n, 64)), S | z3.BitVecVal(EOFBIT | FAILBIT, 32), S))
    ex.store_val(Ptr(w.obj, w.state_off), ('int', 32), ns, check=False)
    return this


def ios_eof(ex, argv, ins):
    this = argv[0]  # basic_ios* = istream + vbase offset
    w = _world(ex, this, (IStreamModel, OStreamModel))
    st = ex.load_val(Ptr(w.obj, w.state_off), ('int', 32), check=False)
    if is_c(st):
        return bool(st & EOFBIT)
    return simp(z3.Extract(1, 1, st) == z3.BitVecVal(1, 1))


def ios_bad(ex, argv, ins):
    this = argv[0]
    w = _world(ex, this, (IStreamModel, OStreamModel))
    st = ex.load_val(Ptr(w.obj, w.state_off), ('int', 32), check=False)
    if is_c(st):
        return bool(st & BADBIT)
    return simp(z3.Extract(0, 0, st) == z3.BitVecVal(1, 1))


def istream_gcount(ex, argv, ins):
    w = _world(ex, argv[0], IStreamModel)
    return ex.load_val(Ptr(w.obj, w.gcount_off), ('int', 64), check=False)


class OStreamModel:
    """std::ostream: [vptr | basic_ios]; writes are appended to `segments` = [(n, [bytes...])]"""

    def __init__(self, ex, name='ostream'):
        m = ex.m
        self.ex = ex
        self.vb = m.field_offset(('named', 'class.std::basic_ostream'), 1)
        self.obj = Obj(name, self.vb + m.sizeof(('named', 'class.std::basic_ios')))
        self.vt = Obj(name + '.vtable', 64)
        for i in range(self.obj.size):
            self.obj.cells[i] = 0
        for i in range(64):
            self.vt.cells[i] = 0
        ex.store_bytes(Ptr(self.vt, 0), [(self.vb >> (8 * i)) & 255 for i in range(8)], check=False)
        ex.store_val(Ptr(self.obj, 0), ('ptr', ('int', 8)), Ptr(self.vt, 24), check=False)
        self.state_off = self.vb + 32
        self.segments = []
        self.flushes = 0
        ex.world[self.obj.id] = self

    def ptr(self):
        return Ptr(self.obj, 0)

    def total(self):
        t = 0
        for n, _ in self.segments:
            t = off_add(t, n)
        return t

    def byte_at(self, i):
        """i-th byte of the concatenated output (i python int); a BV8 term. Undefined (0) beyond total."""
        r = z3.BitVecVal(0, 8)
        # build from the last segment backwards: if start_s <= i < start_s+n_s then seg[i-start_s]
        starts = []
        t = 0
        for n, bs in self.segments:
            starts.append(t)
            t = off_add(t, n)
        I = z3.BitVecVal(i, 64)
        for (n, bs), st in reversed(list(zip(self.segments, starts))):
            if is_c(st) and is_c(n):
                if st <= i < st + n:
                    r = bv(bs[i - st], 8)
                continue
            rel = simp(I - bv(st, 64))
            inside = z3.And(z3.ULE(bv(st, 64), I), z3.ULT(rel, bv(n, 64)))
            if not bs:
                continue
            v = select_chain(rel, bs, 0) if (len(bs) > 1 and not is_c(rel)) else (bs[rel] if is_c(rel) and rel < len(bs) else bs[0])
            r = z3.If(inside, bv(v, 8), r)
        return simp(r)


def ostream_write(ex, argv, ins):
    this, buf, n = argv
    w = _world(ex, this, OStreamModel)
    if is_c(n):
        bs = ex.load_bytes(buf, n) if n else []
        w.segments.append((n, bs))
        return this
    o = buf.obj
    if o is None or o.external:
        raise Unsupported("ostream::write from unknown object")
    inb = z3.And(z3.ULE(bv(buf.off, 64), z3.BitVecVal(o.size, 64)), z3.ULE(n, z3.BitVecVal(o.size, 64) - bv(buf.off, 64)))
    if not ex.decide(inb, 'oob'):
        raise PathEnd('oob', obj=o.name, off=str(buf.off), nbytes=str(n), store=False, **ex._site_info())
    if not is_c(buf.off):
        raise Unsupported("ostream::write from symbolic offset")
    ex._materialize(o, buf.off, o.size)
    w.segments.append((n, list(o.cells[buf.off:])))
    return this


def ostream_flush(ex, argv, ins):
    w = _world(ex, argv[0], OStreamModel)
    w.flushes += 1
    return argv[0]


def cxa_allocate_exception(ex, argv, ins):
    n = argv[0]
    o = Obj('exception', n if is_c(n) else 64)
    return Ptr(o, 0)


def _typeinfo_name(p):
    nm = p.obj.name.lstrip('@') if isinstance(p, Ptr) and p.obj is not None else '?'
    return {'_ZTISt13runtime_error': 'std::runtime_error',
            '_ZTIN5yardl6binary20EndOfStreamExceptionE': 'yardl::binary::EndOfStreamException',
            '_ZTISt12length_error': 'std::length_error', '_ZTISt9bad_alloc': 'std::bad_alloc'}.get(nm, nm)


def cxa_throw(ex, argv, ins):
    exc, tinfo, dtor = argv
    msg = exc.obj.meta.get('msg', '') if isinstance(exc, Ptr) and exc.obj else ''
    # no matching catch clause up the stack: the path ends here with outcome throws(type); otherwise control moves to
    # the landing pad (core.Exec._eh_unwind)
    ex.eh_throw(ex.eh_new(exc, ex.eh_tinfo_name(tinfo) or '?', _typeinfo_name(tinfo), msg))


def cxa_rethrow(ex, argv, ins):
    ex.eh_rethrow()


def cxa_begin_catch(ex, argv, ins):
    return ex.eh_begin_catch(argv[0])


def cxa_end_catch(ex, argv, ins):
    ex.eh_end_catch()
    return None


def cxa_get_exception_ptr(ex, argv, ins):
    return argv[0]


def call_terminate(ex, argv, ins):
    raise PathEnd('terminate', why='std::terminate', **ex._site_info())


def runtime_error_ctor(ex, argv, ins):
    this, msg = argv
    this.obj.meta['msg'] = ex.cstring(msg)
    return None


def assert_fail(ex, argv, ins):
    raise PathEnd('assert', expr=ex.cstring(argv[0]) if isinstance(argv[0], Ptr) and argv[0].obj else '', **ex._site_info())


def noop(ex, argv, ins):
    return None


def op_delete(ex, argv, ins):
    p = argv[0]
    if isinstance(p, Ptr) and p.obj is not None:
        p.obj.alive = False
    return None


def c_memcmp(ex, argv, ins):
    a, b, n = argv
    if not is_c(n):
        raise Unsupported("memcmp with symbolic length")
    if n == 0:
        return 0
    x = ex.load_bytes(a, n)
    y = ex.load_bytes(b, n)
    eq = z3.And(*[bv(p, 8) == bv(q, 8) for p, q in zip(x, y)])
    eq = simp(eq)
    if isinstance(eq, bool):
        if eq:
            return 0
        # find the concrete sign if possible; callers here only test == 0
        return 1
    return simp(z3.If(eq, z3.BitVecVal(0, 32), z3.BitVecVal(1, 32)))


_STD_TINFO = {'std::length_error': '_ZTISt12length_error', 'std::bad_alloc': '_ZTISt9bad_alloc',
              'std::bad_array_new_length': '_ZTISt20bad_array_new_length'}


def throw_stub(kind):
    def f(ex, argv, ins):
        ex.eh_throw(ex.eh_new(None, _STD_TINFO[kind], kind, ''))
    return f


BASE = {
    '_ZNSi4readEPcl': istream_read,
    '_ZNKSt9basic_iosIcSt11char_traitsIcEE3eofEv': ios_eof,
    '_ZNKSt9basic_iosIcSt11char_traitsIcEE3badEv': ios_bad,
    '_ZNKSi6gcountEv': istream_gcount,
    '_ZNSo5writeEPKcl': ostream_write,
    '_ZNSo5flushEv': ostream_flush,
    '__cxa_allocate_exception': cxa_allocate_exception,
    '__cxa_throw': cxa_throw,
    '__cxa_rethrow': cxa_rethrow,
    '__cxa_begin_catch': cxa_begin_catch,
    '__cxa_end_catch': cxa_end_catch,
    '__cxa_get_exception_ptr': cxa_get_exception_ptr,
    '__clang_call_terminate': call_terminate,
    '_ZSt9terminatev': call_terminate,
    '__cxa_free_exception': noop,
    '__assert_fail': assert_fail,
    '_ZNSt13runtime_errorC1EPKc': runtime_error_ctor,
    '_ZNSt13runtime_errorD1Ev': noop,
    '_ZNSt9exceptionD2Ev': noop,
    '_ZdlPv': op_delete,
    'memcmp': c_memcmp,
    '_ZSt20__throw_length_errorPKc': throw_stub('std::length_error'),
    '_ZSt17__throw_bad_allocv': throw_stub('std::bad_alloc'),
    '_ZSt28__throw_bad_array_new_lengthv': throw_stub('std::bad_array_new_length'),
}


# ---- std::vector<T>::resize (the only std::vector member that is not executed from the IR) -------------

CONTRACTS['std::vector<T>::resize'] = ("vector::resize(n) for n <= capacity(): sets end = begin + n, value-initialises [old size, n); "
                                       "n > capacity(): ends the path with outcome vector-realloc, or (destination-reuse drivers) moves the elements to a "
                                       "fresh maximal storage object and frees the old one")
_ELEM = {'h': 1, 'a': 1, 'c': 1, 'b': 1, 't': 2, 's': 2, 'j': 4, 'i': 4, 'm': 8, 'l': 8, 'y': 8, 'x': 8}


def vector_resize(ex, argv, ins):
    this, n = argv
    name = ins.a[1][1] if ins.a[1][0] == 'global' else ''
    mm = re.match(r'_ZNSt6vectorI(\w)', name)
    if not mm or mm.group(1) not in _ELEM:
        raise Unsupported("vector::resize for element type in %s" % name)
    sz = _ELEM[mm.group(1)]
    PT = ('ptr', ('int', 8))
    begin = ex.load_val(Ptr(this.obj, off_add(this.off, 0)), PT)
    end = ex.load_val(Ptr(this.obj, off_add(this.off, 8)), PT)
    cap = ex.load_val(Ptr(this.obj, off_add(this.off, 16)), PT)
    if begin.obj is None or begin.obj is not end.obj or begin.obj is not cap.obj or not (is_c(begin.off) and begin.off == 0):
        raise Unsupported("vector::resize on an unmodelled vector")
    store = begin.obj
    if is_c(n):
        newend = n * sz
        fits = z3.ULE(z3.BitVecVal(newend, 64), bv(cap.off, 64)) if not is_c(cap.off) else newend <= cap.off
    else:
        newend = simp(n * z3.BitVecVal(sz, 64))
        fits = z3.And(z3.ULE(n, z3.BitVecVal(1 << 32, 64)), z3.ULE(bv(newend, 64), bv(cap.off, 64)))
    if not ex.decide(fits, 'vector-realloc'):
        vmax = ex.world.get('vector_realloc_max')
        if not vmax:
            raise PathEnd('vector-realloc', **ex._site_info())
        # reallocation (enabled by the driver): fresh storage of the stated maximum element count, old elements
        # moved, the rest value-initialised, old storage freed; capacity becomes exactly n
        if not ex.decide(z3.ULE(bv(n, 64), z3.BitVecVal(vmax, 64)) if not is_c(n) else n <= vmax, 'vector-too-long'):
            raise PathEnd('vector-too-long', **ex._site_info())
        new = Obj('vector.storage.realloc', vmax * sz)
        ex._materialize(store)
        oe = bv(end.off, 64)
        for i in range(new.size):
            oldc = bv(store.cells[i], 8) if i < store.size else z3.BitVecVal(0, 8)
            new.cells[i] = simp(z3.If(z3.ULT(z3.BitVecVal(i, 64), oe), oldc, z3.BitVecVal(0, 8)))
        new.guard = store.guard
        store.alive = False
        ex.store_val(Ptr(this.obj, off_add(this.off, 0)), PT, Ptr(new, 0))
        ex.store_val(Ptr(this.obj, off_add(this.off, 8)), PT, Ptr(new, newend))
        ex.store_val(Ptr(this.obj, off_add(this.off, 16)), PT, Ptr(new, newend))
        this.obj.meta['storage'] = new
        return None
    oe = end.off
    if is_c(oe) and is_c(newend):
        for i in range(oe, min(newend, store.size)):
            store.cells[i] = 0
        ex._drop_wide(store, 0, store.size)
    else:
        ex._materialize(store)
        store.wide.clear()
        for i in range(store.size):
            I = z3.BitVecVal(i, 64)
            store.cells[i] = simp(z3.If(z3.And(z3.UGE(I, bv(oe, 64)), z3.ULT(I, bv(newend, 64))), z3.BitVecVal(0, 8), bv(store.cells[i], 8)))
    ex.store_val(Ptr(this.obj, off_add(this.off, 8)), PT, Ptr(store, newend))
    return None


# ---- std::string (libstdc++ cxx11 ABI): only what ReadString needs -----------------------------------

CONTRACTS['std::string'] = ("basic_string(): empty; resize(n): contents become n zero bytes in a fresh array of the stated maximum size "
                            "(n above it ends the path with outcome string-too-long); data(): pointer to that array; ~basic_string(): no-op")
STRING_MAX = 8


def string_ctor(ex, argv, ins):
    argv[0].obj.meta['str'] = {'data': None, 'len': 0}
    return None


def string_resize(ex, argv, ins):
    this, n = argv
    info = this.obj.meta.setdefault('str', {'data': None, 'len': 0})
    cap = ex.world.get('string_max', STRING_MAX)
    if not ex.decide(z3.ULE(bv(n, 64), z3.BitVecVal(cap, 64)) if not is_c(n) else n <= cap, 'string-too-long'):
        raise PathEnd('string-too-long', **ex._site_info())
    d = Obj('string.data', cap + 1)
    for i in range(cap + 1):
        d.cells[i] = 0
    info['data'], info['len'] = d, n

    def guard(ex_, off, nb, is_store):
        return z3.ULE(bv(off, 64) + bv(nb, 64), bv(info['len'], 64))
    d.guard = guard
    return None


def string_data(ex, argv, ins):
    info = argv[0].obj.meta.get('str')
    if not info:
        raise Unsupported("data() on an unmodelled string")
    if info['data'] is None:
        info['data'] = Obj('string.data', 1)
        info['data'].cells[0] = 0
    return Ptr(info['data'], 0)


BASE.update({
    '_ZNSt7__cxx1112basic_stringIcSt11char_traitsIcESaIcEEC1Ev': string_ctor,
    '_ZNSt7__cxx1112basic_stringIcSt11char_traitsIcESaIcEE6resizeEm': string_resize,
    '_ZNSt7__cxx1112basic_stringIcSt11char_traitsIcESaIcEE4dataEv': string_data,
    '_ZNSt7__cxx1112basic_stringIcSt11char_traitsIcESaIcEED1Ev': noop,
})
PATTERNS = [(re.compile(r'^_ZNSt6vectorI\wSaI\wEE6resizeEm$'), vector_resize)]


# ---- std::unordered_map<K,V>: abstract map model (C17 destination reuse) ----------------------------------

CONTRACTS['std::unordered_map<K,V>::emplace'] = (
    "abstract map = list of (key, value, present) with pairwise distinct present keys; emplace(k, v) inserts (k, v) iff no present entry has "
    "key k (the documented contract: no overwrite) and returns (unspecified iterator, inserted); hashing, buckets and rehashing are not modelled")
_KV = {'h': 8, 'a': 8, 'c': 8, 'b': 8, 't': 16, 's': 16, 'j': 32, 'i': 32, 'm': 64, 'l': 64, 'y': 64, 'x': 64}


class UMapModel:
    def __init__(self, ex, obj, kw, vw, prior):
        self.obj, self.kw, self.vw = obj, kw, vw
        self.entries = [(k, v, pr) for (k, v, pr) in prior]   # pr: z3 Bool / python bool
        self.emplaced = []
        ex.world[obj.id] = self

    def contains(self, key):
        return z3.Or(*[z3.And(pr, bv(k, self.kw) == bv(key, self.kw)) for k, v, pr in self.entries]) if self.entries else z3.BoolVal(False)


def umap_emplace(ex, argv, ins):
    this, kp, vp = argv[0], argv[1], argv[2]
    w = _world(ex, this, UMapModel)
    k = ex.load_val(kp, ('int', w.kw))
    v = ex.load_val(vp, ('int', w.vw))
    absent = simp(z3.Not(w.contains(k)))
    if isinstance(absent, bool):
        absent = z3.BoolVal(absent)
    w.entries.append((k, v, absent))
    w.emplaced.append((k, v, absent))
    return [NULL, simp(z3.If(absent, z3.BitVecVal(1, 8), z3.BitVecVal(0, 8)))]


PATTERNS.append((re.compile(r'^_ZNSt13unordered_mapI\w\wSt4hashI\wESt8equal_toI\wESaISt4pairIK\w\wEEE7emplaceI'), umap_emplace))


def umap_clear(ex, argv, ins):
    w = _world(ex, argv[0], UMapModel)
    w.entries = []
    return None


def umap_size(ex, argv, ins):
    w = _world(ex, argv[0], UMapModel)
    n = z3.BitVecVal(0, 64)
    for k, v, pr in w.entries:
        n = n + z3.If(pr, z3.BitVecVal(1, 64), z3.BitVecVal(0, 64))
    return simp(n)


def umap_noop(ex, argv, ins):
    _world(ex, argv[0], UMapModel)
    return None


CONTRACTS['std::unordered_map<K,V>::clear/size/reserve'] = "abstract map: clear() removes every entry; size() counts present entries; reserve()/rehash() no-op"
_UM = r'^_ZN?K?St13unordered_mapI\w\wSt4hashI\wESt8equal_toI\wESaISt4pairIK\w\wEEE'
PATTERNS.append((re.compile(_UM + r'5clearEv$'), umap_clear))
PATTERNS.append((re.compile(_UM + r'4sizeEv$'), umap_size))
PATTERNS.append((re.compile(_UM + r'(7reserveEm|6rehashEm)$'), umap_noop))
