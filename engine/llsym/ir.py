"""Textual LLVM IR (clang-14, typed pointers) -> Python data structures.

Only what clang++-14 -O0/-O1 emits for the yardl runtime headers is handled; anything the parser
does not understand becomes an ('unsupported', text) instruction which raises at *execution*
time only (so an exotic instruction in an unexecuted libstdc++ helper does no harm, and one on
an executed path makes the run inconclusive rather than silently wrong).
"""
import re

TOK = re.compile(r'''
   (?P<ws>\s+|;[^\n]*)
 | (?P<str>c?"(?:[^"\\]|\\.)*")
 | (?P<lid>%(?:"(?:[^"\\]|\\.)*"|[-a-zA-Z$._0-9]+))
 | (?P<gid>@(?:"(?:[^"\\]|\\.)*"|[-a-zA-Z$._0-9]+))
 | (?P<md>!(?:[-a-zA-Z$._0-9]+)?)
 | (?P<attr>\#\d+)
 | (?P<comdat>\$(?:"[^"]*"|[-a-zA-Z$._0-9]+))
 | (?P<num>-?\d+\.\d+(?:e[+-]?\d+)?|0x[KLMHR]?[0-9A-Fa-f]+|-?\d+)
 | (?P<word>[a-zA-Z_][a-zA-Z0-9_.]*)
 | (?P<dots>\.\.\.)
 | (?P<punct>[()\[\]{}<>,=*:|])
''', re.X)


class ParseError(Exception):
    pass


def tokenize(text):
    out = []
    pos = 0
    n = len(text)
    while pos < n:
        m = TOK.match(text, pos)
        if not m:
            raise ParseError("cannot tokenize at: %r" % text[pos:pos + 40])
        pos = m.end()
        k = m.lastgroup
        if k == 'ws':
            continue
        out.append((k, m.group(k)))
    out.append(('eof', ''))
    return out


def unquote(name):
    # %"a b" -> a b ; %x -> x   (sigil stripped)
    s = name[1:]
    if s.startswith('"'):
        s = s[1:-1]
        s = re.sub(r'\\([0-9A-Fa-f]{2})', lambda m: chr(int(m.group(1), 16)), s)
    return s


def cstring_bytes(tok):
    s = tok[2:-1] if tok.startswith('c') else tok[1:-1]
    out = bytearray()
    i = 0
    while i < len(s):
        if s[i] == '\\':
            if s[i + 1] == '\\':
                out.append(92)
                i += 2
            else:
                out.append(int(s[i + 1:i + 3], 16))
                i += 3
        else:
            out.append(ord(s[i]))
            i += 1
    return bytes(out)


VOID = ('void',)
I1, I8, I16, I32, I64 = ('int', 1), ('int', 8), ('int', 16), ('int', 32), ('int', 64)
FLOATS = {'half': 16, 'bfloat': 16, 'float': 32, 'double': 64, 'x86_fp80': 80, 'fp128': 128, 'ppc_fp128': 128}
CASTS = ('trunc', 'zext', 'sext', 'bitcast', 'ptrtoint', 'inttoptr', 'fptrunc', 'fpext', 'fptoui', 'fptosi',
         'uitofp', 'sitofp', 'addrspacecast')
BINOPS = ('add', 'sub', 'mul', 'udiv', 'sdiv', 'urem', 'srem', 'shl', 'lshr', 'ashr', 'and', 'or', 'xor')
FBINOPS = ('fadd', 'fsub', 'fmul', 'fdiv', 'frem')
VALUE_WORDS = {'true', 'false', 'null', 'undef', 'poison', 'zeroinitializer', 'none', 'getelementptr', 'select',
               'icmp', 'fcmp', 'blockaddress', 'dso_local_equivalent'} | set(CASTS) | set(BINOPS)


class P:
    """Recursive-descent parser over a token list."""

    def __init__(self, toks):
        self.t = toks
        self.i = 0

    def peek(self, k=0):
        return self.t[self.i + k]

    def next(self):
        x = self.t[self.i]
        self.i += 1
        return x

    def at(self, val):
        return self.t[self.i][1] == val and self.t[self.i][0] != 'str'

    def accept(self, val):
        if self.at(val):
            self.i += 1
            return True
        return False

    def expect(self, val):
        if not self.accept(val):
            raise ParseError("expected %r, got %r" % (val, self.t[self.i]))

    def skip_parens(self):
        self.expect('(')
        d = 1
        while d:
            k, v = self.next()
            if k == 'eof':
                raise ParseError("unbalanced")
            if k == 'punct':
                if v == '(':
                    d += 1
                elif v == ')':
                    d -= 1

    # ---- types ---------------------------------------------------------------------------
    def is_type_start(self):
        k, v = self.peek()
        if k == 'lid':
            return True
        if k == 'word':
            return v in ('void', 'ptr', 'label', 'metadata', 'opaque', 'token') or v in FLOATS or re.fullmatch(r'i\d+', v) is not None
        if k == 'punct':
            return v in '[{<'
        return False

    def type(self):
        k, v = self.next()
        if k == 'word':
            if v == 'void':
                t = VOID
            elif v in FLOATS:
                t = ('float', v, FLOATS[v])
            elif v == 'ptr':
                t = ('ptr', I8)
            elif v in ('label', 'metadata', 'token'):
                t = (v,)
            elif v == 'opaque':
                t = ('opaque',)
            elif re.fullmatch(r'i\d+', v):
                t = ('int', int(v[1:]))
            else:
                raise ParseError("bad type word %r" % v)
        elif k == 'lid':
            t = ('named', unquote(v))
        elif v == '[':
            n = int(self.next()[1])
            self.expect('x')
            e = self.type()
            self.expect(']')
            t = ('arr', n, e)
        elif v == '{':
            t = ('struct', tuple(self._type_list('}')), False)
        elif v == '<':
            if self.accept('{'):
                els = self._type_list('}')
                self.expect('>')
                t = ('struct', tuple(els), True)
            else:
                n = int(self.next()[1])
                self.expect('x')
                e = self.type()
                self.expect('>')
                t = ('vec', n, e)
        else:
            raise ParseError("bad type start %r" % (v,))
        while True:
            if self.accept('*'):
                t = ('ptr', t)
            elif self.at('addrspace'):
                self.next()
                self.skip_parens()
            elif self.at('('):
                self.next()
                ps, va = [], False
                while not self.accept(')'):
                    if self.peek()[0] == 'dots':
                        self.next()
                        va = True
                    else:
                        ps.append(self.type())
                        self.skip_attrs()
                    self.accept(',')
                t = ('fn', t, tuple(ps), va)
            else:
                return t

    def _type_list(self, close):
        out = []
        while not self.accept(close):
            out.append(self.type())
            self.accept(',')
        return out

    # ---- attributes ----------------------------------------------------------------------
    def skip_attrs(self):
        """Skip parameter / return / function attributes (words, optionally followed by (...) or a
        number for align) until something that starts a value or ends the operand."""
        while True:
            k, v = self.peek()
            if k == 'word' and v not in VALUE_WORDS and v not in ('to', 'unwind', 'x') and not self.is_type_start():
                self.next()
                if self.at('('):
                    self.skip_parens()
                elif v == 'align' and self.peek()[0] == 'num':
                    self.next()
            elif k == 'attr':
                self.next()
            elif k == 'str' and self.peek(1)[1] in ('=',):  # "key"="value"
                self.next(); self.next(); self.next()
            elif k == 'str' and not v.startswith('c'):
                self.next()
            else:
                return

    # ---- values --------------------------------------------------------------------------
    def value(self, ty):
        k, v = self.next()
        if k == 'lid':
            return ('local', unquote(v))
        if k == 'gid':
            return ('global', unquote(v))
        if k == 'num':
            if ty[0] == 'float':
                return ('fp', v)
            if v.startswith('0x'):
                return ('int', int(v, 16))
            return ('int', int(v))
        if k == 'str':
            return ('cstr', cstring_bytes(v))
        if k == 'md':
            # metadata operand (llvm.dbg.*): skip a possible following node
            if self.at('(') or self.at('{'):
                self._skip_balanced()
            elif self.peek()[0] == 'word':  # !DIExpression(...)
                self.next()
                if self.at('('):
                    self.skip_parens()
            return ('md', v)
        if k == 'word':
            if v == 'true':
                return ('int', 1)
            if v == 'false':
                return ('int', 0)
            if v in ('null', 'none'):
                return ('null',)
            if v in ('undef', 'poison'):
                return ('undef',)
            if v == 'zeroinitializer':
                return ('zero',)
            if v == 'getelementptr':
                self.accept('inbounds')
                self.expect('(')
                sty = self.type()
                self.expect(',')
                base = self.tvalue()
                idx = []
                while self.accept(','):
                    self.accept('inrange')
                    idx.append(self.tvalue())
                self.expect(')')
                return ('cexpr', 'gep', sty, base, idx)
            if v in CASTS:
                self.expect('(')
                src = self.tvalue()
                self.expect('to')
                dty = self.type()
                self.expect(')')
                return ('cexpr', v, src, dty)
            if v in BINOPS:
                while self.peek()[1] in ('nuw', 'nsw', 'exact'):
                    self.next()
                self.expect('(')
                a = self.tvalue()
                self.expect(',')
                b = self.tvalue()
                self.expect(')')
                return ('cexpr', v, a, b)
            if v == 'icmp':
                pred = self.next()[1]
                self.expect('(')
                a = self.tvalue()
                self.expect(',')
                b = self.tvalue()
                self.expect(')')
                return ('cexpr', 'icmp', pred, a, b)
            raise ParseError("unsupported constant %r" % v)
        if k == 'punct':
            if v == '[':
                els = []
                while not self.accept(']'):
                    els.append(self.tvalue())
                    self.accept(',')
                return ('agg', els)
            if v == '{':
                els = []
                while not self.accept('}'):
                    els.append(self.tvalue())
                    self.accept(',')
                return ('agg', els)
            if v == '<':
                if self.accept('{'):
                    els = []
                    while not self.accept('}'):
                        els.append(self.tvalue())
                        self.accept(',')
                    self.expect('>')
                    return ('agg', els)
                els = []
                while not self.accept('>'):
                    els.append(self.tvalue())
                    self.accept(',')
                return ('agg', els)
        raise ParseError("bad value %r" % (v,))

    def _skip_balanced(self):
        op = self.next()[1]
        cl = {'(': ')', '{': '}', '[': ']'}[op]
        d = 1
        while d:
            k, v = self.next()
            if k == 'punct' and v == op:
                d += 1
            elif k == 'punct' and v == cl:
                d -= 1

    def tvalue(self):
        ty = self.type()
        self.skip_attrs()
        return (ty, self.value(ty))

    def label(self):
        self.expect('label')
        return unquote(self.next()[1])

    # ---- trailing ', align N' / ', !dbg !7' ------------------------------------------------
    def trailer(self):
        dbg = None
        while True:
            if self.at(',') and (self.peek(1)[0] == 'md' or self.peek(1)[1] in ('align', 'addrspace')):
                self.next()
            k, v = self.peek()
            if k == 'md' and v != '!':
                self.next()
                k2, v2 = self.peek()
                if k2 == 'md':
                    self.next()
                    if v2 == '!' and self.at('{'):
                        self._skip_balanced()
                    elif v == '!dbg':
                        dbg = int(v2[1:])
                elif self.at('{'):
                    self._skip_balanced()
            elif k == 'word' and v == 'align':
                self.next()
                self.next()
            elif k == 'attr':
                self.next()
            else:
                return dbg


class Instr:
    __slots__ = ('op', 'dest', 'a', 'dbg', 'text')

    def __init__(self, op, dest, a, dbg=None, text=''):
        self.op, self.dest, self.a, self.dbg, self.text = op, dest, a, dbg, text

    def __repr__(self):
        return "<%s %s>" % (self.op, self.dest)


def parse_instr(p):
    dest = None
    if p.peek()[0] == 'lid' and p.peek(1)[1] == '=':
        dest = unquote(p.next()[1])
        p.next()
    k, op = p.next()
    if k != 'word':
        raise ParseError("instruction expected, got %r" % op)
    a = None
    if op == 'ret':
        if p.at('void'):
            p.next()
            a = None
        else:
            a = p.tvalue()
    elif op == 'br':
        if p.at('label'):
            a = (None, p.label(), None)
        else:
            c = p.tvalue()
            p.expect(',')
            l1 = p.label()
            p.expect(',')
            l2 = p.label()
            a = (c, l1, l2)
    elif op == 'switch':
        v = p.tvalue()
        p.expect(',')
        d = p.label()
        p.expect('[')
        cases = []
        while not p.accept(']'):
            cv = p.tvalue()
            p.expect(',')
            cases.append((cv, p.label()))
        a = (v, d, cases)
    elif op == 'unreachable':
        a = None
    elif op == 'resume':
        a = p.tvalue()
    elif op == 'alloca':
        p.accept('inalloca')
        ty = p.type()
        cnt = None
        if p.at(',') and p.peek(1)[1] not in ('align', 'addrspace') and p.peek(1)[0] != 'md':
            p.next()
            cnt = p.tvalue()
        a = (ty, cnt)
    elif op == 'load':
        p.accept('atomic')
        p.accept('volatile')
        ty = p.type()
        p.expect(',')
        a = (ty, p.tvalue())
    elif op == 'store':
        p.accept('atomic')
        p.accept('volatile')
        v = p.tvalue()
        p.expect(',')
        a = (v, p.tvalue())
    elif op == 'getelementptr':
        p.accept('inbounds')
        sty = p.type()
        p.expect(',')
        base = p.tvalue()
        idx = []
        while p.at(',') and p.peek(1)[0] != 'md':
            p.next()
            p.accept('inrange')
            idx.append(p.tvalue())
        a = (sty, base, idx)
    elif op in BINOPS:
        while p.peek()[1] in ('nuw', 'nsw', 'exact'):
            p.next()
        x = p.tvalue()
        p.expect(',')
        y = p.value(x[0])
        a = (x[0], x[1], y)
    elif op == 'icmp':
        pred = p.next()[1]
        x = p.tvalue()
        p.expect(',')
        y = p.value(x[0])
        a = (pred, x[0], x[1], y)
    elif op in CASTS:
        src = p.tvalue()
        p.expect('to')
        a = (src, p.type())
    elif op == 'select':
        c = p.tvalue()
        p.expect(',')
        x = p.tvalue()
        p.expect(',')
        y = p.tvalue()
        a = (c, x, y)
    elif op == 'phi':
        ty = p.type()
        inc = []
        while True:
            p.expect('[')
            v = p.value(ty)
            p.expect(',')
            lab = unquote(p.next()[1])
            p.expect(']')
            inc.append((v, lab))
            if not (p.at(',') and p.peek(1)[1] == '['):
                break
            p.next()
        a = (ty, inc)
    elif op in ('call', 'invoke', 'tail', 'musttail', 'notail'):
        if op in ('tail', 'musttail', 'notail'):
            p.expect('call')
            op = 'call'
        p.skip_attrs()  # fast-math, cconv, ret attrs
        rty = p.type()
        if rty[0] == 'fn':
            rty = rty[1]
        elif rty[0] == 'ptr' and rty[1][0] == 'fn' and p.peek()[0] not in ('gid', 'lid'):
            pass
        # optional explicit function type was folded into rty by type(): "void (i8*, ...)" -> fn
        callee = p.value(('ptr', I8))
        p.expect('(')
        args = []
        while not p.accept(')'):
            args.append(p.tvalue())
            p.accept(',')
        p.skip_attrs()
        while p.at('['):  # operand bundles
            p._skip_balanced()
        to = unw = None
        if op == 'invoke':
            p.expect('to')
            to = p.label()
            p.expect('unwind')
            unw = p.label()
        a = (rty, callee, args, to, unw)
    elif op == 'landingpad':
        ty = p.type()
        clauses = []
        while True:
            if p.accept('cleanup'):
                clauses.append(('cleanup',))
            elif p.accept('catch'):
                clauses.append(('catch', p.tvalue()))
            elif p.accept('filter'):
                clauses.append(('filter', p.tvalue()))
            else:
                break
        a = (ty, clauses)
    elif op == 'extractvalue':
        v = p.tvalue()
        idx = []
        while p.at(',') and p.peek(1)[0] == 'num':
            p.next()
            idx.append(int(p.next()[1]))
        a = (v, idx)
    elif op == 'insertvalue':
        v = p.tvalue()
        p.expect(',')
        e = p.tvalue()
        idx = []
        while p.at(',') and p.peek(1)[0] == 'num':
            p.next()
            idx.append(int(p.next()[1]))
        a = (v, e, idx)
    elif op == 'freeze':
        a = p.tvalue()
    else:
        raise ParseError("unsupported opcode %r" % op)
    dbg = p.trailer()
    return Instr(op, dest, a, dbg)


LABEL_RE = re.compile(r'^(?:([-a-zA-Z$._0-9]+)|"((?:[^"\\]|\\.)*)"):')
STARTERS = ('to label', 'catch ', 'cleanup', 'filter ', ']')


class Function:
    def __init__(self, name, ret, params, body_lines, dbg_sp):
        self.name, self.ret, self.params = name, ret, params
        self._lines = body_lines
        self.dbg_sp = dbg_sp
        self.blocks = None
        self.entry = None
        self.ninstr = 0

    def parse(self):
        if self.blocks is not None:
            return
        blocks, cur, entry = {}, None, None
        # join continuation lines (invoke .. to label, landingpad clauses, switch tables)
        joined = []
        in_switch = False
        for ln in self._lines:
            s = ln.strip()
            if not s or s.startswith(';'):
                continue
            if in_switch:
                joined[-1] += ' ' + s
                if s.startswith(']'):
                    in_switch = False
                continue
            if joined and (s.startswith(STARTERS)) and not LABEL_RE.match(s):
                joined[-1] += ' ' + s
                continue
            joined.append(s)
            if re.match(r'^switch\b', s) and not s.rstrip().endswith(']'):
                in_switch = True
        # the first block may be unlabeled: its label is the next unnamed value number
        for s in joined:
            m = LABEL_RE.match(s)
            if m:
                lab = m.group(1) if m.group(1) is not None else m.group(2)
                cur = blocks.setdefault(lab, [])
                if entry is None:
                    entry = lab
                continue
            if cur is None:
                # implicit entry label: number = count of unnamed params
                lab = str(sum(1 for _, n in self.params if n is None or n.isdigit()))
                cur = blocks.setdefault(lab, [])
                entry = lab
            try:
                ins = parse_instr(P(tokenize(s)))
            except (ParseError, KeyError, ValueError, IndexError) as e:
                ins = Instr('unsupported', None, (str(e),))
            ins.text = s
            cur.append(ins)
            self.ninstr += 1
        self.blocks, self.entry = blocks, entry


class Module:
    def __init__(self, text):
        self.types = {}      # name -> type
        self.globals = {}    # name -> (type, init value or None, is_const)
        self.functions = {}  # name -> Function
        self.declares = set()
        self.md_loc = {}     # id -> (line, scope, inlinedAt)
        self.md_sp = {}      # id -> name
        self.md_scope = {}   # id -> parent scope (lexical blocks)
        self._layout_cache = {}
        self._parse(text)

    def _parse(self, text):
        lines = text.split('\n')
        i, n = 0, len(lines)
        while i < n:
            ln = lines[i]
            i += 1
            if not ln or ln[0] in ';\n':
                continue
            c = ln[0]
            if c == '%':
                m = re.match(r'^(%(?:"(?:[^"\\]|\\.)*"|[-a-zA-Z$._0-9]+)) = type (.*)$', ln)
                if m:
                    p = P(tokenize(m.group(2)))
                    self.types[unquote(m.group(1))] = p.type()
            elif c == '@':
                self._global(ln)
            elif ln.startswith('declare'):
                m = re.search(r'@(?:"((?:[^"\\]|\\.)*)"|([-a-zA-Z$._0-9]+))\(', ln)
                if m:
                    self.declares.add(m.group(1) if m.group(1) is not None else m.group(2))
            elif ln.startswith('define'):
                body = []
                while i < n and lines[i] != '}':
                    body.append(lines[i])
                    i += 1
                i += 1
                self._define(ln, body)
            elif c == '!':
                self._metadata(ln)

    def _global(self, ln):
        try:
            p = P(tokenize(ln))
            name = unquote(p.next()[1])
            p.expect('=')
            is_const = False
            external = False
            while True:
                k, v = p.peek()
                if k == 'word' and v in ('global', 'constant'):
                    p.next()
                    is_const = v == 'constant'
                    break
                if k == 'word' and v in ('external', 'extern_weak'):
                    external = True
                if k == 'word' and v == 'alias':
                    return
                if k == 'eof':
                    return
                p.next()
                if p.at('('):
                    p.skip_parens()
            ty = p.type()
            init = None
            if not external and p.peek()[0] != 'eof' and not p.at(','):
                init = p.value(ty)
            self.globals[name] = (ty, init, is_const)
        except ParseError as e:
            m = re.match(r'^@(?:"((?:[^"\\]|\\.)*)"|([-a-zA-Z$._0-9]+))', ln)
            if m:
                self.globals[m.group(1) if m.group(1) is not None else m.group(2)] = (I8, None, False)

    def _define(self, header, body):
        p = P(tokenize(header))
        p.expect('define')
        p.skip_attrs()
        ret = p.type()
        name = unquote(p.next()[1])
        p.expect('(')
        params = []
        while not p.accept(')'):
            if p.peek()[0] == 'dots':
                p.next()
                continue
            ty = p.type()
            p.skip_attrs()
            pname = None
            if p.peek()[0] == 'lid':
                pname = unquote(p.next()[1])
            params.append((ty, pname))
            p.accept(',')
        # number unnamed params
        cnt = 0
        fixed = []
        for ty, pn in params:
            if pn is None:
                pn = str(cnt)
            if pn.isdigit():
                cnt = max(cnt, int(pn) + 1)
            fixed.append((ty, pn))
        m = re.search(r'!dbg !(\d+)', header)
        self.functions[name] = Function(name, ret, fixed, body, int(m.group(1)) if m else None)

    def _metadata(self, ln):
        m = re.match(r'^!(\d+) = (?:distinct )?!(\w+)\((.*)\)\s*$', ln)
        if not m:
            return
        mid, kind, rest = int(m.group(1)), m.group(2), m.group(3)
        if kind == 'DILocation':
            line = re.search(r'line: (\d+)', rest)
            sc = re.search(r'scope: !(\d+)', rest)
            ia = re.search(r'inlinedAt: !(\d+)', rest)
            self.md_loc[mid] = (int(line.group(1)) if line else 0, int(sc.group(1)) if sc else None,
                                int(ia.group(1)) if ia else None)
        elif kind == 'DISubprogram':
            nm = re.search(r'name: "((?:[^"\\]|\\.)*)"', rest)
            line = re.search(r'\bline: (\d+)', rest)
            self.md_sp[mid] = (nm.group(1) if nm else '?', int(line.group(1)) if line else 0)
        elif kind in ('DILexicalBlock', 'DILexicalBlockFile'):
            sc = re.search(r'scope: !(\d+)', rest)
            if sc:
                self.md_scope[mid] = int(sc.group(1))

    # ---- debug-location helpers ------------------------------------------------------------
    def _sp_of_scope(self, sc):
        seen = 0
        while sc is not None and sc not in self.md_sp and seen < 50:
            sc = self.md_scope.get(sc)
            seen += 1
        return self.md_sp.get(sc, ('?', 0))

    def source_frames(self, dbg):
        """[(function name, line, function start line)] innermost first, following inlinedAt."""
        out = []
        seen = 0
        while dbg is not None and dbg in self.md_loc and seen < 50:
            line, sc, ia = self.md_loc[dbg]
            nm, start = self._sp_of_scope(sc)
            out.append((nm, line, start))
            dbg = ia
            seen += 1
        return out

    # ---- data layout (x86-64 SysV as emitted by clang: e-i64:64-f80:128-n8:16:32:64-S128) ----
    def resolve(self, ty):
        while ty[0] == 'named':
            ty = self.types[ty[1]]
        return ty

    def size_align(self, ty):
        key = ty
        r = self._layout_cache.get(key)
        if r:
            return r
        t = self.resolve(ty)
        k = t[0]
        if k == 'int':
            w = t[1]
            b = 1
            while b * 8 < w:
                b *= 2
            r = (b, min(b, 16))
        elif k == 'ptr':
            r = (8, 8)
        elif k == 'float':
            r = {16: (2, 2), 32: (4, 4), 64: (8, 8), 80: (16, 16), 128: (16, 16)}[t[2]]
        elif k == 'arr':
            s, a = self.size_align(t[2])
            r = (s * t[1], a)
        elif k == 'vec':
            s, a = self.size_align(t[2])
            tot = s * t[1]
            al = 1
            while al < tot:
                al *= 2
            r = (tot, al)
        elif k == 'struct':
            off, mal = 0, 1
            for e in t[1]:
                s, a = self.size_align(e)
                if t[2]:
                    a = 1
                off = (off + a - 1) // a * a + s
                mal = max(mal, a)
            r = ((off + mal - 1) // mal * mal, mal)
        elif k in ('fn', 'void', 'opaque'):
            r = (1, 1)
        else:
            raise ParseError("no layout for %r" % (t,))
        self._layout_cache[key] = r
        return r

    def sizeof(self, ty):
        return self.size_align(ty)[0]

    def field_offset(self, ty, idx):
        t = self.resolve(ty)
        assert t[0] == 'struct', t
        off = 0
        for j, e in enumerate(t[1]):
            s, a = self.size_align(e)
            if t[2]:
                a = 1
            off = (off + a - 1) // a * a
            if j == idx:
                return off
            off += s
        raise IndexError(idx)
