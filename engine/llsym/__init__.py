"""llsym - LLVM IR to SMT: symbolic execution of the real yardl C++ runtime headers.

    ir.py     parser for clang-14 textual IR (types, data layout, constants, instructions, !dbg inline chains)
    core.py   executor: registers = python ints / z3 bit-vectors / Ptr(object, offset); byte-cell memory with
              bounds checks and per-object guards; deterministic re-execution with a decision prefix; explore()
    stubs.py  trusted models of library calls (istream::read/eof/gcount, ostream::write/flush, __cxa_*,
              __assert_fail, memcmp, vector::resize, std::string) with their one-line contracts
    build.py  clang++-14 driver: harness .cc -> IR text / native replay executables in a mkdtemp dir

Harness sources live in /verif/harness/cc, the property drivers in /verif/parts/cc_*.py.
"""
