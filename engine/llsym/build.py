"""clang++-14 front end: harness .cc -> textual LLVM IR (for the symbolic executor) and -> native
executable (for replays).  Everything is built in a tempfile.mkdtemp() directory outside /repo and
/verif that is removed at exit; the real headers are always taken from $VERIF_REPO (default /repo)."""
import atexit
import os
import shutil
import subprocess
import tempfile

HERE = os.path.dirname(os.path.abspath(__file__))
VERIF = os.path.dirname(os.path.dirname(HERE))
REPO = os.environ.get("VERIF_REPO", "/repo")
INC = os.path.join(REPO, "tooling", "internal", "cpp", "include")
HARNESS = os.path.join(VERIF, "harness", "cc")
# serializers.h does #include "../../yardl.h": with -I <stub>/_/_ the lookup <stub>/_/_/../../yardl.h finds the stub
STUBINC = os.path.join(HARNESS, "stubinc", "_", "_")
CXX = os.environ.get("VERIF_CXX", "clang++-14")

_tmp = None


def tmpdir():
    global _tmp
    if _tmp is None or not os.path.isdir(_tmp):
        _tmp = tempfile.mkdtemp(prefix="llsym-")
        atexit.register(shutil.rmtree, _tmp, True)
    return _tmp


def ir_cmd(src, out, opt="-O1", ndebug=True, stub=False):
    cmd = [CXX, "-std=c++17", opt, "-gline-tables-only", "-Wno-everything", "-I", INC, "-I", HARNESS]
    if stub:
        cmd += ["-I", STUBINC]
    if ndebug:
        cmd.append("-DNDEBUG")
    cmd += ["-S", "-emit-llvm", src, "-o", out]
    return cmd


def compile_ir(src_name, opt="-O1", ndebug=True, stub=False):
    """returns (ir text, command line used)"""
    src = os.path.join(HARNESS, src_name)
    out = os.path.join(tmpdir(), "%s.%s.%s.ll" % (os.path.basename(src_name), opt.strip('-'), "rel" if ndebug else "dbg"))
    cmd = ir_cmd(src, out, opt, ndebug, stub)
    r = subprocess.run(cmd, capture_output=True, text=True)
    if r.returncode != 0:
        raise RuntimeError("clang failed: %s\n%s" % (" ".join(cmd), r.stderr[-2000:]))
    return open(out).read(), " ".join(cmd)


def exe_cmd(src, out, ndebug=True, stub=False, opt="-O1", asan=False):
    cmd = [CXX, "-std=c++17", opt, "-Wno-everything", "-I", INC, "-I", HARNESS]
    if asan:
        cmd += ["-g", "-fsanitize=address", "-fno-omit-frame-pointer"]
    if stub:
        cmd += ["-I", STUBINC]
    if ndebug:
        cmd.append("-DNDEBUG")
    cmd += [src, "-o", out]
    return cmd


def compile_exe(src_path, tag, ndebug=True, stub=False, opt="-O1", asan=False):
    out = os.path.join(tmpdir(), "%s.%s%s" % (tag, "rel" if ndebug else "dbg", ".asan" if asan else ""))
    cmd = exe_cmd(src_path, out, ndebug, stub, opt, asan)
    r = subprocess.run(cmd, capture_output=True, text=True)
    if r.returncode != 0:
        raise RuntimeError("clang failed: %s\n%s" % (" ".join(cmd), r.stderr[-2000:]))
    return out


def run_exe(exe, args, timeout=20):
    r = subprocess.run([exe] + [str(a) for a in args], capture_output=True, text=True, timeout=timeout)
    return r.returncode, r.stdout, r.stderr
