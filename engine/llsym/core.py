"""Symbolic executor for the IR of ir.py.

* registers hold python ints (concrete, canonical unsigned), z3 BitVec terms, z3 Bool terms (i1),
  Ptr objects or python lists (first-class aggregates)
* memory = objects with per-byte cells + (object, offset) pointers; every access is bounds-checked
  against its object, an out-of-object access on a feasible path ends the path with outcome 'oob'
* deterministic re-execution with a decision prefix: every symbolic decision (branch, bounds
  check, guard) is recorded; at the first undecided one both sides are checked for feasibility
  with z3 under the path condition, one is taken and the other queued
"""
import time
import z3

from . import ir


class Unsupported(Exception):
    """Something the engine cannot encode: the run is inconclusive, never 'holds'."""


class PathEnd(Exception):
    def __init__(self, kind, **info):
        Exception.__init__(self, kind)
        self.kind, self.info = kind, info


class Unwound(Exception):
    """An exception thrown by the code under test found a handler: control was transferred to a landing pad of
    some frame (the frames above it are gone); the main loop continues with the new top frame."""


# std exception hierarchy (libstdc++), for typeinfo objects that are external to the module: name -> base
EH_STD_BASES = {
    '_ZTISt9exception': None,
    '_ZTISt13runtime_error': '_ZTISt9exception', '_ZTISt11logic_error': '_ZTISt9exception',
    '_ZTISt9bad_alloc': '_ZTISt9exception', '_ZTISt8bad_cast': '_ZTISt9exception', '_ZTISt10bad_typeid': '_ZTISt9exception',
    '_ZTISt13bad_exception': '_ZTISt9exception', '_ZTISt20bad_array_new_length': '_ZTISt9bad_alloc',
    '_ZTISt12length_error': '_ZTISt11logic_error', '_ZTISt12out_of_range': '_ZTISt11logic_error',
    '_ZTISt16invalid_argument': '_ZTISt11logic_error', '_ZTISt12domain_error': '_ZTISt11logic_error',
    '_ZTISt14overflow_error': '_ZTISt13runtime_error', '_ZTISt15underflow_error': '_ZTISt13runtime_error',
    '_ZTISt11range_error': '_ZTISt13runtime_error', '_ZTISt18bad_variant_access': '_ZTISt9exception',
    '_ZTISt19bad_optional_access': '_ZTISt9exception',
}


class Obj:
    _n = 0

    def __init__(self, name, size, external=False):
        Obj._n += 1
        self.id = Obj._n
        self.name, self.size = name, size
        self.cells = [None] * size  # None = uninitialised, int, z3 BV8, PTRB
        self.wide = {}              # off -> (nbytes, value): pointer holder + exact-reload cache
        self.func = None            # function name for function objects
        self.external = external    # size unknown: accesses unsupported, GEPs unchecked
        self.alive = True
        self.guard = None           # callable(ex, off, nbytes, is_store) -> z3 Bool/bool (must hold)
        self.meta = {}

    def __repr__(self):
        return "<obj %s/%d>" % (self.name, self.size)


PTRB = ('ptrbyte',)


class Ptr:
    __slots__ = ('obj', 'off')

    def __init__(self, obj, off=0):
        self.obj, self.off = obj, off

    def __repr__(self):
        return "Ptr(%s,%s)" % (self.obj.name if self.obj else None, self.off)


NULL = Ptr(None, 0)
M64 = (1 << 64) - 1


def is_c(v):
    return isinstance(v, int)


def bv(v, w):
    if isinstance(v, int):
        return z3.BitVecVal(v, w)
    if z3.is_bool(v):
        return z3.If(v, z3.BitVecVal(1, w), z3.BitVecVal(0, w))
    return v


def simp(t):
    """simplify a z3 term; return python int / bool if it became a literal"""
    t = z3.simplify(t)
    if z3.is_bv_value(t):
        return t.as_long()
    if z3.is_true(t):
        return True
    if z3.is_false(t):
        return False
    return t


def sgn(v, w):
    return v - (1 << w) if v >> (w - 1) else v


def as_bool(v):
    """i1 register value -> python bool or z3 Bool"""
    if isinstance(v, bool):
        return v
    if isinstance(v, int):
        return bool(v & 1)
    if z3.is_bool(v):
        return v
    return v == z3.BitVecVal(1, 1)


def off_add(a, b):
    if is_c(a) and is_c(b):
        return (a + b) & M64
    r = simp(bv(a, 64) + bv(b, 64))
    return r


def select_chain(idx, items, lo=0):
    """items[idx - lo] as an ite chain (idx a BV64 term); precondition lo <= idx < lo+len(items)"""
    r = bv(items[-1], 8)
    for j in range(len(items) - 2, -1, -1):
        r = z3.If(idx == z3.BitVecVal(lo + j, 64), bv(items[j], 8), r)
    return r


class Frame:
    __slots__ = ('fn', 'regs', 'block', 'idx', 'prev', 'allocas', 'call', 'visits')

    def __init__(self, fn):
        self.fn = fn
        self.regs = {}
        self.block = fn.entry
        self.idx = 0
        self.prev = None
        self.allocas = []
        self.call = None
        self.visits = {}


class Stats:
    def __init__(self):
        self.paths = 0
        self.decisions = 0
        self.queries = 0
        self.unsat = 0
        self.sat = 0
        self.unknown = 0
        self.solver_s = 0.0
        self.instrs = 0
        self.fn_dyn = {}
        self.fn_static = {}
        self.stubs_used = set()

    def merge(self, o):
        for k in ('paths', 'decisions', 'queries', 'unsat', 'sat', 'unknown', 'solver_s', 'instrs'):
            setattr(self, k, getattr(self, k) + getattr(o, k))
        for k, v in o.fn_dyn.items():
            self.fn_dyn[k] = self.fn_dyn.get(k, 0) + v
        self.fn_static.update(o.fn_static)
        self.stubs_used |= o.stubs_used


class Exec:
    """One path execution."""

    def __init__(self, module, prefix, stats, intercepts=None, patterns=None, loop_cap=24, timeout_ms=60000,
                 max_instrs=400000):
        self.m = module
        self.prefix = prefix
        self.stats = stats
        self.decisions = []
        self.forks = []          # new prefixes discovered on this path
        self.pc = []
        # Determinism of re-execution: z3's simplifier orders commutative arguments by AST id, and AST ids depend on
        # everything ever allocated in the context.  A path and its later re-executions must therefore build their terms
        # in contexts with identical histories: every path gets a fresh term context, and the solver lives in a second
        # context (assertions are translated into it), so that the queries made the first time a decision is met - and
        # skipped on replay - leave no trace in the term context.
        z3.z3._main_ctx = z3.Context()
        self.sctx = z3.Context()
        self.solver = z3.Solver(ctx=self.sctx)
        self.solver.set('timeout', timeout_ms)
        self.frames = []
        self.globals = {}
        self.intercepts = dict(intercepts or {})
        self.patterns = list(patterns or [])
        self.loop_cap = loop_cap
        self.max_instrs = max_instrs
        self.world = {}
        self.fresh_n = 0
        self.unknown_seen = False
        self.proved_inb = {}   # key -> term (keeps the term alive so that its AST id is not recycled)
        self.cur_instr = None
        self.ninstr = 0
        self.notes = []
        # C++ exception handling state (see the "exception handling" section below)
        self.eh_inflight = None   # (exception record, selector) between the transfer to a landing pad and its landingpad instruction
        self.eh_live = {}         # exception object id -> exception record
        self.eh_caught = []       # stack of records between __cxa_begin_catch and __cxa_end_catch
        self.eh_typeids = {}      # typeinfo name (None = catch-all) -> selector value of llvm.eh.typeid.for
        self.eh_log = []          # ('throw'|'land'|'catch'|'rethrow'|'resume', type) - for evidence / self-tests

    # ---- solver -------------------------------------------------------------------------
    def tr(self, t):
        """translate a term of the path's term context into the solver context"""
        if isinstance(t, bool):
            return z3.BoolVal(t, ctx=self.sctx)
        return t.translate(self.sctx)

    def check(self, *extra):
        t0 = time.time()
        if extra:
            self.solver.push()
            self.solver.add(*[self.tr(e) for e in extra])
        r = self.solver.check()
        if extra:
            self.solver.pop()
        self.stats.solver_s += time.time() - t0
        self.stats.queries += 1
        if r == z3.sat:
            self.stats.sat += 1
        elif r == z3.unsat:
            self.stats.unsat += 1
        else:
            self.stats.unknown += 1
            self.unknown_seen = True
        return r

    def model(self, *extra):
        """model of PC (+extra) or None"""
        self.solver.push()
        if extra:
            self.solver.add(*[self.tr(e) for e in extra])
        t0 = time.time()
        r = self.solver.check()
        self.stats.solver_s += time.time() - t0
        self.stats.queries += 1
        mdl = None
        if r == z3.sat:
            self.stats.sat += 1
            mdl = self.solver.model()
        elif r == z3.unsat:
            self.stats.unsat += 1
        else:
            self.stats.unknown += 1
            self.unknown_seen = True
        self.solver.pop()
        return mdl

    def assume(self, c):
        if c is True:
            return
        self.pc.append(c)
        self.solver.add(self.tr(c))

    def fresh(self, name, w):
        self.fresh_n += 1
        return z3.BitVec("%s!%d" % (name, self.fresh_n), w)

    def decide(self, cond, tag='br'):
        if isinstance(cond, (bool, int)):
            return bool(cond)
        cond = simp(cond)
        if isinstance(cond, bool):
            return cond
        n = len(self.decisions)
        if self.frames:
            fr = self.frames[-1]
            where = (fr.fn.name, fr.block, fr.idx, tag)
        else:
            where = ('<setup>', '', 0, tag)
        if n < len(self.prefix):
            d, rec = self.prefix[n]
            if rec != where:
                raise Unsupported("re-execution diverged from the recorded decision prefix at %r (recorded %r)" % (where, rec))
        else:
            if tag in ('oob', 'oob-gep', 'guard', 'ub-shift', 'div0', 'vector-realloc', 'string-too-long'):
                # safety checks almost always hold: ask for the violating side first (one query when it is infeasible)
                rf = self.check(z3.Not(cond))
                if rf == z3.unsat:
                    d = True
                else:
                    rt = self.check(cond)
                    if rt == z3.unsat:
                        d = False
                    else:
                        d = True
                        self.forks.append(self.decisions + [(False, where)])
            else:
                rt = self.check(cond)
                if rt == z3.unsat:
                    d = False
                else:
                    rf = self.check(z3.Not(cond))
                    if rf == z3.unsat:
                        d = True
                    else:
                        d = True
                        self.forks.append(self.decisions + [(False, where)])
        self.decisions.append((d, where))
        self.stats.decisions += 1
        self.assume(cond if d else z3.Not(cond))
        return d

    # ---- source attribution -------------------------------------------------------------
    def site(self, instr=None):
        """source-level frames (function name, line, fn start line), innermost first: debug-info inline
        chain of the current instruction followed by the IR call stack"""
        out = []
        for fi in range(len(self.frames) - 1, -1, -1):
            fr = self.frames[fi]
            ins = (instr or self.cur_instr) if fi == len(self.frames) - 1 else fr.call
            fs = self.m.source_frames(ins.dbg) if ins is not None and ins.dbg is not None else []
            if not fs:
                fs = [(fr.fn.name, 0, 0)]
            out.extend(fs)
        return out

    # ---- globals ------------------------------------------------------------------------
    def global_obj(self, name):
        o = self.globals.get(name)
        if o is not None:
            return o
        m = self.m
        if name in m.functions or name in m.declares:
            o = Obj('@' + name, 1)
            o.func = name
            self.globals[name] = o
            return o
        if name not in m.globals:
            raise Unsupported("unknown global @%s" % name)
        ty, init, const = m.globals[name]
        if init is None:
            o = Obj('@' + name, 0, external=True)
            self.globals[name] = o
            return o
        o = Obj('@' + name, m.sizeof(ty))
        self.globals[name] = o
        self._init_const(o, 0, ty, init)
        return o

    def _init_const(self, o, off, ty, v):
        m = self.m
        t = m.resolve(ty)
        k = v[0]
        if k == 'zero':
            for i in range(m.sizeof(ty)):
                o.cells[off + i] = 0
        elif k == 'undef':
            pass
        elif k == 'cstr':
            for i, b in enumerate(v[1]):
                o.cells[off + i] = b
        elif k == 'agg':
            if t[0] == 'struct':
                for j, (ety, ev) in enumerate(v[1]):
                    self._init_const(o, off + m.field_offset(ty, j), ety, ev)
            elif t[0] in ('arr', 'vec'):
                es = m.sizeof(t[2])
                for j, (ety, ev) in enumerate(v[1]):
                    self._init_const(o, off + j * es, ety, ev)
            else:
                raise Unsupported("aggregate initialiser for %r" % (t,))
        else:
            val = self.const(ty, v)
            self.store_val(Ptr(o, off), ty, val, check=False)

    # ---- operand evaluation ---------------------------------------------------------------
    def const(self, ty, v):
        k = v[0]
        if k == 'int':
            t = self.m.resolve(ty)
            if t[0] == 'ptr':
                if v[1] == 0:
                    return NULL
                raise Unsupported("integer literal as pointer")
            return v[1] & ((1 << t[1]) - 1)
        if k == 'null':
            return NULL
        if k == 'global':
            return Ptr(self.global_obj(v[1]), 0)
        if k == 'undef':
            t = self.m.resolve(ty)
            if t[0] == 'int':
                return self.fresh('undef', t[1])
            if t[0] == 'ptr':
                return NULL
            if t[0] == 'struct':
                return [self.const(e, ('undef',)) for e in t[1]]
            raise Unsupported("undef of %r" % (t,))
        if k == 'zero':
            t = self.m.resolve(ty)
            if t[0] == 'int':
                return 0
            if t[0] == 'ptr':
                return NULL
            if t[0] == 'struct':
                return [self.const(e, ('zero',)) for e in t[1]]
            raise Unsupported("zeroinitializer of %r" % (t,))
        if k == 'cexpr':
            op = v[1]
            if op == 'gep':
                base = self.const(v[3][0], v[3][1])
                idx = [self.const(t_, x) for t_, x in v[4]]
                return self.gep(v[2], base, [(t_, i) for (t_, _), i in zip(v[4], idx)], check=False)
            if op in ('bitcast', 'addrspacecast'):
                return self.const(v[2][0], v[2][1])
            if op == 'ptrtoint':
                return self.const(v[2][0], v[2][1])
            if op == 'inttoptr':
                x = self.const(v[2][0], v[2][1])
                return NULL if x == 0 else x
            raise Unsupported("constant expression %s" % op)
        if k == 'fp':
            raise Unsupported("floating-point constant")
        raise Unsupported("constant %r" % (v,))

    def val(self, ty, v):
        if v[0] == 'local':
            try:
                return self.frames[-1].regs[v[1]]
            except KeyError:
                raise Unsupported("use of undefined register %%%s" % v[1])
        return self.const(ty, v)

    # ---- memory ---------------------------------------------------------------------------
    def _site_info(self):
        return {'site': self.site(), 'instr': self.cur_instr.text[:160] if self.cur_instr else ''}

    def check_access(self, p, nbytes, is_store):
        o = p.obj
        if o is None:
            raise PathEnd('null-deref', **self._site_info())
        if o.external:
            raise Unsupported("access to external object %s" % o.name)
        if not o.alive:
            raise PathEnd('use-after-scope', obj=o.name, **self._site_info())
        if o.func is not None:
            raise Unsupported("data access to function object")
        off = p.off
        if is_c(off):
            if off + nbytes > o.size:
                raise PathEnd('oob', obj=o.name, off=off, nbytes=nbytes, store=is_store, **self._site_info())
        else:
            if nbytes > o.size:
                raise PathEnd('oob', obj=o.name, off=str(off), nbytes=nbytes, store=is_store, **self._site_info())
            key = (o.id, off.get_id(), nbytes)
            if key not in self.proved_inb:
                inb = z3.ULE(off, z3.BitVecVal(o.size - nbytes, 64))
                if not self.decide(inb, 'oob'):
                    raise PathEnd('oob', obj=o.name, off=str(off), nbytes=nbytes, store=is_store, **self._site_info())
                self.proved_inb[key] = off
        if o.guard is not None:
            g = o.guard(self, off, nbytes, is_store)
            if g is not None and g is not True:
                if not self.decide(g, 'guard'):
                    raise PathEnd('guard', obj=o.name, off=off, nbytes=nbytes, store=is_store, **self._site_info())

    def _materialize(self, o, lo=0, hi=None):
        hi = o.size if hi is None else hi
        for i in range(lo, hi):
            c = o.cells[i]
            if c is None:
                o.cells[i] = self.fresh('uninit_%s_%d' % (o.name.strip('@%'), i), 8)
            elif c is PTRB:
                raise Unsupported("byte access to stored pointer in %s" % o.name)

    def load_bytes(self, p, n, check=True):
        """list of n byte values (int / BV8), little-endian order"""
        if check:
            self.check_access(p, n, False)
        o, off = p.obj, p.off
        if is_c(off):
            self._materialize(o, off, off + n)
            return o.cells[off:off + n]
        self._materialize(o)
        out = []
        for j in range(n):
            items = o.cells[j:o.size - n + 1 + j]
            out.append(select_chain(off, items, 0) if len(items) > 1 else items[0])
        return out

    def store_bytes(self, p, bs, check=True):
        n = len(bs)
        if check:
            self.check_access(p, n, True)
        o, off = p.obj, p.off
        if is_c(off):
            self._drop_wide(o, off, n)
            o.cells[off:off + n] = bs
            return
        if any(isinstance(w[1], Ptr) for w in o.wide.values()):
            raise Unsupported("symbolic-offset store into object holding pointers (%s)" % o.name)
        o.wide.clear()
        self._materialize(o)
        cells = o.cells
        for i in range(o.size):
            c = bv(cells[i], 8)
            for j in range(n):
                k = i - j
                if 0 <= k <= o.size - n:
                    c = z3.If(off == z3.BitVecVal(k, 64), bv(bs[j], 8), c)
            cells[i] = c

    def _drop_wide(self, o, off, n):
        if not o.wide:
            return
        for k in list(o.wide.keys()):
            kn, kv = o.wide[k]
            if k < off + n and off < k + kn:
                del o.wide[k]
                if isinstance(kv, Ptr):
                    for i in range(k, k + kn):
                        if not (off <= i < off + n):
                            o.cells[i] = None  # partially overwritten pointer: rest becomes garbage

    def load_val(self, p, ty, check=True):
        t = self.m.resolve(ty)
        k = t[0]
        if k == 'ptr':
            if check:
                self.check_access(p, 8, False)
            if not is_c(p.off):
                raise Unsupported("pointer load at symbolic offset")
            w = p.obj.wide.get(p.off)
            if w and w[0] == 8 and isinstance(w[1], Ptr):
                return w[1]
            bs = self.load_bytes(p, 8, check=False)
            if all(is_c(b) for b in bs) and not any(bs):
                return NULL
            v = self._join(bs)
            raise Unsupported("load of non-pointer bytes as pointer from %s+%s" % (p.obj.name, p.off))
        if k in ('int', 'float'):
            wbits = t[1] if k == 'int' else t[2]
            n = (wbits + 7) // 8
            if is_c(p.off):
                if check:
                    self.check_access(p, n, False)
                w = p.obj.wide.get(p.off)
                if w and w[0] == n:
                    v = w[1]
                    if isinstance(v, Ptr):
                        return v  # ptrtoint-style reload of a stored pointer as i64
                else:
                    v = self._join(self.load_bytes(p, n, check=False))
            else:
                v = self._join(self.load_bytes(p, n, check=check))
            if wbits < 8 * n:
                if wbits == 1:
                    return (v & 1) if is_c(v) else simp(z3.Extract(0, 0, v) == z3.BitVecVal(1, 1))
                return (v & ((1 << wbits) - 1)) if is_c(v) else simp(z3.Extract(wbits - 1, 0, v))
            return v
        if k == 'struct':
            return [self.load_val(Ptr(p.obj, off_add(p.off, self.m.field_offset(ty, j))), e, check) for j, e in enumerate(t[1])]
        raise Unsupported("load of type %r" % (t,))

    def _join(self, bs):
        if all(is_c(b) for b in bs):
            v = 0
            for i, b in enumerate(bs):
                v |= b << (8 * i)
            return v
        if len(bs) == 1:
            return bs[0]
        return simp(z3.Concat(*[bv(b, 8) for b in reversed(bs)]))

    def store_val(self, p, ty, v, check=True):
        t = self.m.resolve(ty)
        k = t[0]
        if k == 'ptr' or isinstance(v, Ptr):
            if check:
                self.check_access(p, 8, True)
            if not is_c(p.off):
                raise Unsupported("pointer store at symbolic offset")
            if v.obj is None and is_c(v.off):
                self.store_bytes(p, [(v.off >> (8 * i)) & 255 for i in range(8)], check=False)
                return
            self._drop_wide(p.obj, p.off, 8)
            for i in range(8):
                p.obj.cells[p.off + i] = PTRB
            p.obj.wide[p.off] = (8, v)
            return
        if k in ('int', 'float'):
            wbits = t[1] if k == 'int' else t[2]
            n = (wbits + 7) // 8
            if wbits == 1:
                v = as_bool(v)
                v = (1 if v else 0) if isinstance(v, bool) else bv(v, 8)
            elif wbits < 8 * n:
                v = v if is_c(v) else z3.ZeroExt(8 * n - wbits, v)
            if is_c(v):
                bs = [(v >> (8 * i)) & 255 for i in range(n)]
            elif n == 1:
                bs = [v]
            else:
                bs = [simp(z3.Extract(8 * i + 7, 8 * i, v)) for i in range(n)]
            self.store_bytes(p, bs, check=check)
            if not is_c(v) and n > 1 and is_c(p.off):
                p.obj.wide[p.off] = (n, v)
            return
        if k == 'struct':
            for j, e in enumerate(t[1]):
                self.store_val(Ptr(p.obj, off_add(p.off, self.m.field_offset(ty, j))), e, v[j], check)
            return
        raise Unsupported("store of type %r" % (t,))

    def memcpy(self, dst, src, n, move=False):
        """bytewise copy with bounds checks; n concrete or symbolic"""
        if is_c(n):
            if n == 0:
                return
            self.check_access(dst, n, True)
            self.check_access(src, n, False)
            if is_c(dst.off) and is_c(src.off):
                so, do = src.off, dst.off
                # preserve stored pointers that are copied whole
                wides = [(k - so, w) for k, w in src.obj.wide.items() if isinstance(w[1], Ptr) and so <= k and k + w[0] <= so + n]
                cov = set()
                for rel, w in wides:
                    cov.update(range(rel, rel + w[0]))
                for i in range(n):
                    if i not in cov and src.obj.cells[so + i] is PTRB:
                        raise Unsupported("partial copy of a stored pointer")
                bs = list(src.obj.cells[so:so + n])
                self._drop_wide(dst.obj, do, n)
                for i in range(n):
                    if bs[i] is None:
                        bs[i] = src.obj.cells[so + i] = self.fresh('uninit_%s_%d' % (src.obj.name.strip('@%'), so + i), 8)
                dst.obj.cells[do:do + n] = bs
                for rel, w in wides:
                    dst.obj.wide[do + rel] = w
                return
            bs = self.load_bytes(src, n, check=False)
            self.store_bytes(dst, bs, check=False)
            return
        # symbolic length
        for p, st in ((dst, True), (src, False)):
            o = p.obj
            if o is None:
                # memcpy(.., 0) with null is tolerated by callers only if n == 0
                if self.decide(n == z3.BitVecVal(0, 64), 'memcpy-null'):
                    return
                raise PathEnd('null-deref', **self._site_info())
            if o.external or not o.alive or o.func:
                raise Unsupported("memcpy on %s" % o.name)
            inb = z3.And(z3.ULE(bv(p.off, 64), z3.BitVecVal(o.size, 64)),
                         z3.ULE(n, z3.BitVecVal(o.size, 64) - bv(p.off, 64)))
            if not self.decide(inb, 'oob'):
                raise PathEnd('oob', obj=o.name, off=str(p.off), nbytes=str(n), store=st, **self._site_info())
            if o.guard is not None:
                g = o.guard(self, p.off, n, st)
                if g is not None and g is not True:
                    if not self.decide(g, 'guard'):
                        raise PathEnd('guard', obj=o.name, off=p.off, nbytes=n, store=st, **self._site_info())
        so_, do_ = src.obj, dst.obj
        if any(isinstance(w[1], Ptr) for w in list(so_.wide.values()) + list(do_.wide.values())):
            raise Unsupported("symbolic-length memcpy over objects holding pointers")
        maxlen = min(so_.size - (src.off if is_c(src.off) else 0), do_.size - (dst.off if is_c(dst.off) else 0))
        self._materialize(so_)
        self._materialize(do_)
        do_.wide.clear()
        srcb = []
        for j in range(maxlen):
            if is_c(src.off):
                srcb.append(so_.cells[src.off + j])
            else:
                items = so_.cells[j:]
                srcb.append(select_chain(src.off, items, 0) if len(items) > 1 else items[0])
        if is_c(dst.off):
            for j in range(maxlen):
                i = dst.off + j
                do_.cells[i] = simp(z3.If(z3.ULT(z3.BitVecVal(j, 64), n), bv(srcb[j], 8), bv(do_.cells[i], 8)))
        else:
            newc = []
            for i in range(do_.size):
                c = bv(do_.cells[i], 8)
                for j in range(min(maxlen, i + 1)):
                    c = z3.If(z3.And(z3.ULT(z3.BitVecVal(j, 64), n), dst.off == z3.BitVecVal(i - j, 64)), bv(srcb[j], 8), c)
                newc.append(c)
            do_.cells[:] = newc

    def cstring(self, p, maxlen=256):
        out = bytearray()
        o, off = p.obj, p.off
        while len(out) < maxlen and off < o.size:
            c = o.cells[off]
            if not is_c(c) or c == 0:
                break
            out.append(c)
            off += 1
        return out.decode('latin1')

    # ---- address computation --------------------------------------------------------------
    def gep(self, sty, base, idx, check=True):
        m = self.m
        if not isinstance(base, Ptr):
            raise Unsupported("getelementptr on non-pointer value")
        off = base.off
        cur = sty
        for n, (ity, iv) in enumerate(idx):
            iw = m.resolve(ity)[1]
            if n == 0:
                stride = m.sizeof(cur)
                off = self._scaled(off, iv, iw, stride)
                continue
            t = m.resolve(cur)
            if t[0] == 'struct':
                if not is_c(iv):
                    raise Unsupported("symbolic struct index")
                off = off_add(off, m.field_offset(cur, iv))
                cur = t[1][iv]
            elif t[0] in ('arr', 'vec'):
                off = self._scaled(off, iv, iw, m.sizeof(t[2]))
                cur = t[2]
            else:
                raise Unsupported("gep into %r" % (t,))
        r = Ptr(base.obj, off)
        if check and base.obj is not None and not base.obj.external and base.obj.func is None:
            sz = base.obj.size
            if is_c(off):
                if off > sz:
                    raise PathEnd('oob-gep', obj=base.obj.name, off=off, **self._site_info())
            else:
                key = (base.obj.id, off.get_id(), 0)
                if key not in self.proved_inb:
                    if not self.decide(z3.ULE(off, z3.BitVecVal(sz, 64)), 'oob-gep'):
                        raise PathEnd('oob-gep', obj=base.obj.name, off=str(off), **self._site_info())
                    self.proved_inb[key] = off
        return r

    def _scaled(self, off, iv, iw, stride):
        if is_c(iv):
            return off_add(off, (sgn(iv, iw) * stride) & M64)
        if isinstance(iv, Ptr):
            raise Unsupported("pointer used as gep index")
        x = z3.SignExt(64 - iw, iv) if iw < 64 else iv
        if stride != 1:
            x = x * z3.BitVecVal(stride, 64)
        return off_add(off, x)

    # ---- integer operations ------------------------------------------------------------------
    def binop(self, op, w, a, b):
        pa, pb = isinstance(a, Ptr), isinstance(b, Ptr)
        if pa or pb:
            if op == 'sub' and pa and pb:
                if a.obj is b.obj:
                    if is_c(a.off) and is_c(b.off):
                        return (a.off - b.off) & M64
                    return simp(bv(a.off, 64) - bv(b.off, 64))
                raise Unsupported("difference of pointers into different objects")
            if op == 'add' and (pa != pb):
                p, i = (a, b) if pa else (b, a)
                return Ptr(p.obj, off_add(p.off, i))
            if op == 'sub' and pa:
                return Ptr(a.obj, off_add(a.off, (-b) & M64 if is_c(b) else simp(-b)))
            if a is not None and pa and a.obj is None and is_c(a.off):
                return self.binop(op, w, a.off, b)
            if pb and b.obj is None and is_c(b.off):
                return self.binop(op, w, a, b.off)
            raise Unsupported("integer op %s on pointer value" % op)
        mask = (1 << w) - 1
        if w == 1:
            a, b = as_bool(a), as_bool(b)
            if isinstance(a, bool) and isinstance(b, bool):
                return {'and': a and b, 'or': a or b, 'xor': a != b, 'add': a != b, 'sub': a != b, 'mul': a and b}[op]
            a = z3.BoolVal(a) if isinstance(a, bool) else a
            b = z3.BoolVal(b) if isinstance(b, bool) else b
            if op == 'and':
                return simp(z3.And(a, b))
            if op == 'or':
                return simp(z3.Or(a, b))
            if op in ('xor', 'add', 'sub'):
                return simp(z3.Xor(a, b))
            raise Unsupported("i1 op %s" % op)
        if is_c(a) and is_c(b):
            if op == 'add':
                return (a + b) & mask
            if op == 'sub':
                return (a - b) & mask
            if op == 'mul':
                return (a * b) & mask
            if op == 'and':
                return a & b
            if op == 'or':
                return a | b
            if op == 'xor':
                return a ^ b
            if op in ('shl', 'lshr', 'ashr'):
                if b >= w:
                    raise PathEnd('ub-shift', **self._site_info())
                if op == 'shl':
                    return (a << b) & mask
                if op == 'lshr':
                    return a >> b
                return (sgn(a, w) >> b) & mask
            if op in ('udiv', 'urem', 'sdiv', 'srem'):
                if b == 0:
                    raise PathEnd('div-by-zero', **self._site_info())
                if op == 'udiv':
                    return a // b
                if op == 'urem':
                    return a % b
                sa, sb = sgn(a, w), sgn(b, w)
                q = abs(sa) // abs(sb)
                if (sa < 0) != (sb < 0):
                    q = -q
                if op == 'sdiv':
                    return q & mask
                return (sa - q * sb) & mask
        A, B = bv(a, w), bv(b, w)
        if op in ('shl', 'lshr', 'ashr') and not is_c(b):
            if not self.decide(z3.ULT(B, z3.BitVecVal(w, w)), 'ub-shift'):
                raise PathEnd('ub-shift', **self._site_info())
        if op in ('shl', 'lshr', 'ashr') and is_c(b) and b >= w:
            raise PathEnd('ub-shift', **self._site_info())
        if op in ('udiv', 'urem', 'sdiv', 'srem'):
            if not self.decide(B != z3.BitVecVal(0, w), 'div0'):
                raise PathEnd('div-by-zero', **self._site_info())
        r = {'add': lambda: A + B, 'sub': lambda: A - B, 'mul': lambda: A * B, 'and': lambda: A & B,
             'or': lambda: A | B, 'xor': lambda: A ^ B, 'shl': lambda: A << B, 'lshr': lambda: z3.LShR(A, B),
             'ashr': lambda: A >> B, 'udiv': lambda: z3.UDiv(A, B), 'urem': lambda: z3.URem(A, B),
             'sdiv': lambda: A / B, 'srem': lambda: z3.SRem(A, B)}[op]()
        return simp(r)

    def icmp(self, pred, w, a, b):
        pa, pb = isinstance(a, Ptr), isinstance(b, Ptr)
        if pa or pb:
            if not pa:
                a = NULL if (is_c(a) and a == 0) else a
            if not pb:
                b = NULL if (is_c(b) and b == 0) else b
            if not (isinstance(a, Ptr) and isinstance(b, Ptr)):
                raise Unsupported("comparison of pointer with integer")
            if a.obj is not b.obj:
                if pred == 'eq':
                    return False
                if pred == 'ne':
                    return True
                raise Unsupported("ordered comparison of pointers into different objects")
            a, b, w = a.off, b.off, 64
        if w == 1:
            a, b = as_bool(a), as_bool(b)
            a = z3.BoolVal(a) if isinstance(a, bool) else a
            b = z3.BoolVal(b) if isinstance(b, bool) else b
            if pred == 'eq':
                return simp(a == b)
            if pred == 'ne':
                return simp(z3.Xor(a, b))
            raise Unsupported("ordered i1 comparison")
        if is_c(a) and is_c(b):
            if pred[0] == 's':
                a, b = sgn(a, w), sgn(b, w)
            return {'eq': a == b, 'ne': a != b, 'ult': a < b, 'ule': a <= b, 'ugt': a > b, 'uge': a >= b,
                    'slt': a < b, 'sle': a <= b, 'sgt': a > b, 'sge': a >= b}[pred]
        A, B = bv(a, w), bv(b, w)
        r = {'eq': lambda: A == B, 'ne': lambda: A != B, 'ult': lambda: z3.ULT(A, B), 'ule': lambda: z3.ULE(A, B),
             'ugt': lambda: z3.UGT(A, B), 'uge': lambda: z3.UGE(A, B), 'slt': lambda: A < B, 'sle': lambda: A <= B,
             'sgt': lambda: A > B, 'sge': lambda: A >= B}[pred]()
        return simp(r)

    def cast(self, op, v, sty, dty):
        m = self.m
        if op in ('bitcast', 'addrspacecast'):
            s, d = m.resolve(sty), m.resolve(dty)
            if (s[0] == 'ptr') == (d[0] == 'ptr') or isinstance(v, Ptr):
                return v
            raise Unsupported("bitcast %r -> %r" % (s, d))
        if op == 'ptrtoint':
            if isinstance(v, Ptr) and v.obj is None and is_c(v.off):
                return v.off
            return v
        if op == 'inttoptr':
            if isinstance(v, Ptr):
                return v
            if is_c(v):
                return Ptr(None, v)
            raise Unsupported("inttoptr of symbolic integer")
        sw, dw = m.resolve(sty)[1], m.resolve(dty)[1]
        if isinstance(v, Ptr):
            raise Unsupported("%s of pointer value" % op)
        if op == 'trunc':
            if dw == 1:
                return bool(v & 1) if is_c(v) else simp(z3.Extract(0, 0, v) == z3.BitVecVal(1, 1))
            return (v & ((1 << dw) - 1)) if is_c(v) else simp(z3.Extract(dw - 1, 0, v))
        if op == 'zext':
            if sw == 1:
                v = as_bool(v)
                return (1 if v else 0) if isinstance(v, bool) else z3.If(v, z3.BitVecVal(1, dw), z3.BitVecVal(0, dw))
            return v if is_c(v) else z3.ZeroExt(dw - sw, v)
        if op == 'sext':
            if sw == 1:
                v = as_bool(v)
                return (((1 << dw) - 1) if v else 0) if isinstance(v, bool) else z3.If(v, z3.BitVecVal(-1, dw), z3.BitVecVal(0, dw))
            return (sgn(v, sw) & ((1 << dw) - 1)) if is_c(v) else z3.SignExt(dw - sw, v)
        raise Unsupported("cast %s" % op)

    def select(self, c, ty, a, b):
        c = as_bool(c)
        if isinstance(c, bool):
            return a if c else b
        if isinstance(a, Ptr) or isinstance(b, Ptr):
            if isinstance(a, Ptr) and isinstance(b, Ptr) and a.obj is b.obj:
                if is_c(a.off) and is_c(b.off) and a.off == b.off:
                    return a
                return Ptr(a.obj, simp(z3.If(c, bv(a.off, 64), bv(b.off, 64))))
            return a if self.decide(c, 'select') else b
        t = self.m.resolve(ty)
        if t[0] == 'int':
            w = t[1]
            if w == 1:
                a, b = as_bool(a), as_bool(b)
                a = z3.BoolVal(a) if isinstance(a, bool) else a
                b = z3.BoolVal(b) if isinstance(b, bool) else b
                return simp(z3.If(c, a, b))
            return simp(z3.If(c, bv(a, w), bv(b, w)))
        return a if self.decide(c, 'select') else b

    # ---- calls ------------------------------------------------------------------------------
    def find_intercept(self, name):
        f = self.intercepts.get(name)
        if f is not None:
            return f
        for rx, f in self.patterns:
            if rx.search(name):
                self.intercepts[name] = f
                return f
        return None

    def do_call(self, ins):
        rty, callee, args, to, unw = ins.a
        if callee[0] == 'global':
            name = callee[1]
        else:
            fp = self.val(('ptr', ir.I8), callee)
            if not isinstance(fp, Ptr) or fp.obj is None or fp.obj.func is None:
                raise Unsupported("indirect call through non-function pointer")
            name = fp.obj.func
        if name.startswith('llvm.dbg.') or name.startswith('llvm.lifetime.') or name.startswith('llvm.experimental.noalias'):
            return self._ret_to(ins, None)
        argv = [self.val(t, v) for t, v in args]
        f = self.find_intercept(name)
        if f is not None:
            self.stats.stubs_used.add(name)
            r = f(self, argv, ins)
            return self._ret_to(ins, r)
        if name.startswith('llvm.'):
            r = self.intrinsic(name, argv, args, ins)
            return self._ret_to(ins, r)
        fn = self.m.functions.get(name)
        if fn is None:
            raise Unsupported("call to external function %s (no stub)" % name)
        fn.parse()
        self.stats.fn_static[name] = fn.ninstr
        fr = Frame(fn)
        if len(argv) != len(fn.params):
            raise Unsupported("arity mismatch calling %s" % name)
        for (pty, pn), v in zip(fn.params, argv):
            fr.regs[pn] = v
        self.frames[-1].call = ins
        if len(self.frames) > 64:
            raise PathEnd('unwind', why='call depth')
        self.frames.append(fr)
        return True

    def _ret_to(self, ins, r):
        fr = self.frames[-1]
        if ins.dest is not None:
            fr.regs[ins.dest] = r
        if ins.op == 'invoke':
            self.goto(fr, ins.a[3])
            return True
        return False

    def intrinsic(self, name, argv, args, ins):
        if name.startswith('llvm.memcpy.') or name.startswith('llvm.memmove.'):
            self.memcpy(argv[0], argv[1], argv[2], move='memmove' in name)
            return None
        if name.startswith('llvm.memset.'):
            dst, val, n = argv[0], argv[1], argv[2]
            if not is_c(n):
                raise Unsupported("memset with symbolic length")
            if n:
                self.store_bytes(dst, [val] * n)
            return None
        if name.startswith('llvm.eh.typeid.for'):
            return self.eh_typeid(self.eh_tinfo_name(argv[0]))
        base = name.split('.')[1]
        if base in ('umin', 'umax', 'smin', 'smax'):
            w = self.m.resolve(args[0][0])[1]
            pred = {'umin': 'ult', 'umax': 'ugt', 'smin': 'slt', 'smax': 'sgt'}[base]
            c = self.icmp(pred, w, argv[0], argv[1])
            return self.select(c, args[0][0], argv[0], argv[1])
        if base in ('assume', 'donothing'):
            return None
        if base == 'expect':
            return argv[0]
        if base == 'trap':
            raise PathEnd('trap', **self._site_info())
        raise Unsupported("intrinsic %s" % name)

    def goto(self, fr, label):
        fr.prev = fr.block
        fr.block = label
        fr.idx = 0
        n = fr.visits.get(label, 0) + 1
        fr.visits[label] = n
        if n > self.loop_cap:
            raise PathEnd('unwind', why='block %%%s of %s visited more than %d times' % (label, fr.fn.name, self.loop_cap))
        # phis are evaluated simultaneously on entry
        blk = fr.fn.blocks[label]
        vals = []
        for ins in blk:
            if ins.op != 'phi':
                break
            ty, inc = ins.a
            for v, lab in inc:
                if lab == fr.prev:
                    vals.append((ins.dest, self.val(ty, v)))
                    break
            else:
                raise Unsupported("phi without incoming value for predecessor %%%s" % fr.prev)
            fr.idx += 1
        for d, v in vals:
            fr.regs[d] = v

    # ---- C++ exception handling (Itanium ABI as clang lowers it) -------------------------------
    # A throw (the __cxa_throw / __cxa_rethrow stubs, library stubs that throw) is resolved in two phases like the
    # personality routine does: (1) search the IR call stack, innermost first, for an `invoke` whose landing pad
    # has a catch clause matching the thrown type (same typeinfo, a base class of it, or catch-all); if there is
    # none the path ends with outcome throws(type) at the throw site, exactly as before (cleanups are not run:
    # nothing executes afterwards).  (2) otherwise control is transferred to the landing pad of the innermost
    # pending `invoke` whose pad has a cleanup or a matching clause; frames above it are popped (their allocas
    # die); `landingpad` yields {exception pointer, selector}; cleanup pads end in `resume`, which continues the
    # unwinding from the caller of the resuming frame.
    def eh_tinfo_name(self, p):
        if isinstance(p, Ptr) and p.obj is not None:
            return p.obj.name.lstrip('@')
        if isinstance(p, Ptr) and is_c(p.off) and p.off == 0:
            return None
        raise Unsupported("typeinfo operand is not a global")

    def eh_typeid(self, name):
        t = self.eh_typeids.get(name)
        if t is None:
            t = self.eh_typeids[name] = len(self.eh_typeids) + 1
        return t

    def _eh_global_in(self, tv):
        """the global a constant operand (possibly wrapped in bitcast / getelementptr) refers to"""
        v = tv[1] if isinstance(tv, tuple) and len(tv) == 2 and isinstance(tv[1], tuple) else tv
        seen = 0
        while isinstance(v, tuple) and seen < 8:
            seen += 1
            if v[0] == 'global':
                return v[1]
            if v[0] == 'null':
                return None
            if v[0] == 'cexpr' and v[1] == 'gep':
                v = v[3][1]
            elif v[0] == 'cexpr' and v[1] in ('bitcast', 'addrspacecast'):
                v = v[2][1]
            else:
                break
        raise Unsupported("typeinfo initialiser operand %r" % (tv,))

    def eh_base_of(self, name):
        """direct base class typeinfo of a class typeinfo (None = no base); single inheritance only"""
        g = self.m.globals.get(name)
        if g is not None and g[1] is not None and g[1][0] == 'agg':
            els = g[1][1]
            vt = self._eh_global_in(els[0]) or ''
            if '__si_class_type_info' in vt and len(els) == 3:
                return self._eh_global_in(els[2])
            if '__class_type_info' in vt and '__si_' not in vt and '__vmi_' not in vt:
                return None
            raise Unsupported("typeinfo %s of kind %s (only classes with at most one base are modelled)" % (name, vt))
        if name in EH_STD_BASES:
            return EH_STD_BASES[name]
        if len(name) == 5 and name.startswith('_ZTI') and name[4].islower():
            return None   # fundamental type (throw 1;)
        raise Unsupported("base classes of the thrown type %s are unknown" % name)

    def eh_matches(self, thrown, clause):
        if clause is None or thrown == clause:
            return True
        if not clause.startswith('_ZTI') or clause.startswith('_ZTIP') or thrown.startswith('_ZTIP'):
            raise Unsupported("catch clause of type %s against thrown %s" % (clause, thrown))
        t, n = thrown, 0
        while t is not None and n < 16:
            if t == clause:
                return True
            t = self.eh_base_of(t)
            n += 1
        return False

    def eh_selector(self, fr, inv, exc):
        """what the landing pad of `inv` (an invoke of frame fr) does with exc: a positive selector = handler,
        0 = cleanup only, None = the pad is skipped"""
        blk = fr.fn.blocks[inv.a[4]]
        lp = None
        for i_ in blk:
            if i_.op != 'phi':
                lp = i_
                break
        if lp is None or lp.op != 'landingpad':
            raise Unsupported("unwind destination without a landingpad")
        cleanup = False
        for cl in lp.a[1]:
            if cl[0] == 'cleanup':
                cleanup = True
            elif cl[0] == 'catch':
                name = self.eh_tinfo_name(self.const(cl[1][0], cl[1][1]))
                if self.eh_matches(exc['tinfo'], name):
                    return self.eh_typeid(name)
            else:
                raise Unsupported("landingpad %s clause" % cl[0])
        return 0 if cleanup else None

    def eh_new(self, ptr, tinfo, pretty, msg=''):
        """exception record for a thrown object (ptr None: a library stub threw, the object is synthesised)"""
        if not (isinstance(ptr, Ptr) and ptr.obj is not None):
            ptr = Ptr(Obj('exception', 16), 0)
        exc = dict(ptr=ptr, tinfo=tinfo, type=pretty, msg=msg, site=self._site_info(), rethrown=False)
        self.eh_live[ptr.obj.id] = exc
        return exc

    def eh_throw(self, exc):
        """called by a stub while the top frame executes the call / invoke instruction self.cur_instr; never returns"""
        self.eh_log.append(('throw', exc['type']))
        self._eh_unwind(exc, self.cur_instr)

    def _eh_unwind(self, exc, pending):
        frames = self.frames
        found = False
        for i in range(len(frames) - 1, -1, -1):
            c = pending if i == len(frames) - 1 else frames[i].call
            if c is not None and c.op == 'invoke' and self.eh_selector(frames[i], c, exc):
                found = True
                break
        if not found:
            raise PathEnd('throws', type=exc['type'], msg=exc['msg'], **exc['site'])
        first = True
        while frames:
            fr = frames[-1]
            c = pending if first else fr.call
            first = False
            if c is not None and c.op == 'invoke':
                sel = self.eh_selector(fr, c, exc)
                if sel is not None:
                    fr.call = None
                    self.eh_inflight = (exc, sel)
                    self.eh_log.append(('land', '%s:%s' % (fr.fn.name[:60], 'catch' if sel else 'cleanup')))
                    self.goto(fr, c.a[4])
                    raise Unwound()
            for o in fr.allocas:
                o.alive = False
            frames.pop()
        raise Unsupported("unwinding ran out of frames")

    def eh_begin_catch(self, p):
        exc = self.eh_live.get(p.obj.id) if isinstance(p, Ptr) and p.obj is not None else None
        if exc is None:
            raise Unsupported("__cxa_begin_catch of an unknown exception object")
        self.eh_caught.append(exc)
        self.eh_log.append(('catch', exc['type']))
        return exc['ptr']

    def eh_end_catch(self):
        if not self.eh_caught:
            raise Unsupported("__cxa_end_catch without a caught exception")
        exc = self.eh_caught.pop()
        if exc['rethrown']:
            exc['rethrown'] = False       # still in flight: the object stays alive
        elif exc not in self.eh_caught:
            exc['ptr'].obj.alive = False  # the exception object is destroyed
            self.eh_live.pop(exc['ptr'].obj.id, None)

    def eh_rethrow(self):
        if not self.eh_caught:
            raise PathEnd('terminate', why='__cxa_rethrow without a caught exception', **self._site_info())
        exc = self.eh_caught[-1]
        exc['rethrown'] = True
        self.eh_log.append(('rethrow', exc['type']))
        self._eh_unwind(exc, self.cur_instr)

    # ---- main loop ----------------------------------------------------------------------------
    def run(self, fname, argv):
        fn = self.m.functions[fname]
        fn.parse()
        self.stats.fn_static[fname] = fn.ninstr
        fr = Frame(fn)
        for (pty, pn), v in zip(fn.params, argv):
            fr.regs[pn] = v
        self.frames = [fr]
        fr.visits[fr.block] = 1
        while True:
            fr = self.frames[-1]
            ins = fr.fn.blocks[fr.block][fr.idx]
            self.cur_instr = ins
            self.ninstr += 1
            if self.ninstr > self.max_instrs:
                raise PathEnd('unwind', why='instruction budget')
            d = self.stats.fn_dyn
            d[fr.fn.name] = d.get(fr.fn.name, 0) + 1
            op = ins.op
            a = ins.a
            if op == 'load':
                fr.regs[ins.dest] = self.load_val(self._ptr(self.val(a[1][0], a[1][1])), a[0])
            elif op == 'store':
                self.store_val(self._ptr(self.val(a[1][0], a[1][1])), a[0][0], self.val(a[0][0], a[0][1]))
            elif op == 'getelementptr':
                base = self.val(a[1][0], a[1][1])
                fr.regs[ins.dest] = self.gep(a[0], base, [(t, self.val(t, v)) for t, v in a[2]])
            elif op in ir.BINOPS:
                w = self.m.resolve(a[0])[1]
                fr.regs[ins.dest] = self.binop(op, w, self.val(a[0], a[1]), self.val(a[0], a[2]))
            elif op == 'icmp':
                t = self.m.resolve(a[1])
                w = 64 if t[0] == 'ptr' else t[1]
                fr.regs[ins.dest] = self.icmp(a[0], w, self.val(a[1], a[2]), self.val(a[1], a[3]))
            elif op in ir.CASTS:
                fr.regs[ins.dest] = self.cast(op, self.val(a[0][0], a[0][1]), a[0][0], a[1])
            elif op == 'br':
                if a[0] is None:
                    self.goto(fr, a[1])
                else:
                    c = as_bool(self.val(a[0][0], a[0][1]))
                    self.goto(fr, a[1] if self.decide(c) else a[2])
                continue
            elif op == 'phi':
                raise Unsupported("phi not at block head")
            elif op == 'select':
                fr.regs[ins.dest] = self.select(self.val(a[0][0], a[0][1]), a[1][0], self.val(a[1][0], a[1][1]), self.val(a[2][0], a[2][1]))
            elif op in ('call', 'invoke'):
                try:
                    if self.do_call(ins):
                        continue
                except Unwound:
                    continue
            elif op == 'ret':
                rv = self.val(a[0], a[1]) if a is not None else None
                for o in fr.allocas:
                    o.alive = False
                self.frames.pop()
                if not self.frames:
                    return rv
                caller = self.frames[-1]
                cins = caller.call
                caller.call = None
                if cins.dest is not None:
                    caller.regs[cins.dest] = rv
                if cins.op == 'invoke':
                    self.goto(caller, cins.a[3])
                else:
                    caller.idx += 1
                continue
            elif op == 'alloca':
                ty, cnt = a
                n = 1
                if cnt is not None:
                    n = self.val(cnt[0], cnt[1])
                    if not is_c(n):
                        raise Unsupported("alloca with symbolic count")
                o = Obj('%' + fr.fn.name[:24] + '.' + ins.dest, self.m.sizeof(ty) * n)
                fr.allocas.append(o)
                fr.regs[ins.dest] = Ptr(o, 0)
            elif op == 'switch':
                v = self.val(a[0][0], a[0][1])
                w = self.m.resolve(a[0][0])[1]
                target = a[1]
                for (cty, cv), lab in a[2]:
                    if self.decide(self.icmp('eq', w, v, self.const(cty, cv)), 'switch'):
                        target = lab
                        break
                self.goto(fr, target)
                continue
            elif op == 'unreachable':
                raise PathEnd('unreachable', **self._site_info())
            elif op == 'extractvalue':
                v = self.val(a[0][0], a[0][1])
                for i in a[1]:
                    v = v[i]
                fr.regs[ins.dest] = v
            elif op == 'insertvalue':
                v = self.val(a[0][0], a[0][1])
                e = self.val(a[1][0], a[1][1])
                v = self._insert(v, a[2], e)
                fr.regs[ins.dest] = v
            elif op == 'freeze':
                fr.regs[ins.dest] = self.val(a[0], a[1])
            elif op == 'landingpad':
                if self.eh_inflight is None:
                    raise Unsupported("landingpad reached without an exception in flight")
                exc, sel = self.eh_inflight
                self.eh_inflight = None
                fr.regs[ins.dest] = [exc['ptr'], sel]
            elif op == 'resume':
                v = self.val(a[0], a[1])
                p = v[0] if isinstance(v, list) and v else None
                exc = self.eh_live.get(p.obj.id) if isinstance(p, Ptr) and p.obj is not None else None
                if exc is None:
                    raise Unsupported("resume of an unknown exception object")
                self.eh_log.append(('resume', exc['type']))
                for o in fr.allocas:
                    o.alive = False
                self.frames.pop()
                try:
                    self._eh_unwind(exc, self.frames[-1].call if self.frames else None)
                except Unwound:
                    pass
                continue
            elif op == 'unsupported':
                raise Unsupported("unparsed instruction: %s (%s)" % (ins.text[:120], a[0]))
            else:
                raise Unsupported("opcode %s" % op)
            fr.idx += 1

    def _insert(self, agg, idx, e):
        agg = list(agg)
        if len(idx) == 1:
            agg[idx[0]] = e
        else:
            agg[idx[0]] = self._insert(agg[idx[0]], idx[1:], e)
        return agg

    def _ptr(self, v):
        if not isinstance(v, Ptr):
            raise Unsupported("memory access through non-pointer value")
        return v


class Result:
    """What a finished path looks like to the driver."""

    def __init__(self, ex, kind, info=None, ret=None):
        self.ex, self.kind, self.info, self.ret = ex, kind, info or {}, ret


def explore(module, body, on_path, stats=None, intercepts=None, patterns=None, max_paths=20000, loop_cap=24,
            deadline=None, timeout_ms=60000):
    """Depth-first exploration by re-execution.  body(ex) builds the initial state, calls ex.run(fn, args) one or
    more times and returns a value; on_path(Result) is called for every finished path.
    Returns (stats, problems) where problems lists reasons the exploration is not exhaustive."""
    stats = stats or Stats()
    work = [[]]
    problems = []
    while work:
        if stats.paths >= max_paths:
            problems.append("path budget %d exhausted with %d prefixes pending" % (max_paths, len(work)))
            break
        if deadline is not None and time.time() > deadline:
            problems.append("time budget exhausted with %d prefixes pending" % len(work))
            break
        prefix = work.pop()
        ex = Exec(module, prefix, stats, intercepts, patterns, loop_cap=loop_cap, timeout_ms=timeout_ms)
        try:
            rv = body(ex)
            res = Result(ex, 'ret', ret=rv)
        except PathEnd as e:
            res = Result(ex, e.kind, e.info)
        except Unsupported as e:
            res = Result(ex, 'unsupported', {'why': str(e), 'site': ex.site() if ex.frames else []})
            problems.append("unsupported: %s" % e)
        if len(ex.decisions) < len(prefix) and res.kind != 'unsupported':
            problems.append("re-execution ended before the recorded decision prefix was consumed (%s)" % res.kind)
            res = Result(ex, 'unsupported', {'why': 'decision prefix not consumed', 'site': []})
        work.extend(ex.forks)
        stats.paths += 1
        stats.instrs += ex.ninstr
        if ex.unknown_seen:
            problems.append("solver returned unknown on a feasibility query")
        if res.kind == 'unwind':
            problems.append("unwinding cap reached on a feasible path: %s" % res.info.get('why'))
        on_path(res)
    return stats, problems
