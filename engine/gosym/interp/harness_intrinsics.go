package interp

// verif* functions called by harness code (see /verif/harness/go/verif_intrinsics.go.tmpl for the
// native twins used in replays).

import (
	"fmt"
	"go/types"
	"runtime"
	"strconv"
	"strings"
)

// Tokenize splits generated-code text at bracket level: each of <>()[]{},;:=&*!|.+- and whitespace
// separates tokens; brackets/commas etc. are tokens themselves; whitespace is dropped.
// The native twin in the template must stay identical.
func Tokenize(s string) []string {
	var out []string
	cur := strings.Builder{}
	flush := func() {
		if cur.Len() > 0 {
			out = append(out, cur.String())
			cur.Reset()
		}
	}
	for i := 0; i < len(s); i++ {
		c := s[i]
		switch {
		case c == ' ' || c == '\n' || c == '\t' || c == '\r':
			flush()
		case strings.IndexByte("<>()[]{},;=&*!|+", c) >= 0:
			flush()
			out = append(out, string(c))
		default:
			cur.WriteByte(c)
		}
	}
	flush()
	return out
}

func tokenizeRope(s symStr) []value {
	var out []value
	var cur []strPart
	flush := func() {
		if len(cur) > 0 {
			out = append(out, symStr{cur}.norm())
			cur = nil
		}
	}
	for _, p := range s.parts {
		if p.atom != nil {
			cur = append(cur, p)
			continue
		}
		lit := p.lit
		st := 0
		for i := 0; i < len(lit); i++ {
			c := lit[i]
			sep := c == ' ' || c == '\n' || c == '\t' || c == '\r'
			br := strings.IndexByte("<>()[]{},;=&*!|+", c) >= 0
			if sep || br {
				if i > st {
					cur = append(cur, strPart{lit: lit[st:i]})
				}
				flush()
				if br {
					out = append(out, string(c))
				}
				st = i + 1
			}
		}
		if st < len(lit) {
			cur = append(cur, strPart{lit: lit[st:]})
		}
	}
	flush()
	return out
}

func ifaceOf(v value) (types.Type, value) {
	if i, ok := v.(iface); ok {
		return i.t, i.v
	}
	return nil, v
}

func init() {
	H := harnessIntrinsics
	H["verifChoose"] = func(fr *frame, a []value) value {
		n := int(asInt64(a[1]))
		k := fr.i.ex.chooseN(n, nil)
		fr.i.ex.events = append(fr.i.ex.events, inputDecl{Name: fr.i.ex.concStr(a[0]), Kind: "choose", Value: strconv.Itoa(k)})
		return k
	}
	H["verifBool"] = func(fr *frame, a []value) value { return fr.i.ex.freshBool(fr.i.ex.concStr(a[0])) }
	H["verifUint64"] = func(fr *frame, a []value) value { return fr.i.ex.freshInt(fr.i.ex.concStr(a[0]), types.Uint64) }
	H["verifInt64"] = func(fr *frame, a []value) value { return fr.i.ex.freshInt(fr.i.ex.concStr(a[0]), types.Int64) }
	H["verifInt"] = func(fr *frame, a []value) value { return fr.i.ex.freshInt(fr.i.ex.concStr(a[0]), types.Int) }
	H["verifStr"] = func(fr *frame, a []value) value { return fr.i.ex.freshStr(fr.i.ex.concStr(a[0]), nil) }
	H["verifOneOf"] = func(fr *frame, a []value) value {
		return fr.i.ex.freshStr(fr.i.ex.concStr(a[0]), fr.i.ex.strs(strSlice(a[1])))
	}
	// verifMapStr(label, key, keys, vals): a fresh symbolic string t with key == keys[i] => t == vals[i]
	// (a function of another symbolic string, without forking); key is constrained to keys.
	H["verifMapStr"] = func(fr *frame, a []value) value {
		ex := fr.i.ex
		keys, vals := ex.strs(strSlice(a[2])), ex.strs(strSlice(a[3]))
		if len(keys) != len(vals) || len(keys) == 0 {
			panic(engineError{"verifMapStr: keys and vals must have the same non-zero length"})
		}
		var dom []string
		seen := map[string]bool{}
		for _, v := range vals {
			if !seen[v] {
				seen[v] = true
				dom = append(dom, v)
			}
		}
		t := ex.freshStr(ex.concStr(a[0]), dom)
		kt := strTerm(strOf(a[1]).norm())
		var alts []string
		for i, k := range keys {
			ex.sv.send(fmt.Sprintf("(assert (=> (= %s %s) (= %s %s)))", kt.s, smtString(k), t.parts[0].atom.t.s, smtString(vals[i])))
			alts = append(alts, fmt.Sprintf("(= %s %s)", kt.s, smtString(k)))
		}
		if len(alts) == 1 {
			ex.sv.send("(assert " + alts[0] + ")")
		} else {
			ex.sv.send("(assert (or " + strings.Join(alts, " ") + "))")
		}
		return t
	}
	H["verifAssume"] = func(fr *frame, a []value) value {
		ex := fr.i.ex
		switch c := a[0].(type) {
		case bool:
			if !c {
				panic(pathAbort{"assume", "assumption false"})
			}
		case symBool:
			if ex.pos < len(ex.prefix) {
				// re-execution below a recorded decision: the assumption was feasible then
				ex.assertPC(c.t)
				return nil
			}
			switch ex.feasible(c.t) {
			case "unsat":
				panic(pathAbort{"assume", "assumption infeasible"})
			case "unknown":
				ex.note("solver unknown on assumption")
			}
			ex.assertPC(c.t)
		}
		return nil
	}
	H["verifAssert"] = func(fr *frame, a []value) value {
		ex := fr.i.ex
		id := ex.concStr(a[0])
		switch c := a[1].(type) {
		case bool:
			if c {
				ex.asserts = append(ex.asserts, assertRec{ID: id, Status: "holds"})
				return nil
			}
			rec := assertRec{ID: id, Status: "violated", Cond: "false"}
			if ex.sv.checkSat() == "sat" {
				rec.Events = append([]inputDecl{}, ex.events...)
				fillEvents(ex, rec.Events)
			}
			ex.asserts = append(ex.asserts, rec)
			return nil // keep going: later assertions of the same path are still evaluated
		case symBool:
			ex.sv.send("(push)")
			ex.sv.send("(assert " + tNot(c.t).s + ")")
			r := ex.sv.checkSat()
			switch r {
			case "unsat":
				ex.sv.send("(pop)")
				ex.asserts = append(ex.asserts, assertRec{ID: id, Status: "holds"})
				return nil
			case "sat":
				rec := assertRec{ID: id, Status: "violated", Cond: c.t.s}
				rec.Events = append([]inputDecl{}, ex.events...)
				fillEvents(ex, rec.Events)
				ex.sv.send("(pop)")
				ex.asserts = append(ex.asserts, rec)
				// continue under the assertion if that is still possible
				if ex.feasible(c.t) != "sat" {
					panic(pathAbort{"stop", "assertion " + id + " violated on every input of this path"})
				}
				ex.assertPC(c.t)
				return nil
			default:
				ex.sv.send("(pop)")
				ex.asserts = append(ex.asserts, assertRec{ID: id, Status: "unknown", Cond: c.t.s})
				ex.assertPC(c.t)
				return nil
			}
		}
		panic(engineError{fmt.Sprintf("verifAssert: %T", a[1])})
	}
	H["verifReach"] = func(fr *frame, a []value) value {
		fr.i.ex.reaches = append(fr.i.ex.reaches, fr.i.ex.concStr(a[0]))
		return nil
	}
	H["verifOut"] = func(fr *frame, a []value) value {
		_, v := ifaceOf(a[1])
		o := outRec{Key: fr.i.ex.concStr(a[0]), v: v}
		if isSym(v) {
			o.Term = describe(v)
		} else {
			o.Val = describe(v)
		}
		fr.i.ex.outs = append(fr.i.ex.outs, o)
		return nil
	}
	H["verifTokens"] = func(fr *frame, a []value) value {
		switch s := a[0].(type) {
		case string:
			return toValues(Tokenize(s))
		case symStr:
			if c, ok := s.norm().(string); ok {
				return toValues(Tokenize(c))
			}
			return tokenizeRope(s.norm().(symStr))
		}
		panic(engineError{"verifTokens"})
	}
	// verifAtoi(tok) (uint64, bool): numeric value of a decimal token / integer atom
	H["verifAtoi"] = func(fr *frame, a []value) value {
		switch s := a[0].(type) {
		case string:
			n, err := strconv.ParseUint(s, 10, 64)
			return tuple{n, err == nil}
		case symStr:
			if len(s.parts) == 1 && s.parts[0].atom != nil && s.parts[0].atom.isInt && !s.parts[0].atom.signed {
				at := s.parts[0].atom
				return tuple{symInt{tResize(at.t, false, 64), types.Uint64}, true}
			}
			return tuple{uint64(0), false}
		}
		panic(engineError{"verifAtoi"})
	}
	// verifPanics(f func()) (msg string, panicked bool)
	H["verifPanics"] = func(fr *frame, a []value) (res value) {
		defer func() {
			r := recover()
			if r == nil {
				return
			}
			switch r := r.(type) {
			case engineError, pathAbort, exitPanic:
				panic(r)
			case targetPanic:
				_, v := ifaceOf(r.v)
				res = tuple{fr.i.ex.concStrLoose(v), true}
			case targetRuntimePanic:
				res = tuple{r.Error(), true}
			case runtime.Error:
				if strings.Contains(r.Error(), "interp.") {
					panic(engineError{"interpreter fault: " + r.Error() + "\n" + stackSnippet()})
				}
				res = tuple{r.Error(), true}
			case string:
				res = tuple{r, true}
			default:
				panic(r)
			}
		}()
		call(fr.i, fr, 0, a[0], nil)
		return tuple{"", false}
	}
	// verifBounded(f func(), maxDepth int, maxSteps int) (completed bool): run f with a call-depth and an
	// instruction bound of its own (relative to the call site).  Exhausting either bound abandons f (target
	// defers do not run) and yields false instead of aborting the path, so that a harness can assert
	// termination of the real code on a finite input.  Native twin: f is first run in a child process under
	// a wall-clock limit.
	H["verifBounded"] = func(fr *frame, a []value) (res value) {
		i := fr.i
		saveD, saveS, base := i.boundDepth, i.boundSteps, i.depth
		d, s := i.depth+int(asInt64(a[1])), i.steps+asInt64(a[2])
		if saveD == 0 || d < saveD {
			i.boundDepth = d
		}
		if saveS == 0 || s < saveS {
			i.boundSteps = s
		}
		defer func() {
			i.boundDepth, i.boundSteps = saveD, saveS
			if r := recover(); r != nil {
				if pa, ok := r.(pathAbort); ok && pa.kind == "bound" && saveD == 0 && saveS == 0 {
					i.depth = base
					res = false
					return
				}
				panic(r)
			}
		}()
		call(i, fr, 0, a[0], nil)
		return true
	}
	// verifUseRepl(names...): activate the verifRepl_<name> replacements for this path
	H["verifUseRepl"] = func(fr *frame, a []value) value {
		for _, n := range fr.i.ex.strs(strSlice(a[0])) {
			fr.i.ex.replOn[n] = true
		}
		return nil
	}
	// verifSetMapOrder(k): k > 0 the k-th permutation for every later map range, 0 insertion order,
	// k == -1 every later map range (>= 2 entries) forks over its iteration orders (one decision per range),
	// k == -2-i only the i-th such range does
	H["verifSetMapOrder"] = func(fr *frame, a []value) value {
		fr.i.ex.mapOrder = int(asInt64(a[0]))
		fr.i.ex.mapPermuted = 0
		fr.i.ex.mapSeen = 0
		return nil
	}
	// verifRecord(label, v): records the concrete int v computed on this path as an input and returns it;
	// the native twin returns the recorded value (for facts the native run cannot reproduce, e.g. the
	// effect of one specific map iteration order)
	H["verifRecord"] = func(fr *frame, a []value) value {
		n := int(asInt64(a[1]))
		fr.i.ex.events = append(fr.i.ex.events, inputDecl{Name: fr.i.ex.concStr(a[0]), Kind: "choose", Value: strconv.Itoa(n)})
		return n
	}
	// verifMapRangesSeen(): map ranges of >= 2 entries executed since the last verifSetMapOrder(k < 0)
	H["verifMapRangesSeen"] = func(fr *frame, a []value) value {
		n := fr.i.ex.mapSeen
		fr.i.ex.events = append(fr.i.ex.events, inputDecl{Name: "map-ranges-seen", Kind: "choose", Value: strconv.Itoa(n)})
		return n
	}
	// verifMapRangesPermuted(): how many map ranges since the last verifSetMapOrder ran in a non-insertion
	// order; recorded as an input so that the native twin takes the same harness branch
	H["verifMapRangesPermuted"] = func(fr *frame, a []value) value {
		n := fr.i.ex.mapPermuted
		fr.i.ex.events = append(fr.i.ex.events, inputDecl{Name: "map-ranges-permuted", Kind: "choose", Value: strconv.Itoa(n)})
		return n
	}
	H["verifNative"] = func(fr *frame, a []value) value { return false }
	H["verifEvent"] = func(fr *frame, a []value) value {
		_, v := ifaceOf(a[1])
		fr.i.ex.event(fr.i.ex.concStr(a[0]), v)
		return nil
	}
}

// concStrLoose renders any panic payload as text without forking.
func (e *executor) concStrLoose(v value) string {
	switch v := v.(type) {
	case string:
		return v
	}
	return describe(v)
}
